#!/usr/bin/env python3
"""Regenerates the machine-derived tables of DESIGN.md (between <!-- BEGIN x --> / <!-- END x --> markers)
from evidence/*.json and seeded/*/meta.json. Development helper, not a registered check."""
import json, os, re
V = "/verif"
def rules_table():
    rows = ["| property | rules (obligations on the reference tree) |", "|---|---|"]
    for i in range(1, 21):
        pid = "C%02d" % i
        p = f"{V}/evidence/{pid}.json"
        if not os.path.exists(p):
            rows.append(f"| {pid} | not applicable (section 3.{pid}) |"); continue
        rs = json.load(open(p))["coverage"]["rules"]
        rows.append(f"| {pid} | " + ", ".join(f"{r} {rs[r]['obligations']}" for r in sorted(rs)) + " |")
    return "\n".join(rows)
def seeded_table(prefix):
    rows = ["| seeded change | files | first contact | reported now by (property: first rule:key) |", "|---|---|---|---|"]
    ids = sorted(d for d in os.listdir(f"{V}/seeded") if (d.startswith(prefix + "-") if prefix in ("r2", "r3", "r4", "r5", "r6", "r7", "r8") else not d.startswith("r")))
    for sid in ids:
        m = json.load(open(f"{V}/seeded/{sid}/meta.json"))
        files = sorted(set(re.findall(r"^\+\+\+ b/(\S+)", open(f"{V}/seeded/{sid}/patch.diff").read(), re.M)))
        fb = m.get("flagged_by", {})
        now = "; ".join(f"{p}: {ks[0]}" for p, ks in sorted(fb.items())[:3]) or "**missed**"
        fc = m.get("first_contact_flagged_by")
        first = "-" if fc is None else (", ".join(sorted(fc)) or "missed")
        rows.append(f"| {sid} | {', '.join(files)} | {first} | {now} |")
    return "\n".join(rows)
s = open(f"{V}/DESIGN.md").read()
for name, txt in (("rules-table", rules_table()), ("seeded-round1", seeded_table("r1")), ("seeded-round2", seeded_table("r2")), ("seeded-round3", seeded_table("r3")), ("seeded-round4", seeded_table("r4")), ("seeded-round5", seeded_table("r5")), ("seeded-round6", seeded_table("r6")), ("seeded-round7", seeded_table("r7")), ("seeded-round8", seeded_table("r8"))):
    b, e = f"<!-- BEGIN {name} -->", f"<!-- END {name} -->"
    if b in s:
        s = s[:s.index(b) + len(b)] + "\n" + txt + "\n" + s[s.index(e):]
open(f"{V}/DESIGN.md", "w").write(s)
