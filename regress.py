#!/usr/bin/env python3
"""Regression over the two corpora (development aid, not a registered check):
   seeded/<id>  : every confirmed property-breaking change must still be flagged by the properties recorded in meta.json
   refactors/<id>: every behaviour-preserving refactoring must raise no alarm at all.
   usage: regress.py [seeded|refactors|all] [ids...]"""
import json, os, subprocess, sys, tempfile, shutil, concurrent.futures as cf
ENV = dict(os.environ, GOFLAGS="-mod=mod", GOPROXY="off", GOSUMDB="off", GOTOOLCHAIN="local", GOWORK="off", SPECVET_NOREPLAY="1")
BIN = os.environ.get("REGRESS_BIN", "/verif/bin/specvet")
def run(kind, sid):
    d = tempfile.mkdtemp(prefix="regress.")
    try:
        subprocess.run(f"rsync -a --exclude .git --exclude fixtures --exclude '*_test.go' /repo/ {d}/", shell=True, check=True)
        r = subprocess.run(f"patch -p1 -s < /verif/{kind}/{sid}/patch.diff", shell=True, cwd=d, capture_output=True, text=True)
        if r.returncode: return kind, sid, "PATCH-FAILS", {}
        if subprocess.run("go build ./...", shell=True, cwd=d, env=ENV, capture_output=True).returncode: return kind, sid, "NO-COMPILE", {}
        out = subprocess.run(f"{BIN} -all -repo {d}", shell=True, env=ENV, capture_output=True, text=True).stdout
        flagged = {}
        for l in out.splitlines():
            parts = l.split()
            if len(parts) >= 3 and parts[1] in ("VIOLATED", "UNDECIDED"):
                flagged.setdefault(parts[0], []).append(parts[2])
            elif l.startswith("CHECKER-ERROR"):
                flagged.setdefault("CHECKER", []).append(l[:120])
        return kind, sid, "ok", flagged
    finally:
        shutil.rmtree(d, ignore_errors=True)
which = sys.argv[1] if len(sys.argv) > 1 else "all"
ids = sys.argv[2:]
jobs = []
for kind in ("seeded", "refactors"):
    if which in (kind, "all"):
        for sid in sorted(os.listdir(f"/verif/{kind}")):
            if os.path.isdir(f"/verif/{kind}/{sid}") and (not ids or sid in ids): jobs.append((kind, sid))
bad = 0
with cf.ThreadPoolExecutor(8) as ex:
    for kind, sid, st, flagged in ex.map(lambda j: run(*j), jobs):
        if kind == "seeded":
            meta = json.load(open(f"/verif/seeded/{sid}/meta.json"))
            own = meta["breaks_property"]
            status = "caught-by-own" if own in flagged else ("caught-by-other" if flagged else "MISSED")
            print(f"seeded   {sid:7s} {st:12s} {status:16s} {sorted(flagged)}")
            if os.environ.get("REGRESS_FIRST_CONTACT"):
                # records what the checker flagged before it was strengthened on this change (run with the older binary)
                meta["first_contact_flagged_by"] = {p: sorted(set(k))[:4] for p, k in sorted(flagged.items())}
                json.dump(meta, open(f"/verif/seeded/{sid}/meta.json", "w"), indent=1)
            elif os.environ.get("REGRESS_UPDATE_META"):
                meta["flagged_by"] = {p: sorted(set(k))[:4] for p, k in sorted(flagged.items())}
                meta["caught"] = bool(flagged); meta["caught_by_own_property"] = own in flagged
                json.dump(meta, open(f"/verif/seeded/{sid}/meta.json", "w"), indent=1)
            if not flagged and meta.get("caught"): bad += 1
        else:
            alarms = sum(len(v) for v in flagged.values())
            print(f"refactor {sid:7s} {st:12s} {'silent' if not alarms else 'FALSE-ALARM'}   " + "; ".join(f"{p}:{','.join(sorted(set(k))[:3])}" for p, k in sorted(flagged.items()))[:400])
            if alarms: bad += 1
print("regressions:", bad)
