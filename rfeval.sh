#!/bin/bash
# usage: rfeval.sh <patch.diff>: applies a behaviour-preserving refactoring to a scratch copy and lists every specvet alarm (each is a false alarm)
export GOFLAGS=-mod=mod GOPROXY=off GOSUMDB=off GOTOOLCHAIN=local GOWORK=off SPECVET_NOREPLAY=1
D=$(mktemp -d /tmp/rfeval.XXXXXX); trap 'rm -rf $D' EXIT
rsync -a --exclude .git --exclude fixtures --exclude '*_test.go' /repo/ $D/
cd $D
if ! patch -p1 -s < $1 >/dev/null 2>&1; then echo "PATCH DOES NOT APPLY"; exit 3; fi
if ! go build ./... 2>/dev/null; then echo "DOES NOT COMPILE"; exit 4; fi
for p in C01 C02 C03 C04 C05 C06 C07 C08 C09 C10 C11 C13 C14 C15 C16 C17 C18 C19 C20; do
  ${SPECVET_BIN:-/verif/bin/specvet} -property $p -repo $D -no-evidence 2>&1 | grep -E '^(VIOLATED|UNDECIDED|CHECKER)' | sed "s/^/$p /" | cut -c1-330
done | sort -u -k2,3
