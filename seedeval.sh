#!/bin/bash
# usage: seedeval.sh <dir with patch.diff + demo_test.go> [props...]
# Confirms a candidate seeded change (compiles, suite passes, demo fails with / passes without) on a scratch
# copy of /repo and reports which specvet properties flag it. Development helper, not a registered check.
set -u
SRC=$1; shift
PROPS=${*:-"C01 C02 C03 C04 C05 C06 C07 C08 C09 C10 C11 C13 C14 C15 C16 C17 C18 C19 C20"}
export GOFLAGS=-mod=mod GOPROXY=off GOSUMDB=off GOTOOLCHAIN=local GOWORK=off
D=$(mktemp -d /tmp/seedeval.XXXXXX)
trap 'rm -rf $D' EXIT
rsync -a --exclude .git --exclude _out /repo/ $D/
cd $D
DEMO=$(ls $SRC/*_test.go | head -1)
DEMONAME=zz_seed_demo_test.go
# demo without the change
cp $DEMO $D/$DEMONAME
TESTS=$(grep -oE '^func (Test[A-Za-z0-9_]+)' $D/$DEMONAME | awk '{print $2}' | paste -sd'|')
RACE=""; grep -qi -- '-race' $SRC/notes.md 2>/dev/null && RACE="-race"
if unshare -rn sh -c "ip link set lo up; go test -vet=off -count=1 $RACE -run '^($TESTS)\$' ." >$D/.demo_clean.log 2>&1; then echo "demo-without-change: PASS"; else echo "demo-without-change: FAIL (bad demo)"; tail -5 $D/.demo_clean.log; fi
rm $D/$DEMONAME
if ! git apply --check $SRC/patch.diff 2>/dev/null && ! patch -p1 --dry-run < $SRC/patch.diff >/dev/null 2>&1; then echo "PATCH DOES NOT APPLY"; exit 3; fi
patch -p1 -s < $SRC/patch.diff
if ! go build ./... 2>$D/.build.log; then echo "DOES NOT COMPILE"; cat $D/.build.log | head; exit 4; fi
S1=$(unshare -rn sh -c 'ip link set lo up; go test -vet=off -count=1 ./... 2>&1' | tail -1); S2=$(unshare -rn sh -c 'ip link set lo up; go test -vet=off -count=1 ./... 2>&1' | tail -1)
echo "suite-with-change: $S1 | $S2"
cp $DEMO $D/$DEMONAME
if unshare -rn sh -c "ip link set lo up; go test -vet=off -count=1 $RACE -run '^($TESTS)\$' ." >$D/.demo_mut.log 2>&1; then echo "demo-with-change: PASS (demo does not detect)"; else echo "demo-with-change: FAIL (as wanted)"; fi
rm $D/$DEMONAME
for p in $PROPS; do
  OUT=$(SPECVET_NOREPLAY=1 /verif/bin/specvet -property $p -repo $D -no-evidence 2>&1)
  if echo "$OUT" | grep -q '^VIOLATION'; then echo "== $p FLAGS:"; echo "$OUT" | grep -E '^(VIOLATED|UNDECIDED)' | cut -c1-260 | head -4; fi
done
echo "eval done"
