package spec

// Demonstrations of defects of the unchanged library that were repaired by "fix:" commits
// (see /verif/known_findings.txt). Each test fails on the parent of the named commit and passes after it.
// Documentation only: no check of /verif runs them.

import (
	"encoding/json"
	"os"
	"path/filepath"
	"testing"
	"time"
)

func probeFiles(t *testing.T, files map[string]string) string {
	dir := t.TempDir()
	for n, c := range files {
		p := filepath.Join(dir, n)
		if err := os.MkdirAll(filepath.Dir(p), 0o755); err != nil {
			t.Fatal(err)
		}
		if err := os.WriteFile(p, []byte(c), 0o644); err != nil {
			t.Fatal(err)
		}
	}
	return dir
}

func probeExpand(t *testing.T, dir, root string, opts ExpandOptions) (string, error) {
	b, err := os.ReadFile(filepath.Join(dir, root))
	if err != nil {
		t.Fatal(err)
	}
	var sw Swagger
	if err := json.Unmarshal(b, &sw); err != nil {
		t.Fatal(err)
	}
	opts.RelativeBase = filepath.Join(dir, root)
	err = ExpandSpec(&sw, &opts)
	out, _ := json.Marshal(sw)
	return string(out), err
}

// 20be52e: "same document" decided by string prefix (spec.json vs spec.json2)
func TestFixed_SiblingWithPrefixName_Resolver(t *testing.T) {
	dir := probeFiles(t, map[string]string{
		"spec.json":  `{"swagger":"2.0","info":{"title":"t","version":"1"},"paths":{},"definitions":{"A":{"$ref":"spec.json2#/definitions/B"},"C":{"type":"integer"}}}`,
		"spec.json2": `{"definitions":{"B":{"type":"object","properties":{"c":{"$ref":"#/definitions/C"}}},"C":{"type":"string"}}}`,
	})
	out, err := probeExpand(t, dir, "spec.json", ExpandOptions{})
	if err != nil {
		t.Fatal(err)
	}
	var doc struct {
		Definitions map[string]struct {
			Properties map[string]struct{ Type string }
		}
	}
	_ = json.Unmarshal([]byte(out), &doc)
	if got := doc.Definitions["A"].Properties["c"].Type; got != "string" {
		t.Fatalf("#/definitions/C inside spec.json2 was read from the root: type %q, want string\n%s", got, out)
	}
}

// 527b4a2: rebase trimmed the base document's path in the middle of a segment
func TestFixed_SiblingWithPrefixName_Rebase(t *testing.T) {
	dir := probeFiles(t, map[string]string{
		"spec.json":  `{"swagger":"2.0","info":{"title":"t","version":"1"},"paths":{},"definitions":{"A":{"$ref":"spec.json2#/definitions/B"}}}`,
		"spec.json2": `{"definitions":{"B":{"type":"object","properties":{"b":{"$ref":"#/definitions/B"}}}}}`,
	})
	out, err := probeExpand(t, dir, "spec.json", ExpandOptions{})
	if err != nil {
		t.Fatal(err)
	}
	var doc struct {
		Definitions map[string]struct {
			Properties map[string]struct {
				Ref string `json:"$ref"`
			}
		}
	}
	_ = json.Unmarshal([]byte(out), &doc)
	if got := doc.Definitions["A"].Properties["b"].Ref; got != "spec.json2#/definitions/B" {
		t.Fatalf("circular $ref kept as %q, want spec.json2#/definitions/B", got)
	}
}

// 5830e85 (and the resolver switch inside the chain): multi-hop chains crossing directories
func TestFixed_MultiHopChainAcrossDirectories(t *testing.T) {
	dir := probeFiles(t, map[string]string{
		"spec.json":            `{"swagger":"2.0","info":{"title":"t","version":"1"},"paths":{"/a":{"get":{"parameters":[{"$ref":"sub/params.json#/parameters/q"}],"responses":{"200":{"$ref":"sub/params.json#/responses/ok"}}}},"/b":{"$ref":"sub/params.json#/paths/b"}}}`,
		"sub/params.json":      `{"parameters":{"q":{"$ref":"deeper/more.json#/parameters/r"}},"responses":{"ok":{"$ref":"deeper/more.json#/responses/fine"}},"paths":{"b":{"$ref":"deeper/more.json#/paths/bb"}}}`,
		"sub/deeper/more.json": `{"parameters":{"r":{"name":"r","in":"body","schema":{"$ref":"#/definitions/S"}}},"responses":{"fine":{"description":"d","schema":{"$ref":"#/definitions/S"}}},"paths":{"bb":{"get":{"responses":{"200":{"description":"x","schema":{"$ref":"#/definitions/S"}}}}}},"definitions":{"S":{"type":"string"}}}`,
	})
	if out, err := probeExpand(t, dir, "spec.json", ExpandOptions{}); err != nil {
		t.Fatalf("%v\n%s", err, out)
	}
}

// alias chain inside an imported document: the second, fragment-only hop designates the imported document
func TestFixed_AliasChainInsideImportedDocument(t *testing.T) {
	dir := probeFiles(t, map[string]string{
		"root.json": `{"swagger":"2.0","info":{"title":"t","version":"1"},"parameters":{"body":{"name":"rootbody","in":"query","type":"integer"}},"responses":{"r":{"description":"root r"}},"paths":{"/a":{"get":{"parameters":[{"$ref":"p.json#/parameters/alias"}],"responses":{"200":{"$ref":"p.json#/responses/alias"}}}}}}`,
		"p.json":    `{"parameters":{"alias":{"$ref":"#/parameters/body"},"body":{"name":"pbody","in":"query","type":"string"}},"responses":{"alias":{"$ref":"#/responses/r"},"r":{"description":"p r"}}}`,
	})
	out, err := probeExpand(t, dir, "root.json", ExpandOptions{})
	if err != nil {
		t.Fatal(err)
	}
	var doc struct {
		Paths map[string]map[string]struct {
			Parameters []struct{ Name string }
			Responses  map[string]struct{ Description string }
		}
	}
	_ = json.Unmarshal([]byte(out), &doc)
	op := doc.Paths["/a"]["get"]
	if len(op.Parameters) != 1 || op.Parameters[0].Name != "pbody" || op.Responses["200"].Description != "p r" {
		t.Fatalf("second hop read from the root document:\n%s", out)
	}
}

// a361b7d: relative id with a directory part
func TestFixed_RelativeIDWithDirectoryTerminates(t *testing.T) {
	for _, doc := range []string{
		`{"definitions":{"d":{"id":"sub/x.json","properties":{"q":{"$ref":"x.json"}}}}}`,
		`{"definitions":{"d":{"id":"sub/","properties":{"q":{"$ref":"placeholder.json"}}}}}`,
	} {
		var s Schema
		if err := json.Unmarshal([]byte(doc), &s); err != nil {
			t.Fatal(err)
		}
		done := make(chan error, 1)
		go func() { done <- ExpandSchema(&s, nil, nil) }()
		select {
		case err := <-done:
			if err != nil {
				t.Fatal(err)
			}
		case <-time.After(3 * time.Second):
			t.Fatal("expansion does not terminate (the process would die of stack exhaustion)")
		}
	}
}

// 616f55e: known circular $ref in a remote response rebased twice
func TestFixed_KnownCircularRefInRemoteResponse(t *testing.T) {
	dir := probeFiles(t, map[string]string{
		"root.json":      `{"swagger":"2.0","info":{"title":"t","version":"1"},"definitions":{"X":{"$ref":"sub/other.json#/definitions/A"}},"paths":{"/a":{"get":{"responses":{"200":{"$ref":"sub/other.json#/responses/R"}}}}}}`,
		"sub/other.json": `{"definitions":{"A":{"type":"object","properties":{"self":{"$ref":"#/definitions/A"}}}},"responses":{"R":{"description":"d","schema":{"$ref":"#/definitions/A"}}}}`,
	})
	for _, abs := range []bool{true, false} {
		if out, err := probeExpand(t, dir, "root.json", ExpandOptions{AbsoluteCircularRef: abs}); err != nil {
			t.Fatalf("AbsoluteCircularRef=%v: %v\n%s", abs, err, out)
		}
	}
}

// 966252f: with ContinueOnError an ill-typed $ref target (array, string) must leave the $ref in place
func TestFixed_IllTypedTargetStaysInPlace(t *testing.T) {
	dir := t.TempDir()
	os.WriteFile(filepath.Join(dir, "other.json"), []byte(`{"arr":[1,2],"str":"x"}`), 0o644)
	var s Schema
	json.Unmarshal([]byte(`{"properties":{"a":{"$ref":"other.json#/arr"},"b":{"$ref":"other.json#/str"},"c":{"type":"string"}}}`), &s)
	err := ExpandSchemaWithBasePath(&s, nil, &ExpandOptions{RelativeBase: filepath.Join(dir, "root.json"), ContinueOnError: true})
	b, _ := json.Marshal(s)
	t.Logf("err=%v %s", err, b)
	if probeRefOf(s, "a") == "" || probeRefOf(s, "b") == "" {
		t.Fatalf("an unresolvable $ref was replaced instead of staying in place: %s", b)
	}
}

func probeRefOf(s Schema, name string) string {
	p := s.Properties[name]
	return p.Ref.String()
}

// 0bebf8d: nil interface / map / slice members of a typed document and JSON null targets
func TestFixed_NothingDesignatedIsAnError(t *testing.T) {
	doc := `{"swagger":"2.0","info":{"title":"t","version":"1"},"paths":{},"definitions":{"x":{"type":"object"}}}`
	var typed Swagger
	if err := json.Unmarshal([]byte(doc), &typed); err != nil {
		t.Fatal(err)
	}
	for _, ptr := range []string{"#/definitions/x/example", "#/definitions/x/properties", "#/definitions/x/required", "#/definitions/x/externalDocs"} {
		ref := MustCreateRef(ptr)
		sch, err := ResolveRefWithBase(&typed, &ref, nil)
		t.Logf("%-32s typed: %v %v", ptr, sch, err)
		if err == nil {
			t.Errorf("%s designates nothing in the typed document but resolves to %v without an error", ptr, sch)
		}
	}
	// a $ref to a JSON null in a generic document, ContinueOnError off
	var generic interface{}
	_ = json.Unmarshal([]byte(`{"definitions":{"n":null}}`), &generic)
	var s Schema
	_ = json.Unmarshal([]byte(`{"properties":{"a":{"$ref":"#/definitions/n"}}}`), &s)
	err := ExpandSchema(&s, generic, nil)
	b, _ := json.Marshal(s)
	t.Logf("null target: err=%v %s", err, b)
	if err == nil {
		t.Errorf("a $ref to a JSON null target is accepted without an error")
	}
}
