#!/usr/bin/env python3
"""Regenerates MANIFEST.json from the table below (kept in one place so the manifest stays valid)."""
import json, subprocess, sys

ENV = "GOFLAGS=-mod=mod GOPROXY=off GOSUMDB=off GOTOOLCHAIN=local GOWORK=off"
TRUST = ("Trusted base: Go type checker (go 1.23.5), golang.org/x/tools v0.29.0 (go/packages, go/cfg, typeutil), "
         "my port of encoding/json field resolution, documented semantics of encoding/json, encoding/gob, swag, jsonpointer, "
         "jsonreference, and the meta-schemas shipped in /repo/schemas as vocabulary oracle. Decides structural necessary "
         "conditions only; the value-level clauses listed under not_covered in the evidence file are not decided.")

# id -> (technique, level text, design ref)
CLAIMED = {}
NOT_APPLICABLE = {}

def claim(pid, technique, text, ref):
    CLAIMED[pid] = (technique, text, ref)

def na(pid, reason):
    NOT_APPLICABLE[pid] = reason

exec(open('manifest_table.py').read())

checks = []
for pid in sorted(CLAIMED):
    tech, text, ref = CLAIMED[pid]
    checks.append({
        "property_id": pid,
        "quick_cmd": f"{ENV} bin/specvet -property {pid} -tier quick",
        "thorough_cmd": f"{ENV} bin/specvet -property {pid} -tier thorough",
        "evidence_file": f"/verif/evidence/{pid}.json",
        "replay_cmd_template": f"{ENV} bin/specvet -replay {{path}}",
        "engine": "specvet",
        "level_claimed": {"category": "other", "text": text, "design_ref": ref},
        "level_note": TRUST,
        "technique": tech,
    })

manifest = {
    "version": 1,
    "setup_cmd": f"cd /verif/specvet && {ENV} go build -o /verif/bin/specvet .",
    "hooks": {
        "guard": "verif",
        "enable": "none needed: the checks read /repo's source; no hook or instrumentation exists (go build tag 'verif' is reserved and unused)",
        "baseline_off_cmd": "cd /repo && GOFLAGS=-mod=mod GOPROXY=off GOSUMDB=off go test -json -vet=off -count=1 -timeout 25m ./...",
        "source_commits": [],
        "add_only": True,
    },
    "engines": [{
        "name": "specvet",
        "path": "/verif/specvet",
        "serves_properties": sorted(CLAIMED),
        "kind_free_text": "repository-specific static analyser (go/packages + go/types + go/ast access paths + go/cfg); never executes the package",
    }],
    "checks": checks,
    "notes": "Static analysis only. Every check loads and type-checks /repo's working tree on every run. Exit 0 = all obligations discharged (KNOWN-FINDING lines allowed); exit 1 + VIOLATION line = an unlisted violated or undecided obligation or a rule whose anchors fell below its floor; see DESIGN.md.",
    "not_applicable": [{"property_id": p, "reason": NOT_APPLICABLE[p]} for p in sorted(NOT_APPLICABLE)],
}
json.dump(manifest, open('MANIFEST.json', 'w'), indent=1)
print("claimed", sorted(CLAIMED), "n/a", sorted(NOT_APPLICABLE))
