#!/bin/bash
# usage: mut.sh <property> <file> <python-expr old> <new>   -- applies a one-off textual mutation to a scratch copy and runs specvet on it
# (development helper; not part of any registered check)
set -e
PROP=$1; FILE=$2; OLD=$3; NEW=$4
D=$(mktemp -d /tmp/specmut.XXXXXX)
rsync -a --exclude .git --exclude fixtures /repo/ $D/
mkdir -p $D/fixtures
python3 - "$D/$FILE" "$OLD" "$NEW" <<'PY'
import sys
p,old,new=sys.argv[1:4]
s=open(p).read()
if s.count(old)<1: print("MUTATION SITE NOT FOUND"); sys.exit(3)
s=s.replace(old,new,1)
open(p,'w').write(s)
PY
export GOFLAGS=-mod=mod GOPROXY=off GOSUMDB=off GOTOOLCHAIN=local GOWORK=off
(cd $D && go build ./... ) || { echo "MUTANT DOES NOT COMPILE"; rm -rf $D; exit 4; }
/verif/bin/specvet -property $PROP -repo $D -no-evidence | grep -E '^(VIOLATED|UNDECIDED|summary|CHECKER)' || true
rm -rf $D
