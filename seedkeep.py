#!/usr/bin/env python3
"""Confirms a seeded change on the current /repo HEAD and files it under /verif/seeded/<id>/.
Development helper (not a registered check). usage: seedkeep.py <stage-dir> <id> <seeded-for-property>"""
import json, os, re, shutil, subprocess, sys, tempfile
stage, sid, prop = sys.argv[1:4]
ENV = dict(os.environ, GOFLAGS="-mod=mod", GOPROXY="off", GOSUMDB="off", GOTOOLCHAIN="local", GOWORK="off", SPECVET_NOREPLAY="1")
def sh(cmd, cwd=None, check=False):
    r = subprocess.run(cmd, shell=True, cwd=cwd, env=ENV, capture_output=True, text=True)
    if check and r.returncode: raise SystemExit(f"FAILED: {cmd}\n{r.stdout}{r.stderr}")
    return r
wt = tempfile.mkdtemp(prefix="seedkeep.")
os.rmdir(wt)
sh(f"git -C /repo worktree add --detach {wt} HEAD", check=True)
try:
    demo = [f for f in os.listdir(stage) if f.endswith("_test.go")][0]
    tests = "|".join(re.findall(r"^func (Test\w+)", open(f"{stage}/{demo}").read(), re.M))
    notes = open(f"{stage}/notes.md").read() if os.path.exists(f"{stage}/notes.md") else ""
    race = "-race" if "-race" in notes else ""
    NS = "unshare -rn sh -c 'ip link set lo up; %s'"
    def demo_run():
        shutil.copy(f"{stage}/{demo}", f"{wt}/zz_seed_demo_test.go")
        r = sh(NS % f"go test -vet=off -count=1 {race} -run \"^({tests})$\" . 2>&1", cwd=wt)
        os.remove(f"{wt}/zz_seed_demo_test.go")
        return r.returncode == 0, r.stdout[-600:]
    clean_ok, _ = demo_run()
    r = sh(f"git apply {stage}/patch.diff", cwd=wt)
    if r.returncode:
        r = sh(f"patch -p1 -s < {stage}/patch.diff", cwd=wt)
        if r.returncode: raise SystemExit("PATCH DOES NOT APPLY: " + r.stdout + r.stderr)
    patch = sh("git diff -- '*.go' ':!*_test.go'", cwd=wt).stdout
    if sh("go build ./...", cwd=wt).returncode: raise SystemExit("DOES NOT COMPILE")
    suite = [sh(NS % "go test -vet=off -count=1 ./... 2>&1", cwd=wt).stdout.strip().splitlines()[-1] for _ in range(2)]
    mut_ok, mut_out = demo_run()
    flagged = {}
    out = sh(f"/verif/bin/specvet -all -repo {wt}").stdout
    for l in out.splitlines():
        parts = l.split()
        if len(parts) >= 3 and parts[1] in ("VIOLATED", "UNDECIDED"):
            flagged.setdefault(parts[0], [])
            if len(flagged[parts[0]]) < 4: flagged[parts[0]].append(parts[2])
    ok = clean_ok and not mut_ok and all(s.startswith("ok") for s in suite)
    print(sid, "confirmed" if ok else "NOT CONFIRMED", "| demo clean:", clean_ok, "| demo mutant fails:", not mut_ok, "| suite:", suite, "| flagged by:", sorted(flagged))
    if ok:
        d = f"/verif/seeded/{sid}"
        os.makedirs(d, exist_ok=True)
        open(f"{d}/patch.diff", "w").write(patch)
        shutil.copy(f"{stage}/{demo}", f"{d}/demo_test.go")
        if notes: open(f"{d}/notes.md", "w").write(notes)
        first = ""
        m = re.search(r"(?is)needs?:?\s*(.{20,400}?)(\n\n|\n- \*\*|\n\*\*|$)", notes)
        meta = {
            "id": sid, "breaks_property": prop,
            "origin": "written by an independent sub-agent that saw only the property text and a scratch worktree of /repo (nothing from /verif)",
            "needs_to_manifest": (m.group(1).strip() if m else "see notes.md"),
            "confirmed_on_repo_head": sh("git -C /repo log --format=%h -1").stdout.strip(),
            "what_was_run": {
                "build": "go build ./... : ok",
                "suite_with_change": suite,
                "demo_without_change": "PASS" if clean_ok else "FAIL",
                "demo_with_change": "FAIL" if not mut_ok else "PASS",
                "demo_cmd": f"go test -vet=off -count=1 {race} -run '^({tests})$' .  (in a private network namespace)",
            },
            "flagged_by": flagged,
            "caught": bool(flagged), "caught_by_own_property": prop in flagged,
        }
        json.dump(meta, open(f"{d}/meta.json", "w"), indent=1)
finally:
    sh(f"git -C /repo worktree remove --force {wt}")
    sh("git -C /repo worktree prune")
