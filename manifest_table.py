claim("C01", "tag-table / meta-schema agreement + encode/decode component dataflow (AST access paths over go/types)",
      "Decides, for every kind and every keyword at once, the table agreements JSON round-trip losslessness needs: each component encoded and decoded, each meta-schema member has a byte-identical JSON field, numeric keywords pointer-typed, encode proxies complete, $ref/$schema writer/reader agree. Round-trip equality of values is not decided.", "DESIGN.md 3.C01")
for p in ["C02","C03","C04","C05","C06","C07","C08","C09","C10","C11","C13","C14","C15","C16","C17","C18","C19","C20"]:
    na(p, "check under construction in this session (static rules designed in DESIGN.md section 3; not yet registered)")
na("C12", "equation between two string functions (normalizeURI vs RFC 3986 resolution) over all inputs: truth lies in computed values, not in the shape of the code; no sound structural necessary condition beyond those already claimed under C11/C18")
