package main

import (
	"go/ast"
	"go/token"
	"go/types"
	"sort"
	"strings"
)

// lookup-guard: sibling agreement between a kind's JSONLookup and its codecs on WHICH names / WHICH form is
// answered. A JSONLookup that consults one of its maps only for member names satisfying a predicate must use
// a predicate under which the decoder files names into that map; one that delegates to an alternative of the
// receiver depending on the receiver's state must use the condition under which the encoder emits that
// alternative. Unconditional consultations (today's tree) carry no obligation beyond being seen.
func init() {
	registerRule("lookup-guard", 15, "a JSONLookup restricts a consultation by member name only with the predicate the decoder files names under, and by receiver state only with the condition the encoder emits that alternative under", ruleLookupGuard)
}

// normExpr renders e with the objects of subst replaced by placeholders and single-definition locals inlined.
func (c *Ctx) normExpr(e ast.Expr, subst map[types.Object]string, defs map[types.Object][]ast.Expr, depth int) string {
	e = unparen(e)
	switch x := e.(type) {
	case *ast.Ident:
		o := c.objOf(x)
		if s, ok := subst[o]; ok {
			return s
		}
		if ds := defs[o]; len(ds) == 1 && ds[0] != nil && depth < 4 && c.pureNameExpr(ds[0]) {
			if _, isVar := o.(*types.Var); isVar {
				return c.normExpr(ds[0], subst, defs, depth+1)
			}
		}
		return x.Name
	case *ast.SelectorExpr:
		if id, ok := x.X.(*ast.Ident); ok {
			if _, isPkg := c.objOf(id).(*types.PkgName); isPkg {
				return id.Name + "." + x.Sel.Name
			}
		}
		// promoted fields read the same whether or not the embedded struct is spelled out
		if sel := c.Info.Selections[x]; sel != nil && sel.Kind() == types.FieldVal {
			if v, ok := sel.Obj().(*types.Var); ok && v.Embedded() {
				return c.normExpr(x.X, subst, defs, depth)
			}
		}
		return c.normExpr(x.X, subst, defs, depth) + "." + x.Sel.Name
	case *ast.CallExpr:
		var as []string
		for _, a := range x.Args {
			as = append(as, c.normExpr(a, subst, defs, depth))
		}
		return c.normExpr(x.Fun, subst, defs, depth) + "(" + strings.Join(as, ", ") + ")"
	case *ast.BinaryExpr:
		return c.normExpr(x.X, subst, defs, depth) + " " + x.Op.String() + " " + c.normExpr(x.Y, subst, defs, depth)
	case *ast.UnaryExpr:
		return x.Op.String() + c.normExpr(x.X, subst, defs, depth)
	case *ast.StarExpr:
		return "*" + c.normExpr(x.X, subst, defs, depth)
	case *ast.IndexExpr:
		return c.normExpr(x.X, subst, defs, depth) + "[" + c.normExpr(x.Index, subst, defs, depth) + "]"
	}
	return exprString(e)
}

// normLit renders a condition literal; a leading negation is folded into the polarity.
func (c *Ctx) normLit(cl condLit, subst map[types.Object]string, defs map[types.Object][]ast.Expr) (string, bool) {
	e, neg := unparen(cl.e), cl.neg
	for {
		u, ok := e.(*ast.UnaryExpr)
		if !ok || u.Op != token.NOT {
			break
		}
		e, neg = unparen(u.X), !neg
	}
	if be, ok := e.(*ast.BinaryExpr); ok && be.Op == token.NEQ {
		return c.normExpr(be.X, subst, defs, 0) + " == " + c.normExpr(be.Y, subst, defs, 0), !neg
	}
	return c.normExpr(e, subst, defs, 0), neg
}

// fieldOfSel returns the struct field a selector expression designates.
func (c *Ctx) fieldOfSel(e ast.Expr) *types.Var {
	se, ok := unparen(e).(*ast.SelectorExpr)
	if !ok {
		return nil
	}
	if sel := c.Info.Selections[se]; sel != nil && sel.Kind() == types.FieldVal {
		v, _ := sel.Obj().(*types.Var)
		return v
	}
	return nil
}

func ruleLookupGuard(c *Ctx) {
	const rule = "lookup-guard"
	// 1. decoder table: map field -> positive name predicates in force where a decoder stores under a decoded name
	decGuards := map[*types.Var]map[string]bool{}
	decSeen := map[*types.Var]bool{}
	for _, fd := range c.reachableFrom("UnmarshalJSON") {
		defs := c.localDefs(fd)
		ast.Inspect(fd.Body, func(n ast.Node) bool {
			as, ok := n.(*ast.AssignStmt)
			if !ok {
				return true
			}
			for _, l := range as.Lhs {
				ix, ok := unparen(l).(*ast.IndexExpr)
				if !ok {
					continue
				}
				f := c.fieldOfSel(ix.X)
				kid, isId := unparen(ix.Index).(*ast.Ident)
				if f == nil || !isId {
					continue
				}
				if _, isMap := f.Type().Underlying().(*types.Map); !isMap {
					continue
				}
				decSeen[f] = true
				subst := map[types.Object]string{c.objOf(kid): "\u00abname\u00bb"}
				if decGuards[f] == nil {
					decGuards[f] = map[string]bool{}
				}
				for _, cl := range c.literalsAt(fd, as) {
					s, neg := c.normLit(cl, subst, defs)
					if !neg && strings.Contains(s, "\u00abname\u00bb") {
						decGuards[f][s] = true
					}
				}
			}
			return true
		})
	}
	// 2. encoder table: (type, field) -> positive receiver conditions in force where the encoder marshals that field
	type tf struct {
		t string
		f *types.Var
	}
	encGuards := map[tf]map[string]bool{}
	for _, fd := range c.allFuncDecls() {
		if fd.Recv == nil || fd.Body == nil || fd.Name.Name != "MarshalJSON" {
			continue
		}
		recv := c.recvObj(fd)
		if recv == nil {
			continue
		}
		tn := c.recvTypeName(fd)
		defs := c.localDefs(fd)
		subst := map[types.Object]string{recv: "\u00abrecv\u00bb"}
		ast.Inspect(fd.Body, func(n ast.Node) bool {
			call, ok := n.(*ast.CallExpr)
			if !ok || len(call.Args) == 0 {
				return true
			}
			f := c.fieldOfSel(call.Args[0])
			if f == nil {
				return true
			}
			k := tf{tn, f}
			if encGuards[k] == nil {
				encGuards[k] = map[string]bool{}
			}
			for _, cl := range c.literalsAt(fd, call) {
				s, neg := c.normLit(cl, subst, defs)
				if strings.Contains(s, "\u00abrecv\u00bb") {
					if neg {
						s = "!(" + s + ")"
					}
					encGuards[k][s] = true
				}
			}
			return true
		})
	}
	keysOf := func(m map[string]bool) string {
		var ks []string
		for k := range m {
			ks = append(ks, k)
		}
		sort.Strings(ks)
		if len(ks) == 0 {
			return "no condition"
		}
		return strings.Join(ks, "; ")
	}
	// 3. the lookups
	for _, fd := range c.allFuncDecls() {
		if fd.Recv == nil || fd.Body == nil || fd.Name.Name != "JSONLookup" {
			continue
		}
		recv, tok := c.recvObj(fd), c.paramObj(fd, 0)
		if recv == nil || tok == nil {
			continue
		}
		fn := c.funcName(fd)
		tn := c.recvTypeName(fd)
		c.saw(fn)
		defs := c.localDefs(fd)
		substK := map[types.Object]string{tok: "\u00abname\u00bb"}
		substR := map[types.Object]string{recv: "\u00abrecv\u00bb"}
		o := c.ob(rule, "scan:"+fn, fd.Pos(), true, "")
		nontrivial := false
		directIndex := false
		ast.Inspect(fd.Body, func(n ast.Node) bool {
			switch x := n.(type) {
			case *ast.IndexExpr:
				// recv.M[token]
				f := c.fieldOfSel(x.X)
				id, isId := unparen(x.Index).(*ast.Ident)
				if f == nil || !isId || c.objOf(id) != tok {
					return true
				}
				if _, isMap := f.Type().Underlying().(*types.Map); !isMap {
					return true
				}
				directIndex = true
				for _, cl := range c.literalsAt(fd, x) {
					s, neg := c.normLit(cl, substK, defs)
					if neg || !strings.Contains(s, "\u00abname\u00bb") {
						continue
					}
					nontrivial = true
					good := decGuards[f][s]
					c.ob(rule, fn+":"+f.Name()+"[token] if "+s, x.Pos(), good,
						"member "+f.Name()+" is consulted only for names with "+s+", but the decoders file names into it under: "+keysOf(decGuards[f])+" - a name the decoder accepts is not found by the lookup")
				}
			case *ast.CallExpr:
				// delegation to an alternative of the receiver: GetForToken(recv.F, token)
				if !c.isPkgFunc(x, "github.com/go-openapi/jsonpointer", "GetForToken") || len(x.Args) != 2 {
					return true
				}
				f := c.fieldOfSel(x.Args[0])
				if f == nil {
					return true
				}
				for _, cl := range c.literalsAt(fd, x) {
					s, neg := c.normLit(cl, substR, defs)
					if !strings.Contains(s, "\u00abrecv\u00bb") {
						continue
					}
					if neg {
						s = "!(" + s + ")"
					}
					nontrivial = true
					good := encGuards[tf{tn, f}][s]
					c.ob(rule, fn+":delegate("+f.Name()+") if "+s, x.Pos(), good,
						"the lookup answers from "+f.Name()+" only when "+s+", but the encoder emits "+f.Name()+" under: "+keysOf(encGuards[tf{tn, f}])+" - the typed document and its JSON text disagree on which form is there")
				}
			}
			return true
		})
		// the consultation of a map sits in a helper: the same obligation, read off the effect normal form
		if !directIndex {
			for _, g := range c.simIndexGuards(fd) {
				nontrivial = true
				good := decGuards[g.field][g.guard]
				c.ob(rule, fn+":"+g.field.Name()+"[token] if "+g.guard, fd.Pos(), good,
					"member "+g.field.Name()+" is consulted only for names with "+g.guard+", but the decoders file names into it under: "+keysOf(decGuards[g.field])+" - a name the decoder accepts is not found by the lookup")
			}
		}
		o.Trivial = !nontrivial
	}
}

type indexGuard struct {
	field *types.Var
	guard string
}

// simIndexGuards: on the effect normal form of a JSONLookup, the positive conditions on the token under which a
// map of the receiver is consulted with it, rendered like normLit renders the decoder's predicates.
func (c *Ctx) simIndexGuards(fd *ast.FuncDecl) []indexGuard {
	recv, tok := c.recvObj(fd), c.paramObj(fd, 0)
	paths, unsup := c.simulate(fd, nil)
	if unsup != "" || recv == nil || tok == nil {
		return nil
	}
	var render func(v sval) (string, bool)
	render = func(v sval) (string, bool) {
		switch x := v.(type) {
		case svPath:
			if x.root == tok && len(x.steps) == 0 {
				return "\u00abname\u00bb", true
			}
			return "", false
		case svConst:
			return x.v.ExactString(), true
		case svCall:
			f, ok := x.callee.(*types.Func)
			if !ok || f.Pkg() == nil || x.idx != 0 || x.recv != nil {
				return "", false
			}
			var as []string
			for _, a := range x.args {
				r, ok := render(a)
				if !ok {
					return "", false
				}
				as = append(as, r)
			}
			return f.Pkg().Name() + "." + f.Name() + "(" + strings.Join(as, ", ") + ")", true
		case svBin:
			l, ok1 := render(x.x)
			r, ok2 := render(x.y)
			if !ok1 || !ok2 {
				return "", false
			}
			return l + " " + x.op.String() + " " + r, true
		}
		return "", false
	}
	seen := map[string]bool{}
	var out []indexGuard
	for _, p := range paths {
		for i, cd := range p.conds {
			h, ok := cd.v.(svHas)
			if !ok || cd.loop {
				continue
			}
			ip, isTok := h.i.(svPath)
			mp, isRecv := h.x.(svPath)
			if !isTok || ip.root != tok || len(ip.steps) != 0 || !isRecv || mp.root != recv || len(mp.steps) == 0 {
				continue
			}
			// the field designated by the receiver path
			var field *types.Var
			t := recv.Type()
			for _, stp := range mp.steps {
				st, ok := derefType(t).Underlying().(*types.Struct)
				if !ok {
					field = nil
					break
				}
				field = nil
				for k := 0; k < st.NumFields(); k++ {
					if st.Field(k).Name() == stp {
						field = st.Field(k)
						t = field.Type()
					}
				}
				if field == nil {
					break
				}
			}
			if field == nil {
				continue
			}
			for _, g := range p.conds[:i] {
				if g.loop {
					continue
				}
				v, neg := g.v, g.neg
				if b, isB := v.(svBin); isB && b.op == token.NEQ {
					// normLit writes x != y as the negation of x == y
					l, ok1 := render(b.x)
					r, ok2 := render(b.y)
					if ok1 && ok2 && neg && strings.Contains(l+r, "\u00abname\u00bb") {
						key := field.Name() + "|" + l + " == " + r
						if !seen[key] {
							seen[key] = true
							out = append(out, indexGuard{field, l + " == " + r})
						}
					}
					continue
				}
				s, ok := render(v)
				if !ok || neg || !strings.Contains(s, "\u00abname\u00bb") {
					continue
				}
				key := field.Name() + "|" + s
				if !seen[key] {
					seen[key] = true
					out = append(out, indexGuard{field, s})
				}
			}
		}
	}
	sort.Slice(out, func(i, j int) bool { return out[i].field.Name()+out[i].guard < out[j].field.Name()+out[j].guard })
	return out
}

func (c *Ctx) recvTypeName(fd *ast.FuncDecl) string {
	return strings.TrimSuffix(c.funcName(fd), "."+fd.Name.Name)
}

// pureNameExpr: an expression worth inlining into a guard - built from names, constants and calls of the
// strings / strconv packages only. Results of consultations (GetForToken, map lookups) stay opaque.
func (c *Ctx) pureNameExpr(e ast.Expr) bool {
	pure := true
	ast.Inspect(e, func(n ast.Node) bool {
		switch x := n.(type) {
		case *ast.CallExpr:
			if c.isBuiltin(x, "len") || c.isConversion(x) {
				return true
			}
			f, _ := c.callee(x).(*types.Func)
			if f == nil || f.Pkg() == nil || f.Pkg().Path() != "strings" && f.Pkg().Path() != "strconv" {
				pure = false
			}
		case *ast.IndexExpr, *ast.TypeAssertExpr, *ast.FuncLit:
			pure = false
		}
		return pure
	})
	return pure
}
