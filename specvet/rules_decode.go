package main

import (
	"fmt"
	"go/ast"
	"go/token"
	"go/types"
	"sort"
)

func init() {
	registerRule("codec-no-panic", 75, "no panic-capable construct is reachable from any JSON/gob codec method outside the audited table", ruleCodecNoPanic)
	registerRule("bounded-recursion", 42, "codec methods re-enter themselves only through encoding/json on a strictly nested value", ruleBoundedRecursion)
}

var codecRootNames = []string{"UnmarshalJSON", "MarshalJSON", "GobEncode", "GobDecode", "fromMap", "JSONLookup"}

// auditedCodecPanicSites: keyed by function/kind/detail.
var auditedCodecPanicSites = map[string]string{}

func ruleCodecNoPanic(c *Ctx) {
	const rule = "codec-no-panic"
	fds := c.reachableFrom(codecRootNames...)
	for _, fd := range fds {
		fn := c.funcName(fd)
		c.saw(fn)
		sites := c.panicSites(fd)
		o := c.ob(rule, "scan:"+fn, fd.Pos(), true, "")
		o.Trivial = len(sites) == 0
		for _, s := range sites {
			key := s.fn + "/" + s.kind + "/" + s.detail
			_, audited := auditedCodecPanicSites[key]
			c.ob(rule, key, s.pos, audited, "panic-capable construct reachable from a codec method: decoding or encoding some input panics instead of returning an error")
		}
		// first-byte dispatches: report guarded ones as discharged obligations so that the floor sees them
		ast.Inspect(fd.Body, func(n ast.Node) bool {
			ix, ok := n.(*ast.IndexExpr)
			if !ok {
				return true
			}
			if sl, ok := c.typeOf(ix.X).Underlying().(*types.Slice); ok {
				if b, ok := sl.Elem().Underlying().(*types.Basic); ok && b.Kind() == types.Byte {
					if tv, ok := c.Info.Types[ix.Index]; ok && tv.Value != nil {
						c.ob(rule, fn+":first-byte("+exprString(ix)+")", ix.Pos(), c.indexGuarded(fd, ix), "input byte indexed without a length guard: empty input panics")
					}
				}
			}
			return true
		})
	}
}

func ruleBoundedRecursion(c *Ctx) {
	const rule = "bounded-recursion"
	// (1) no codec method is in a static-call cycle
	for _, comp := range c.sccs() {
		cyclic := len(comp) > 1
		if !cyclic {
			for _, g := range c.staticCallees(comp[0]) {
				if g == comp[0] {
					cyclic = true
				}
			}
		}
		if !cyclic {
			continue
		}
		for _, f := range comp {
			for _, n := range codecRootNames {
				if f.Name() == n {
					c.ob(rule, "static-cycle:"+funcDisplay(f), c.decl(f).Pos(), false, "codec method calls itself directly (not through encoding/json on a nested value): recursion depth is not bounded by the input's nesting")
				}
			}
		}
	}
	// (2) no codec hands its own whole input/receiver back to encoding/json at a type that resolves to the same method
	for _, fd := range c.allFuncDecls() {
		if fd.Recv == nil || fd.Body == nil {
			continue
		}
		name := fd.Name.Name
		if name != "UnmarshalJSON" && name != "MarshalJSON" {
			continue
		}
		self, _ := c.Info.Defs[fd.Name].(*types.Func)
		fn := c.funcName(fd)
		c.saw(fn)
		data := c.paramObj(fd, 0)
		recv := c.recvObj(fd)
		var bad []string
		ast.Inspect(fd.Body, func(n ast.Node) bool {
			call, ok := n.(*ast.CallExpr)
			if !ok {
				return true
			}
			switch {
			case name == "UnmarshalJSON" && c.isPkgFunc(call, "encoding/json", "Unmarshal") && len(call.Args) == 2:
				id, ok := unparen(call.Args[0]).(*ast.Ident)
				if !ok || c.objOf(id) != data {
					return true // nested bytes handed out by encoding/json
				}
				t := derefType(c.typeOf(call.Args[1]))
				if m := hasMethod(t, "UnmarshalJSON"); m != nil && m == self {
					bad = append(bad, "json.Unmarshal(data, "+exprString(call.Args[1])+")")
				}
			case name == "MarshalJSON" && c.isPkgFunc(call, "encoding/json", "Marshal") && len(call.Args) == 1:
				p, ok := c.apath(call.Args[0])
				if !ok || p.Root != recv || len(p.Steps) != 0 {
					// a component or a proxy: but a proxy that embeds the receiver's type by value re-enters too
					t := c.typeOf(call.Args[0])
					if t != nil {
						if m := hasMethod(derefType(t), "MarshalJSON"); m != nil && m == self {
							if ok && len(p.Steps) > 0 {
								return true // a nested value of the same type (strictly smaller)
							}
							bad = append(bad, "json.Marshal("+exprString(call.Args[0])+")")
						}
					}
					return true
				}
				bad = append(bad, "json.Marshal("+exprString(call.Args[0])+")")
			}
			return true
		})
		sort.Strings(bad)
		c.ob(rule, fn+":no-self-reentry", fd.Pos(), len(bad) == 0, fmt.Sprintf("%v hands the method's own whole input back to encoding/json at a type that resolves to this very method: unbounded recursion (stack overflow)", bad))
	}
}

var _ = token.NoPos
