package main

import (
	"encoding/json"
	"fmt"
	"io"
	"os"
	"os/exec"
	"path/filepath"
	"strings"
	"sync"
)

// Checker self-test (thorough tier): every rule must fire on a scratch copy
// of /repo with one instance broken. This tests the analysis, never the
// library: nothing of the library is executed. A mutant whose anchor text is
// not found on the current tree is skipped (the tree was edited) - it is
// never an alarm about /repo. A located mutant that is not reported means
// the checker is broken: exit 2 with CHECKER-ERROR.
type corpusMutant struct {
	Property string `json:"property"`
	Name     string `json:"name"`
	File     string `json:"file"`
	Old      string `json:"old"`
	New      string `json:"new"`
	Expect   string `json:"expect"` // prefix of the rule:key that must be reported
}

type selfTestResult struct {
	Name    string `json:"name"`
	Status  string `json:"status"` // reported | skipped(anchor) | skipped(no-compile) | MISSED
	Matched string `json:"matched,omitempty"`
}

func loadCorpus(vd, prop string) ([]corpusMutant, error) {
	b, err := os.ReadFile(filepath.Join(vd, "mutants", "corpus.json"))
	if err != nil {
		return nil, err
	}
	var all []corpusMutant
	if err := json.Unmarshal(b, &all); err != nil {
		return nil, err
	}
	var out []corpusMutant
	for _, m := range all {
		if m.Property == prop {
			out = append(out, m)
		}
	}
	return out, nil
}

func copyFile(src, dst string) error {
	in, err := os.Open(src)
	if err != nil {
		return err
	}
	defer in.Close()
	if err := os.MkdirAll(filepath.Dir(dst), 0o755); err != nil {
		return err
	}
	out, err := os.Create(dst)
	if err != nil {
		return err
	}
	defer out.Close()
	_, err = io.Copy(out, in)
	return err
}

// scratchCopy copies what type-checking needs: non-test Go files, module files and the embedded schemas.
func scratchCopy(repo string) (string, error) {
	dir, err := os.MkdirTemp("", "specvet-mut-")
	if err != nil {
		return "", err
	}
	ents, err := os.ReadDir(repo)
	if err != nil {
		return dir, err
	}
	for _, e := range ents {
		n := e.Name()
		if e.IsDir() {
			continue
		}
		if strings.HasSuffix(n, ".go") && !strings.HasSuffix(n, "_test.go") || n == "go.mod" || n == "go.sum" {
			if err := copyFile(filepath.Join(repo, n), filepath.Join(dir, n)); err != nil {
				return dir, err
			}
		}
	}
	err = filepath.Walk(filepath.Join(repo, "schemas"), func(p string, info os.FileInfo, err error) error {
		if err != nil || info.IsDir() {
			return err
		}
		rel, _ := filepath.Rel(repo, p)
		return copyFile(p, filepath.Join(dir, rel))
	})
	return dir, err
}

// runNeutralTest applies every behaviour-preserving refactoring of /verif/refactors to a scratch copy and
// requires that the property's check reports nothing it does not already report on the tree itself.
func runNeutralTest(prop, repo string, baseKeys map[string]bool) ([]selfTestResult, bool) {
	vd := verifDir()
	ents, err := os.ReadDir(filepath.Join(vd, "refactors"))
	if err != nil {
		return nil, true
	}
	exe, _ := os.Executable()
	var ids []string
	for _, e := range ents {
		if e.IsDir() {
			ids = append(ids, e.Name())
		}
	}
	results := make([]selfTestResult, len(ids))
	sem := make(chan struct{}, 12)
	var wg sync.WaitGroup
	for i, id := range ids {
		wg.Add(1)
		go func(i int, id string) {
			defer wg.Done()
			sem <- struct{}{}
			defer func() { <-sem }()
			res := selfTestResult{Name: "neutral:" + id}
			defer func() { results[i] = res }()
			dir, err := scratchCopy(repo)
			defer os.RemoveAll(dir)
			if err != nil {
				res.Status = "skipped(copy)"
				return
			}
			patch := filepath.Join(vd, "refactors", id, "patch.diff")
			pc := exec.Command("patch", "-p1", "-s", "-F0", "-i", patch)
			pc.Dir = dir
			if out, err := pc.CombinedOutput(); err != nil {
				_ = out
				res.Status = "skipped(anchor)"
				return
			}
			cmd := exec.Command(exe, "-property", prop, "-tier", "quick", "-repo", dir, "-no-evidence")
			cmd.Env = append(os.Environ(), "VERIF_DIR="+vd, "SPECVET_NOREPLAY=1")
			out, _ := cmd.CombinedOutput()
			txt := string(out)
			if strings.Contains(txt, "CHECKER-ERROR") && strings.Contains(txt, "type/load errors") {
				res.Status = "skipped(no-compile)"
				return
			}
			var fresh []string
			for _, line := range strings.Split(txt, "\n") {
				if strings.HasPrefix(line, "VIOLATED ") || strings.HasPrefix(line, "UNDECIDED ") {
					f := strings.Fields(line)
					if len(f) > 1 && !baseKeys[f[1]] {
						fresh = append(fresh, f[1])
					}
				}
			}
			if len(fresh) > 0 {
				res.Status = "FALSE-ALARM"
				res.Matched = strings.Join(fresh, ",")
				return
			}
			res.Status = "silent"
		}(i, id)
	}
	wg.Wait()
	ok := true
	for _, r := range results {
		if r.Status == "FALSE-ALARM" {
			fmt.Printf("selftest %-60s %s %s\n", r.Name, r.Status, r.Matched)
			ok = false
		}
	}
	return results, ok
}

func runSelfTest(prop, repo string) ([]selfTestResult, bool) {
	vd := verifDir()
	corpus, err := loadCorpus(vd, prop)
	if err != nil {
		fmt.Printf("CHECKER-ERROR cannot load mutation corpus: %v\n", err)
		return nil, false
	}
	exe, _ := os.Executable()
	results := make([]selfTestResult, len(corpus))
	sem := make(chan struct{}, 12)
	var wg sync.WaitGroup
	for i, m := range corpus {
		wg.Add(1)
		go func(i int, m corpusMutant) {
			defer wg.Done()
			sem <- struct{}{}
			defer func() { <-sem }()
			res := selfTestResult{Name: m.Name}
			defer func() { results[i] = res }()
			src, err := os.ReadFile(filepath.Join(repo, m.File))
			if err != nil || strings.Count(string(src), m.Old) < 1 {
				res.Status = "skipped(anchor)"
				return
			}
			dir, err := scratchCopy(repo)
			defer os.RemoveAll(dir)
			if err != nil {
				res.Status = "skipped(copy:" + err.Error() + ")"
				return
			}
			mut := strings.Replace(string(src), m.Old, m.New, 1)
			if err := os.WriteFile(filepath.Join(dir, m.File), []byte(mut), 0o644); err != nil {
				res.Status = "skipped(write)"
				return
			}
			cmd := exec.Command(exe, "-property", prop, "-tier", "quick", "-repo", dir, "-no-evidence")
			cmd.Env = append(os.Environ(), "VERIF_DIR="+vd, "SPECVET_NOREPLAY=1")
			out, _ := cmd.CombinedOutput()
			txt := string(out)
			if strings.Contains(txt, "CHECKER-ERROR") && strings.Contains(txt, "type/load errors") {
				res.Status = "skipped(no-compile)"
				return
			}
			for _, line := range strings.Split(txt, "\n") {
				if (strings.HasPrefix(line, "VIOLATED ") || strings.HasPrefix(line, "UNDECIDED ")) && strings.Contains(line, " "+m.Expect) {
					res.Status = "reported"
					res.Matched = strings.SplitN(strings.TrimPrefix(strings.TrimPrefix(line, "VIOLATED "), "UNDECIDED "), " ", 2)[0]
					return
				}
			}
			res.Status = "MISSED"
		}(i, m)
	}
	wg.Wait()
	ok := true
	for _, r := range results {
		fmt.Printf("selftest %-60s %s %s\n", r.Name, r.Status, r.Matched)
		if r.Status == "MISSED" {
			ok = false
		}
	}
	return results, ok
}
