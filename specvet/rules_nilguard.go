package main

import (
	"go/ast"
	"go/token"
	"go/types"
)

// typed-nil-guard: a value located inside a typed document by a JSON pointer
// can be a nil pointer of a model type (an absent optional keyword such as
// items, not, schema). The pinned swag.WriteJSON - reached through
// DynamicJSONToStruct - type-asserts its argument to json.Marshaler and calls
// MarshalJSON directly; the model declares MarshalJSON on value receivers
// (rule marshal-receiver), so that call panics for a nil pointer. A necessary
// condition for "a reference that designates nothing yields an error, never a
// panic" is therefore a nil-pointer test between the pointer evaluation and
// the copy-out.

func init() {
	registerRule("typed-nil-guard", 1, "a value located by a JSON pointer is tested for a typed nil pointer before it is handed to the JSON copy-out", ruleTypedNilGuard)
}

// swagCallsMarshalerDirectly reads the pinned swag source: WriteJSON asserts json.Marshaler and calls it without a nil test.
func (c *Ctx) swagCallsMarshalerDirectly() (bool, bool) {
	dep := c.Pkg.Imports["github.com/go-openapi/swag"]
	if dep == nil {
		return false, false
	}
	foundFn, direct := false, false
	for _, f := range dep.Syntax {
		for _, d := range f.Decls {
			fd, ok := d.(*ast.FuncDecl)
			if !ok || fd.Name.Name != "WriteJSON" || fd.Body == nil {
				continue
			}
			foundFn = true
			ast.Inspect(fd.Body, func(n ast.Node) bool {
				ifs, ok := n.(*ast.IfStmt)
				if !ok || ifs.Init == nil {
					return true
				}
				as, ok := ifs.Init.(*ast.AssignStmt)
				if !ok || len(as.Rhs) != 1 {
					return true
				}
				ta, ok := as.Rhs[0].(*ast.TypeAssertExpr)
				if !ok {
					return true
				}
				if se, ok := ta.Type.(*ast.SelectorExpr); !ok || se.Sel.Name != "Marshaler" {
					return true
				}
				ast.Inspect(ifs.Body, func(m ast.Node) bool {
					if call, ok := m.(*ast.CallExpr); ok {
						if se, ok := call.Fun.(*ast.SelectorExpr); ok && se.Sel.Name == "MarshalJSON" {
							direct = true
						}
					}
					return true
				})
				return true
			})
		}
	}
	return foundFn, direct
}

func ruleTypedNilGuard(c *Ctx) {
	const rule = "typed-nil-guard"
	found, direct := c.swagCallsMarshalerDirectly()
	if !found {
		c.undecided(rule, "swag.WriteJSON", token.NoPos, "cannot read the pinned swag.WriteJSON")
		return
	}
	if !direct {
		c.ob(rule, "swag.WriteJSON:premise", token.NoPos, true, "")
		c.note("typed-nil-guard: the pinned swag no longer calls MarshalJSON directly on its argument; no guard is needed")
		return
	}
	n := 0
	for _, fd := range c.allFuncDecls() {
		if fd.Body == nil {
			continue
		}
		fn := c.funcName(fd)
		// values produced by a JSON pointer evaluation
		located := map[types.Object]*ast.CallExpr{}
		ast.Inspect(fd.Body, func(nd ast.Node) bool {
			as, ok := nd.(*ast.AssignStmt)
			if !ok || len(as.Rhs) != 1 {
				return true
			}
			call, ok := unparen(as.Rhs[0]).(*ast.CallExpr)
			if !ok || !c.isJSONPointerGet(call) {
				return true
			}
			if id, ok := as.Lhs[0].(*ast.Ident); ok && id.Name != "_" {
				located[c.objOf(id)] = call
			}
			return true
		})
		if len(located) == 0 {
			continue
		}
		ast.Inspect(fd.Body, func(nd ast.Node) bool {
			call, ok := nd.(*ast.CallExpr)
			if !ok || !c.isPkgFunc(call, "github.com/go-openapi/swag", "DynamicJSONToStruct") || len(call.Args) != 2 {
				return true
			}
			id, ok := unparen(call.Args[0]).(*ast.Ident)
			if !ok {
				return true
			}
			v := c.objOf(id)
			if _, isLocated := located[v]; !isLocated {
				return true
			}
			n++
			c.saw(fn)
			// a guard: an always-leaving `if` whose condition tests the value with reflect's IsNil (directly or through a package helper)
			guarded := false
			ast.Inspect(fd.Body, func(m ast.Node) bool {
				ifs, ok := m.(*ast.IfStmt)
				if !ok || ifs.End() > call.Pos() || !blockAlwaysLeaves(ifs.Body) {
					return true
				}
				if c.condTestsTypedNil(ifs, v, 0) {
					guarded = true
				}
				return true
			})
			c.ob(rule, fn+":"+id.Name, call.Pos(), guarded,
				"the value located by the JSON pointer goes to swag.DynamicJSONToStruct without a typed-nil test: on a typed root, a $ref to an absent optional member (e.g. #/definitions/x/items, #/parameters/p/items, .../not) panics with 'value method MarshalJSON called using nil pointer' instead of returning an error")
			// every way of designating nothing is covered: the untyped nil (a JSON null, a nil interface member) and
			// nil maps and slices of a typed document, not only nil pointers - those copy out as "null", which
			// decodes into nothing: a zero value with a nil error
			if guarded {
				untyped, kinds := false, map[string]bool{}
				scan := func(n ast.Node, subject types.Object) {
					ast.Inspect(n, func(m ast.Node) bool {
						switch x := m.(type) {
						case *ast.BinaryExpr:
							if x.Op == token.EQL || x.Op == token.NEQ {
								for _, pr := range [][2]ast.Expr{{x.X, x.Y}, {x.Y, x.X}} {
									if sid, ok := unparen(pr[0]).(*ast.Ident); ok && c.objOf(sid) == subject && isNilIdent(c, pr[1]) {
										untyped = true
									}
								}
							}
						case *ast.CallExpr:
							// !reflect.ValueOf(subject).IsValid(): the other way of asking for the untyped nil
							if _, name, pkg, isM := c.calleeMethod(x); isM && pkg == "reflect" && name == "IsValid" {
								if se, ok := unparen(x.Fun).(*ast.SelectorExpr); ok {
									src := unparen(se.X)
									if rid, isId := src.(*ast.Ident); isId {
										if gfd := c.funcContaining(rid.Pos()); gfd != nil {
											if ds := c.localDefs(gfd)[c.objOf(rid)]; len(ds) == 1 && ds[0] != nil {
												src = unparen(ds[0])
											}
										}
									}
									if vc, isCall := src.(*ast.CallExpr); isCall && c.isPkgFunc(vc, "reflect", "ValueOf") && len(vc.Args) == 1 {
										if aid, isId := unparen(vc.Args[0]).(*ast.Ident); isId && c.objOf(aid) == subject {
											untyped = true
										}
									}
								}
							}
						case *ast.SelectorExpr:
							if pid, ok := x.X.(*ast.Ident); ok {
								if pn, isPkg := c.objOf(pid).(*types.PkgName); isPkg && pn.Imported().Path() == "reflect" {
									switch x.Sel.Name {
									case "Ptr", "Pointer", "Map", "Slice", "Interface":
										kinds[x.Sel.Name] = true
									}
								}
							}
						}
						return true
					})
				}
				ast.Inspect(fd.Body, func(m ast.Node) bool {
					ifs, ok := m.(*ast.IfStmt)
					if !ok || ifs.End() > call.Pos() || !blockAlwaysLeaves(ifs.Body) || !c.condTestsTypedNil(ifs, v, 0) {
						return true
					}
					if ifs.Init != nil {
						scan(ifs.Init, v)
					}
					scan(ifs.Cond, v)
					// one level of package helper: its parameter stands for the value
					ast.Inspect(ifs.Cond, func(k ast.Node) bool {
						hc, isC := k.(*ast.CallExpr)
						if !isC {
							return true
						}
						if g, isF := c.callee(hc).(*types.Func); isF && g.Pkg() == c.Types {
							if gfd := c.decl(g); gfd != nil && gfd.Body != nil {
								for ai, a := range hc.Args {
									if aid, ok := unparen(a).(*ast.Ident); ok && c.objOf(aid) == v {
										scan(gfd.Body, c.paramObj(gfd, ai))
									}
								}
							}
						}
						return true
					})
					return true
				})
				allKinds := len(kinds) == 0 || (kinds["Ptr"] || kinds["Pointer"]) && kinds["Map"] && kinds["Slice"]
				why := ""
				switch {
				case !untyped:
					why = "the guard tests for typed nil pointers only: a JSON null target (or a nil interface-typed member such as example) is copied out as null and decodes into nothing - the reference yields a zero value with a nil error instead of an error"
				case !allKinds:
					why = "the guard restricts its nil test to some reflect kinds and leaves out maps or slices: a $ref to an absent map or list member of a typed document (.../properties, .../required) yields a zero value with a nil error while the generic document reports an error"
				}
				c.ob(rule, fn+":"+id.Name+":covers-every-nil", call.Pos(), untyped && allKinds, why)
			}
			return true
		})
	}
	// a located value handed back directly from a pointer-typed case of a type switch must be nil-checked too
	for _, fd := range c.allFuncDecls() {
		if fd.Body == nil {
			continue
		}
		located := map[types.Object]bool{}
		ast.Inspect(fd.Body, func(nd ast.Node) bool {
			if as, ok := nd.(*ast.AssignStmt); ok && len(as.Rhs) == 1 {
				if call, ok := unparen(as.Rhs[0]).(*ast.CallExpr); ok && c.isJSONPointerGet(call) {
					if id, ok := as.Lhs[0].(*ast.Ident); ok && id.Name != "_" {
						located[c.objOf(id)] = true
					}
				}
			}
			return true
		})
		if len(located) == 0 {
			continue
		}
		ast.Inspect(fd.Body, func(nd ast.Node) bool {
			ts, ok := nd.(*ast.TypeSwitchStmt)
			if !ok {
				return true
			}
			as, ok := ts.Assign.(*ast.AssignStmt)
			if !ok || len(as.Rhs) != 1 {
				return true
			}
			ta, ok := unparen(as.Rhs[0]).(*ast.TypeAssertExpr)
			if !ok {
				return true
			}
			id, ok := unparen(ta.X).(*ast.Ident)
			if !ok || !located[c.objOf(id)] {
				return true
			}
			for _, cl := range ts.Body.List {
				cc := cl.(*ast.CaseClause)
				bound := c.Info.Implicits[cc]
				if bound == nil || len(cc.List) != 1 {
					continue
				}
				if _, isPtr := types.Unalias(bound.Type()).(*types.Pointer); !isPtr {
					continue
				}
				// returns the bound pointer with a nil error?
				for _, st := range cc.Body {
					rs, ok := st.(*ast.ReturnStmt)
					if !ok || len(rs.Results) != 2 || !isNilIdent(c, rs.Results[1]) {
						continue
					}
					rid, ok := unparen(rs.Results[0]).(*ast.Ident)
					if !ok || c.objOf(rid) != bound {
						continue
					}
					n++
					c.saw(c.funcName(fd))
					guarded := false
					for _, prev := range cc.Body {
						if prev == st {
							break
						}
						if ifs, ok := prev.(*ast.IfStmt); ok && blockAlwaysLeaves(ifs.Body) {
							if be, ok := unparen(ifs.Cond).(*ast.BinaryExpr); ok && be.Op == token.EQL && isNilIdent(c, be.Y) {
								if x, ok := unparen(be.X).(*ast.Ident); ok && c.objOf(x) == bound {
									guarded = true
								}
							}
						}
					}
					c.ob(rule, c.funcName(fd)+":case("+types.TypeString(bound.Type(), types.RelativeTo(c.Types))+")", rs.Pos(), guarded,
						"a pointer located in a typed document is returned as the result without a nil test: a reference to an absent optional member (e.g. #/definitions/x/not) yields a nil schema with a nil error instead of an error")
				}
			}
			return true
		})
	}
	if n == 0 {
		c.ob(rule, "copy-out-site", token.NoPos, false, "no site hands a pointer-located value to DynamicJSONToStruct: the rule lost its anchor")
	}
}

// condTestsTypedNil: the if statement (init + condition) applies reflect's IsNil to the variable, directly or
// through a package function whose body does.
func (c *Ctx) condTestsTypedNil(ifs *ast.IfStmt, v types.Object, depth int) bool {
	mentions := func(n ast.Node) bool {
		found := false
		ast.Inspect(n, func(m ast.Node) bool {
			if id, ok := m.(*ast.Ident); ok && c.objOf(id) == v {
				found = true
			}
			return true
		})
		return found
	}
	ok := false
	check := func(n ast.Node) {
		if n == nil {
			return
		}
		ast.Inspect(n, func(m ast.Node) bool {
			call, isC := m.(*ast.CallExpr)
			if !isC {
				return true
			}
			if r, name, pkg, isM := c.calleeMethod(call); isM && pkg == "reflect" && r == "Value" && name == "IsNil" {
				ok = true
			}
			if g, isF := c.callee(call).(*types.Func); isF && g.Pkg() == c.Types && depth < 2 {
				if gfd := c.decl(g); gfd != nil && gfd.Body != nil {
					ast.Inspect(gfd.Body, func(k ast.Node) bool {
						if cc, isCC := k.(*ast.CallExpr); isCC {
							if r, name, pkg, isM := c.calleeMethod(cc); isM && pkg == "reflect" && r == "Value" && name == "IsNil" {
								ok = true
							}
						}
						return true
					})
				}
			}
			return true
		})
	}
	if ifs.Init != nil && mentions(ifs.Init) {
		check(ifs.Init)
		check(ifs.Cond)
	} else if mentions(ifs.Cond) {
		check(ifs.Cond)
	}
	return ok
}
