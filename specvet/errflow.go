package main

import (
	"fmt"
	"go/ast"
	"go/token"
	"go/types"
)

// errSite is one call whose last result is an error.
type errSite struct {
	call       *ast.CallExpr
	calleeName string
	errObj     types.Object // variable receiving the error; nil when returned directly or discarded
	form       string       // "returned", "assigned", "if-init", "blank", "dropped", "other"
	stmt       ast.Stmt     // statement containing the call
	block      []ast.Stmt   // statement list containing stmt
	idx        int
	ifStmt     *ast.IfStmt // for if-init form
}

func isErrorType(t types.Type) bool {
	if t == nil {
		return false
	}
	n, ok := types.Unalias(t).(*types.Named)
	return ok && n.Obj().Pkg() == nil && n.Obj().Name() == "error"
}

func (c *Ctx) callReturnsError(call *ast.CallExpr) bool {
	t := c.typeOf(call)
	if t == nil {
		return false
	}
	if tup, ok := t.(*types.Tuple); ok {
		return tup.Len() > 0 && isErrorType(tup.At(tup.Len()-1).Type())
	}
	return isErrorType(t)
}

func (c *Ctx) calleeDisplay(call *ast.CallExpr) string {
	if f, ok := c.callee(call).(*types.Func); ok {
		sig := f.Type().(*types.Signature)
		if sig.Recv() != nil {
			return typeNameOf(derefType(sig.Recv().Type())) + "." + f.Name()
		}
		if f.Pkg() != nil && f.Pkg() != c.Types {
			return f.Pkg().Name() + "." + f.Name()
		}
		return f.Name()
	}
	return exprString(call.Fun)
}

// errorSites enumerates the error-returning calls of a function body with their syntactic context.
func (c *Ctx) errorSites(fd *ast.FuncDecl) []errSite {
	var out []errSite
	var walkBlock func(list []ast.Stmt)
	var walkStmt func(s ast.Stmt, list []ast.Stmt, idx int)
	record := func(call *ast.CallExpr, s ast.Stmt, list []ast.Stmt, idx int, form string, obj types.Object, ifs *ast.IfStmt) {
		out = append(out, errSite{call: call, calleeName: c.calleeDisplay(call), errObj: obj, form: form, stmt: s, block: list, idx: idx, ifStmt: ifs})
	}
	// classify calls inside a simple statement
	classify := func(s ast.Stmt, list []ast.Stmt, idx int, ifs *ast.IfStmt) {
		handled := map[*ast.CallExpr]bool{}
		switch st := s.(type) {
		case *ast.AssignStmt:
			if len(st.Rhs) == 1 {
				if call, ok := unparen(st.Rhs[0]).(*ast.CallExpr); ok && c.callReturnsError(call) {
					handled[call] = true
					last := st.Lhs[len(st.Lhs)-1]
					form := "assigned"
					if ifs != nil {
						form = "if-init"
					}
					if id, ok := last.(*ast.Ident); ok {
						if id.Name == "_" {
							record(call, s, list, idx, "blank", nil, ifs)
						} else {
							record(call, s, list, idx, form, c.objOf(id), ifs)
						}
					} else {
						record(call, s, list, idx, "other", nil, ifs)
					}
				}
			}
		case *ast.ReturnStmt:
			for _, r := range st.Results {
				if call, ok := unparen(r).(*ast.CallExpr); ok && c.callReturnsError(call) {
					handled[call] = true
					record(call, s, list, idx, "returned", nil, ifs)
				}
			}
		case *ast.ExprStmt:
			if call, ok := unparen(st.X).(*ast.CallExpr); ok && c.callReturnsError(call) {
				handled[call] = true
				record(call, s, list, idx, "dropped", nil, ifs)
			}
		case *ast.DeclStmt:
			if gd, ok := st.Decl.(*ast.GenDecl); ok {
				for _, sp := range gd.Specs {
					if vs, ok := sp.(*ast.ValueSpec); ok && len(vs.Values) == 1 {
						if call, ok := unparen(vs.Values[0]).(*ast.CallExpr); ok && c.callReturnsError(call) {
							handled[call] = true
							record(call, s, list, idx, "assigned", c.objOf(vs.Names[len(vs.Names)-1]), ifs)
						}
					}
				}
			}
		}
		// any other error-returning call nested in the statement
		ast.Inspect(s, func(n ast.Node) bool {
			switch x := n.(type) {
			case *ast.FuncLit:
				return false
			case *ast.BlockStmt:
				return false
			case *ast.CallExpr:
				if !handled[x] && c.callReturnsError(x) {
					record(x, s, list, idx, "other", nil, ifs)
				}
			}
			return true
		})
	}
	walkStmt = func(s ast.Stmt, list []ast.Stmt, idx int) {
		switch st := s.(type) {
		case *ast.BlockStmt:
			walkBlock(st.List)
		case *ast.IfStmt:
			if st.Init != nil {
				classify(st.Init, list, idx, st)
			}
			// calls inside the condition
			ast.Inspect(st.Cond, func(n ast.Node) bool {
				if call, ok := n.(*ast.CallExpr); ok && c.callReturnsError(call) {
					record(call, s, list, idx, "other", nil, st)
				}
				return true
			})
			walkBlock(st.Body.List)
			if st.Else != nil {
				walkStmt(st.Else, list, idx)
			}
		case *ast.ForStmt:
			if st.Init != nil {
				classify(st.Init, list, idx, nil)
			}
			walkBlock(st.Body.List)
		case *ast.RangeStmt:
			walkBlock(st.Body.List)
		case *ast.SwitchStmt:
			if st.Init != nil {
				classify(st.Init, list, idx, nil)
			}
			for _, cl := range st.Body.List {
				walkBlock(cl.(*ast.CaseClause).Body)
			}
		case *ast.TypeSwitchStmt:
			for _, cl := range st.Body.List {
				walkBlock(cl.(*ast.CaseClause).Body)
			}
		case *ast.SelectStmt:
			for _, cl := range st.Body.List {
				walkBlock(cl.(*ast.CommClause).Body)
			}
		case *ast.LabeledStmt:
			walkStmt(st.Stmt, list, idx)
		case *ast.DeferStmt, *ast.GoStmt:
			// deferred closures are separate bodies
			var call *ast.CallExpr
			if d, ok := st.(*ast.DeferStmt); ok {
				call = d.Call
			} else {
				call = st.(*ast.GoStmt).Call
			}
			if fl, ok := call.Fun.(*ast.FuncLit); ok {
				walkBlock(fl.Body.List)
			}
		default:
			classify(s, list, idx, nil)
		}
	}
	walkBlock = func(list []ast.Stmt) {
		for i, s := range list {
			walkStmt(s, list, i)
		}
	}
	walkBlock(fd.Body.List)
	return out
}

// stopOnErrorCall recognises `<x>.shouldStopOnError(err)` (found by role: a
// package method taking one error and returning bool).
func (c *Ctx) isStopPredicate(call *ast.CallExpr) bool {
	f, ok := c.callee(call).(*types.Func)
	if !ok {
		// the predicate handed in as a function value: a func(error) bool parameter of an unexported function
		// every call site of which passes the stop predicate (as a method value)
		if id, isId := unparen(call.Fun).(*ast.Ident); isId {
			return c.paramAlwaysStopPredicate(c.objOf(id))
		}
		return false
	}
	if f.Pkg() != c.Types {
		return false
	}
	sig := f.Type().(*types.Signature)
	if sig.Params().Len() != 1 || sig.Results().Len() != 1 || !isErrorType(sig.Params().At(0).Type()) {
		return false
	}
	b, ok := sig.Results().At(0).Type().Underlying().(*types.Basic)
	return ok && b.Kind() == types.Bool
}

// errCheckKind classifies a condition over the error variable:
// "nonnil" (err != nil), "stop" (stop-predicate(err)), "nil" (err == nil), "" otherwise.
func (c *Ctx) errCheckKind(cond ast.Expr, errObj types.Object) string {
	cond = unparen(cond)
	switch x := cond.(type) {
	case *ast.BinaryExpr:
		// A && err == nil: inside the branch the error is nil
		if x.Op == token.LAND {
			if c.errCheckKind(x.X, errObj) == "nil" || c.errCheckKind(x.Y, errObj) == "nil" {
				return "nil"
			}
		}
		if x.Op == token.NEQ || x.Op == token.EQL {
			for _, pr := range [][2]ast.Expr{{x.X, x.Y}, {x.Y, x.X}} {
				if id, ok := unparen(pr[0]).(*ast.Ident); ok && c.objOf(id) == errObj && isNilIdent(c, pr[1]) {
					if x.Op == token.NEQ {
						return "nonnil"
					}
					return "nil"
				}
			}
		}
	case *ast.CallExpr:
		if c.isStopPredicate(x) && len(x.Args) == 1 {
			if id, ok := unparen(x.Args[0]).(*ast.Ident); ok && c.objOf(id) == errObj {
				return "stop"
			}
		}
	}
	return ""
}

// returnsErr: the block's final statement returns the error variable (or a wrapping call that takes it) in error position.
func (c *Ctx) blockReturnsErr(b *ast.BlockStmt, errObj types.Object) (bool, string) {
	if len(b.List) == 0 {
		return false, "the error branch is empty: the error is swallowed"
	}
	// panic(err) / panic(fmt.Errorf(.. err ..)): the failure is not silent (whether a panic is acceptable there is
	// decided by the panic-site inventory, not here)
	if es, isExpr := b.List[len(b.List)-1].(*ast.ExprStmt); isExpr {
		if call, isCall := es.X.(*ast.CallExpr); isCall && c.isBuiltin(call, "panic") {
			uses := false
			ast.Inspect(call, func(n ast.Node) bool {
				if id, ok := n.(*ast.Ident); ok && c.objOf(id) == errObj {
					uses = true
				}
				return true
			})
			if uses {
				return true, ""
			}
		}
	}
	rs, ok := b.List[len(b.List)-1].(*ast.ReturnStmt)
	if !ok {
		return false, "the error branch does not return: the error is swallowed"
	}
	if len(rs.Results) == 0 {
		return false, "the error branch returns nothing"
	}
	last := unparen(rs.Results[len(rs.Results)-1])
	if id, ok := last.(*ast.Ident); ok {
		if c.objOf(id) == errObj {
			return true, ""
		}
		if isNilIdent(c, last) {
			return false, "the error is checked but nil is returned in its place: the failure is silent"
		}
		return false, "the error is checked but a different value (" + id.Name + ") is returned"
	}
	if call, ok := last.(*ast.CallExpr); ok {
		uses := false
		for _, a := range call.Args {
			if id, ok := unparen(a).(*ast.Ident); ok && c.objOf(id) == errObj {
				uses = true
			}
		}
		if uses {
			return true, ""
		}
	}
	return false, "the error branch returns " + exprString(last) + ", not the error"
}

// errorFate decides whether the error of a site reaches the caller.
func (c *Ctx) errorFate(fd *ast.FuncDecl, s errSite) (bool, string) {
	switch s.form {
	case "returned":
		return true, ""
	case "blank":
		return false, "error assigned to _ : a failure of " + s.calleeName + " is silent"
	case "dropped":
		return false, "result of " + s.calleeName + " is discarded"
	case "other":
		return false, "error-returning call to " + s.calleeName + " in a context the rule does not recognise"
	case "if-init":
		kind := c.errCheckKind(s.ifStmt.Cond, s.errObj)
		switch kind {
		case "nonnil", "stop":
			return c.branchPropagates(fd, s.ifStmt.Body, s.errObj)
		case "nil":
			return true, ""
		}
		return false, "the condition does not test the error just assigned"
	case "assigned":
		// the next statement must test or return this very variable
		if s.idx+1 >= len(s.block) {
			return false, "error assigned at the end of a block and never tested"
		}
		switch nx := s.block[s.idx+1].(type) {
		case *ast.IfStmt:
			kind := c.errCheckKind(nx.Cond, s.errObj)
			switch kind {
			case "nonnil", "stop":
				return c.branchPropagates(fd, nx.Body, s.errObj)
			case "nil":
				return true, ""
			}
			return false, fmt.Sprintf("the statement after the call tests %s, not the error just assigned", exprString(nx.Cond))
		case *ast.ReturnStmt:
			if len(nx.Results) > 0 {
				if id, ok := unparen(nx.Results[len(nx.Results)-1]).(*ast.Ident); ok && c.objOf(id) == s.errObj {
					return true, ""
				}
			}
			return false, "the error is not what is returned next"
		}
		return false, "the error is not tested by the statement that follows the call (it may be overwritten first)"
	}
	return false, "unclassified"
}

// branchPropagates: the error branch returns the error (blockReturnsErr), or parks it in another error variable
// that a later statement of the function tests and returns.
func (c *Ctx) branchPropagates(fd *ast.FuncDecl, b *ast.BlockStmt, errObj types.Object) (bool, string) {
	ok, why := c.blockReturnsErr(b, errObj)
	if ok {
		return true, ""
	}
	var parked types.Object
	for _, st := range b.List {
		as, isA := st.(*ast.AssignStmt)
		if !isA || len(as.Lhs) != 1 || len(as.Rhs) != 1 {
			continue
		}
		lid, okL := unparen(as.Lhs[0]).(*ast.Ident)
		rid, okR := unparen(as.Rhs[0]).(*ast.Ident)
		if okL && okR && c.objOf(rid) == errObj && isErrorType(c.typeOf(lid)) && c.objOf(lid) != errObj {
			parked = c.objOf(lid)
		}
	}
	if parked == nil {
		return false, why
	}
	found, fwhy := false, "the error is parked in "+parked.Name()+" but no later statement tests and returns it"
	ast.Inspect(fd.Body, func(n ast.Node) bool {
		ifs, isIf := n.(*ast.IfStmt)
		if !isIf || ifs.Pos() < b.End() {
			return true
		}
		if k := c.errCheckKind(ifs.Cond, parked); k == "nonnil" || k == "stop" {
			if good, w := c.blockReturnsErr(ifs.Body, parked); good {
				found = true
			} else {
				fwhy = w
			}
		}
		return true
	})
	return found, fwhy
}

// paramAlwaysStopPredicate: o is a func(error) bool parameter of a package function, and at every static call of
// that function the argument in its position is a method value of the stop predicate.
func (c *Ctx) paramAlwaysStopPredicate(o types.Object) bool {
	v, ok := o.(*types.Var)
	if !ok {
		return false
	}
	sig, ok := v.Type().Underlying().(*types.Signature)
	if !ok || sig.Params().Len() != 1 || sig.Results().Len() != 1 || !isErrorType(sig.Params().At(0).Type()) {
		return false
	}
	var owner *ast.FuncDecl
	idx := -1
	for _, fd := range c.allFuncDecls() {
		if i := c.paramIndex(fd, o); i >= 0 {
			owner, idx = fd, i
		}
	}
	if owner == nil {
		return false
	}
	self, _ := c.Info.Defs[owner.Name].(*types.Func)
	if self == nil || self.Exported() {
		return false
	}
	sites, good := 0, true
	for _, g := range c.allFuncDecls() {
		if g.Body == nil {
			continue
		}
		ast.Inspect(g.Body, func(n ast.Node) bool {
			call, ok := n.(*ast.CallExpr)
			if !ok || c.callee(call) != types.Object(self) {
				return true
			}
			sites++
			if idx >= len(call.Args) {
				good = false
				return true
			}
			se, isSel := unparen(call.Args[idx]).(*ast.SelectorExpr)
			if !isSel {
				good = false
				return true
			}
			m, isM := c.Info.Uses[se.Sel].(*types.Func)
			if !isM || !c.isStopPredicateFunc(m) {
				good = false
			}
			return true
		})
	}
	return good && sites > 0
}
