package main

import (
	"fmt"
	"go/ast"
	"go/token"
	"go/types"
	"strings"
)

func init() {
	registerRule("thread-args", 48, "at every call between expander family members the base path and loader arguments derive from the caller's own, from id re-scoping, or from the resolver of the reference just followed", ruleThreadArgs)
	registerRule("switch-on-follow", 3, "after a followed $ref the resolution scope switches: transitiveResolver and updateBasePath results are what the recursive expansion receives", ruleSwitchOnFollow)
	registerRule("skip-shape", 5, "skip-schemas mode: definitions are not expanded, schema $refs are rebased without resolving, everything else is still expanded", ruleSkipShape)
}

// lastStringParam returns the index of the callee's last string parameter.
func lastStringParamIndex(sig *types.Signature) int {
	idx := -1
	for i := 0; i < sig.Params().Len(); i++ {
		if isStringType(sig.Params().At(i).Type()) {
			idx = i
		}
	}
	return idx
}

type threadCtx struct {
	at     token.Pos // only definitions before this position reach the use
	c      *Ctx
	fam    *expFamily
	fd     *ast.FuncDecl
	defs   map[types.Object][]ast.Expr
	base   types.Object // caller's own base path parameter
	loader types.Object // caller's own loader parameter / receiver
}

func (c *Ctx) newThreadCtx(fam *expFamily, fd *ast.FuncDecl) *threadCtx {
	t := &threadCtx{c: c, fam: fam, fd: fd, defs: c.localDefs(fd)}
	f, _ := c.Info.Defs[fd.Name].(*types.Func)
	sig := f.Type().(*types.Signature)
	if i := lastStringParamIndex(sig); i >= 0 {
		t.base = c.paramObj(fd, i)
	}
	if r := c.recvObj(fd); r != nil && isNamed(r.Type(), c.Types, fam.loader.Obj().Name()) {
		t.loader = r
	}
	for i := 0; ; i++ {
		p := c.paramObj(fd, i)
		if p == nil {
			break
		}
		if isNamed(p.Type(), c.Types, fam.loader.Obj().Name()) {
			t.loader = p
		}
	}
	return t
}

func (t *threadCtx) defsBefore(o types.Object) []ast.Expr {
	var out []ast.Expr
	for _, d := range t.defs[o] {
		if d == nil || !t.at.IsValid() || d.Pos() < t.at {
			out = append(out, d)
		}
	}
	return out
}

// baseSources classifies where a base-path expression comes from: a set of tags
// among "own", "id", "update", "remote"; any other source is reported as text.
func (t *threadCtx) baseSources(e ast.Expr, depth int, out map[string]bool) {
	c := t.c
	e = unparen(e)
	if depth > 5 {
		out["?deep"] = true
		return
	}
	switch x := e.(type) {
	case *ast.Ident:
		o := c.objOf(x)
		if o == t.base {
			out["own"] = true
		}
		// second result of a scope switch helper: loader, base = loader.scopeOf(ref, base)
		tupled := false
		ast.Inspect(t.fd.Body, func(n ast.Node) bool {
			as, ok := n.(*ast.AssignStmt)
			if !ok || len(as.Lhs) != 2 || len(as.Rhs) != 1 || (t.at.IsValid() && as.Pos() >= t.at) {
				return true
			}
			if id, ok := as.Lhs[1].(*ast.Ident); ok && c.objOf(id) == o {
				if call, ok := unparen(as.Rhs[0]).(*ast.CallExpr); ok && c.scopeSwitchHelper(t.fam, call) {
					tupled = true
				}
			}
			return true
		})
		if tupled {
			out["update"] = true
			return
		}
		ds := t.defsBefore(o)
		if len(ds) == 0 && o != t.base {
			out["?"+x.Name] = true
			return
		}
		for _, d := range ds {
			if d == nil {
				out["?zero"] = true
				continue
			}
			t.baseSources(d, depth+1, out)
		}
	case *ast.CallExpr:
		if r, name, pkg, isM := c.calleeMethod(x); isM && pkg == specPkgPath {
			switch {
			case r == t.fam.loader.Obj().Name() && name == "setSchemaID":
				out["id"] = true
				return
			case r == t.fam.loader.Obj().Name() && name == "updateBasePath":
				out["update"] = true
				return
			case r == "Ref" && name == "RemoteURI":
				// of a normalised reference
				if se, ok := unparen(x.Fun).(*ast.SelectorExpr); ok {
					if id, ok := unparen(se.X).(*ast.Ident); ok {
						okn := len(t.defs[c.objOf(id)]) > 0
						for _, d := range t.defs[c.objOf(id)] {
							cc, ok := unparen(d).(*ast.CallExpr)
							if !ok || !c.isSpecFunc(cc, "normalizeRef") {
								okn = false
							}
						}
						if okn || c.isNormalisedRef(t.fd, se.X, nil, 0) {
							out["remote"] = true
							return
						}
					}
				}
			}
		}
		// the inlined form of the base-path switch: normalizeBase(<loader>.options.RelativeBase), the location
		// of the document a (transitive) loader works on
		if c.isSpecFunc(x, "normalizeBase") && len(x.Args) == 1 {
			if p, ok := c.apath(x.Args[0]); ok && len(p.Steps) >= 2 && lastStep(p) == "RelativeBase" && p.Root != nil && isNamed(derefType(p.Root.Type()), c.Types, t.fam.loader.Obj().Name()) {
				// ... which is the base switch only where the loader is known to have changed: all loaders share one
				// options value, so without that test the location read is that of the last document visited by
				// anyone, not of the current one
				switched := false
				for _, cl := range c.literalsAt(t.fd, x) {
					be, isB := unparen(cl.e).(*ast.BinaryExpr)
					if !isB || !(be.Op == token.NEQ && !cl.neg || be.Op == token.EQL && cl.neg) {
						continue
					}
					tx, ty := c.typeOf(be.X), c.typeOf(be.Y)
					if tx != nil && ty != nil && isNamed(derefType(tx), c.Types, t.fam.loader.Obj().Name()) && isNamed(derefType(ty), c.Types, t.fam.loader.Obj().Name()) {
						switched = true
					}
				}
				if switched {
					out["update"] = true
					return
				}
				out["?the shared options' RelativeBase read without testing that the loader changed"] = true
				return
			}
		}
		out["?"+exprString(x)] = true
	default:
		out["?"+exprString(e)] = true
	}
}

// loaderSources: "own" or "transitive"; anything else as text.
func (t *threadCtx) loaderSources(e ast.Expr, depth int, out map[string]bool) {
	c := t.c
	e = unparen(e)
	if depth > 5 {
		out["?deep"] = true
		return
	}
	switch x := e.(type) {
	case *ast.Ident:
		o := c.objOf(x)
		if o == t.loader {
			out["own"] = true
		}
		ds := t.defsBefore(o)
		if len(ds) == 0 && o != t.loader {
			out["?"+x.Name] = true
		}
		for _, d := range ds {
			if d == nil {
				out["?zero"] = true
				continue
			}
			t.loaderSources(d, depth+1, out)
		}
	case *ast.CallExpr:
		if c.isSpecMethod(x, t.fam.loader.Obj().Name(), "transitiveResolver") {
			out["transitive"] = true
			return
		}
		if c.scopeSwitchHelper(t.fam, x) {
			out["transitive"] = true
			return
		}
		out["?"+exprString(x)] = true
	default:
		out["?"+exprString(e)] = true
	}
}

// scopeSwitchHelper: the call is of a loader method returning (loader, base path) each return of which hands back
// either the receiver with the base it was given, or the transitive loader together with the base path switched
// for it (transitiveResolver + updateBasePath packaged as one step).
func (c *Ctx) scopeSwitchHelper(fam *expFamily, call *ast.CallExpr) bool {
	g, _ := c.callee(call).(*types.Func)
	if g == nil || g.Pkg() != c.Types {
		return false
	}
	sig := g.Type().(*types.Signature)
	if sig.Recv() == nil || !isNamed(sig.Recv().Type(), c.Types, fam.loader.Obj().Name()) || sig.Results().Len() != 2 {
		return false
	}
	if !isNamed(derefType(sig.Results().At(0).Type()), c.Types, fam.loader.Obj().Name()) || !isStringType(sig.Results().At(1).Type()) {
		return false
	}
	gfd := c.decl(g)
	if gfd == nil || gfd.Body == nil {
		return false
	}
	if c.scopeHelperMemo == nil {
		c.scopeHelperMemo = map[*types.Func]bool{}
	}
	if v, ok := c.scopeHelperMemo[g]; ok {
		return v
	}
	c.scopeHelperMemo[g] = false
	gt := c.newThreadCtx(fam, gfd)
	switched, good := 0, true
	ast.Inspect(gfd.Body, func(n ast.Node) bool {
		if _, isLit := n.(*ast.FuncLit); isLit {
			return false
		}
		rs, ok := n.(*ast.ReturnStmt)
		if !ok {
			return true
		}
		if len(rs.Results) != 2 {
			good = false
			return true
		}
		gt.at = rs.Pos()
		ls, bs := map[string]bool{}, map[string]bool{}
		gt.loaderSources(rs.Results[0], 0, ls)
		gt.baseSources(rs.Results[1], 0, bs)
		if len(unknownSources(ls)) > 0 || len(unknownSources(bs)) > 0 {
			good = false
			return true
		}
		switch {
		case ls["transitive"] && bs["update"]:
			switched++
		case ls["transitive"] || bs["update"]:
			good = false
		}
		return true
	})
	c.scopeHelperMemo[g] = good && switched > 0
	if c.scopeHelperMemo[g] {
		c.saw(c.funcName(gfd))
	}
	return c.scopeHelperMemo[g]
}

func unknownSources(m map[string]bool) []string {
	var out []string
	for k := range m {
		if len(k) > 0 && k[0] == '?' {
			out = append(out, k[1:])
		}
	}
	return out
}

// loaderArg returns the expression supplying the callee's loader: receiver or parameter.
func (c *Ctx) loaderArgOf(fam *expFamily, call *ast.CallExpr) ast.Expr {
	f, ok := c.callee(call).(*types.Func)
	if !ok {
		return nil
	}
	sig := f.Type().(*types.Signature)
	if sig.Recv() != nil && isNamed(sig.Recv().Type(), c.Types, fam.loader.Obj().Name()) {
		if se, ok := unparen(call.Fun).(*ast.SelectorExpr); ok {
			return se.X
		}
	}
	for i := 0; i < sig.Params().Len() && i < len(call.Args); i++ {
		if isNamed(sig.Params().At(i).Type(), c.Types, fam.loader.Obj().Name()) {
			return call.Args[i]
		}
	}
	return nil
}

func (c *Ctx) baseArgOf(call *ast.CallExpr) ast.Expr {
	f, ok := c.callee(call).(*types.Func)
	if !ok {
		return nil
	}
	i := lastStringParamIndex(f.Type().(*types.Signature))
	if i < 0 || i >= len(call.Args) {
		return nil
	}
	return call.Args[i]
}

func ruleThreadArgs(c *Ctx) {
	const rule = "thread-args"
	fam := c.family()
	if !fam.ok() {
		c.undecided(rule, "family", token.NoPos, "expander family not found by role")
		return
	}
	for _, f := range fam.order {
		fd := c.decl(f)
		t := c.newThreadCtx(fam, fd)
		fn := c.funcName(fd)
		ord := map[string]int{}
		for _, call := range c.familyCalls(fam, fd) {
			g := c.callee(call).(*types.Func)
			c.saw(fn)
			edge := fn + "→" + funcDisplay(g)
			ord[edge]++
			key := fmt.Sprintf("%s#%d", edge, ord[edge])
			t.at = call.Pos()
			if b := c.baseArgOf(call); b != nil {
				src := map[string]bool{}
				t.baseSources(b, 0, src)
				bad := unknownSources(src)
				c.ob(rule, key+":base", call.Pos(), len(bad) == 0 && len(src) > 0,
					fmt.Sprintf("base path argument %s derives from %v: a $ref below would be read relative to another document than the one that textually contains it", exprString(b), bad))
			} else {
				c.undecided(rule, key+":base", call.Pos(), "cannot find the base path argument")
			}
			if l := c.loaderArgOf(fam, call); l != nil {
				src := map[string]bool{}
				t.loaderSources(l, 0, src)
				bad := unknownSources(src)
				c.ob(rule, key+":loader", call.Pos(), len(bad) == 0 && len(src) > 0,
					fmt.Sprintf("loader argument %s derives from %v", exprString(l), bad))
			} else {
				c.undecided(rule, key+":loader", call.Pos(), "cannot find the loader argument")
			}
		}
		// normalizeURI(text, base) / normalizeRef(ref, base) inside a family member: the base is the member's own
		// current base, by the same provenance (a $ref normalised against the root's base instead of the current
		// document's names another location, and whatever is looked up under it - the memo of circular
		// references, the cache - answers for the wrong document)
		nn := 0
		ast.Inspect(fd.Body, func(nd ast.Node) bool {
			call, ok := nd.(*ast.CallExpr)
			if !ok || len(call.Args) != 2 || !(c.isSpecFunc(call, "normalizeURI") || c.isSpecFunc(call, "normalizeRef")) {
				return true
			}
			nn++
			c.saw(fn)
			key := fmt.Sprintf("%s:normalise#%d:base", fn, nn)
			t.at = call.Pos()
			src := map[string]bool{}
			t.baseSources(call.Args[1], 0, src)
			bad := unknownSources(src)
			c.ob(rule, key, call.Pos(), len(bad) == 0 && len(src) > 0,
				fmt.Sprintf("the base %s that a $ref is normalised against derives from %v, not from the base path this expander was given: the $ref then names a location in another document", exprString(call.Args[1]), bad))
			return true
		})
		// updateBasePath(loader, B): B is what the base stays at when the loader has not changed, so it is a base
		// like any other (the location of a normalised reference without its fragment, or the member's own base)
		nu := 0
		ast.Inspect(fd.Body, func(nd ast.Node) bool {
			call, ok := nd.(*ast.CallExpr)
			if !ok || len(call.Args) != 2 {
				return true
			}
			if r, name, pkg, isM := c.calleeMethod(call); !isM || pkg != specPkgPath || r != fam.loader.Obj().Name() || name != "updateBasePath" {
				return true
			}
			nu++
			c.saw(fn)
			t.at = call.Pos()
			src := map[string]bool{}
			t.baseSources(call.Args[1], 0, src)
			bad := unknownSources(src)
			c.ob(rule, fmt.Sprintf("%s:updateBasePath#%d:base", fn, nu), call.Pos(), len(bad) == 0 && len(src) > 0,
				fmt.Sprintf("the base %s handed to the base-path switch derives from %v: not the current base, nor the location (without fragment) of a normalised reference", exprString(call.Args[1]), bad))
			return true
		})
		// transitiveResolver(base, ref): base as above, ref is the $ref of the element at hand
		n := 0
		ast.Inspect(fd.Body, func(nd ast.Node) bool {
			call, ok := nd.(*ast.CallExpr)
			if !ok || !c.isSpecMethod(call, fam.loader.Obj().Name(), "transitiveResolver") || len(call.Args) != 2 {
				return true
			}
			n++
			c.saw(fn)
			key := fmt.Sprintf("%s:transitiveResolver#%d", fn, n)
			t.at = call.Pos()
			src := map[string]bool{}
			t.baseSources(call.Args[0], 0, src)
			bad := unknownSources(src)
			refOK := false
			a := unparen(call.Args[1])
			if p, ok := c.apath(a); ok && (lastStep(p) == "Ref" || isNamed(p.Root.Type(), c.Types, "Ref")) {
				refOK = true
			}
			c.ob(rule, key, call.Pos(), len(bad) == 0 && refOK,
				fmt.Sprintf("transitiveResolver must be created from the current base path and the $ref being followed (base from %v, ref %s)", bad, exprString(call.Args[1])))
			return true
		})
	}
}

func ruleSwitchOnFollow(c *Ctx) {
	const rule = "switch-on-follow"
	fam := c.family()
	if !fam.ok() {
		c.undecided(rule, "family", token.NoPos, "expander family not found by role")
		return
	}
	isFollow := func(g *types.Func) bool {
		if g == fam.resolveRef || c.isResolverWrapper(fam, g) {
			return true
		}
		for _, h := range c.staticCallees(g) {
			if h == fam.resolveRef && !fam.schemaExp[g] {
				sig := g.Type().(*types.Signature)
				return sig.Recv() != nil // Resolve, deref
			}
		}
		return false
	}
	for _, f := range fam.order {
		if isFollow(f) {
			continue
		}
		fd := c.decl(f)
		var follow *ast.CallExpr
		for _, call := range c.familyCalls(fam, fd) {
			if g := c.callee(call).(*types.Func); isFollow(g) && follow == nil {
				follow = call
			}
		}
		if follow == nil {
			continue
		}
		fn := c.funcName(fd)
		c.saw(fn)
		t := c.newThreadCtx(fam, fd)
		later := 0
		okAll, why := true, ""
		for _, call := range c.familyCalls(fam, fd) {
			g := c.callee(call).(*types.Func)
			if call.Pos() <= follow.End() || isFollow(g) {
				continue
			}
			later++
			t.at = call.Pos()
			ls, bs := map[string]bool{}, map[string]bool{}
			if l := c.loaderArgOf(fam, call); l != nil {
				t.loaderSources(l, 0, ls)
			}
			if b := c.baseArgOf(call); b != nil {
				t.baseSources(b, 0, bs)
			}
			// the switched loader must have been obtained AFTER the $ref was followed: it takes the document it
			// works on from the cache, which the resolution has only just filled
			early := false
			if l := c.loaderArgOf(fam, call); l != nil {
				if id, isId := unparen(l).(*ast.Ident); isId {
					for _, d := range t.defsBefore(c.objOf(id)) {
						if dc, isCall := unparen(d).(*ast.CallExpr); isCall && (c.isSpecMethod(dc, fam.loader.Obj().Name(), "transitiveResolver") || c.scopeSwitchHelper(fam, dc)) && dc.Pos() < follow.Pos() {
							early = true
						}
					}
				}
			}
			if early {
				okAll, why = false, fmt.Sprintf("the loader handed to %s was switched BEFORE the $ref was followed: on first contact with a document the cache does not hold it yet, so the switched loader has no root and fragment-only refs inside that document resolve differently with a cold and with a warm cache", funcDisplay(g))
			} else if !ls["transitive"] {
				okAll, why = false, fmt.Sprintf("%s is expanded after the $ref was followed but with the caller's loader: nested fragment-only refs resolve against the wrong document", funcDisplay(g))
			} else if !bs["update"] {
				okAll, why = false, fmt.Sprintf("%s is expanded after the $ref was followed but the base path is not switched with updateBasePath", funcDisplay(g))
			}
		}
		// the reference the scope is switched on is read after the $ref was followed: a by-value copy taken before
		// still holds the FIRST reference of a chain, while the content that is about to be expanded comes from the
		// document the LAST one led to
		ast.Inspect(fd.Body, func(n ast.Node) bool {
			sw, ok := n.(*ast.CallExpr)
			if !ok || sw.Pos() < follow.End() {
				return true
			}
			if !c.isSpecMethod(sw, fam.loader.Obj().Name(), "transitiveResolver") && !c.scopeSwitchHelper(fam, sw) {
				return true
			}
			for _, a := range sw.Args {
				id, isId := unparen(a).(*ast.Ident)
				if !isId || !isNamed(c.typeOf(a), c.Types, "Ref") {
					continue
				}
				if _, isPtr := c.typeOf(a).Underlying().(*types.Pointer); isPtr {
					continue
				}
				for _, d := range t.defs[c.objOf(id)] {
					if d != nil && d.Pos() < follow.Pos() {
						okAll = false
						why = fmt.Sprintf("the scope is switched on %s, a copy of the $ref taken before it was followed: after a chain of several $ref the copy still names the first hop, so the content brought from the last document is expanded against the wrong one", id.Name)
					}
				}
			}
			return true
		})
		if later == 0 {
			continue
		}
		c.ob(rule, fn, follow.Pos(), okAll, why)
	}
}

func ruleSkipShape(c *Ctx) {
	const rule = "skip-shape"
	fam := c.family()
	if !fam.ok() {
		c.undecided(rule, "family", token.NoPos, "expander family not found by role")
		return
	}
	skipLit := func(fd *ast.FuncDecl, n ast.Node) (pos, neg bool) {
		for _, cl := range c.literalsAt(fd, n) {
			if se, ok := unparen(cl.e).(*ast.SelectorExpr); ok && c.isOptionField(se, "SkipSchemas") {
				if cl.neg {
					neg = true
				} else {
					pos = true
				}
			}
		}
		return
	}
	reachesResolve := func(g *types.Func) bool {
		return c.reaches(g, func(h *types.Func) bool { return h == fam.resolveRef })
	}
	// (1) the schema expander's skip branch
	found := false
	for _, f := range fam.order {
		if !fam.schemaExp[f] {
			continue
		}
		fd := c.decl(f)
		target := c.paramObj(fd, 0)
		var stmts []ast.Node
		ast.Inspect(fd.Body, func(n ast.Node) bool {
			switch n.(type) {
			case *ast.AssignStmt, *ast.ReturnStmt, *ast.ExprStmt:
				if pos, _ := skipLit(fd, n); pos {
					stmts = append(stmts, n)
				}
			}
			return true
		})
		if len(stmts) == 0 {
			continue
		}
		found = true
		fn := c.funcName(fd)
		c.saw(fn)
		noResolve, onlyRef, returnsTarget := true, true, false
		why := ""
		var shape func(hfd *ast.FuncDecl, htarget types.Object, hstmts []ast.Node, depth int)
		shape = func(hfd *ast.FuncDecl, htarget types.Object, hstmts []ast.Node, depth int) {
			for _, s := range hstmts {
				ast.Inspect(s, func(m ast.Node) bool {
					if call, ok := m.(*ast.CallExpr); ok {
						if g, ok := c.callee(call).(*types.Func); ok && g.Pkg() == c.Types && reachesResolve(g) {
							noResolve = false
							why = "the skip-schemas branch calls " + funcDisplay(g) + ", which resolves references"
						}
					}
					return true
				})
				switch x := s.(type) {
				case *ast.AssignStmt:
					for _, l := range x.Lhs {
						if id, ok := unparen(l).(*ast.Ident); ok && c.objOf(id) != htarget {
							continue
						}
						if p, ok := c.apath(l); ok && p.Root == htarget && lastStep(p) == "Ref" {
							continue
						}
						onlyRef = false
					}
				case *ast.ReturnStmt:
					if len(x.Results) == 2 && isNilIdent(c, x.Results[1]) {
						if p, ok := c.apath(x.Results[0]); ok && p.Root == htarget && len(p.Steps) == 0 {
							returnsTarget = true
						}
					}
					// return helper(target, ...): the helper's body is the skip branch
					if len(x.Results) == 1 && depth < 2 {
						if call, ok := unparen(x.Results[0]).(*ast.CallExpr); ok {
							if g, ok := c.callee(call).(*types.Func); ok && g.Pkg() == c.Types && !reachesResolve(g) {
								if gfd := c.decl(g); gfd != nil && gfd.Body != nil {
									for ai, a := range call.Args {
										if id, ok := unparen(a).(*ast.Ident); ok && c.objOf(id) == htarget {
											var gst []ast.Node
											ast.Inspect(gfd.Body, func(n ast.Node) bool {
												switch n.(type) {
												case *ast.AssignStmt, *ast.ReturnStmt, *ast.ExprStmt:
													gst = append(gst, n)
												}
												return true
											})
											c.saw(c.funcName(gfd))
											shape(gfd, c.paramObj(gfd, ai), gst, depth+1)
										}
									}
								}
							}
						}
					}
				}
			}
		}
		shape(fd, target, stmts, 0)
		c.ob(rule, fn+":no-resolution", fd.Pos(), noResolve, why)
		c.ob(rule, fn+":only-ref-changed", fd.Pos(), onlyRef, "in skip-schemas mode a schema with a $ref must be returned with nothing but its Ref rewritten")
		c.ob(rule, fn+":returns-target", fd.Pos(), returnsTarget, "the skip-schemas branch must return the target schema itself with a nil error")
	}
	if !found {
		c.ob(rule, "schema-expander:skip-branch", token.NoPos, false, "no schema expander has a branch taken under SkipSchemas")
	}
	// (2) ExpandSpec: only the expansion of the definitions depends on the flag
	if fd := c.decl(c.funcObj("ExpandSpec")); fd != nil {
		c.saw(c.funcName(fd))
		oc := c.newOriginCtx(fd)
		spec := c.paramObj(fd, 0)
		nDefs := 0
		ast.Inspect(fd.Body, func(n ast.Node) bool {
			call, ok := n.(*ast.CallExpr)
			if !ok {
				return true
			}
			cov := c.callCoverage(fam, fd, oc, spec, "Swagger", call, 0)
			if len(cov) == 0 {
				return true
			}
			g, _ := c.callee(call).(*types.Func)
			defs, others := 0, 0
			for p := range cov {
				if strings.Contains(p, "Definitions") {
					defs++
				} else {
					others++
				}
			}
			pos, neg := skipLit(fd, call)
			switch {
			case defs > 0 && others == 0:
				nDefs++
				c.ob(rule, "ExpandSpec:definitions-skipped", call.Pos(), neg, "the definitions section must be expanded only when SkipSchemas is off")
			case defs == 0:
				c.ob(rule, "ExpandSpec:"+funcDisplay(g)+"-unconditional", call.Pos(), !neg && !pos, "parameters, responses and path items must be expanded whatever SkipSchemas says")
			default:
				c.ob(rule, "ExpandSpec:"+funcDisplay(g)+"-mixed", call.Pos(), false, "one call expands both the definitions and other sections: the SkipSchemas guard cannot apply to the definitions alone")
			}
			return true
		})
		if nDefs == 0 {
			c.ob(rule, "ExpandSpec:definitions-skipped", fd.Pos(), false, "cannot find where the definitions are expanded")
		}
	} else {
		c.undecided(rule, "ExpandSpec", token.NoPos, "ExpandSpec not found")
	}
	// (3) schemas below dereferenced parameters/responses are still walked (to rebase nested refs)
	for _, f := range fam.order {
		if fam.schemaExp[f] {
			continue
		}
		fd := c.decl(f)
		for _, call := range c.familyCalls(fam, fd) {
			g := c.callee(call).(*types.Func)
			if !fam.schemaExp[g] {
				continue
			}
			pos, neg := skipLit(fd, call)
			c.ob(rule, c.funcName(fd)+":schema-walk-unconditional", call.Pos(), !pos && !neg, "the schema of a dereferenced parameter/response must be handed to the schema expander also in skip-schemas mode, so that nested $refs are rebased")
		}
	}
}
