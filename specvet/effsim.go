package main

import (
	"fmt"
	"go/ast"
	"go/constant"
	"go/token"
	"go/types"
	"reflect"
	"sort"
	"strings"
)

// effsim is a bounded effect analysis over the syntax of one entry function: it normalises the function to
// the list of effects it has on each of its structural paths (stores into locations reachable from its
// parameters, opaque calls, appended records, returned values), each with the branch conditions in force.
//
// The normalisation makes the shape in which the code is written irrelevant to the rules built on it:
// package helpers and function literals are inlined (bounded depth, no recursion), loops over literal
// tables are unrolled, locals, pointers to fields (&v.F) and table rows are followed. Nothing is executed and no
// solver is involved: a condition that is not a compile-time constant splits the path, and both sides are
// normalised. A construct outside the supported fragment sets `unsupported`, and the rule falls back to its
// syntactic form.

type sval interface{}

type svPath struct { // the value initially stored at root.steps (pointer indirection is transparent)
	root  types.Object
	steps []string
	via   sval // when root is nil: the location lies below the object this (pointer) value designates
}
type svAddr struct{ p svPath }          // &root.steps
type svConst struct{ v constant.Value } // compile-time constant
type svNil struct{}                     // nil
type svZero struct{ t types.Type }      // zero value of a declared variable / T{}
type svStruct struct {                  // composite literal of a struct type (or a pointer to one)
	t      types.Type
	fields map[string]sval
}
type svList struct{ elems []sval }     // slice / array literal, variadic pack
type svFunc struct{ lit *ast.FuncLit } // function literal (free variables live in the flat store)
type svMethod struct {                 // method value x.M, or a package function used as a value
	recv sval
	fn   *types.Func
}
type svBin struct {
	op   token.Token
	x, y sval
}
type svNot struct{ x sval }
type svCall struct { // result of a call that is not inlined
	id     int
	callee types.Object // *types.Func, or nil for a dynamic call
	fun    sval         // value called, for dynamic calls
	recv   sval
	args   []sval
	call   *ast.CallExpr
	idx    int // which result
	// held[i]: what the variable whose address is args[i] held when the call was made (nil otherwise)
	held []sval
	// an observer is a nullary method of a dependency: two such calls on the same receiver with nothing stored or
	// called in between (same epoch) yield the same value
	observer bool
	epoch    int
}
type svIndex struct{ x, i sval } // x[i] that is not a constant selection from a literal
type svHas struct{ x, i sval }   // the ok of `v, ok := x[i]`
type svSel struct {              // field selection below a value that is not a location (a call result)
	x     sval
	steps string
}
type svElem struct{ of sval }        // some element of a collection that is not a literal (loop variable)
type svFresh struct{ pos token.Pos } // make / new
type svOpaque struct{ e ast.Expr }

type scond struct {
	v    sval
	neg  bool
	loop bool // pseudo-condition: inside a loop over v
}

type seffect struct {
	kind  string // write | call | append | return
	dst   svPath
	val   sval
	call  *svCall
	elems []sval
	base  sval
	ncond int
	pos   token.Pos
}

type spath struct {
	conds []scond
	effs  []seffect
	rets  []sval
	final map[types.Object]sval // the locals at the end of the path
}

type sstate struct {
	defers [][]sdefer // one list of deferred calls per function body being normalised (innermost last)
	epoch  int        // advances at every store and at every call that may change something
	vars   map[types.Object]sval
	heap   map[string]sval
	hkeys  map[string]svPath
	conds  []scond
	effs   []seffect
}

func (s *sstate) clone() *sstate {
	n := &sstate{epoch: s.epoch, vars: make(map[types.Object]sval, len(s.vars)), heap: make(map[string]sval, len(s.heap)), hkeys: make(map[string]svPath, len(s.hkeys))}
	for k, v := range s.vars {
		n.vars[k] = v
	}
	for k, v := range s.heap {
		n.heap[k] = v
	}
	for k, v := range s.hkeys {
		n.hkeys[k] = v
	}
	n.conds = append([]scond{}, s.conds...)
	n.effs = append([]seffect{}, s.effs...)
	for _, fr := range s.defers {
		n.defers = append(n.defers, append([]sdefer{}, fr...))
	}
	return n
}

type sctl int

const (
	ctlNext sctl = iota
	ctlReturn
	ctlBreak
	ctlContinue
)

type effsim struct {
	c           *Ctx
	unsupported string
	ncall       int
	npaths      int
	stack       []*types.Func
	// inline decides whether a package function with a body is inlined (default: yes)
	inline func(*types.Func) bool
	// indexSafe: index expressions evaluated so far; true while every evaluation selected an existing element
	// of a list whose length is known
	indexSafe map[*ast.IndexExpr]bool
	// force, when set, decides a condition without splitting the path (a rule that only needs the paths on which
	// nothing went wrong follows "the result is non-nil", "the stop predicate is false")
	force func(v sval) (bool, bool)
	// keepIndices: an element of a slice keeps its index (items[i] and items[j] are told apart) instead of being
	// abstracted to "some element"
	keepIndices    bool
	keepAllIndices bool // ... whatever the index value is (map keys computed by calls)
	// outValues: a pointer-typed local whose address is passed to an opaque call holds an out-value afterwards
	outValues bool
	// loopBodyOnly: a loop over a collection that is not a literal is followed through its body only (the
	// "no element" path is not explored)
	loopBodyOnly bool
	// mapStoreSafe: element stores m[k] = v evaluated so far; true while the map stored into was always one made
	// during the call (make / a literal), directly or as a field of a value built during the call
	mapStoreSafe map[*ast.IndexExpr]bool
	// trackReads: selections of fields below an initial value are recorded as "read" effects (lockset)
	trackReads bool
	inLen      int // evaluating the argument of len / cap
	// mutates: opaque callees that may store through their pointer arguments: afterwards every variable that held
	// the object handed over holds the call's out-value for that argument (result index 100+i), so that what is
	// read below it later is told apart from what was there before the call
	mutates func(*types.Func) bool
}

const effsimMaxPaths = 3000

func (s *effsim) fail(format string, a ...interface{}) {
	if s.unsupported == "" {
		s.unsupported = fmt.Sprintf(format, a...)
	}
}

// isMadeSV: the value is a container made during the call (possibly with elements stored into it since).
func isMadeSV(v sval) bool {
	switch x := v.(type) {
	case svFresh, svList:
		return true
	case svStruct:
		if base, ok := x.fields[""]; ok {
			return isMadeSV(base)
		}
	}
	return false
}

// simMapStoreSafe: the effect normal form of fd shows that the map stored into by m[k] = v was made during the call.
func (c *Ctx) simMapStoreSafe(fd *ast.FuncDecl, x *ast.IndexExpr) bool {
	c.simIndexSafe(fd, nil)
	return c.simMapStore[fd][x]
}

// simIndexSafe: the effect normal form of fd shows that the index expression always selects an existing element
// of a list of known length (a literal, a variadic pack, or what a helper appended to an empty slice).
func (c *Ctx) simIndexSafe(fd *ast.FuncDecl, x *ast.IndexExpr) bool {
	if c.simIdx == nil {
		c.simIdx = map[*ast.FuncDecl]map[*ast.IndexExpr]bool{}
	}
	m, done := c.simIdx[fd]
	if !done {
		s := &effsim{c: c, indexSafe: map[*ast.IndexExpr]bool{}, mapStoreSafe: map[*ast.IndexExpr]bool{}}
		st := &sstate{vars: map[types.Object]sval{}, heap: map[string]sval{}, hkeys: map[string]svPath{}}
		if r := c.recvObj(fd); r != nil {
			st.vars[r] = svPath{root: r}
		}
		for i := 0; ; i++ {
			p := c.paramObj(fd, i)
			if p == nil {
				break
			}
			st.vars[p] = svPath{root: p}
		}
		if f, ok := c.Info.Defs[fd.Name].(*types.Func); ok {
			s.stack = append(s.stack, f)
		}
		s.callBody(fd.Type, fd.Body, st, func(*sstate, []sval) {
			s.npaths++
			if s.npaths > effsimMaxPaths {
				s.fail("too many paths")
			}
		})
		m = map[*ast.IndexExpr]bool{}
		if c.simMapStore == nil {
			c.simMapStore = map[*ast.FuncDecl]map[*ast.IndexExpr]bool{}
		}
		c.simMapStore[fd] = map[*ast.IndexExpr]bool{}
		if s.unsupported == "" {
			m = s.indexSafe
			c.simMapStore[fd] = s.mapStoreSafe
		}
		c.simIdx[fd] = m
	}
	if x == nil {
		return false
	}
	return m[x]
}

// simulate normalises fd; params gives initial values for its receiver and parameters (default: svPath{obj}).
func (c *Ctx) simulate(fd *ast.FuncDecl, inline func(*types.Func) bool) ([]spath, string) {
	return c.simulateOpt(fd, inline, false)
}

func (c *Ctx) simulateOpt(fd *ast.FuncDecl, inline func(*types.Func) bool, trackReads bool) ([]spath, string) {
	return c.simulateForced(fd, inline, trackReads, nil)
}

func (c *Ctx) simulateForced(fd *ast.FuncDecl, inline func(*types.Func) bool, trackReads bool, force func(sval) (bool, bool)) ([]spath, string) {
	s := &effsim{c: c, inline: inline, trackReads: trackReads, force: force, loopBodyOnly: force != nil}
	st := &sstate{vars: map[types.Object]sval{}, heap: map[string]sval{}, hkeys: map[string]svPath{}}
	if r := c.recvObj(fd); r != nil {
		st.vars[r] = svPath{root: r}
	}
	for i := 0; ; i++ {
		p := c.paramObj(fd, i)
		if p == nil {
			break
		}
		st.vars[p] = svPath{root: p}
	}
	if f, ok := c.Info.Defs[fd.Name].(*types.Func); ok {
		s.stack = append(s.stack, f)
	}
	var out []spath
	s.callBody(fd.Type, fd.Body, st, func(st *sstate, rets []sval) {
		out = append(out, spath{conds: st.conds, effs: st.effs, rets: rets, final: st.vars})
		s.npaths++
		if s.npaths > effsimMaxPaths {
			s.fail("more than %d paths", effsimMaxPaths)
		}
	})
	return out, s.unsupported
}

// callBody runs a function body whose parameters are already bound, then its deferred calls, and hands the
// returned values to k (once per path).
func (s *effsim) callBody(ft *ast.FuncType, body *ast.BlockStmt, st *sstate, k func(*sstate, []sval)) {
	c := s.c
	// named results start as zero values
	var named []types.Object
	if ft.Results != nil {
		for _, f := range ft.Results.List {
			for _, nm := range f.Names {
				if o := c.Info.Defs[nm]; o != nil {
					named = append(named, o)
					st.vars[o] = svZero{o.Type()}
				}
			}
		}
	}
	st.defers = append(st.defers, nil)
	fr := &sframe{}
	s.execList(body.List, st, fr, func(st *sstate, ctl sctl, rets []sval) {
		if s.unsupported != "" {
			return
		}
		var defers []sdefer
		if n := len(st.defers); n > 0 {
			defers = st.defers[n-1]
			st.defers = st.defers[:n-1]
		}
		finish := func(st *sstate) {
			if ctl != ctlReturn || (len(rets) == 0 && len(named) > 0) {
				rets = nil
				for _, o := range named {
					rets = append(rets, s.load(st, svPath{root: o}))
				}
			}
			k(st, rets)
		}
		// run deferred calls, last first
		ds := append([]sdefer{}, defers...)
		var run func(i int, st *sstate)
		run = func(i int, st *sstate) {
			if i < 0 {
				finish(st)
				return
			}
			ds[i](st, func(st *sstate) { run(i-1, st) })
		}
		run(len(ds)-1, st)
	})
}

type sframe struct{}

func (st *sstate) addDefer(d sdefer) {
	if n := len(st.defers); n > 0 {
		st.defers[n-1] = append(st.defers[n-1], d)
	}
}

// sdefer is a deferred call whose function value and arguments were evaluated at the defer statement.
type sdefer func(st *sstate, k func(*sstate))

func pathKey(p svPath) string {
	return fmt.Sprintf("%p|%s", p.root, strings.Join(p.steps, "."))
}

func extend(p svPath, steps ...string) svPath {
	return svPath{root: p.root, via: p.via, steps: append(append([]string{}, p.steps...), steps...)}
}

// resolve rewrites a location whose root variable holds a pointer to (or an alias of) another location.
func (s *effsim) resolve(st *sstate, p svPath) svPath {
	for i := 0; i < 8; i++ {
		if len(p.steps) == 0 {
			return p
		}
		switch b := st.vars[p.root].(type) {
		case svPath:
			if b.root == p.root && len(b.steps) == 0 {
				return p
			}
			p = extend(b, p.steps...)
		case svAddr:
			p = extend(b.p, p.steps...)
		case svSel, svCall, svIndex, svElem:
			// a slice, map or pointer obtained from a call result: what is stored through it lands in the
			// object that value designates
			if isRefType(p.root.Type()) {
				return svPath{via: b, steps: p.steps}
			}
			return p
		default:
			return p
		}
	}
	return p
}

func (s *effsim) load(st *sstate, p svPath) sval {
	if p.root == nil && p.via != nil {
		var steps []string
		for _, stp := range p.steps {
			if stp != "*" {
				steps = append(steps, stp)
			}
		}
		return s.project(st, p.via, steps)
	}
	if len(p.steps) == 0 {
		if v, ok := st.vars[p.root]; ok {
			return v
		}
		return p
	}
	p = s.resolve(st, p)
	if len(p.steps) == 0 {
		return s.load(st, p)
	}
	if v, ok := st.heap[pathKey(p)]; ok {
		return v
	}
	// a prefix was stored as a whole
	for n := len(p.steps) - 1; n >= 0; n-- {
		if v, ok := st.heap[pathKey(svPath{root: p.root, steps: p.steps[:n]})]; ok {
			return s.project(st, v, p.steps[n:])
		}
	}
	if b, ok := st.vars[p.root]; ok {
		switch b.(type) {
		case svStruct, svZero, svList, svCall, svIndex, svElem, svSel:
			return s.project(st, b, p.steps)
		}
	}
	return p
}

// setNested returns the literal b with the value at steps replaced.
func setNested(b sval, steps []string, v sval) sval {
	if len(steps) == 0 {
		return v
	}
	var t types.Type
	fields := map[string]sval{}
	switch x := b.(type) {
	case svStruct:
		t = x.t
		for k, f := range x.fields {
			fields[k] = f
		}
	case svZero:
		t = x.t
	default:
		fields = map[string]sval{}
	}
	cur, ok := fields[steps[0]]
	if !ok {
		cur = svZero{}
	}
	if len(steps) > 1 {
		switch cur.(type) {
		case svStruct, svZero:
		default:
			// below a value that is not a literal: keep it as an overlay literal whose other fields come from it
			cur = svStruct{fields: map[string]sval{"": cur}}
		}
	}
	fields[steps[0]] = setNested(cur, steps[1:], v)
	return svStruct{t: t, fields: fields}
}

// project selects steps below a value.
func (s *effsim) project(st *sstate, v sval, steps []string) sval {
	for i, stp := range steps {
		switch b := v.(type) {
		case svStruct:
			f, ok := b.fields[stp]
			if !ok {
				if base, has := b.fields[""]; has {
					return s.project(st, base, steps[i:])
				}
				return svZero{}
			}
			v = f
		case svPath:
			return s.load(st, extend(b, steps[i:]...))
		case svAddr:
			return s.load(st, extend(b.p, steps[i:]...))
		case svZero:
			return svZero{}
		case svNil:
			return svOpaque{}
		case svCall, svIndex, svElem, svSel:
			return svSel{x: v, steps: strings.Join(steps[i:], ".")}
		default:
			return svOpaque{}
		}
	}
	return v
}

func (s *effsim) store(st *sstate, p svPath, v sval, pos token.Pos) {
	if p.root == nil && p.via != nil {
		st.epoch++
		st.effs = append(st.effs, seffect{kind: "write", dst: p, val: v, ncond: len(st.conds), pos: pos})
		return
	}
	if len(p.steps) == 0 {
		st.vars[p.root] = v
		return
	}
	// a struct-typed local that holds a copy of what another location held (clone := *opts): what is stored below
	// it lands in the copy, not in the location it was copied from
	if b, ok := st.vars[p.root].(svPath); ok && !(b.root == p.root && len(b.steps) == 0) {
		if _, isStruct := p.root.Type().Underlying().(*types.Struct); isStruct {
			st.vars[p.root] = svStruct{t: p.root.Type(), fields: map[string]sval{"": b}}
		}
	}
	p = s.resolve(st, p)
	if len(p.steps) == 0 {
		st.vars[p.root] = v
		return
	}
	// a field of a literal (or zero value) held in a local: update the literal
	switch b := st.vars[p.root].(type) {
	case svStruct, svZero:
		if p.steps[len(p.steps)-1] != "*" {
			st.vars[p.root] = setNested(b, p.steps, v)
			return
		}
	}
	whole := false
	if p.steps[len(p.steps)-1] == "*" {
		// *ptr = v: everything below the pointer is replaced
		p = svPath{root: p.root, steps: p.steps[:len(p.steps)-1]}
		whole = true
	}
	if whole && len(p.steps) == 0 {
		st.epoch++
		for k, q := range st.hkeys {
			if q.root == p.root {
				delete(st.heap, k)
				delete(st.hkeys, k)
			}
		}
		st.heap[pathKey(p)] = v
		st.hkeys[pathKey(p)] = p
		st.effs = append(st.effs, seffect{kind: "write", dst: p, val: v, ncond: len(st.conds), pos: pos})
		return
	}
	st.epoch++
	key := pathKey(p)
	for k, q := range st.hkeys {
		if q.root == p.root && len(q.steps) > len(p.steps) && strings.HasPrefix(k, key+".") {
			delete(st.heap, k)
			delete(st.hkeys, k)
		}
	}
	st.heap[key] = v
	st.hkeys[key] = p
	st.effs = append(st.effs, seffect{kind: "write", dst: p, val: v, ncond: len(st.conds), pos: pos})
}

// noteRead records the read of a field below a parameter (or a package variable) when reads are tracked.
func (s *effsim) noteRead(st *sstate, p svPath, pos token.Pos) {
	if !s.trackReads || len(p.steps) == 0 {
		return
	}
	p = s.resolve(st, p)
	if _, local := st.vars[p.root]; local {
		if q, isPath := st.vars[p.root].(svPath); !isPath || q.root != p.root {
			return
		}
	}
	kind := "read"
	if s.inLen > 0 {
		kind = "read-len"
	}
	st.effs = append(st.effs, seffect{kind: kind, dst: p, ncond: len(st.conds), pos: pos})
}

// ---- statements ----

func (s *effsim) execList(list []ast.Stmt, st *sstate, fr *sframe, k func(*sstate, sctl, []sval)) {
	if s.unsupported != "" {
		return
	}
	if len(list) == 0 {
		k(st, ctlNext, nil)
		return
	}
	s.exec(list[0], st, fr, func(st *sstate, ctl sctl, rets []sval) {
		if ctl != ctlNext {
			k(st, ctl, rets)
			return
		}
		s.execList(list[1:], st, fr, k)
	})
}

func (s *effsim) assume(st *sstate, v sval, neg bool) {
	if n, ok := v.(svNot); ok {
		s.assume(st, n.x, !neg)
		return
	}
	st.conds = append(st.conds, scond{v: v, neg: neg})
}

// branch evaluates a condition and continues on each feasible side.
func (s *effsim) branch(cond ast.Expr, st *sstate, yes, no func(*sstate)) {
	s.eval(cond, st, func(st *sstate, v sval) {
		s.branchOn(v, st, yes, no)
	})
}

func (s *effsim) branchOn(v sval, st *sstate, yes, no func(*sstate)) {
	if b, ok := constBool(v); ok {
		if b {
			yes(st)
		} else {
			no(st)
		}
		return
	}
	// a && b / a || b: split so that each literal is assumed on its own
	if bin, ok := v.(svBin); ok && bin.op == token.LAND {
		s.branchOn(bin.x, st, func(st *sstate) { s.branchOn(bin.y, st, yes, no) }, no)
		return
	}
	if bin, ok := v.(svBin); ok && bin.op == token.LOR {
		s.branchOn(bin.x, st, yes, func(st *sstate) { s.branchOn(bin.y, st, yes, no) })
		return
	}
	if n, ok := v.(svNot); ok {
		s.branchOn(n.x, st, no, yes)
		return
	}
	if s.force != nil {
		if b, ok := s.force(v); ok {
			if b {
				yes(st)
			} else {
				no(st)
			}
			return
		}
	}
	// the same literal was already decided on this path
	for _, cd := range st.conds {
		if !cd.loop && svEqual(cd.v, v) {
			if cd.neg {
				no(st)
			} else {
				yes(st)
			}
			return
		}
	}
	st2 := st.clone()
	s.assume(st, v, false)
	yes(st)
	if s.unsupported != "" {
		return
	}
	s.assume(st2, v, true)
	no(st2)
}

func constBool(v sval) (bool, bool) {
	if c, ok := v.(svConst); ok && c.v.Kind() == constant.Bool {
		return constant.BoolVal(c.v), true
	}
	return false, false
}

func (s *effsim) exec(stmt ast.Stmt, st *sstate, fr *sframe, k func(*sstate, sctl, []sval)) {
	if s.unsupported != "" {
		return
	}
	c := s.c
	switch x := stmt.(type) {
	case *ast.EmptyStmt:
		k(st, ctlNext, nil)
	case *ast.BlockStmt:
		s.execList(x.List, st, fr, k)
	case *ast.ExprStmt:
		if call, ok := unparen(x.X).(*ast.CallExpr); ok {
			s.evalCall(call, st, func(st *sstate, _ []sval) { k(st, ctlNext, nil) })
			return
		}
		s.eval(x.X, st, func(st *sstate, _ sval) { k(st, ctlNext, nil) })
	case *ast.DeclStmt:
		gd, ok := x.Decl.(*ast.GenDecl)
		if !ok || gd.Tok != token.VAR {
			k(st, ctlNext, nil)
			return
		}
		var specs []*ast.ValueSpec
		for _, sp := range gd.Specs {
			specs = append(specs, sp.(*ast.ValueSpec))
		}
		var run func(i int, st *sstate)
		run = func(i int, st *sstate) {
			if i == len(specs) {
				k(st, ctlNext, nil)
				return
			}
			sp := specs[i]
			if len(sp.Values) == 0 {
				for _, nm := range sp.Names {
					if o := c.Info.Defs[nm]; o != nil {
						st.vars[o] = svZero{o.Type()}
					}
				}
				run(i+1, st)
				return
			}
			lhs := make([]ast.Expr, len(sp.Names))
			for j, nm := range sp.Names {
				lhs[j] = nm
			}
			s.assign(lhs, sp.Values, token.DEFINE, st, sp.Pos(), func(st *sstate) { run(i+1, st) })
		}
		run(0, st)
	case *ast.AssignStmt:
		s.assign(x.Lhs, x.Rhs, x.Tok, st, x.Pos(), func(st *sstate) { k(st, ctlNext, nil) })
	case *ast.IncDecStmt:
		if s.incdec(x, st) {
			k(st, ctlNext, nil)
			return
		}
		if p, ok := s.lvalue(x.X, st); ok {
			s.store(st, p, svOpaque{x.X}, x.Pos())
		}
		k(st, ctlNext, nil)
	case *ast.ReturnStmt:
		if len(x.Results) == 1 {
			if call, ok := unparen(x.Results[0]).(*ast.CallExpr); ok {
				s.evalCall(call, st, func(st *sstate, rs []sval) { k(st, ctlReturn, rs) })
				return
			}
		}
		s.evalList(x.Results, st, func(st *sstate, vs []sval) { k(st, ctlReturn, vs) })
	case *ast.DeferStmt:
		call := x.Call
		if lit, ok := unparen(call.Fun).(*ast.FuncLit); ok {
			s.evalArgs(call, nil, st, func(st *sstate, args []sval) {
				st.addDefer(func(st *sstate, k func(*sstate)) {
					s.inlineLit(lit, args, st, func(st *sstate, _ []sval) { k(st) })
				})
				k(st, ctlNext, nil)
			})
			return
		}
		if id, ok := unparen(call.Fun).(*ast.Ident); ok {
			if _, isB := c.Info.Uses[id].(*types.Builtin); isB {
				st.addDefer(func(st *sstate, k func(*sstate)) {
					s.evalCall(call, st, func(st *sstate, _ []sval) { k(st) })
				})
				k(st, ctlNext, nil)
				return
			}
		}
		// the function value, its receiver and the arguments are evaluated now; the call happens at exit
		s.eval(call.Fun, st, func(st *sstate, fv sval) {
			var sig *types.Signature
			if m, ok := fv.(svMethod); ok {
				sig = m.fn.Type().(*types.Signature)
			}
			s.evalArgs(call, sig, st, func(st *sstate, args []sval) {
				st.addDefer(func(st *sstate, k func(*sstate)) {
					switch f := fv.(type) {
					case svFunc:
						s.inlineLit(f.lit, args, st, func(st *sstate, _ []sval) { k(st) })
					case svMethod:
						s.callFunc(f, args, call, st, func(st *sstate, _ []sval) { k(st) })
					default:
						s.opaqueCall(st, nil, fv, nil, args, call)
						k(st)
					}
				})
				k(st, ctlNext, nil)
			})
		})
	case *ast.BranchStmt:
		switch {
		case x.Label != nil:
			s.fail("labelled branch")
		case x.Tok == token.BREAK:
			k(st, ctlBreak, nil)
		case x.Tok == token.CONTINUE:
			k(st, ctlContinue, nil)
		default:
			s.fail("branch %s", x.Tok)
		}
	case *ast.IfStmt:
		then := func(st *sstate) { s.execList(x.Body.List, st, fr, k) }
		els := func(st *sstate) {
			if x.Else == nil {
				k(st, ctlNext, nil)
				return
			}
			s.exec(x.Else, st, fr, k)
		}
		if x.Init != nil {
			s.exec(x.Init, st, fr, func(st *sstate, _ sctl, _ []sval) { s.branch(x.Cond, st, then, els) })
			return
		}
		s.branch(x.Cond, st, then, els)
	case *ast.SwitchStmt:
		s.execSwitch(x, st, fr, k)
	case *ast.TypeSwitchStmt:
		s.execTypeSwitch(x, st, fr, k)
	case *ast.RangeStmt:
		s.execRange(x, st, fr, k)
	case *ast.ForStmt:
		s.execFor(x, st, fr, k)
	case *ast.GoStmt:
		s.fail("go statement")
	default:
		s.fail("statement %T", stmt)
	}
}

func (s *effsim) execSwitch(x *ast.SwitchStmt, st *sstate, fr *sframe, k func(*sstate, sctl, []sval)) {
	var clauses []*ast.CaseClause
	var def *ast.CaseClause
	for _, cl := range x.Body.List {
		cc := cl.(*ast.CaseClause)
		if len(cc.List) == 0 {
			def = cc
		} else {
			clauses = append(clauses, cc)
		}
		for _, b := range cc.Body {
			if br, ok := b.(*ast.BranchStmt); ok && br.Tok == token.FALLTHROUGH {
				s.fail("fallthrough")
				return
			}
		}
	}
	body := func(cc *ast.CaseClause, st *sstate) {
		s.execList(cc.Body, st, fr, func(st *sstate, ctl sctl, rets []sval) {
			if ctl == ctlBreak {
				ctl = ctlNext
			}
			k(st, ctl, rets)
		})
	}
	start := func(st *sstate, tag sval, hasTag bool) {
		var try func(ci, ei int, st *sstate)
		try = func(ci, ei int, st *sstate) {
			if ci == len(clauses) {
				if def != nil {
					body(def, st)
				} else {
					k(st, ctlNext, nil)
				}
				return
			}
			cc := clauses[ci]
			if ei == len(cc.List) {
				try(ci+1, 0, st)
				return
			}
			s.eval(cc.List[ei], st, func(st *sstate, v sval) {
				cond := v
				if hasTag {
					cond = s.binop(token.EQL, tag, v)
				}
				s.branchOn(cond, st, func(st *sstate) { body(cc, st) }, func(st *sstate) { try(ci, ei+1, st) })
			})
		}
		try(0, 0, st)
	}
	run := func(st *sstate) {
		if x.Tag != nil {
			s.eval(x.Tag, st, func(st *sstate, tag sval) { start(st, tag, true) })
			return
		}
		start(st, nil, false)
	}
	if x.Init != nil {
		s.exec(x.Init, st, fr, func(st *sstate, _ sctl, _ []sval) { run(st) })
		return
	}
	run(st)
}

func (s *effsim) execTypeSwitch(x *ast.TypeSwitchStmt, st *sstate, fr *sframe, k func(*sstate, sctl, []sval)) {
	c := s.c
	var subject ast.Expr
	switch a := x.Assign.(type) {
	case *ast.AssignStmt:
		if ta, ok := unparen(a.Rhs[0]).(*ast.TypeAssertExpr); ok {
			subject = ta.X
		}
	case *ast.ExprStmt:
		if ta, ok := unparen(a.X).(*ast.TypeAssertExpr); ok {
			subject = ta.X
		}
	}
	if subject == nil {
		s.fail("type switch")
		return
	}
	s.eval(subject, st, func(st *sstate, v sval) {
		// the dynamic type is known: the clause is chosen as Go would choose it
		if dt := s.dynType(v); dt != nil {
			var chosen, def *ast.CaseClause
			for _, cl := range x.Body.List {
				cc := cl.(*ast.CaseClause)
				if len(cc.List) == 0 {
					def = cc
					continue
				}
				for _, te := range cc.List {
					if tt := c.typeOf(te); tt != nil && chosen == nil {
						if it, isIface := tt.Underlying().(*types.Interface); isIface {
							if types.Implements(dt, it) {
								chosen = cc
							}
						} else if types.Identical(tt, dt) {
							chosen = cc
						}
					}
				}
			}
			if chosen == nil {
				chosen = def
			}
			if chosen == nil {
				k(st, ctlNext, nil)
				return
			}
			if o := c.Info.Implicits[chosen]; o != nil {
				st.vars[o] = v
			}
			s.execList(chosen.Body, st, fr, func(st *sstate, ctl sctl, rets []sval) {
				if ctl == ctlBreak {
					ctl = ctlNext
				}
				k(st, ctl, rets)
			})
			return
		}
		for i, cl := range x.Body.List {
			cc := cl.(*ast.CaseClause)
			st2 := st
			if i < len(x.Body.List)-1 {
				st2 = st.clone()
			}
			st2.conds = append(st2.conds, scond{v: svOpaque{subject}, neg: false})
			if o := c.Info.Implicits[cc]; o != nil {
				st2.vars[o] = v
			}
			s.execList(cc.Body, st2, fr, func(st *sstate, ctl sctl, rets []sval) {
				if ctl == ctlBreak {
					ctl = ctlNext
				}
				k(st, ctl, rets)
			})
			if s.unsupported != "" {
				return
			}
		}
		if len(x.Body.List) == 0 {
			k(st, ctlNext, nil)
		}
	})
}

func (s *effsim) execRange(x *ast.RangeStmt, st *sstate, fr *sframe, k func(*sstate, sctl, []sval)) {
	c := s.c
	bind := func(e ast.Expr, v sval, st *sstate) {
		if e == nil {
			return
		}
		if id, ok := e.(*ast.Ident); ok {
			if id.Name == "_" {
				return
			}
			if o := c.objOf(id); o != nil {
				st.vars[o] = v
				for k, q := range st.hkeys {
					if q.root == o {
						delete(st.heap, k)
						delete(st.hkeys, k)
					}
				}
			}
			return
		}
		if p, ok := s.lvalue(e, st); ok {
			s.store(st, p, v, e.Pos())
		}
	}
	s.eval(x.X, st, func(st *sstate, coll sval) {
		if l, ok := coll.(svList); ok {
			// a literal table: one iteration per row
			var iter func(i int, st *sstate)
			iter = func(i int, st *sstate) {
				if i == len(l.elems) {
					k(st, ctlNext, nil)
					return
				}
				bind(x.Key, svConst{constant.MakeInt64(int64(i))}, st)
				bind(x.Value, l.elems[i], st)
				s.execList(x.Body.List, st, fr, func(st *sstate, ctl sctl, rets []sval) {
					switch ctl {
					case ctlReturn:
						k(st, ctl, rets)
					case ctlBreak:
						k(st, ctlNext, nil)
					default:
						iter(i+1, st)
					}
				})
			}
			iter(0, st)
			return
		}
		if n, ok := coll.(svConst); ok && n.v.Kind() == constant.Int {
			if cnt, exact := constant.Int64Val(n.v); exact && cnt >= 0 && cnt <= 64 {
				var iter func(i int64, st *sstate)
				iter = func(i int64, st *sstate) {
					if i == cnt {
						k(st, ctlNext, nil)
						return
					}
					bind(x.Key, svConst{constant.MakeInt64(i)}, st)
					s.execList(x.Body.List, st, fr, func(st *sstate, ctl sctl, rets []sval) {
						switch ctl {
						case ctlReturn:
							k(st, ctl, rets)
						case ctlBreak:
							k(st, ctlNext, nil)
						default:
							iter(i+1, st)
						}
					})
				}
				iter(0, st)
				return
			}
		}
		// any other collection: the body runs for some element (or not at all)
		if p, isPath := coll.(svPath); isPath {
			s.noteRead(st, p, x.Pos())
		}
		var skip *sstate
		if !s.loopBodyOnly {
			skip = st.clone()
		}
		st.conds = append(st.conds, scond{v: coll, loop: true})
		bind(x.Key, svOpaque{x.Key}, st)
		bind(x.Value, svElem{coll}, st)
		s.execList(x.Body.List, st, fr, func(st *sstate, ctl sctl, rets []sval) {
			if ctl == ctlReturn {
				k(st, ctl, rets)
				return
			}
			k(st, ctlNext, nil)
		})
		if s.unsupported != "" || skip == nil {
			return
		}
		skip.conds = append(skip.conds, scond{v: coll, loop: true, neg: true})
		k(skip, ctlNext, nil)
	})
}

func (s *effsim) execFor(x *ast.ForStmt, st *sstate, fr *sframe, k func(*sstate, sctl, []sval)) {
	// only counted loops whose condition folds to a constant at every iteration
	var iter func(n int, st *sstate)
	iter = func(n int, st *sstate) {
		if n > 64 {
			s.fail("loop does not fold")
			return
		}
		cont := func(st *sstate) {
			s.execList(x.Body.List, st, fr, func(st *sstate, ctl sctl, rets []sval) {
				switch ctl {
				case ctlReturn:
					k(st, ctl, rets)
				case ctlBreak:
					k(st, ctlNext, nil)
				default:
					if x.Post != nil {
						s.exec(x.Post, st, fr, func(st *sstate, _ sctl, _ []sval) { iter(n+1, st) })
						return
					}
					iter(n+1, st)
				}
			})
		}
		if x.Cond == nil {
			s.fail("unbounded loop")
			return
		}
		s.eval(x.Cond, st, func(st *sstate, v sval) {
			b, ok := constBool(v)
			if !ok {
				s.fail("loop condition is not constant")
				return
			}
			if !b {
				k(st, ctlNext, nil)
				return
			}
			cont(st)
		})
	}
	if x.Init != nil {
		s.exec(x.Init, st, fr, func(st *sstate, _ sctl, _ []sval) { iter(0, st) })
		return
	}
	iter(0, st)
}

// IncDec on a constant counter
func (s *effsim) incdec(x *ast.IncDecStmt, st *sstate) bool {
	id, ok := unparen(x.X).(*ast.Ident)
	if !ok {
		return false
	}
	o := s.c.objOf(id)
	cv, ok := st.vars[o].(svConst)
	if !ok || cv.v.Kind() != constant.Int {
		return false
	}
	d := int64(1)
	if x.Tok == token.DEC {
		d = -1
	}
	st.vars[o] = svConst{constant.BinaryOp(cv.v, token.ADD, constant.MakeInt64(d))}
	return true
}

func (s *effsim) assign(lhs, rhs []ast.Expr, tok token.Token, st *sstate, pos token.Pos, k func(*sstate)) {
	c := s.c
	put := func(st *sstate, vs []sval) {
		for i, l := range lhs {
			if i >= len(vs) {
				break
			}
			v := vs[i]
			l = unparen(l)
			if id, ok := l.(*ast.Ident); ok {
				if id.Name == "_" {
					continue
				}
				if o := c.objOf(id); o != nil {
					if tok != token.ASSIGN && tok != token.DEFINE {
						op := map[token.Token]token.Token{token.ADD_ASSIGN: token.ADD, token.SUB_ASSIGN: token.SUB}[tok]
						if op == 0 {
							v = svOpaque{l}
						} else {
							v = s.binop(op, s.load(st, svPath{root: o}), v)
						}
					}
					if _, isVar := o.(*types.Var); isVar && o.Parent() == c.Types.Scope() {
						// package variable: an effect
						st.effs = append(st.effs, seffect{kind: "write", dst: svPath{root: o}, val: v, ncond: len(st.conds), pos: pos})
					}
					st.vars[o] = v
					for hk, q := range st.hkeys {
						if q.root == o {
							delete(st.heap, hk)
							delete(st.hkeys, hk)
						}
					}
				}
				continue
			}
			if ix, isIx := l.(*ast.IndexExpr); isIx && s.mapStoreSafe != nil {
				if _, isMap := c.typeOf(ix.X).Underlying().(*types.Map); isMap {
					made := false
					s.evalNow(ix.X, st, func(mv sval) { made = isMadeSV(mv) })
					if prev, seen := s.mapStoreSafe[ix]; !seen {
						s.mapStoreSafe[ix] = made
					} else {
						s.mapStoreSafe[ix] = prev && made
					}
				}
			}
			p, ok := s.lvalue(l, st)
			if !ok {
				why := ""
				if se, isStar := l.(*ast.StarExpr); isStar {
					s.evalNow(se.X, st, func(v sval) { why = " (pointer value " + svString(v) + ")" })
				}
				s.fail("assignment target %s%s", exprString(l), why)
				return
			}
			if tok != token.ASSIGN && tok != token.DEFINE {
				v = svOpaque{l}
			}
			s.store(st, p, v, pos)
		}
		k(st)
	}
	if len(rhs) == 1 && len(lhs) > 1 {
		r := unparen(rhs[0])
		switch y := r.(type) {
		case *ast.CallExpr:
			s.evalCall(y, st, func(st *sstate, vs []sval) {
				for len(vs) < len(lhs) {
					vs = append(vs, svOpaque{r})
				}
				put(st, vs)
			})
		case *ast.IndexExpr:
			s.eval(y, st, func(st *sstate, v sval) {
				if ix, ok := v.(svIndex); ok {
					put(st, []sval{v, svHas{ix.x, ix.i}})
					return
				}
				put(st, []sval{v, svOpaque{r}})
			})
		case *ast.TypeAssertExpr:
			s.eval(y.X, st, func(st *sstate, v sval) { put(st, []sval{v, svOpaque{r}}) })
		default:
			s.eval(r, st, func(st *sstate, v sval) { put(st, []sval{v, svOpaque{r}}) })
		}
		return
	}
	if len(rhs) == 1 {
		if call, ok := unparen(rhs[0]).(*ast.CallExpr); ok {
			s.evalCall(call, st, func(st *sstate, vs []sval) {
				if len(vs) == 0 {
					vs = []sval{svOpaque{call}}
				}
				put(st, vs[:1])
			})
			return
		}
	}
	s.evalList(rhs, st, put)
}

// lvalue resolves an assignable expression to a location.
func (s *effsim) lvalue(e ast.Expr, st *sstate) (svPath, bool) {
	c := s.c
	e = unparen(e)
	switch x := e.(type) {
	case *ast.Ident:
		o := c.objOf(x)
		if o == nil {
			return svPath{}, false
		}
		return svPath{root: o}, true
	case *ast.SelectorExpr:
		sel := c.Info.Selections[x]
		if sel == nil || sel.Kind() != types.FieldVal {
			return svPath{}, false
		}
		if base, ok := s.lvalue(x.X, st); ok {
			return extend(base, selectionSteps(sel)...), true
		}
		// field of a value that is not a location (a call result): through its value
		var out svPath
		found := false
		s.evalNow(x.X, st, func(v sval) {
			switch b := v.(type) {
			case svPath:
				out, found = extend(b, selectionSteps(sel)...), true
			case svAddr:
				out, found = extend(b.p, selectionSteps(sel)...), true
			}
		})
		return out, found
	case *ast.IndexExpr:
		if base, ok := s.lvalue(x.X, st); ok {
			step := "[]"
			if s.keepIndices {
				s.evalNow(x.Index, st, func(iv sval) { step = s.indexStep(iv) })
			}
			return extend(base, step), true
		}
		return svPath{}, false
	case *ast.StarExpr:
		var out svPath
		found := false
		s.evalNow(x.X, st, func(v sval) {
			switch b := v.(type) {
			case svAddr:
				out, found = b.p, true
			case svPath:
				// the pointee of an initial pointer value: the location "everything below it"
				out, found = extend(b, "*"), true
			case svSel, svCall, svIndex, svElem:
				// a pointer obtained from a call result: the location is named by that value
				out, found = svPath{via: b, steps: []string{"*"}}, true
			}
		})
		return out, found
	}
	return svPath{}, false
}

// evalNow evaluates an expression that cannot fork (no calls to inline): used for lvalues.
func (s *effsim) evalNow(e ast.Expr, st *sstate, k func(sval)) {
	n := 0
	s.eval(e, st, func(_ *sstate, v sval) {
		n++
		if n == 1 {
			k(v)
		}
	})
}

// ---- expressions ----

func (s *effsim) evalList(es []ast.Expr, st *sstate, k func(*sstate, []sval)) {
	var run func(i int, st *sstate, acc []sval)
	run = func(i int, st *sstate, acc []sval) {
		if i == len(es) {
			k(st, acc)
			return
		}
		s.eval(es[i], st, func(st *sstate, v sval) {
			run(i+1, st, append(append([]sval{}, acc...), v))
		})
	}
	run(0, st, nil)
}

func (s *effsim) binop(op token.Token, x, y sval) sval {
	cx, okx := x.(svConst)
	cy, oky := y.(svConst)
	if okx && oky {
		switch op {
		case token.EQL, token.NEQ, token.LSS, token.LEQ, token.GTR, token.GEQ:
			if cx.v.Kind() == cy.v.Kind() || (cx.v.Kind() != constant.Bool && cy.v.Kind() != constant.Bool && cx.v.Kind() != constant.String && cy.v.Kind() != constant.String) {
				return svConst{constant.MakeBool(constant.Compare(cx.v, op, cy.v))}
			}
		case token.ADD, token.SUB, token.MUL:
			if cx.v.Kind() == cy.v.Kind() {
				return svConst{constant.BinaryOp(cx.v, op, cy.v)}
			}
		case token.LAND:
			return svConst{constant.MakeBool(constant.BoolVal(cx.v) && constant.BoolVal(cy.v))}
		case token.LOR:
			return svConst{constant.MakeBool(constant.BoolVal(cx.v) || constant.BoolVal(cy.v))}
		}
	}
	if op == token.EQL || op == token.NEQ {
		// an address, a literal or a function is never nil
		nonNil := func(v sval) bool {
			switch v.(type) {
			case svAddr, svFunc, svMethod, svFresh, svList:
				return true
			case svStruct:
				return true
			case svCall:
				// freshly made errors
				if f, ok := v.(svCall).callee.(*types.Func); ok && f.Pkg() != nil {
					switch f.Pkg().Path() + "." + f.Name() {
					case "fmt.Errorf", "errors.New":
						return true
					}
				}
			}
			return false
		}
		_, xn := x.(svNil)
		_, yn := y.(svNil)
		if xn && yn {
			return svConst{constant.MakeBool(op == token.EQL)}
		}
		if xn && nonNil(y) || yn && nonNil(x) {
			return svConst{constant.MakeBool(op == token.NEQ)}
		}
		// normalise: the nil / constant goes right
		if xn || okx && !oky {
			x, y = y, x
		}
		// one literal per comparison: x == k is !(x != k)
		if op == token.EQL {
			return svNot{svBin{op: token.NEQ, x: x, y: y}}
		}
	}
	if op == token.LAND {
		if b, ok := constBool(x); ok {
			if b {
				return y
			}
			return x
		}
		if b, ok := constBool(y); ok && b {
			return x
		}
	}
	if op == token.LOR {
		if b, ok := constBool(x); ok {
			if b {
				return x
			}
			return y
		}
		if b, ok := constBool(y); ok && !b {
			return x
		}
	}
	return svBin{op: op, x: x, y: y}
}

func (s *effsim) eval(e ast.Expr, st *sstate, k func(*sstate, sval)) {
	if s.unsupported != "" {
		return
	}
	c := s.c
	e = unparen(e)
	if tv, ok := c.Info.Types[e]; ok && tv.Value != nil {
		k(st, svConst{tv.Value})
		return
	}
	switch x := e.(type) {
	case *ast.Ident:
		o := c.objOf(x)
		switch o.(type) {
		case *types.Nil:
			k(st, svNil{})
			return
		case *types.Func:
			k(st, svMethod{fn: o.(*types.Func)})
			return
		case *types.Var:
			k(st, s.load(st, svPath{root: o}))
			return
		}
		k(st, svOpaque{e})
	case *ast.FuncLit:
		k(st, svFunc{x})
	case *ast.CompositeLit:
		s.evalComposite(x, st, k)
	case *ast.SelectorExpr:
		sel := c.Info.Selections[x]
		if sel == nil {
			// qualified identifier
			if o, ok := c.Info.Uses[x.Sel].(*types.Func); ok {
				k(st, svMethod{fn: o})
				return
			}
			if o, ok := c.Info.Uses[x.Sel].(*types.Var); ok {
				k(st, svPath{root: o})
				return
			}
			k(st, svOpaque{e})
			return
		}
		s.eval(x.X, st, func(st *sstate, base sval) {
			switch sel.Kind() {
			case types.FieldVal:
				steps := selectionSteps(sel)
				switch b := base.(type) {
				case svPath:
					s.noteRead(st, extend(b, steps...), x.Pos())
					k(st, s.load(st, extend(b, steps...)))
				case svAddr:
					s.noteRead(st, extend(b.p, steps...), x.Pos())
					k(st, s.load(st, extend(b.p, steps...)))
				case svStruct, svZero, svCall, svIndex, svElem, svSel:
					k(st, s.project(st, b, steps))
				default:
					k(st, svOpaque{e})
				}
			case types.MethodVal:
				if fn, ok := sel.Obj().(*types.Func); ok {
					k(st, svMethod{recv: s.methodRecv(st, x.X, base, sel), fn: fn})
					return
				}
				k(st, svOpaque{e})
			default:
				k(st, svOpaque{e})
			}
		})
	case *ast.StarExpr:
		s.eval(x.X, st, func(st *sstate, v sval) {
			switch b := v.(type) {
			case svAddr:
				k(st, s.load(st, b.p))
			default:
				k(st, v) // pointer indirection is transparent on initial values and literals
			}
		})
	case *ast.UnaryExpr:
		switch x.Op {
		case token.AND:
			if _, isLit := unparen(x.X).(*ast.CompositeLit); isLit {
				s.eval(x.X, st, k)
				return
			}
			if p, ok := s.lvalue(x.X, st); ok {
				k(st, svAddr{s.resolve(st, p)})
				return
			}
			k(st, svOpaque{e})
		case token.NOT:
			s.eval(x.X, st, func(st *sstate, v sval) {
				if b, ok := constBool(v); ok {
					k(st, svConst{constant.MakeBool(!b)})
					return
				}
				if n, ok := v.(svNot); ok {
					k(st, n.x)
					return
				}
				k(st, svNot{v})
			})
		default:
			s.eval(x.X, st, func(st *sstate, v sval) { k(st, svOpaque{e}) })
		}
	case *ast.BinaryExpr:
		if x.Op == token.LAND || x.Op == token.LOR {
			// short circuit: the right side is only evaluated when needed
			s.eval(x.X, st, func(st *sstate, l sval) {
				if b, ok := constBool(l); ok {
					if b == (x.Op == token.LOR) {
						k(st, l)
						return
					}
					s.eval(x.Y, st, k)
					return
				}
				s.eval(x.Y, st, func(st *sstate, r sval) { k(st, s.binop(x.Op, l, r)) })
			})
			return
		}
		s.eval(x.X, st, func(st *sstate, l sval) {
			s.eval(x.Y, st, func(st *sstate, r sval) {
				// an interface holding a value of a concrete type is not nil, even when that value is a nil pointer
				if x.Op == token.EQL || x.Op == token.NEQ {
					for _, pr := range [][3]interface{}{{x.X, l, r}, {x.Y, r, l}} {
						if _, otherNil := pr[2].(svNil); !otherNil {
							continue
						}
						st0 := c.typeOf(pr[0].(ast.Expr))
						if st0 == nil {
							continue
						}
						if _, isIface := st0.Underlying().(*types.Interface); isIface && s.dynType(pr[1]) != nil {
							k(st, svConst{constant.MakeBool(x.Op == token.NEQ)})
							return
						}
					}
				}
				k(st, s.binop(x.Op, l, r))
			})
		})
	case *ast.CallExpr:
		s.evalCall(x, st, func(st *sstate, vs []sval) {
			if len(vs) == 0 {
				k(st, svOpaque{e})
				return
			}
			k(st, vs[0])
		})
	case *ast.IndexExpr:
		s.eval(x.X, st, func(st *sstate, base sval) {
			s.eval(x.Index, st, func(st *sstate, idx sval) {
				if l, ok := base.(svList); ok {
					if ci, ok := idx.(svConst); ok && ci.v.Kind() == constant.Int {
						if n, exact := constant.Int64Val(ci.v); exact && n >= 0 && int(n) < len(l.elems) {
							if s.indexSafe != nil {
								if _, seen := s.indexSafe[x]; !seen {
									s.indexSafe[x] = true
								}
							}
							k(st, l.elems[n])
							return
						}
					}
				}
				if s.indexSafe != nil {
					s.indexSafe[x] = false
				}
				if p, ok := base.(svPath); ok {
					// reading an element of a container reads the container (also through a local alias of it)
					s.noteRead(st, p, x.Pos())
					if _, isMap := c.typeOf(x.X).Underlying().(*types.Map); !isMap {
						k(st, s.load(st, extend(p, s.indexStep(idx))))
						return
					}
				}
				k(st, svIndex{x: base, i: idx})
			})
		})
	case *ast.SliceExpr:
		s.eval(x.X, st, func(st *sstate, base sval) {
			l, isList := base.(svList)
			if !isList || x.Slice3 {
				k(st, svOpaque{e})
				return
			}
			lo, hi := 0, len(l.elems)
			bound := func(b ast.Expr, into *int, next func()) {
				if b == nil {
					next()
					return
				}
				s.eval(b, st, func(_ *sstate, v sval) {
					if ci, ok := v.(svConst); ok && ci.v.Kind() == constant.Int {
						if n, exact := constant.Int64Val(ci.v); exact {
							*into = int(n)
							next()
							return
						}
					}
					k(st, svOpaque{e})
				})
			}
			bound(x.Low, &lo, func() {
				bound(x.High, &hi, func() {
					if lo < 0 || hi > len(l.elems) || lo > hi {
						k(st, svOpaque{e})
						return
					}
					k(st, svList{append([]sval{}, l.elems[lo:hi]...)})
				})
			})
		})
	case *ast.TypeAssertExpr:
		s.eval(x.X, st, k)
	case *ast.KeyValueExpr:
		s.eval(x.Value, st, k)
	default:
		k(st, svOpaque{e})
	}
}

func (s *effsim) methodRecv(st *sstate, xe ast.Expr, base sval, sel *types.Selection) sval {
	// pointer-receiver method on an addressable value: the address of the location
	fn, _ := sel.Obj().(*types.Func)
	if fn == nil {
		return base
	}
	sig := fn.Type().(*types.Signature)
	embedded := methodRecvSteps(sel)
	_, ptrRecv := sig.Recv().Type().(*types.Pointer)
	if ptrRecv {
		if _, isPtr := s.c.typeOf(xe).Underlying().(*types.Pointer); !isPtr || len(embedded) > 0 {
			if p, ok := s.lvalue(xe, st); ok {
				return svAddr{s.resolve(st, extend(p, embedded...))}
			}
		}
		if len(embedded) > 0 {
			switch b := base.(type) {
			case svPath:
				return svAddr{extend(b, embedded...)}
			case svAddr:
				return svAddr{extend(b.p, embedded...)}
			}
		}
		return base
	}
	if len(embedded) > 0 {
		return s.project(st, base, embedded)
	}
	if a, ok := base.(svAddr); ok {
		return s.load(st, a.p)
	}
	return base
}

func (s *effsim) evalComposite(x *ast.CompositeLit, st *sstate, k func(*sstate, sval)) {
	c := s.c
	t := c.typeOf(x)
	if t == nil {
		k(st, svOpaque{x})
		return
	}
	switch u := derefType(t).Underlying().(type) {
	case *types.Struct:
		if len(x.Elts) == 0 {
			k(st, svZero{derefType(t)})
			return
		}
		var names []string
		var vals []ast.Expr
		for i, el := range x.Elts {
			if kv, ok := el.(*ast.KeyValueExpr); ok {
				id, _ := kv.Key.(*ast.Ident)
				if id == nil {
					k(st, svOpaque{x})
					return
				}
				names = append(names, id.Name)
				vals = append(vals, s.implicitLit(kv.Value))
			} else if i < u.NumFields() {
				names = append(names, u.Field(i).Name())
				vals = append(vals, s.implicitLit(el))
			}
		}
		s.evalList(vals, st, func(st *sstate, vs []sval) {
			f := map[string]sval{}
			for i, n := range names {
				f[n] = vs[i]
			}
			k(st, svStruct{t: derefType(t), fields: f})
		})
	case *types.Slice, *types.Array:
		var vals []ast.Expr
		for _, el := range x.Elts {
			if kv, ok := el.(*ast.KeyValueExpr); ok {
				vals = append(vals, s.implicitLit(kv.Value))
			} else {
				vals = append(vals, s.implicitLit(el))
			}
		}
		s.evalList(vals, st, func(st *sstate, vs []sval) { k(st, svList{vs}) })
	default:
		if len(x.Elts) == 0 {
			k(st, svFresh{x.Pos()})
			return
		}
		k(st, svOpaque{x})
	}
}

func (s *effsim) implicitLit(e ast.Expr) ast.Expr { return e }

// evalCall evaluates a call and hands every result to k.
func (s *effsim) evalCall(call *ast.CallExpr, st *sstate, k func(*sstate, []sval)) {
	if s.unsupported != "" {
		return
	}
	c := s.c
	if c.isConversion(call) && len(call.Args) == 1 {
		s.eval(call.Args[0], st, func(st *sstate, v sval) { k(st, []sval{v}) })
		return
	}
	if id, ok := unparen(call.Fun).(*ast.Ident); ok {
		if b, ok := c.Info.Uses[id].(*types.Builtin); ok {
			s.evalBuiltin(b.Name(), call, st, k)
			return
		}
	}
	// immediately invoked function literal
	if lit, ok := unparen(call.Fun).(*ast.FuncLit); ok {
		s.evalArgs(call, nil, st, func(st *sstate, args []sval) { s.inlineLit(lit, args, st, k) })
		return
	}
	s.eval(call.Fun, st, func(st *sstate, fv sval) {
		switch f := fv.(type) {
		case svFunc:
			s.evalArgs(call, nil, st, func(st *sstate, args []sval) { s.inlineLit(f.lit, args, st, k) })
		case svMethod:
			sig := f.fn.Type().(*types.Signature)
			s.evalArgs(call, sig, st, func(st *sstate, args []sval) { s.callFunc(f, args, call, st, k) })
		default:
			s.evalArgs(call, nil, st, func(st *sstate, args []sval) {
				k(st, s.opaqueCall(st, nil, fv, nil, args, call))
			})
		}
	})
}

// evalArgs evaluates the arguments; the arguments of a variadic parameter are packed into a list.
func (s *effsim) evalArgs(call *ast.CallExpr, sig *types.Signature, st *sstate, k func(*sstate, []sval)) {
	s.evalList(call.Args, st, func(st *sstate, vs []sval) {
		if sig != nil && sig.Variadic() && call.Ellipsis == token.NoPos {
			n := sig.Params().Len() - 1
			if len(vs) >= n {
				packed := append(append([]sval{}, vs[:n]...), svList{append([]sval{}, vs[n:]...)})
				k(st, packed)
				return
			}
		}
		k(st, vs)
	})
}

func (s *effsim) opaqueCall(st *sstate, callee types.Object, fun, recv sval, args []sval, call *ast.CallExpr) []sval {
	s.ncall++
	sc := &svCall{id: s.ncall, callee: callee, fun: fun, recv: recv, args: args, call: call}
	for i, a := range args {
		if ad, ok := a.(svAddr); ok && len(ad.p.steps) == 0 && ad.p.root != nil {
			if v, has := st.vars[ad.p.root]; has {
				if sc.held == nil {
					sc.held = make([]sval, len(args))
				}
				sc.held[i] = v
				// the callee may store through the pointer: a pointer-typed local whose address is handed over
				// holds, afterwards, an out-value of this call (result index 100+i)
				if _, isPtr := ad.p.root.Type().Underlying().(*types.Pointer); isPtr && s.outValues {
					out := *sc
					out.idx = 100 + i
					st.vars[ad.p.root] = out
				}
			}
		}
	}
	if f, ok := callee.(*types.Func); ok && f.Pkg() != nil && f.Pkg() != s.c.Types && len(args) == 0 && recv != nil {
		sc.observer = true
	} else {
		st.epoch++
	}
	sc.epoch = st.epoch
	if f, ok := callee.(*types.Func); ok && s.mutates != nil && s.mutates(f) {
		sig := f.Type().(*types.Signature)
		for i, a := range args {
			if i >= sig.Params().Len() {
				break
			}
			out := *sc
			out.idx = 100 + i
			// the address of a local handed over (whatever the parameter type: Decode(&raw)): the local holds the
			// out-value afterwards
			if ad, isAddr := a.(svAddr); isAddr && len(ad.p.steps) == 0 && ad.p.root != nil {
				st.vars[ad.p.root] = out
				continue
			}
			// a literal whose fields point to locations (Decode(&struct{ P *T }{P: &x.f})): each location holds the
			// part of the out-value that the field designates
			if lit, isLit := a.(svStruct); isLit {
				if _, isIface := sig.Params().At(i).Type().Underlying().(*types.Interface); isIface {
					for name, fv := range lit.fields {
						if fa, isAddr := fv.(svAddr); isAddr && name != "" {
							s.store(st, fa.p, svSel{x: out, steps: name}, call.Pos())
						}
					}
					continue
				}
			}
			pt, isPtr := sig.Params().At(i).Type().Underlying().(*types.Pointer)
			if !isPtr {
				continue
			}
			if _, isStruct := pt.Elem().Underlying().(*types.Struct); !isStruct {
				continue
			}
			if _, isNil := a.(svNil); isNil {
				continue
			}
			for o, v := range st.vars {
				st.vars[o] = svSubstObject(v, a, out)
			}
			for hk, v := range st.heap {
				st.heap[hk] = svSubstObject(v, a, out)
			}
		}
	}
	st.effs = append(st.effs, seffect{kind: "call", call: sc, ncond: len(st.conds), pos: call.Pos()})
	n := 1
	if tv, ok := s.c.Info.Types[call]; ok {
		if tup, ok := tv.Type.(*types.Tuple); ok {
			n = tup.Len()
		}
	}
	out := make([]sval, n)
	for i := range out {
		r := *sc
		r.idx = i
		out[i] = r
	}
	return out
}

func (s *effsim) callFunc(f svMethod, args []sval, call *ast.CallExpr, st *sstate, k func(*sstate, []sval)) {
	c := s.c
	fd := c.decl(f.fn)
	inl := fd != nil && fd.Body != nil && f.fn.Pkg() == c.Types && len(s.stack) < 5 && (s.inline == nil || s.inline(f.fn))
	for _, g := range s.stack {
		if g == f.fn {
			inl = false
		}
	}
	if !inl {
		recv := f.recv
		// a method called on the address of a local: what matters to the rules is the value held there
		if a, ok := recv.(svAddr); ok {
			if _, has := st.vars[a.p.root]; has {
				if _, isParamPath := st.vars[a.p.root].(svPath); !isParamPath {
					recv = s.load(st, a.p)
				}
			}
		}
		k(st, s.opaqueCall(st, f.fn, nil, recv, args, call))
		return
	}
	if r := c.recvObj(fd); r != nil {
		st.vars[r] = f.recv
	}
	for i, a := range args {
		if p := c.paramObj(fd, i); p != nil {
			st.vars[p] = a
		}
	}
	s.stack = append(s.stack, f.fn)
	depth := len(s.stack)
	s.callBody(fd.Type, fd.Body, st, func(st *sstate, rets []sval) {
		saved := s.stack
		s.stack = s.stack[:depth-1]
		k(st, rets)
		s.stack = saved
	})
	s.stack = s.stack[:depth-1]
}

func (s *effsim) inlineLit(lit *ast.FuncLit, args []sval, st *sstate, k func(*sstate, []sval)) {
	c := s.c
	if len(s.stack) > 8 {
		s.fail("closure nesting")
		return
	}
	i := 0
	for _, f := range lit.Type.Params.List {
		for _, nm := range f.Names {
			if o := c.Info.Defs[nm]; o != nil && i < len(args) {
				st.vars[o] = args[i]
			}
			i++
		}
	}
	s.callBody(lit.Type, lit.Body, st, k)
}

func (s *effsim) evalBuiltin(name string, call *ast.CallExpr, st *sstate, k func(*sstate, []sval)) {
	switch name {
	case "len", "cap":
		s.inLen++
		s.eval(call.Args[0], st, func(st *sstate, v sval) {
			s.inLen--
			if l, ok := v.(svList); ok {
				k(st, []sval{svConst{constant.MakeInt64(int64(len(l.elems)))}})
				return
			}
			k(st, []sval{svCall{callee: nil, fun: svOpaque{call.Fun}, args: []sval{v}, call: call}})
		})
	case "append":
		s.evalList(call.Args, st, func(st *sstate, vs []sval) {
			base := vs[0]
			elems := vs[1:]
			if call.Ellipsis != token.NoPos && len(elems) == 1 {
				if l, ok := elems[0].(svList); ok {
					elems = l.elems
				} else {
					k(st, []sval{svOpaque{call}})
					return
				}
			}
			st.effs = append(st.effs, seffect{kind: "append", base: base, elems: elems, ncond: len(st.conds), pos: call.Pos()})
			switch b := base.(type) {
			case svList:
				k(st, []sval{svList{append(append([]sval{}, b.elems...), elems...)}})
			case svFresh, svNil, svZero:
				k(st, []sval{svList{append([]sval{}, elems...)}})
			default:
				k(st, []sval{svOpaque{call}})
			}
		})
	case "make":
		// an empty slice is the empty list
		if _, isSlice := s.c.typeOf(call).Underlying().(*types.Slice); isSlice && len(call.Args) >= 2 {
			if tv, ok := s.c.Info.Types[call.Args[1]]; ok && tv.Value != nil && tv.Value.Kind() == constant.Int && constant.Sign(tv.Value) == 0 {
				k(st, []sval{svList{}})
				return
			}
		}
		k(st, []sval{svFresh{call.Pos()}})
	case "new":
		k(st, []sval{svFresh{call.Pos()}})
	case "delete", "panic", "print", "println", "copy", "clear":
		s.evalList(call.Args, st, func(st *sstate, vs []sval) {
			st.effs = append(st.effs, seffect{kind: "call", call: &svCall{fun: svOpaque{call.Fun}, args: vs, call: call}, ncond: len(st.conds), pos: call.Pos()})
			k(st, nil)
		})
	default:
		s.evalList(call.Args, st, func(st *sstate, vs []sval) { k(st, []sval{svOpaque{call}}) })
	}
}

// indexStep: the path step for an element selection: "[]" (some element), or, when indices are kept and the
// index is a plain variable, "[#name]" so that x[i] and x[j] are different locations.
func (s *effsim) indexStep(idx sval) string {
	if s.keepIndices {
		if p, ok := idx.(svPath); ok && len(p.steps) == 0 && p.root != nil {
			return "[#" + p.root.Name() + "]"
		}
		if s.keepAllIndices {
			return "[#" + svString(idx) + "]"
		}
	}
	return "[]"
}

// dynType: the concrete (non-interface) type a normal-form value is known to have, or nil.
func (s *effsim) dynType(v sval) types.Type {
	var t types.Type
	switch x := v.(type) {
	case svPath:
		if x.root == nil {
			return nil
		}
		t = x.root.Type()
		for _, stp := range x.steps {
			switch {
			case stp == "*":
				t = derefType(t)
			case strings.HasPrefix(stp, "["):
				switch u := derefType(t).Underlying().(type) {
				case *types.Slice:
					t = u.Elem()
				case *types.Array:
					t = u.Elem()
				case *types.Map:
					t = u.Elem()
				default:
					return nil
				}
			default:
				st, ok := derefType(t).Underlying().(*types.Struct)
				if !ok {
					return nil
				}
				found := false
				for i := 0; i < st.NumFields(); i++ {
					if st.Field(i).Name() == stp {
						t, found = st.Field(i).Type(), true
					}
				}
				if !found {
					return nil
				}
			}
		}
	case svStruct:
		t = x.t
	case svConst:
		switch x.v.Kind() {
		case constant.Bool:
			t = types.Typ[types.Bool]
		case constant.String:
			t = types.Typ[types.String]
		default:
			return nil
		}
	default:
		return nil
	}
	if t == nil {
		return nil
	}
	if _, isIface := t.Underlying().(*types.Interface); isIface {
		return nil
	}
	return t
}

// ---- comparison and printing ----

func svEqual(a, b sval) bool {
	switch x := a.(type) {
	case svPath:
		y, ok := b.(svPath)
		return ok && x.root == y.root && strings.Join(x.steps, ".") == strings.Join(y.steps, ".")
	case svAddr:
		y, ok := b.(svAddr)
		return ok && svEqual(x.p, y.p)
	case svConst:
		y, ok := b.(svConst)
		return ok && x.v.Kind() == y.v.Kind() && constant.Compare(x.v, token.EQL, y.v)
	case svNil:
		_, ok := b.(svNil)
		return ok
	case svBin:
		y, ok := b.(svBin)
		return ok && x.op == y.op && svEqual(x.x, y.x) && svEqual(x.y, y.y)
	case svNot:
		y, ok := b.(svNot)
		return ok && svEqual(x.x, y.x)
	case svCall:
		y, ok := b.(svCall)
		if !ok {
			return false
		}
		if x.observer && y.observer && x.callee == y.callee && x.epoch == y.epoch && x.idx == y.idx && svEqual(x.recv, y.recv) {
			return true
		}
		if x.id != 0 || y.id != 0 {
			return x.id == y.id && x.idx == y.idx
		}
		if len(x.args) != len(y.args) || x.call != y.call {
			return false
		}
		for i := range x.args {
			if !svEqual(x.args[i], y.args[i]) {
				return false
			}
		}
		return true
	case svElem:
		y, ok := b.(svElem)
		return ok && svEqual(x.of, y.of)
	case svIndex:
		y, ok := b.(svIndex)
		return ok && svEqual(x.x, y.x) && svEqual(x.i, y.i)
	case svHas:
		y, ok := b.(svHas)
		return ok && svEqual(x.x, y.x) && svEqual(x.i, y.i)
	case svSel:
		y, ok := b.(svSel)
		return ok && x.steps == y.steps && svEqual(x.x, y.x)
	case svOpaque:
		y, ok := b.(svOpaque)
		return ok && x.e == y.e && x.e != nil
	case svFunc:
		y, ok := b.(svFunc)
		return ok && x.lit == y.lit
	case svFresh:
		y, ok := b.(svFresh)
		return ok && x.pos == y.pos
	}
	return false
}

// sameObject: do two normal-form values denote the same object (for literals: the same literal)?
func sameObject(a, b sval) bool {
	switch x := a.(type) {
	case svStruct:
		y, ok := b.(svStruct)
		return ok && reflect.ValueOf(x.fields).Pointer() == reflect.ValueOf(y.fields).Pointer()
	case svZero:
		y, ok := b.(svZero)
		return ok && x.t != nil && y.t != nil && types.Identical(x.t, y.t)
	}
	return svEqual(a, b)
}

// svSubstObject replaces, in v, every occurrence of the object `from` by `to` (struct fields and list elements
// are searched).
func svSubstObject(v, from, to sval) sval {
	if sameObject(v, from) {
		return to
	}
	switch x := v.(type) {
	case svStruct:
		changed := false
		nf := make(map[string]sval, len(x.fields))
		for k, f := range x.fields {
			g := svSubstObject(f, from, to)
			nf[k] = g
			if !sameValueShallow(f, g) {
				changed = true
			}
		}
		if changed {
			return svStruct{t: x.t, fields: nf}
		}
	case svList:
		changed := false
		ne := make([]sval, len(x.elems))
		for i, e := range x.elems {
			ne[i] = svSubstObject(e, from, to)
			if !sameValueShallow(e, ne[i]) {
				changed = true
			}
		}
		if changed {
			return svList{ne}
		}
	}
	return v
}

func sameValueShallow(a, b sval) bool {
	if sa, ok := a.(svStruct); ok {
		sb, ok := b.(svStruct)
		return ok && reflect.ValueOf(sa.fields).Pointer() == reflect.ValueOf(sb.fields).Pointer()
	}
	if la, ok := a.(svList); ok {
		lb, ok := b.(svList)
		return ok && len(la.elems) == len(lb.elems) && (len(la.elems) == 0 || &la.elems[0] == &lb.elems[0])
	}
	return sameObject(a, b)
}

func svString(v sval) string {
	switch x := v.(type) {
	case nil:
		return "<none>"
	case svPath:
		n := "?"
		if x.root != nil {
			n = x.root.Name()
		} else if x.via != nil {
			n = "(" + svString(x.via) + ")"
		}
		if len(x.steps) == 0 {
			return n
		}
		return n + "." + strings.Join(x.steps, ".")
	case svAddr:
		return "&" + svString(x.p)
	case svConst:
		return x.v.String()
	case svNil:
		return "nil"
	case svZero:
		return "zero"
	case svStruct:
		var ks []string
		for k := range x.fields {
			ks = append(ks, k)
		}
		sort.Strings(ks)
		var parts []string
		for _, k := range ks {
			parts = append(parts, k+": "+svString(x.fields[k]))
		}
		return "{" + strings.Join(parts, ", ") + "}"
	case svList:
		var parts []string
		for _, e := range x.elems {
			parts = append(parts, svString(e))
		}
		return "[" + strings.Join(parts, ", ") + "]"
	case svFunc:
		return "func literal"
	case svMethod:
		if x.recv != nil {
			return svString(x.recv) + "." + x.fn.Name()
		}
		return x.fn.Name()
	case svBin:
		return "(" + svString(x.x) + " " + x.op.String() + " " + svString(x.y) + ")"
	case svNot:
		return "!" + svString(x.x)
	case svCall:
		name := "call"
		if x.callee != nil {
			name = x.callee.Name()
		} else if x.call != nil {
			name = exprString(x.call.Fun)
		}
		var parts []string
		for _, a := range x.args {
			parts = append(parts, svString(a))
		}
		if x.recv != nil {
			name = svString(x.recv) + "." + name
		}
		return fmt.Sprintf("%s(%s)#%d", name, strings.Join(parts, ", "), x.idx)
	case svIndex:
		return svString(x.x) + "[" + svString(x.i) + "]"
	case svHas:
		return "has(" + svString(x.x) + "[" + svString(x.i) + "])"
	case svSel:
		return svString(x.x) + "." + x.steps
	case svElem:
		return "elem(" + svString(x.of) + ")"
	case svFresh:
		return "fresh"
	case svOpaque:
		if x.e != nil {
			return "‹" + exprString(x.e) + "›"
		}
		return "‹?›"
	}
	return fmt.Sprintf("%T", v)
}

// svWalk visits v and every value it is built from.
func svWalk(v sval, f func(sval)) {
	if v == nil {
		return
	}
	f(v)
	switch x := v.(type) {
	case svPath:
		if x.via != nil {
			svWalk(x.via, f)
		}
	case svAddr:
		svWalk(x.p, f)
	case svBin:
		svWalk(x.x, f)
		svWalk(x.y, f)
	case svNot:
		svWalk(x.x, f)
	case svCall:
		if x.recv != nil {
			svWalk(x.recv, f)
		}
		if x.fun != nil {
			svWalk(x.fun, f)
		}
		for _, a := range x.args {
			svWalk(a, f)
		}
	case svIndex:
		svWalk(x.x, f)
		svWalk(x.i, f)
	case svHas:
		svWalk(x.x, f)
		svWalk(x.i, f)
	case svSel:
		svWalk(x.x, f)
	case svElem:
		svWalk(x.of, f)
	case svStruct:
		for _, fv := range x.fields {
			svWalk(fv, f)
		}
	case svList:
		for _, e := range x.elems {
			svWalk(e, f)
		}
	}
}

// isZeroSV: the value is the zero value of its type (nil, false, "", 0, T{}).
func isZeroSV(v sval) bool {
	switch x := v.(type) {
	case svNil, svZero:
		return true
	case svConst:
		switch x.v.Kind() {
		case constant.Bool:
			return !constant.BoolVal(x.v)
		case constant.String:
			return constant.StringVal(x.v) == ""
		case constant.Int, constant.Float:
			return constant.Sign(x.v) == 0
		}
	}
	return false
}
