package main

import (
	"fmt"
	"go/ast"
	"go/token"
	"go/types"
	"sort"
	"strings"
)

func init() {
	registerRule("errflow", 52, "every error of the expansion/resolution machinery reaches the caller through one of the accepted idioms", ruleErrFlow)
	registerRule("single-decision", 3, "ContinueOnError is consulted in exactly one function, whose contract is checked on its body", ruleSingleDecision)
}

// errflowExceptions: audited deviations, keyed by caller:callee#ordinal (never by line), one reason each.
var errflowExceptions = map[string]string{
	"expandParameterOrResponse:getRefAndSchema#2": "second call on the same input the first call already accepted: it cannot fail differently; it only re-reads the holder after dereferencing",
	"schemaLoader.resolveRef:schemaLoader.load#1": "root probing for fragment-only refs: a failure leaves root nil and falls through to the branch that loads the same document again and returns that error",
}

// errflowNonSources: error-returning package functions whose failures are repaired by design, not propagated.
var errflowNonSources = map[string]string{
	"parseURL": "normalizeURI/normalizeBase/denormalizeRef repair or ignore unparsable URLs by design (C11/C12 territory)",
}

func (c *Ctx) entryPoints() []*types.Func {
	var roots []*types.Func
	for _, f := range c.pkgFuncs() {
		sig := f.Type().(*types.Signature)
		if sig.Recv() == nil && f.Exported() && (strings.HasPrefix(f.Name(), "Expand") || strings.HasPrefix(f.Name(), "Resolve")) {
			roots = append(roots, f)
		}
	}
	return roots
}

func (c *Ctx) isErrSource(call *ast.CallExpr) bool {
	if f, ok := c.callee(call).(*types.Func); ok {
		if f.Pkg() == c.Types {
			_, excluded := errflowNonSources[f.Name()]
			return !excluded
		}
		if f.Pkg() == nil {
			return false
		}
		switch f.Pkg().Path() + "." + f.Name() {
		case "github.com/go-openapi/swag.DynamicJSONToStruct", "encoding/json.Unmarshal", "github.com/go-openapi/jsonreference.New":
			return true
		case "github.com/go-openapi/jsonpointer.Get":
			return true
		}
		return false
	}
	// dynamic call through a func-typed field or variable (the document loader)
	if _, isConv := c.Info.Types[call.Fun]; isConv && c.isConversion(call) {
		return false
	}
	if c.isBuiltinAny(call) {
		return false
	}
	return true
}

func (c *Ctx) isBuiltinAny(call *ast.CallExpr) bool {
	id, ok := unparen(call.Fun).(*ast.Ident)
	if !ok {
		return false
	}
	_, isB := c.Info.Uses[id].(*types.Builtin)
	return isB
}

func ruleErrFlow(c *Ctx) {
	const rule = "errflow"
	reach := c.reachableSet(c.entryPoints())
	var fs []*types.Func
	for f := range reach {
		fs = append(fs, f)
	}
	sort.Slice(fs, func(i, j int) bool { return fs[i].Pos() < fs[j].Pos() })
	for _, f := range fs {
		fd := c.decl(f)
		fn := c.funcName(fd)
		ord := map[string]int{}
		for _, s := range c.errorSites(fd) {
			if !c.isErrSource(s.call) {
				continue
			}
			c.saw(fn)
			ord[s.calleeName]++
			key := fmt.Sprintf("%s:%s#%d", fn, s.calleeName, ord[s.calleeName])
			ok, why := c.errorFate(fd, s)
			if !ok && s.form == "blank" {
				if reason := c.blankErrorExcused(fd, s); reason != "" {
					c.ob(rule, key, s.call.Pos(), true, "")
					c.note("errflow exception %s: %s", key, reason)
					continue
				}
			}
			if !ok {
				if reason := c.probeExcused(fd); reason != "" {
					c.ob(rule, key, s.call.Pos(), true, "")
					c.note("errflow exception %s: %s", key, reason)
					continue
				}
			}
			c.ob(rule, key, s.call.Pos(), ok, why)
		}
	}
}

// probeExcused: fd is a probe - an unexported function without an error result whose single, nil-able result
// stands for "found or not": its failures are reported as a nil result, and every caller in the package tests
// that result against nil before using it. Errors may be dropped inside such a function.
func (c *Ctx) probeExcused(fd *ast.FuncDecl) string {
	self, _ := c.Info.Defs[fd.Name].(*types.Func)
	if self == nil || self.Exported() {
		return ""
	}
	sig := self.Type().(*types.Signature)
	if sig.Results().Len() != 1 || isErrorType(sig.Results().At(0).Type()) {
		return ""
	}
	switch types.Unalias(sig.Results().At(0).Type()).Underlying().(type) {
	case *types.Interface, *types.Pointer, *types.Map, *types.Slice:
	default:
		return ""
	}
	sites, tested := 0, 0
	for _, g := range c.allFuncDecls() {
		if g.Body == nil {
			continue
		}
		ast.Inspect(g.Body, func(n ast.Node) bool {
			as, ok := n.(*ast.AssignStmt)
			if !ok || len(as.Rhs) != 1 || len(as.Lhs) != 1 {
				if call, isCall := n.(*ast.CallExpr); isCall && c.callee(call) == self {
					// counted below when it is the right-hand side of an assignment; any other use is untested
					sites++
				}
				return true
			}
			call, ok := unparen(as.Rhs[0]).(*ast.CallExpr)
			if !ok || c.callee(call) != self {
				return true
			}
			sites-- // compensates the generic count of the call expression visited next
			sites++
			id, ok := as.Lhs[0].(*ast.Ident)
			if !ok {
				return true
			}
			v := c.objOf(id)
			nilTested := false
			ast.Inspect(g.Body, func(m ast.Node) bool {
				be, ok := m.(*ast.BinaryExpr)
				if !ok || be.Op != token.NEQ && be.Op != token.EQL {
					return true
				}
				for _, pr := range [][2]ast.Expr{{be.X, be.Y}, {be.Y, be.X}} {
					if x, ok := unparen(pr[0]).(*ast.Ident); ok && c.objOf(x) == v && isNilIdent(c, pr[1]) {
						nilTested = true
					}
				}
				return true
			})
			if nilTested {
				tested++
			}
			return true
		})
	}
	// every call expression was counted once by the generic branch; those that are tested assignments count in `tested`
	if sites > 0 && tested == sites {
		return "probe without an error result: its failures surface as a nil result, which every caller tests"
	}
	return ""
}

func ruleSingleDecision(c *Ctx) {
	const rule = "single-decision"
	readers := map[string]token.Pos{}
	var stop *ast.FuncDecl
	for _, fd := range c.allFuncDecls() {
		if fd.Body == nil {
			continue
		}
		// `ContinueOnError: other.ContinueOnError` inside an ExpandOptions literal copies the option; it decides nothing
		copies := map[*ast.SelectorExpr]bool{}
		ast.Inspect(fd.Body, func(n ast.Node) bool {
			if kv, ok := n.(*ast.KeyValueExpr); ok {
				if k, ok := kv.Key.(*ast.Ident); ok && k.Name == "ContinueOnError" {
					if se, ok := unparen(kv.Value).(*ast.SelectorExpr); ok && c.isOptionField(se, "ContinueOnError") {
						copies[se] = true
					}
				}
			}
			return true
		})
		writes := map[*ast.SelectorExpr]bool{}
		ast.Inspect(fd.Body, func(n ast.Node) bool {
			if as, ok := n.(*ast.AssignStmt); ok {
				for _, l := range as.Lhs {
					if se, ok := unparen(l).(*ast.SelectorExpr); ok {
						writes[se] = true
					}
				}
			}
			return true
		})
		ast.Inspect(fd.Body, func(n ast.Node) bool {
			if se, ok := n.(*ast.SelectorExpr); ok && c.isOptionField(se, "ContinueOnError") && !copies[se] && !writes[se] {
				readers[c.funcName(fd)] = se.Pos()
			}
			return true
		})
	}
	names := sortedKeysPos(readers)
	c.ob(rule, "one-reader", token.NoPos, len(names) == 1, fmt.Sprintf("ContinueOnError is read in %v; the stop-or-continue decision must have a single home", names))
	for _, fd := range c.allFuncDecls() {
		if len(names) == 1 && c.funcName(fd) == names[0] {
			stop = fd
		}
	}
	if stop == nil {
		return
	}
	c.saw(c.funcName(stop))
	f, _ := c.Info.Defs[stop.Name].(*types.Func)
	sig := f.Type().(*types.Signature)
	okSig := sig.Params().Len() == 1 && isErrorType(sig.Params().At(0).Type()) && sig.Results().Len() == 1
	c.ob(rule, "predicate-signature", stop.Pos(), okSig, "the decision point must be a predicate over the error")
	if !okSig {
		return
	}
	errObj := c.paramObj(stop, 0)
	isCOE := func(e ast.Expr) bool {
		se, ok := unparen(e).(*ast.SelectorExpr)
		return ok && c.isOptionField(se, "ContinueOnError")
	}
	// literal classification: +1 err != nil, -1 err == nil, +2 ContinueOnError, -2 !ContinueOnError, 0 other
	classify := func(cl condLit) int {
		v := 0
		switch c.errCheckKind(cl.e, errObj) {
		case "nonnil":
			v = 1
		case "nil":
			v = -1
		}
		if v == 0 && isCOE(cl.e) {
			v = 2
		}
		if cl.neg {
			v = -v
		}
		return v
	}
	okTrue, okFalse, okConst, nTrue, nFalse := true, true, true, 0, 0
	ast.Inspect(stop.Body, func(n ast.Node) bool {
		if _, isLit := n.(*ast.FuncLit); isLit {
			return false
		}
		rs, ok := n.(*ast.ReturnStmt)
		if !ok || len(rs.Results) != 1 {
			return true
		}
		tv, isConst := c.Info.Types[rs.Results[0]]
		if !isConst || tv.Value == nil {
			okConst = false
			return true
		}
		raw := c.condsAt(stop, rs)
		if tv.Value.String() == "true" {
			nTrue++
			nonNil, notCont := false, false
			for _, cl := range raw {
				for _, l := range splitConj(cl) {
					switch classify(l) {
					case 1:
						nonNil = true
					case -2:
						notCont = true
					}
				}
			}
			if !nonNil || !notCont {
				okTrue = false
			}
			return true
		}
		// return false: err == nil, or ContinueOnError, must be implied
		nFalse++
		implied := false
		for _, cl := range raw {
			for _, l := range splitConj(cl) {
				if k := classify(l); k == -1 || k == 2 {
					implied = true
				}
			}
			// a negated conjunction !(err != nil && !ContinueOnError) is the disjunction we want
			if cl.neg {
				conj := splitConj(condLit{e: cl.e, neg: false})
				all := len(conj) > 0
				for _, l := range conj {
					if k := classify(l); k != 1 && k != -2 {
						all = false
					}
				}
				if all {
					implied = true
				}
			}
		}
		if !implied {
			okFalse = false
		}
		return true
	})
	c.ob(rule, "stop-implies-error", stop.Pos(), okTrue && nTrue > 0, "the predicate may answer 'stop' only when the error is non-nil and ContinueOnError is off")
	c.ob(rule, "constant-answers", stop.Pos(), okConst, "the predicate must answer with constants so that its contract is decidable")
	c.ob(rule, "error-stops-unless-continue", stop.Pos(), okFalse && nFalse > 0, "the predicate may answer 'continue' only when the error is nil or ContinueOnError is on: otherwise a failure is silently skipped in strict mode")
}

func (c *Ctx) isOptionField(se *ast.SelectorExpr, name string) bool {
	sel := c.Info.Selections[se]
	if sel == nil || sel.Kind() != types.FieldVal || se.Sel.Name != name {
		return false
	}
	return isNamed(sel.Recv(), c.Types, "ExpandOptions")
}

func sortedKeysPos(m map[string]token.Pos) []string {
	var out []string
	for k := range m {
		out = append(out, k)
	}
	sort.Strings(out)
	return out
}

// blankErrorExcused recognises the two audited situations in which an error assigned to _ loses nothing
// (both found in the reference tree; described by what makes them sound, not by where they are):
//   - probe-then-load: the same callee is called again later in the function and that call's error is
//     propagated, so a failure of the probe only means the fallback runs and reports;
//   - re-read: the same callee was already called earlier with the very same arguments and that error was
//     propagated, so the second call cannot fail differently.
func (c *Ctx) blankErrorExcused(fd *ast.FuncDecl, s errSite) string {
	self, _ := c.callee(s.call).(*types.Func)
	if self == nil {
		return ""
	}
	args := func(call *ast.CallExpr) string {
		parts := []string{}
		for _, a := range call.Args {
			parts = append(parts, exprString(a))
		}
		return strings.Join(parts, ",")
	}
	for _, o := range c.errorSites(fd) {
		if o.call == s.call {
			continue
		}
		g, _ := c.callee(o.call).(*types.Func)
		if g != self {
			continue
		}
		if ok, _ := c.errorFate(fd, o); !ok {
			continue
		}
		if o.call.Pos() > s.call.Pos() {
			return "probe whose failure falls through to a later call of " + s.calleeName + " whose error is propagated"
		}
		if args(o.call) == args(s.call) {
			return "second call of " + s.calleeName + " on the same arguments as an earlier call whose error was propagated"
		}
	}
	return ""
}
