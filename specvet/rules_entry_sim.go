package main

import (
	"go/ast"
	"go/types"
	"strings"
)

// Entry wiring and the options cloner, decided on the effect normal form. The shape in which the wiring is
// written (a helper shared by several entry points, a helper that builds the options, a parameter object, a method
// of the options type doing the copy) does not matter: everything between the exported function and the role
// functions (loader factory, options cloner, pseudo-root helper, cache defaulter, base normaliser, the expander
// family and the loader's methods) is inlined.

type entryRoles struct {
	fam                                   *expFamily
	cloner, pseudo, factory, cacheDef, nb *types.Func
}

func (r *entryRoles) isRole(f *types.Func) bool {
	return f == r.cloner || f == r.pseudo || f == r.factory || f == r.cacheDef || f == r.nb
}

// clonerFacts: what the normal form of the options cloner shows ("" = holds, otherwise why not).
type clonerFacts struct {
	noWrite, byValue, fresh, normalised string
}

func (c *Ctx) clonerFactsBySim(cloner, nb *types.Func) (*clonerFacts, bool) {
	fd := c.decl(cloner)
	if fd == nil || fd.Body == nil {
		return nil, false
	}
	param := c.paramObj(fd, 0)
	if param == nil {
		return nil, false
	}
	paths, unsup := c.simulate(fd, func(f *types.Func) bool { return f != nb })
	if unsup != "" || len(paths) == 0 {
		return nil, false
	}
	res := &clonerFacts{}
	set := func(dst *string, why string) {
		if *dst == "" {
			*dst = why
		}
	}
	isParamField := func(v sval, field string) bool {
		p, ok := v.(svPath)
		if !ok || p.root != param {
			return false
		}
		var steps []string
		for _, s := range p.steps {
			if s != "*" {
				steps = append(steps, s)
			}
		}
		return len(steps) == 1 && steps[0] == field
	}
	sawClone := false
	for _, p := range paths {
		for _, e := range p.effs {
			if e.kind == "write" && e.dst.root == param {
				set(&res.noWrite, "the options cloner stores into "+svString(e.dst)+": it writes through the caller's pointer")
			}
		}
		if len(p.rets) != 1 {
			continue
		}
		// is the parameter known to be nil / non-nil on this path?
		paramNil, paramKnown := false, false
		baseEmpty, baseKnown := false, false
		var others []string
		for _, cd := range p.conds {
			if cd.loop {
				continue
			}
			b, ok := cd.v.(svBin)
			if ok && b.op.String() == "!=" {
				if px, isP := b.x.(svPath); isP && px.root == param && len(px.steps) == 0 {
					if _, isNil := b.y.(svNil); isNil {
						paramNil, paramKnown = cd.neg, true
						continue
					}
				}
				if isParamField(b.x, "RelativeBase") {
					if k, isK := b.y.(svConst); isK && k.v.String() == `""` {
						baseEmpty, baseKnown = cd.neg, true
						continue
					}
				}
			}
			t := svString(cd.v)
			if cd.neg {
				t = "!" + t
			}
			others = append(others, t)
		}
		// what is handed back
		var content sval
		switch r := p.rets[0].(type) {
		case svAddr:
			if r.p.root == param || r.p.root == nil {
				set(&res.fresh, "the cloner hands back "+svString(r)+", a location of the caller's struct")
				continue
			}
			if len(r.p.steps) == 0 {
				content = p.final[r.p.root]
			}
		case svStruct, svZero:
			content = r // &T{...}: pointer indirection is transparent
		case svPath:
			if r.root == param {
				set(&res.fresh, "the cloner hands back the caller's own pointer on some path: the loader factory and the transitive resolver then write the pseudo-root / visited-document location into the caller's struct")
				continue
			}
		}
		if content == nil {
			set(&res.fresh, "the cloner hands back "+svString(p.rets[0])+": not a value built during the call")
			continue
		}
		if paramKnown && paramNil {
			// nothing to clone: a fresh value, whatever it holds
			if st, ok := content.(svStruct); ok {
				if b, has := st.fields[""]; has {
					set(&res.fresh, "with no options given the cloner hands back a copy of "+svString(b))
				}
			}
			continue
		}
		st, isStruct := content.(svStruct)
		var base sval
		if isStruct {
			base = st.fields[""]
		} else if cp, isPath := content.(svPath); isPath {
			// the local still holds the unmodified copy of what the parameter points to
			base = cp
		}
		if bp, ok := base.(svPath); !ok || bp.root != param {
			set(&res.byValue, "what the cloner hands back for non-nil options is "+svString(content)+": not a by-value copy of the caller's struct (every other option must be carried over)")
			continue
		}
		sawClone = true
		rb, changed := st.fields["RelativeBase"]
		switch {
		case baseKnown && baseEmpty:
			if changed {
				if k, isK := rb.(svConst); !isK || k.v.String() != `""` {
					set(&res.normalised, "an empty RelativeBase is replaced by "+svString(rb)+" in the clone: the loader factory must be left to choose the pseudo root")
				}
			}
		default:
			ok := false
			if call, isCall := rb.(svCall); changed && isCall && call.callee == nb && call.idx == 0 && len(call.args) == 1 && isParamField(call.args[0], "RelativeBase") {
				ok = true
			}
			if !ok {
				what := "left as given"
				if changed {
					what = "set to " + svString(rb)
				}
				set(&res.normalised, "on a path where the caller's RelativeBase is not known to be empty it is "+what+" in the clone, not replaced by "+nb.Name()+" of itself")
			} else if len(others) > 0 {
				// normalised, but only under some further test
				set(&res.normalised, "the RelativeBase of the clone is normalised only under "+strings.Join(others, " && ")+": it must be, unconditionally")
			}
		}
		if !baseKnown && len(others) > 0 {
			_ = others
		}
	}
	if !sawClone && res.byValue == "" && res.fresh == "" {
		res.byValue = "no path of the cloner hands back a by-value copy of the caller's struct"
	}
	return res, true
}

// entryFacts: the wiring of one exported entry point ("" = holds).
type entryFacts struct {
	hasFactory                                     bool
	fresh, options, base, rootCache, sameRoot      string
	hasPseudo                                      bool
	nFamily                                        int
	factoryPos, pseudoPos                          ast.Node
	freshSeen, optionsSeen, baseSeen, pseudoCached bool
}

func (c *Ctx) entryFactsBySim(r *entryRoles, entry *types.Func) (*entryFacts, string) {
	fd := c.decl(entry)
	if fd == nil || fd.Body == nil {
		return nil, "no body"
	}
	fam := r.fam
	isLoaderMethod := func(f *types.Func) bool {
		sig := f.Type().(*types.Signature)
		return sig.Recv() != nil && isNamed(derefType(sig.Recv().Type()), c.Types, fam.loader.Obj().Name())
	}
	s := &effsim{c: c,
		inline:  func(f *types.Func) bool { return !r.isRole(f) && !fam.members[f] && !isLoaderMethod(f) },
		mutates: func(f *types.Func) bool { return f == r.factory },
	}
	st := &sstate{vars: map[types.Object]sval{}, heap: map[string]sval{}, hkeys: map[string]svPath{}}
	params := map[types.Object]bool{}
	for i := 0; ; i++ {
		p := c.paramObj(fd, i)
		if p == nil {
			break
		}
		st.vars[p] = svPath{root: p}
		params[p] = true
	}
	s.stack = append(s.stack, entry)
	var paths []spath
	s.callBody(fd.Type, fd.Body, st, func(st *sstate, rets []sval) {
		paths = append(paths, spath{conds: st.conds, effs: st.effs, rets: rets, final: st.vars})
		s.npaths++
		if s.npaths > effsimMaxPaths {
			s.fail("more than %d paths", effsimMaxPaths)
		}
	})
	if s.unsupported != "" {
		return nil, s.unsupported
	}
	res := &entryFacts{}
	set := func(dst *string, why string) {
		if *dst == "" {
			*dst = why
		}
	}
	isCallOf := func(v sval, f *types.Func, idx int) (*svCall, bool) {
		sc, ok := v.(svCall)
		if !ok || sc.callee != f || sc.idx != idx {
			return nil, false
		}
		return &sc, true
	}
	knownEmpty := func(p spath, v sval) bool {
		if k, ok := v.(svConst); ok && k.v.String() == `""` {
			return true
		}
		if _, ok := v.(svZero); ok {
			return true
		}
		for _, cd := range p.conds {
			if b, ok := cd.v.(svBin); ok && cd.neg && !cd.loop && b.op.String() == "!=" && svEqual(b.x, v) {
				if k, isK := b.y.(svConst); isK && k.v.String() == `""` {
					return true
				}
			}
		}
		return false
	}
	for _, p := range paths {
		var pseudoCalls []*svCall
		for _, e := range p.effs {
			if e.kind == "call" && e.call.callee == r.pseudo {
				pseudoCalls = append(pseudoCalls, e.call)
			}
		}
		for _, e := range p.effs {
			if e.kind != "call" || e.call.callee != r.factory || len(e.call.args) != 4 {
				continue
			}
			F := e.call
			res.hasFactory = true
			// fresh context
			if _, isNil := F.args[3].(svNil); !isNil {
				set(&res.fresh, "an entry point must start with a fresh resolver context (nil), not "+svString(F.args[3]))
			}
			// options
			A := F.args[1]
			var content sval
			switch a := A.(type) {
			case svCall:
				if _, ok := isCallOf(a, r.cloner, 0); ok {
					content = nil
				} else {
					set(&res.options, "the options handed to the loader factory are "+svString(a)+": neither the clone of the caller's nor a value built here")
					continue
				}
			case svStruct, svZero:
				content = a
			case svAddr:
				if len(a.p.steps) == 0 && a.p.root != nil && !params[a.p.root] && F.held != nil && F.held[1] != nil {
					content = F.held[1]
				} else {
					set(&res.options, "the options handed to the loader factory are "+svString(a)+": the factory (and every transitive resolver) writes the base location it works with into that struct")
					continue
				}
			case svPath:
				set(&res.options, "the caller's own options pointer ("+svString(a)+") is handed to the loader factory un-cloned: options handed to the loader are neither the clone of the caller's nor a literal based on the pseudo root")
				continue
			default:
				set(&res.options, "the options handed to the loader factory are "+svString(a))
				continue
			}
			var usedPseudo *svCall
			if content != nil {
				rb := s.project(&sstate{vars: map[types.Object]sval{}, heap: map[string]sval{}, hkeys: map[string]svPath{}}, content, []string{"RelativeBase"})
				switch {
				case knownEmpty(p, rb):
				default:
					if pc, ok := isCallOf(rb, r.pseudo, 0); ok {
						usedPseudo = pc
					} else if nc, ok := isCallOf(rb, r.nb, 0); ok {
						// an empty base must stay empty (the factory then chooses the pseudo root): normalising it
						// would anchor the expansion at the working directory instead
						nonEmpty := false
						if len(nc.args) == 1 {
							for _, cd := range p.conds {
								if b, isB := cd.v.(svBin); isB && !cd.neg && !cd.loop && b.op.String() == "!=" && svEqual(b.x, nc.args[0]) {
									if k, isK := b.y.(svConst); isK && k.v.String() == `""` {
										nonEmpty = true
									}
								}
							}
						}
						if !nonEmpty {
							set(&res.options, "the RelativeBase of the options built for the loader is "+svString(rb)+" although the location given is not known to be non-empty: an empty base must be left empty, so that the loader factory substitutes the pseudo root")
						}
					} else if sel, isSel := rb.(svSel); isSel && sel.steps == "RelativeBase" {
						if _, ok := isCallOf(sel.x, r.cloner, 0); !ok {
							set(&res.options, "the RelativeBase of the options built for the loader is "+svString(rb)+": neither the pseudo-root location, nor a normalised location, nor empty")
						}
					} else {
						set(&res.options, "the RelativeBase of the options built for the loader is "+svString(rb)+": neither the pseudo-root location, nor a normalised location, nor empty")
					}
				}
			}
			// a root registered under the pseudo location: same cache, same root
			var P *svCall
			if usedPseudo != nil {
				P = usedPseudo
			} else if len(pseudoCalls) > 0 {
				P = pseudoCalls[len(pseudoCalls)-1]
				if P.id > F.id {
					P = nil
				}
			}
			if P != nil && len(P.args) == 2 {
				res.hasPseudo = true
				// (the cache defaulter hands back any non-nil cache it is given - supplied-cache-kept - so applying it
				// to its own result changes nothing)
				unwrap := func(v sval) sval {
					for {
						sc, ok := isCallOf(v, r.cacheDef, 0)
						if !ok || len(sc.args) != 1 {
							return v
						}
						if _, inner := isCallOf(sc.args[0], r.cacheDef, 0); !inner {
							return v
						}
						v = sc.args[0]
					}
				}
				same := svEqual(unwrap(P.args[1]), unwrap(F.args[2]))
				if same {
					if _, ok := isCallOf(P.args[1], r.cacheDef, 0); !ok {
						same = false
					}
				}
				if !same {
					set(&res.rootCache, "the root is registered in one cache ("+svString(P.args[1])+") and the loader uses another ("+svString(F.args[2])+"): fragment refs into the root cannot be resolved (or resolve against a stale root)")
				}
				if _, isNil := F.args[0].(svNil); !isNil && !svEqual(P.args[0], F.args[0]) {
					set(&res.sameRoot, "the root registered under the pseudo location ("+svString(P.args[0])+") and the root given to the loader ("+svString(F.args[0])+") differ")
				}
			}
			// the family calls made with this loader
			for _, g := range p.effs {
				if g.kind != "call" || g.call.id <= F.id {
					continue
				}
				gf, ok := g.call.callee.(*types.Func)
				if !ok || !fam.members[gf] {
					continue
				}
				usesF := false
				if sc, ok := g.call.recv.(svCall); ok && sc.id == F.id && sc.idx == 0 {
					usesF = true
				}
				for _, a := range g.call.args {
					if sc, ok := a.(svCall); ok && sc.id == F.id && sc.idx == 0 {
						usesF = true
					}
				}
				if !usesF {
					continue
				}
				bi := lastStringParamIndex(gf.Type().(*types.Signature))
				if bi < 0 || bi >= len(g.call.args) {
					continue
				}
				res.nFamily++
				B := g.call.args[bi]
				if nc, ok := isCallOf(B, r.nb, 0); ok && len(nc.args) == 1 {
					B = nc.args[0] // the normaliser leaves a normalised location as it is
				}
				okBase := false
				if sel, isSel := B.(svSel); isSel && sel.steps == "RelativeBase" {
					if sc, ok := sel.x.(svCall); ok && sc.id == F.id && sc.idx == 101 {
						okBase = true
					}
				}
				// ... or read back from the loader itself, which keeps the options it was built with
				// (factory-keeps-options)
				if sel, isSel := B.(svSel); isSel {
					steps, x := sel.steps, sel.x
					if inner, nested := x.(svSel); nested {
						steps, x = inner.steps+"."+steps, inner.x
					}
					if sc, ok := x.(svCall); ok && sc.id == F.id && sc.idx == 0 && strings.HasSuffix(steps, ".RelativeBase") && strings.Count(steps, ".") == 1 {
						if st, isStruct := fam.loader.Underlying().(*types.Struct); isStruct {
							for k := 0; k < st.NumFields(); k++ {
								if st.Field(k).Name() == strings.TrimSuffix(steps, ".RelativeBase") && isNamed(st.Field(k).Type(), c.Types, "ExpandOptions") {
									okBase = true
								}
							}
						}
					}
				}
				if !okBase {
					set(&res.base, "the base path given to "+gf.Name()+" is "+svString(B)+": it must be the RelativeBase of the options the loader was built with, read after the loader factory ran (the factory substitutes the pseudo root for an empty base)")
				}
			}
		}
	}
	if res.hasFactory && res.nFamily == 0 {
		set(&res.base, "a loader is built but no path hands it to the expander family together with a base path")
	}
	return res, ""
}
