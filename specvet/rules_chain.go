package main

import (
	"fmt"
	"go/ast"
	"go/token"
	"go/types"

	"golang.org/x/tools/go/cfg"
)

// chain-ref-absolute: the chain dereference follows $ref after $ref, each hop relative to the document the
// previous hop led to, and leaves the last $ref of the chain in the value it filled. Its callers pair that
// $ref with the base THEY passed in. That pairing is only right if the function, whenever it has moved to
// another base (it calls itself with a base argument that is not its own base parameter), stores the
// absolute form of the reference - the result of normalising it against the base of that hop - before it
// returns. A relative reference must never leave the only function that knows what it is relative to.
func init() {
	registerRule("chain-ref-absolute", 4, "the chain dereference, which moves to another base at every hop, leaves the last $ref of a chain in absolute form (normalised against that hop's base) for its callers", ruleChainRefAbsolute)
}

func (c *Ctx) chainDeref(fam *expFamily) *types.Func {
	var deref *types.Func
	for f := range fam.withParents {
		sig := f.Type().(*types.Signature)
		if sig.Recv() != nil && !fam.schemaExp[f] {
			for _, g := range c.staticCallees(f) {
				if g == fam.resolveRef {
					deref = f
				}
			}
		}
	}
	return deref
}

func ruleChainRefAbsolute(c *Ctx) {
	const rule = "chain-ref-absolute"
	fam := c.family()
	if !fam.ok() {
		c.undecided(rule, "family", token.NoPos, "expander family not found by role")
		return
	}
	deref := c.chainDeref(fam)
	if deref == nil {
		c.undecided(rule, "deref", token.NoPos, "chain-dereference method not found by role")
		return
	}
	fd := c.decl(deref)
	fn := c.funcName(fd)
	c.saw(fn)
	// own base parameter: the string parameter
	var baseParam types.Object
	baseIdx := -1
	sig := deref.Type().(*types.Signature)
	for i := 0; i < sig.Params().Len(); i++ {
		if isStringType(sig.Params().At(i).Type()) {
			baseParam, baseIdx = c.paramObj(fd, i), i
		}
	}
	if baseParam == nil {
		c.undecided(rule, fn, fd.Pos(), "no base-path parameter")
		return
	}
	// does it call itself with another base?
	moves := false
	ast.Inspect(fd.Body, func(n ast.Node) bool {
		call, ok := n.(*ast.CallExpr)
		if !ok || c.callee(call) != deref || baseIdx >= len(call.Args) {
			return true
		}
		if id, ok := unparen(call.Args[baseIdx]).(*ast.Ident); !ok || c.objOf(id) != baseParam {
			moves = true
		}
		return true
	})
	// ... or does it loop, moving its base parameter at every iteration (the tail recursion written as a loop)?
	var followLoop *ast.ForStmt
	ast.Inspect(fd.Body, func(n ast.Node) bool {
		loop, ok := n.(*ast.ForStmt)
		if !ok {
			return true
		}
		followsIn, movesBase := false, false
		ast.Inspect(loop.Body, func(m ast.Node) bool {
			switch x := m.(type) {
			case *ast.CallExpr:
				if c.callee(x) == fam.resolveRef {
					followsIn = true
				}
			case *ast.AssignStmt:
				for _, l := range x.Lhs {
					if id, ok := unparen(l).(*ast.Ident); ok && c.objOf(id) == baseParam {
						movesBase = true
					}
				}
			}
			return true
		})
		if followsIn && movesBase {
			followLoop = loop
		}
		return true
	})
	if followLoop != nil {
		moves = true
		// the resolution inside the loop runs on a loader variable that each iteration re-points to the resolver
		// for the document just reached, chosen from the normalised reference of the hop that was followed
		var rcall *ast.CallExpr
		ast.Inspect(followLoop.Body, func(m ast.Node) bool {
			if cc, ok := m.(*ast.CallExpr); ok && c.callee(cc) == fam.resolveRef && rcall == nil {
				rcall = cc
			}
			return true
		})
		good, targetOK := false, false
		var loopSwitch *ast.CallExpr
		if se, ok := unparen(rcall.Fun).(*ast.SelectorExpr); ok {
			// (the loop-carried loader may be the receiver variable itself, re-pointed at every hop)
			if lid, ok := unparen(se.X).(*ast.Ident); ok {
				lv := c.objOf(lid)
				ast.Inspect(followLoop.Body, func(m ast.Node) bool {
					as, ok := m.(*ast.AssignStmt)
					if !ok || len(as.Lhs) != 1 || len(as.Rhs) != 1 || as.Pos() < rcall.End() {
						return true
					}
					if id, ok := unparen(as.Lhs[0]).(*ast.Ident); !ok || c.objOf(id) != lv {
						return true
					}
					sw, isCall := unparen(as.Rhs[0]).(*ast.CallExpr)
					if !isCall {
						return true
					}
					g, _ := c.callee(sw).(*types.Func)
					if g == nil || g.Pkg() != c.Types {
						return true
					}
					sig := g.Type().(*types.Signature)
					if sig.Recv() != nil && sig.Results().Len() == 1 && isNamed(derefType(sig.Results().At(0).Type()), c.Types, fam.loader.Obj().Name()) {
						good = true
						loopSwitch = sw
						for _, a := range sw.Args {
							if isNamed(derefType(c.typeOf(a)), c.Types, "Ref") && c.isNormalisedRef(fd, a, nil, 0) {
								targetOK = true
							}
						}
					}
					return true
				})
			}
		}
		c.ob(rule, fn+":resolver-switch", rcall.Pos(), good,
			fn+" follows the next $ref of a chain in another document but with its own resolver: a fragment-only $ref found there is looked up in the document of the receiver (silently the wrong element)")
		if good {
			c.ob(rule, fn+":resolver-switch-target", rcall.Pos(), targetOK,
				"the resolver for the next hop is chosen from the holder's own $ref, which the resolution has just overwritten with the NEXT reference of the chain, instead of the normalised reference of the hop that was followed")
		}
		// the base carried to the next hop is the document of the reference just followed
		ast.Inspect(followLoop.Body, func(m ast.Node) bool {
			as, ok := m.(*ast.AssignStmt)
			if !ok || len(as.Lhs) != len(as.Rhs) {
				return true
			}
			for i, l := range as.Lhs {
				id, ok := unparen(l).(*ast.Ident)
				if !ok || c.objOf(id) != baseParam {
					continue
				}
				fromRef := false
				rhs := unparen(as.Rhs[i])
				if rid, isId := rhs.(*ast.Ident); isId {
					if ds := c.localDefs(fd)[c.objOf(rid)]; len(ds) == 1 && ds[0] != nil {
						rhs = unparen(ds[0])
					}
				}
				if call, isCall := rhs.(*ast.CallExpr); isCall {
					if se, isSel := unparen(call.Fun).(*ast.SelectorExpr); isSel && len(call.Args) == 0 && c.isNormalisedRef(fd, se.X, nil, 0) {
						fromRef = true
					}
				}
				c.ob(rule, fn+":next-base", as.Pos(), fromRef,
					"the base path carried to the next hop of the chain is "+exprString(as.Rhs[i])+", not the document of the normalised reference that was just followed: the next $ref is resolved against an unrelated location")
			}
			return true
		})
		if good && targetOK && loopSwitch != nil {
			baseOK, why := c.switchBaseOK(fd, loopSwitch)
			c.ob(rule, fn+":resolver-switch-base", loopSwitch.Pos(), baseOK, why)
			// the switch is made from the loader of the hop being left (the loop-carried one), not from the receiver:
			// the receiver answers "same document" with itself, which is the loader of the FIRST hop
			fromCurrent := false
			if sse, ok := unparen(loopSwitch.Fun).(*ast.SelectorExpr); ok {
				if rse, ok := unparen(rcall.Fun).(*ast.SelectorExpr); ok {
					a, aok := unparen(sse.X).(*ast.Ident)
					b, bok := unparen(rse.X).(*ast.Ident)
					fromCurrent = aok && bok && c.objOf(a) == c.objOf(b)
				}
			}
			c.ob(rule, fn+":resolver-switch-from", loopSwitch.Pos(), fromCurrent,
				"the loader for the next hop is derived from the receiver instead of the loader of the hop being left: when the next hop stays in the document just reached, the switch hands back the receiver, i.e. the loader of the first hop, and a fragment-only $ref is looked up in the caller's root")
		}
	}
	if !moves {
		c.ob(rule, fn, fd.Pos(), true, "")
		return
	}
	// every such self-call runs on the resolver for the document of that hop, not on the receiver
	ast.Inspect(fd.Body, func(n ast.Node) bool {
		call, ok := n.(*ast.CallExpr)
		if !ok || c.callee(call) != deref || baseIdx >= len(call.Args) {
			return true
		}
		if id, ok := unparen(call.Args[baseIdx]).(*ast.Ident); ok && c.objOf(id) == baseParam {
			return true
		}
		se, ok := unparen(call.Fun).(*ast.SelectorExpr)
		good := false
		if ok {
			good = c.isSwitchedLoader(fam, fd, se.X, 0)
		}
		c.ob(rule, fn+":resolver-switch", call.Pos(), good,
			fn+" follows the next $ref of a chain in another document but with its own resolver: a fragment-only $ref found there is looked up in the document of the receiver (silently the wrong element)")
		// ... and that resolver is the one for the document the hop just resolved led to: the reference handed to
		// the switch is the normalised reference computed BEFORE the resolution overwrote the holder (the holder's
		// own Ref now carries the next hop)
		if good {
			var sw *ast.CallExpr
			switch x := unparen(se.X).(type) {
			case *ast.CallExpr:
				sw = x
			case *ast.Ident:
				for _, d := range c.localDefs(fd)[c.objOf(x)] {
					if dc, ok := unparen(d).(*ast.CallExpr); ok {
						sw = dc
					}
				}
			}
			targetOK := false
			if sw != nil {
				for _, a := range sw.Args {
					if isNamed(derefType(c.typeOf(a)), c.Types, "Ref") && c.isNormalisedRef(fd, a, nil, 0) {
						targetOK = true
					}
				}
			}
			c.ob(rule, fn+":resolver-switch-target", call.Pos(), targetOK,
				"the resolver for the next hop is chosen from the holder's own $ref, which the resolution has just overwritten with the NEXT reference of the chain, instead of the normalised reference of the hop that was followed: a fragment-only alias inside an imported document is looked up in the wrong document")
			if targetOK && sw != nil {
				baseOK, why := c.switchBaseOK(fd, sw)
				c.ob(rule, fn+":resolver-switch-base", sw.Pos(), baseOK, why)
			}
		}
		return true
	})
	// the pointer(s) to the Ref of the input: local *Ref variables
	defs := c.localDefs(fd)
	isRefPtr := func(e ast.Expr) bool {
		t := c.typeOf(e)
		if t == nil {
			return false
		}
		p, ok := types.Unalias(t).(*types.Pointer)
		return ok && isNamed(p.Elem(), c.Types, "Ref")
	}
	// normalised against the own base: call to a package function with (refptr, baseParam) returning *Ref / Ref / string
	var fromNormalised func(e ast.Expr, depth int) bool
	fromNormalised = func(e ast.Expr, depth int) bool {
		if depth > 4 {
			return false
		}
		switch x := unparen(e).(type) {
		case *ast.StarExpr:
			return fromNormalised(x.X, depth+1)
		case *ast.Ident:
			ds := defs[c.objOf(x)]
			if len(ds) == 0 {
				return false
			}
			for _, d := range ds {
				if d == nil || !fromNormalised(d, depth+1) {
					return false
				}
			}
			return true
		case *ast.CallExpr:
			g, _ := c.callee(x).(*types.Func)
			if g == nil || g.Pkg() != c.Types {
				return false
			}
			hasBase := false
			for _, a := range x.Args {
				if id, ok := unparen(a).(*ast.Ident); ok && c.objOf(id) == baseParam {
					hasBase = true
				}
			}
			if !hasBase {
				// NewRef(normalizeURI(ref.String(), base)) style
				for _, a := range x.Args {
					if fromNormalised(a, depth+1) {
						return true
					}
				}
				return false
			}
			return g.Name() == "normalizeRef" || g.Name() == "normalizeURI"
		}
		return false
	}
	stored := false
	var storeStmt *ast.AssignStmt
	ast.Inspect(fd.Body, func(n ast.Node) bool {
		as, ok := n.(*ast.AssignStmt)
		if !ok || len(as.Lhs) != 1 || len(as.Rhs) != 1 {
			return true
		}
		st, ok := unparen(as.Lhs[0]).(*ast.StarExpr)
		if !ok || !isRefPtr(st.X) {
			return true
		}
		if fromNormalised(as.Rhs[0], 0) {
			stored = true
			storeStmt = as
		}
		return true
	})
	// the store happens for every hop but the first: a condition on the length of the parent stack may only
	// exclude the empty stack
	if storeStmt != nil {
		good, why := true, ""
		for _, cl := range c.literalsAt(fd, storeStmt) {
			be, ok := unparen(cl.e).(*ast.BinaryExpr)
			if !ok {
				continue
			}
			call, ok := unparen(be.X).(*ast.CallExpr)
			if !ok || !c.isBuiltin(call, "len") || len(call.Args) != 1 {
				continue
			}
			if sl, isSl := c.typeOf(call.Args[0]).Underlying().(*types.Slice); !isSl || !isStringType(sl.Elem()) {
				continue
			}
			rv, ok := c.Info.Types[be.Y]
			if !ok || rv.Value == nil {
				continue
			}
			k, isInt := constInt(rv.Value.String())
			if !isInt {
				continue
			}
			op := be.Op
			if cl.neg {
				switch op {
				case token.GTR:
					op = token.LEQ
				case token.GEQ:
					op = token.LSS
				case token.LSS:
					op = token.GEQ
				case token.LEQ:
					op = token.GTR
				case token.EQL:
					op = token.NEQ
				case token.NEQ:
					op = token.EQL
				}
			}
			admits1 := true // a stack of exactly one parent (the second hop) must be admitted
			switch op {
			case token.GTR:
				admits1 = 1 > k
			case token.GEQ:
				admits1 = 1 >= k
			case token.LSS:
				admits1 = 1 < k
			case token.LEQ:
				admits1 = 1 <= k
			case token.EQL:
				admits1 = k == 1
			case token.NEQ:
				admits1 = k != 1
			}
			if !admits1 {
				good, why = false, "the absolute form is stored only when "+exprString(cl.e)+": the second hop of a chain (one parent on the stack) is left out, and a two-hop chain hands its callers a $ref relative to a document they do not know"
			}
		}
		c.ob(rule, fn+":every-hop-after-the-first", storeStmt.Pos(), good, why)
	}
	c.ob(rule, fn, fd.Pos(), stored,
		fn+" calls itself with another base at every hop but never stores the normalised (absolute) form of the reference it leaves behind: its callers read the last $ref of a multi-hop chain relative to the base they started from, i.e. in the wrong document")
}

// ---- id-once ----

// The cycle cut of the expander compares canonical reference keys, which are computed against the current base
// path. Base paths come from document locations (finitely many) and from schema ids applied to a base. A schema
// is also REGISTERED in the cache under the location its id stands for, so a $ref can lead back to it with
// exactly that location as the base; applying the (relative) id again would give a new base at every unfolding
// (.../sub/x.json, .../sub/sub/x.json, ...), the keys would never repeat and the recursion never stop. The
// id-applying helper (found by role: the loader method that stores its target in the cache under a key
// normalised from its id parameter and its base parameter) must therefore refuse to apply an id to a base that
// this very id has produced: it keeps a record base -> id, consults it before normalising, and returns the
// base unchanged on a hit.
func init() {
	registerRule("id-once", 4, "a schema id is never applied to a base path that the same id has already produced (otherwise a $ref back to the id's own location grows the base at every unfolding and the cycle cut never fires)", ruleIDOnce)
}

func ruleIDOnce(c *Ctx) {
	const rule = "id-once"
	fam := c.family()
	if !fam.ok() {
		c.undecided(rule, "family", token.NoPos, "expander family not found by role")
		return
	}
	// decided on the effect normal form of the id-applying helper whenever that is available
	if c.idOnceBySim(rule, fam) {
		return
	}
	// the id-applying helper by role
	var helper *ast.FuncDecl
	var keyVar types.Object
	var normCall *ast.CallExpr
	for _, fd := range c.allFuncDecls() {
		if fd.Recv == nil || fd.Body == nil || c.recvTypeOf(fd) == nil || !isNamed(derefType(c.recvTypeOf(fd)), c.Types, fam.loader.Obj().Name()) {
			continue
		}
		defs := c.localDefs(fd)
		ast.Inspect(fd.Body, func(n ast.Node) bool {
			call, ok := n.(*ast.CallExpr)
			if !ok || len(call.Args) != 2 {
				return true
			}
			_, name, _, isM := c.calleeMethod(call)
			if !isM || name != "Set" {
				return true
			}
			id, ok := unparen(call.Args[0]).(*ast.Ident)
			if !ok {
				return true
			}
			for _, d := range defs[c.objOf(id)] {
				if nc, ok := unparen(d).(*ast.CallExpr); ok {
					if g, _ := c.callee(nc).(*types.Func); g != nil && g.Pkg() == c.Types && g.Name() == "normalizeURI" {
						helper, keyVar, normCall = fd, c.objOf(id), nc
					}
				}
			}
			return true
		})
	}
	if helper == nil {
		c.undecided(rule, "helper", token.NoPos, "id-applying helper (cache.Set under a key normalised from an id) not found by role")
		return
	}
	fn := c.funcName(helper)
	c.saw(fn)
	// its id and base parameters: string parameters; the base is the one passed to normalizeURI as second argument
	var baseParam, idParam types.Object
	if len(normCall.Args) == 2 {
		if id, ok := unparen(normCall.Args[1]).(*ast.Ident); ok {
			baseParam = c.objOf(id)
		}
	}
	sig := c.Info.Defs[helper.Name].(*types.Func).Type().(*types.Signature)
	for i := 0; i < sig.Params().Len(); i++ {
		if p := c.paramObj(helper, i); isStringType(sig.Params().At(i).Type()) && p != baseParam {
			idParam = p
		}
	}
	if baseParam == nil || idParam == nil {
		c.undecided(rule, fn, helper.Pos(), "cannot tell the id and base parameters of the id-applying helper apart")
		return
	}
	isObj := func(e ast.Expr, o types.Object) bool {
		id, ok := unparen(e).(*ast.Ident)
		return ok && c.objOf(id) == o
	}
	// (1) guard: if REC[base] == id { return base, ... } before the normalisation
	var recField *types.Var
	guarded := false
	for _, st := range helper.Body.List {
		ifs, ok := st.(*ast.IfStmt)
		if !ok || ifs.Pos() > normCall.Pos() || !blockAlwaysLeaves(ifs.Body) {
			continue
		}
		be, ok := unparen(ifs.Cond).(*ast.BinaryExpr)
		if !ok || be.Op != token.EQL {
			continue
		}
		x, y := be.X, be.Y
		if isObj(x, idParam) {
			x, y = y, x
		}
		ix, ok := unparen(x).(*ast.IndexExpr)
		if !ok || !isObj(y, idParam) || !isObj(ix.Index, baseParam) {
			continue
		}
		f := c.fieldOfSel(ix.X)
		if f == nil {
			continue
		}
		// the body returns the base unchanged
		retOK := false
		for _, bs := range ifs.Body.List {
			if rs, ok := bs.(*ast.ReturnStmt); ok && len(rs.Results) > 0 && isObj(rs.Results[0], baseParam) {
				retOK = true
			}
		}
		if retOK {
			guarded, recField = true, f
		}
	}
	c.ob(rule, fn+":guard", helper.Pos(), guarded,
		fn+" applies the id to the current base without first checking that this base was not itself produced by the same id: a $ref leading back to the id's own location grows the base path at every unfolding and the expansion never terminates")
	// (2) record: REC[newBase] = id
	recorded := false
	ast.Inspect(helper.Body, func(n ast.Node) bool {
		as, ok := n.(*ast.AssignStmt)
		if !ok || len(as.Lhs) != 1 || len(as.Rhs) != 1 {
			return true
		}
		ix, ok := unparen(as.Lhs[0]).(*ast.IndexExpr)
		if !ok || !isObj(ix.Index, keyVar) || !isObj(as.Rhs[0], idParam) {
			return true
		}
		if f := c.fieldOfSel(ix.X); f != nil && (recField == nil || f == recField) {
			recorded = true
		}
		return true
	})
	c.ob(rule, fn+":record", helper.Pos(), recorded,
		fn+" does not record which id produced the new base path, so a later re-application of the same id cannot be recognised")
	// (2b) past the guard the schema is registered unconditionally: a registration that depends on what the cache
	// already holds makes the result of one call depend on an earlier one
	ast.Inspect(helper.Body, func(n ast.Node) bool {
		call, ok := n.(*ast.CallExpr)
		if !ok || len(call.Args) != 2 {
			return true
		}
		if _, name, _, isM := c.calleeMethod(call); !isM || name != "Set" {
			return true
		}
		if id, ok := unparen(call.Args[0]).(*ast.Ident); !ok || c.objOf(id) != keyVar {
			return true
		}
		always := true
		for _, cl := range c.literalsAt(helper, call) {
			// the negated id-record guard is the only condition allowed
			if be, ok := unparen(cl.e).(*ast.BinaryExpr); ok && cl.neg && be.Op == token.EQL {
				if ix, ok := unparen(be.X).(*ast.IndexExpr); ok && isObj(ix.Index, baseParam) {
					continue
				}
				if ix, ok := unparen(be.Y).(*ast.IndexExpr); ok && isObj(ix.Index, baseParam) {
					continue
				}
			}
			always = false
		}
		c.ob(rule, fn+":registers-always", call.Pos(), always,
			"the id-scoped schema is registered only under a condition (for instance when nothing is cached at that location yet): with a cache kept across calls a $ref through the id reaches the schema of an earlier root")
		return true
	})
	// (3) the record is written nowhere else
	if recField != nil {
		var others []string
		for _, fd := range c.allFuncDecls() {
			if fd.Body == nil || fd == helper {
				continue
			}
			ast.Inspect(fd.Body, func(n ast.Node) bool {
				switch x := n.(type) {
				case *ast.AssignStmt:
					for _, l := range x.Lhs {
						if ix, ok := unparen(l).(*ast.IndexExpr); ok && c.fieldOfSel(ix.X) == recField {
							others = append(others, c.funcName(fd))
						}
					}
				case *ast.CallExpr:
					if c.isBuiltin(x, "delete") && len(x.Args) == 2 && c.fieldOfSel(x.Args[0]) == recField {
						others = append(others, c.funcName(fd))
					}
				}
				return true
			})
		}
		c.ob(rule, fn+":record-private", helper.Pos(), len(others) == 0, "the id record is also written by "+joinSteps(others))
	}
}

// ---- denorm-final ----

// A $ref rewritten by the denormaliser is relative to the ROOT document and is the final form that stays in the
// output. Every member of the expander family interprets the $ref of the value it is given against the base
// path it is given, which is the current document's. So once a function has stored a denormalised reference
// into a value, no path may lead from that store to a call that hands the same value to a family member.
func init() {
	registerRule("denorm-final", 2, "once a $ref has been rewritten relative to the root document (denormalised) the value holding it is not handed to an expander again, which would read it against the current document's base a second time", ruleDenormFinal)
}

func ruleDenormFinal(c *Ctx) {
	const rule = "denorm-final"
	fam := c.family()
	if !fam.ok() {
		c.undecided(rule, "family", token.NoPos, "expander family not found by role")
		return
	}
	// a call of the denormaliser, or of a package helper one of whose results is such a call (bounded depth)
	var isDenormD func(e ast.Expr, depth int) bool
	isDenormD = func(e ast.Expr, depth int) bool {
		call, ok := unparen(e).(*ast.CallExpr)
		if !ok || depth > 2 {
			return false
		}
		g, _ := c.callee(call).(*types.Func)
		if g == nil || g.Pkg() != c.Types {
			return false
		}
		if g.Name() == "denormalizeRef" {
			return true
		}
		gfd := c.decl(g)
		if gfd == nil || gfd.Body == nil || fam.members[g] {
			return false
		}
		found := false
		ast.Inspect(gfd.Body, func(n ast.Node) bool {
			if rs, ok := n.(*ast.ReturnStmt); ok {
				for _, r := range rs.Results {
					if isDenormD(r, depth+1) {
						found = true
					}
				}
			}
			return true
		})
		return found
	}
	isDenorm := func(e ast.Expr) bool { return isDenormD(e, 0) }
	for _, f := range fam.order {
		fd := c.decl(f)
		fn := c.funcName(fd)
		var g *cfg.CFG
		ord := 0
		ast.Inspect(fd.Body, func(n ast.Node) bool {
			as, ok := n.(*ast.AssignStmt)
			if !ok || len(as.Lhs) != 1 || len(as.Rhs) != 1 || !isDenorm(as.Rhs[0]) {
				return true
			}
			p, ok := c.apath(as.Lhs[0])
			if !ok || len(p.Steps) == 0 {
				return true
			}
			holder := p.Root
			ord++
			c.saw(fn)
			if g == nil {
				g = c.cfgOf(fd)
			}
			mentionsHolder := func(call *ast.CallExpr) bool {
				callee, _ := c.callee(call).(*types.Func)
				if callee == nil || !fam.members[callee] {
					return false
				}
				hit := false
				for _, a := range call.Args {
					ast.Inspect(a, func(m ast.Node) bool {
						if id, ok := m.(*ast.Ident); ok && c.objOf(id) == holder {
							hit = true
						}
						return true
					})
				}
				return hit
			}
			// forward reachability from the store
			bad := ""
			seen := map[*cfg.Block]bool{}
			var walk func(b *cfg.Block, from int)
			walk = func(b *cfg.Block, from int) {
				for i := from; i < len(b.Nodes); i++ {
					if containsCall(b.Nodes[i], mentionsHolder) {
						bad = c.pos(b.Nodes[i].Pos())
						return
					}
				}
				for _, s := range b.Succs {
					if !seen[s] {
						seen[s] = true
						walk(s, 0)
					}
				}
			}
			for _, b := range g.Blocks {
				for i, nd := range b.Nodes {
					if nd == ast.Node(as) {
						walk(b, i+1)
					}
				}
			}
			c.ob(rule, fmt.Sprintf("%s:denorm#%d", fn, ord), as.Pos(), bad == "",
				"after the $ref of "+holder.Name()+" has been rewritten relative to the root document, "+holder.Name()+" is handed to an expander at "+bad+", which reads that $ref against the base of the current document a second time (wrong document, or a not-found error)")
			return true
		})
	}
}

// switchBaseOK: the loader switch decides "same document or another one" by comparing the reference with a base:
// that base must be the very one the reference was normalised against, still unchanged when the switch is made
// (once the base variable has moved to the document of the reference, the comparison always says "same document"
// and the loader never changes along the chain).
func (c *Ctx) switchBaseOK(fd *ast.FuncDecl, sw *ast.CallExpr) (bool, string) {
	var baseArg *ast.Ident
	var refArg ast.Expr
	for _, a := range sw.Args {
		t := c.typeOf(a)
		if t == nil {
			continue
		}
		if isStringType(t) {
			baseArg, _ = unparen(a).(*ast.Ident)
			if baseArg == nil {
				return true, "" // not a plain variable: nothing to compare
			}
		} else if isNamed(derefType(t), c.Types, "Ref") {
			refArg = a
		}
	}
	if baseArg == nil || refArg == nil {
		return true, ""
	}
	bo := c.objOf(baseArg)
	// the normalising call that defines the reference handed to the switch
	e := unparen(refArg)
	if st, ok := e.(*ast.StarExpr); ok {
		e = unparen(st.X)
	}
	id, ok := e.(*ast.Ident)
	if !ok {
		return true, ""
	}
	var norm *ast.CallExpr
	for _, d := range c.localDefs(fd)[c.objOf(id)] {
		if dc, ok := unparen(d).(*ast.CallExpr); ok && dc.Pos() < sw.Pos() {
			if norm == nil || dc.Pos() > norm.Pos() {
				norm = dc
			}
		}
	}
	if norm == nil {
		return true, ""
	}
	against := false
	for _, a := range norm.Args {
		if aid, ok := unparen(a).(*ast.Ident); ok && c.objOf(aid) == bo {
			against = true
		}
	}
	if !against {
		return false, "the loader switch compares the reference with " + baseArg.Name + ", which is not the base the reference was normalised against"
	}
	moved := false
	ast.Inspect(fd.Body, func(n ast.Node) bool {
		as, ok := n.(*ast.AssignStmt)
		if !ok || as.Pos() < norm.End() || as.End() > sw.Pos() {
			return true
		}
		for _, l := range as.Lhs {
			if lid, ok := unparen(l).(*ast.Ident); ok && c.objOf(lid) == bo {
				moved = true
			}
		}
		return true
	})
	if moved {
		return false, "the base " + baseArg.Name + " is moved to the next document before the loader switch compares the reference with it: the switch then always answers \"same document\" and the loader never changes along the chain, so a fragment-only $ref found in an imported document is looked up in the root"
	}
	return true, ""
}

// isSwitchedLoader: the expression is the result of a loader method that returns a loader (the transitive
// resolver, found by signature), or a local defined from one.
func (c *Ctx) isSwitchedLoader(fam *expFamily, fd *ast.FuncDecl, e ast.Expr, depth int) bool {
	if depth > 3 {
		return false
	}
	switch x := unparen(e).(type) {
	case *ast.CallExpr:
		g, _ := c.callee(x).(*types.Func)
		if g == nil || g.Pkg() != c.Types {
			return false
		}
		sig := g.Type().(*types.Signature)
		if sig.Recv() == nil || !isNamed(derefType(sig.Recv().Type()), c.Types, fam.loader.Obj().Name()) || sig.Results().Len() != 1 {
			return false
		}
		return isNamed(derefType(sig.Results().At(0).Type()), c.Types, fam.loader.Obj().Name())
	case *ast.Ident:
		ds := c.localDefs(fd)[c.objOf(x)]
		if len(ds) == 0 {
			return false
		}
		for _, d := range ds {
			if d == nil || !c.isSwitchedLoader(fam, fd, d, depth+1) {
				return false
			}
		}
		return true
	}
	return false
}
