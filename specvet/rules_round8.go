package main

import (
	"encoding/json"
	"fmt"
	"go/ast"
	"go/token"
	"go/types"
	"os"
	"path"
	"path/filepath"
	"strings"
)

func init() {
	registerRule("union-encodes-held-content", 2, "the encoder of a schema-or-flag union answers a constant only where the schema member is known to be nil", ruleUnionEncodesHeldContent)
}

// ruleUnionEncodesHeldContent: a union of a schema and a flag / plain list (SchemaOrBool, SchemaOrStringArray) holds
// document content in its schema member. On the effect normal form of its MarshalJSON, every path that answers a
// constant (true, false, null: no content) carries the condition that the schema member is nil; a value built as
// &SchemaOrBool{Schema: s} - the flag left alone, since it only matters for the boolean form - otherwise loses s on
// the way through swag.DynamicJSONToStruct, which is how a typed document is read during resolution.
func ruleUnionEncodesHeldContent(c *Ctx) {
	const rule = "union-encodes-held-content"
	schema := c.namedType("Schema")
	if schema == nil {
		c.undecided(rule, "Schema", token.NoPos, "type Schema not found")
		return
	}
	sc := c.Types.Scope()
	for _, tname := range sc.Names() {
		n := c.namedType(tname)
		if n == nil {
			continue
		}
		st, ok := n.Underlying().(*types.Struct)
		if !ok {
			continue
		}
		m := declaredMethod(n, "MarshalJSON")
		if m == nil {
			continue
		}
		// exactly one member is a *Schema, no other member can hold one, and there is at least one other member
		var member *types.Var
		others, plain := 0, true
		for i := 0; i < st.NumFields(); i++ {
			f := st.Field(i)
			if p, ok := types.Unalias(f.Type()).(*types.Pointer); ok && types.Identical(p.Elem(), schema) && !f.Embedded() {
				if member != nil {
					plain = false
				}
				member = f
				continue
			}
			others++
			if f.Embedded() || typeContains(f.Type(), schema.Obj(), map[types.Type]bool{}) {
				plain = false
			}
		}
		if member == nil || !plain || others == 0 {
			continue
		}
		fd := c.decl(m)
		if fd == nil || fd.Body == nil {
			c.undecided(rule, tname, n.Obj().Pos(), "MarshalJSON body not found")
			continue
		}
		c.saw(c.funcName(fd))
		recv := c.recvObj(fd)
		paths, unsup := c.simulate(fd, nil)
		if unsup != "" || len(paths) == 0 || recv == nil {
			c.undecided(rule, tname, fd.Pos(), "encoder of the union is not in the supported subset: "+unsup)
			continue
		}
		isMember := func(v sval) bool {
			p, ok := v.(svPath)
			if !ok || p.root != recv {
				return false
			}
			var steps []string
			for _, s := range p.steps {
				if s != "*" {
					steps = append(steps, s)
				}
			}
			return len(steps) == 1 && steps[0] == member.Name()
		}
		// memberNil: the condition says the member is nil (1), is not nil (-1), or says nothing about it (0)
		var memberNil func(v sval, neg bool) int
		memberNil = func(v sval, neg bool) int {
			switch x := v.(type) {
			case svNot:
				return memberNil(x.x, !neg)
			case svBin:
				_, xn := x.x.(svNil)
				_, yn := x.y.(svNil)
				if (x.op == token.EQL || x.op == token.NEQ) && ((isMember(x.x) && yn) || (isMember(x.y) && xn)) {
					if (x.op == token.EQL) != neg {
						return 1
					}
					return -1
				}
				// a conjunction that holds, or a disjunction that does not, speaks through each operand
				if (x.op == token.LAND && !neg) || (x.op == token.LOR && neg) {
					if r := memberNil(x.x, neg); r != 0 {
						return r
					}
					return memberNil(x.y, neg)
				}
			}
			return 0
		}
		bad, constant, content := "", 0, 0
		for _, p := range paths {
			if len(p.rets) != 2 {
				continue
			}
			if _, isNil := p.rets[1].(svNil); !isNil {
				continue // error answers
			}
			isConst := false
			switch r := p.rets[0].(type) {
			case svConst:
				isConst = true
			case svPath:
				// a package-level table of bytes (jsTrue, jsFalse)
				if v, ok := r.root.(*types.Var); ok && len(r.steps) == 0 && v.Parent() == c.Types.Scope() {
					isConst = true
				}
			case svList:
				isConst = true
				for _, e := range r.elems {
					if _, ok := e.(svConst); !ok {
						isConst = false
					}
				}
			}
			if !isConst {
				content++
				continue
			}
			constant++
			known := false
			for _, cd := range p.conds {
				if cd.loop {
					continue
				}
				if memberNil(cd.v, cd.neg) == 1 {
					known = true
				}
			}
			if !known && bad == "" {
				bad = fmt.Sprintf("a path answers the constant %s without having found %s.%s nil: a value holding a schema is encoded as if it held none", svString(p.rets[0]), tname, member.Name())
			}
		}
		if constant == 0 {
			continue
		}
		c.ob(rule, tname+":constant-only-without-"+member.Name(), fd.Pos(), bad == "", bad)
	}
}

func init() {
	registerRule("default-cache-binds-ids", 2, "every entry of the default resolution cache holds the embedded document whose id is the entry's key", ruleDefaultCacheBindsIDs)
}

// ruleDefaultCacheBindsIDs: the cache every call starts from when the caller supplies none is a map literal from
// well-known URLs to documents read from embedded assets. For each entry, the asset its value is read from is found
// by following the calls of the value expression (package functions only) down to the single ReadFile on the
// embed.FS with a constant path; the asset is a build input, read here at analysis time, and its "id" member, less
// the empty fragment, must be the key. Two loaders swapped or copy-pasted make a $ref into one meta-schema land in
// the other when no cache is supplied, while a caller-supplied cache gives the right answer.
func ruleDefaultCacheBindsIDs(c *Ctx) {
	const rule = "default-cache-binds-ids"
	isEmbedRead := func(call *ast.CallExpr) bool {
		f, ok := c.callee(call).(*types.Func)
		return ok && f.Pkg() != nil && f.Pkg().Path() == "embed" && (f.Name() == "ReadFile" || f.Name() == "Open")
	}
	// constPath folds a constant, or path.Join of constants
	constPath := func(e ast.Expr) (string, bool) {
		if s, ok := c.constString(e); ok {
			return s, true
		}
		call, ok := unparen(e).(*ast.CallExpr)
		if !ok || !(c.isPkgFunc(call, "path", "Join") || c.isPkgFunc(call, "path/filepath", "Join")) {
			return "", false
		}
		var parts []string
		for _, a := range call.Args {
			s, ok := c.constString(a)
			if !ok {
				return "", false
			}
			parts = append(parts, s)
		}
		return path.Join(parts...), true
	}
	var assetsOf func(n ast.Node, depth int, seen map[*types.Func]bool, out map[string]bool) bool
	assetsOf = func(n ast.Node, depth int, seen map[*types.Func]bool, out map[string]bool) bool {
		ok := true
		ast.Inspect(n, func(m ast.Node) bool {
			if call, isCall := m.(*ast.CallExpr); isCall && isEmbedRead(call) && len(call.Args) == 1 {
				if p, folded := constPath(call.Args[0]); folded {
					out[p] = true
				} else {
					ok = false
				}
				return true
			}
			// every package function named below the expression, called or handed on as a value
			// (loadEmbeddedSchema(v2SchemaJSONBytes))
			id, isID := m.(*ast.Ident)
			if !isID {
				return true
			}
			if f, isF := c.objOf(id).(*types.Func); isF && f.Pkg() == c.Types && !seen[f] && depth < 6 {
				seen[f] = true
				if gfd := c.decl(f); gfd != nil && gfd.Body != nil {
					if !assetsOf(gfd.Body, depth+1, seen, out) {
						ok = false
					}
				}
			}
			return true
		})
		return ok
	}
	n := 0
	for _, fd := range c.allFuncDecls() {
		if fd.Body == nil || fd.Recv != nil {
			continue
		}
		isAnyMap := func(t types.Type) bool {
			if t == nil {
				return false
			}
			mt, ok := t.Underlying().(*types.Map)
			if !ok {
				return false
			}
			// values are documents (interface{}), or loaders of documents kept in a table (func() *Schema)
			switch mt.Elem().Underlying().(type) {
			case *types.Interface, *types.Signature:
				return true
			}
			return false
		}
		ast.Inspect(fd.Body, func(nd ast.Node) bool {
			// entries of a map literal, or stores m[K] = V, into a map from constant texts to anything
			var entries []*ast.KeyValueExpr
			switch x := nd.(type) {
			case *ast.CompositeLit:
				if isAnyMap(c.typeOf(x)) {
					for _, el := range x.Elts {
						if kv, ok := el.(*ast.KeyValueExpr); ok {
							entries = append(entries, kv)
						}
					}
				}
			case *ast.AssignStmt:
				if len(x.Lhs) == 1 && len(x.Rhs) == 1 {
					if ix, ok := unparen(x.Lhs[0]).(*ast.IndexExpr); ok && isAnyMap(c.typeOf(ix.X)) {
						entries = append(entries, &ast.KeyValueExpr{Key: ix.Index, Colon: x.Pos(), Value: x.Rhs[0]})
					}
				}
			case *ast.CallExpr:
				// cache.Set(K, V): a method of a package type taking (string, interface{})
				if f, ok := c.callee(x).(*types.Func); ok && f.Pkg() == c.Types && len(x.Args) == 2 {
					if sig, ok := f.Type().(*types.Signature); ok && sig.Recv() != nil && sig.Params().Len() == 2 {
						_, isIface := sig.Params().At(1).Type().Underlying().(*types.Interface)
						if b, isBasic := sig.Params().At(0).Type().Underlying().(*types.Basic); isBasic && b.Kind() == types.String && isIface {
							entries = append(entries, &ast.KeyValueExpr{Key: x.Args[0], Colon: x.Pos(), Value: x.Args[1]})
						}
					}
				}
			}
			for _, kv := range entries {
				key, ok := c.constString(kv.Key)
				if !ok {
					continue
				}
				switch v := unparen(kv.Value).(type) {
				case *ast.CallExpr:
				case *ast.Ident:
					if _, isF := c.objOf(v).(*types.Func); !isF {
						continue
					}
				default:
					continue
				}
				out := map[string]bool{}
				folded := assetsOf(kv.Value, 0, map[*types.Func]bool{}, out)
				if len(out) == 0 && folded {
					continue // not read from an embedded asset
				}
				n++
				c.saw(c.funcName(fd))
				obKey := fmt.Sprintf("%s:%s", c.funcName(fd), key)
				if !folded || len(out) != 1 {
					c.undecided(rule, obKey, kv.Pos(), fmt.Sprintf("the value of the entry reads %d embedded assets by constant path (some not constant: %v): cannot tell which document it holds", len(out), !folded))
					continue
				}
				asset := ""
				for p := range out {
					asset = p
				}
				b, err := os.ReadFile(filepath.Join(c.Repo, filepath.FromSlash(asset)))
				if err != nil {
					c.undecided(rule, obKey, kv.Pos(), "embedded asset "+asset+" cannot be read: "+err.Error())
					continue
				}
				var doc map[string]interface{}
				if err := json.Unmarshal(b, &doc); err != nil {
					c.undecided(rule, obKey, kv.Pos(), "embedded asset "+asset+" is not a JSON object: "+err.Error())
					continue
				}
				id, _ := doc["id"].(string)
				c.ob(rule, obKey, kv.Pos(), id != "" && strings.TrimSuffix(id, "#") == strings.TrimSuffix(key, "#"),
					fmt.Sprintf("the default cache answers %s with the embedded document %s, whose id is %q: a $ref to that URL resolved without a caller-supplied cache lands in another document", key, asset, id))
			}
			return true
		})
	}
	if n == 0 {
		c.undecided(rule, "default-cache", token.NoPos, "no map literal from constant URLs to embedded documents found: the default cache is built some other way")
	}
}

func init() {
	registerRule("ref-form-stays-bare", 2, "a kind the meta-schema admits as a bare jsonReference re-encodes its $ref-only form as $ref alone", ruleRefFormStaysBare)
}

// jsonRefKinds: positions of the meta-schema that admit `jsonReference` (only "$ref", additionalProperties false)
// next to a full object, and the Go kind decoded there. The positions are re-read from the meta-schema on every run.
var jsonRefKinds = []struct {
	kind string
	def  string   // definition holding the oneOf
	path []string // members leading to the oneOf
}{
	{"Parameter", "parametersList", []string{"items"}},
	{"Response", "responseValue", nil},
}

// ruleRefFormStaysBare: {"$ref": "#/parameters/x"} is valid where a parameter (a response) is expected, and is
// decoded into the same Go kind as a full object. Re-encoded, it must still be a jsonReference: either the encoder
// branches on the reference (and the branch's proxy is checked by proxy-complete), or every member of every
// component it renders through encoding/json is omitted when empty. A tag that loses omitempty ("in" is required,
// after all) makes every $ref'd parameter of an unexpanded document invalid.
func ruleRefFormStaysBare(c *Ctx) {
	const rule = "ref-form-stays-bare"
	defs, _ := c.Meta.V2["definitions"].(map[string]interface{})
	for _, k := range jsonRefKinds {
		var node interface{} = defs[k.def]
		for _, m := range k.path {
			if o, ok := node.(map[string]interface{}); ok {
				node = o[m]
			}
		}
		admits := false
		if o, ok := node.(map[string]interface{}); ok {
			if alts, ok := o["oneOf"].([]interface{}); ok {
				for _, a := range alts {
					if am, ok := a.(map[string]interface{}); ok && am["$ref"] == "#/definitions/jsonReference" {
						admits = true
					}
				}
			}
		}
		n := c.namedType(k.kind)
		if !admits || n == nil {
			c.undecided(rule, k.kind, token.NoPos, "the meta-schema position "+k.def+" no longer reads as oneOf[..., jsonReference], or the kind is gone: the table of the rule is stale")
			continue
		}
		st, ok := n.Underlying().(*types.Struct)
		m := declaredMethod(n, "MarshalJSON")
		if !ok || m == nil {
			c.undecided(rule, k.kind, n.Obj().Pos(), "kind has no hand-written encoder over a struct")
			continue
		}
		fd := c.decl(m)
		if fd == nil || fd.Body == nil {
			c.undecided(rule, k.kind, n.Obj().Pos(), "encoder body not found")
			continue
		}
		c.saw(c.funcName(fd))
		// does the encoder look at the reference itself (r.Ref.String() != "" in a condition, or handed to a helper
		// that picks the proxy)? Rendering the component that holds it (json.Marshal(r.Refable)) is not a look.
		branches := false
		seen := map[*types.Func]bool{}
		var look func(body ast.Node, depth int)
		look = func(body ast.Node, depth int) {
			ast.Inspect(body, func(nd ast.Node) bool {
				if x, ok := nd.(ast.Expr); ok {
					if p, ok := c.apath(x); ok && p.Root != nil && isNamed(derefType(p.Root.Type()), c.Types, k.kind) {
						for _, s := range p.Steps {
							if s == "Ref" {
								branches = true
							}
						}
					}
				}
				// helpers of the package the encoder hands the value to (r.marshalProps())
				if call, ok := nd.(*ast.CallExpr); ok && depth < 3 {
					if f, ok := c.callee(call).(*types.Func); ok && f.Pkg() == c.Types && !seen[f] {
						seen[f] = true
						if gfd := c.decl(f); gfd != nil && gfd.Body != nil {
							look(gfd.Body, depth+1)
						}
					}
				}
				return true
			})
		}
		look(fd.Body, 0)
		if branches {
			c.ob(rule, k.kind+":ref-only-form", fd.Pos(), true, "")
			continue
		}
		bad := ""
		for i := 0; i < st.NumFields(); i++ {
			f := st.Field(i)
			if hasMethod(f.Type(), "MarshalJSON") != nil {
				continue // components with their own encoder (the reference itself, the extensions) answer {} when empty
			}
			if !isStruct(f.Type()) {
				continue
			}
			for _, jf := range jsonFields(f.Type()) {
				if !jf.OmitEmpty && bad == "" {
					bad = fmt.Sprintf("%s.%s is rendered as %q even when empty: {\"$ref\": ...} decoded as a %s re-encodes with that member, which a jsonReference does not admit", typeNameOf(f.Type()), jf.GoName, jf.Name, k.kind)
				}
			}
		}
		c.ob(rule, k.kind+":ref-only-form", fd.Pos(), bad == "", bad)
	}
}
