package main

import (
	"fmt"
	"go/ast"
	"go/constant"
	"go/token"
	"go/types"
	"sort"
	"strings"
)

// clearExactBySim decides the per-function obligations of clear-exact on the effect normal form of one
// Clear<Family>Validations method (see effsim.go): the way the method is written (if-blocks, helper methods
// taking a pointer to the field, a table of rows with closures) does not matter, only what it does on each path.
// Returns false when the method is outside the fragment the normalisation supports.
func (c *Ctx) clearExactBySim(rule string, fd *ast.FuncDecl, famKeys []string, fam string, cleared map[string]bool) bool {
	paths, unsup := c.simulate(fd, nil)
	if unsup != "" || len(paths) == 0 {
		return false
	}
	fn := c.funcName(fd)
	recv := c.recvObj(fd)
	cbs := c.paramObj(fd, 0)
	rt := c.recvTypeOf(fd)
	leaves := leafFields(rt)
	byJSON := map[string]leafInfo{}
	for _, li := range leaves {
		byJSON[li.jsonName] = li
	}
	want := map[string]bool{}
	for _, k := range famKeys {
		if li, ok := byJSON[k]; ok {
			want[li.name] = true
		}
	}
	recvField := func(v sval) (string, bool) {
		p, ok := v.(svPath)
		if !ok || p.root != recv || len(p.steps) == 0 {
			return "", false
		}
		return p.steps[len(p.steps)-1], true
	}
	// setLit: the condition is the plain non-zero test of a receiver field
	setLit := func(cd scond) (string, bool, bool) {
		if cd.loop {
			return "", false, false
		}
		if f, ok := recvField(cd.v); ok {
			return f, !cd.neg, true
		}
		if b, ok := cd.v.(svBin); ok && (b.op == token.NEQ || b.op == token.EQL) && isZeroSV(b.y) {
			if f, ok := recvField(b.x); ok {
				return f, (b.op == token.NEQ) != cd.neg, true
			}
		}
		return "", false, false
	}
	mentions := func(v sval) []string {
		var out []string
		var walk func(v sval)
		walk = func(v sval) {
			switch x := v.(type) {
			case svPath:
				if f, ok := recvField(x); ok {
					out = append(out, f)
				}
			case svBin:
				walk(x.x)
				walk(x.y)
			case svNot:
				walk(x.x)
			case svCall:
				for _, a := range x.args {
					walk(a)
				}
				if x.recv != nil {
					walk(x.recv)
				}
			case svIndex:
				walk(x.x)
			}
		}
		walk(v)
		return out
	}
	type rec struct {
		name  sval
		value sval
		order int
	}
	fieldWhy := map[string]string{}
	fieldPos := map[string]token.Pos{}
	seenField := map[string]bool{}
	written := map[string]bool{}
	var stray []string
	applyOK, applyWhy := true, ""
	for _, p := range paths {
		state := map[string]int{} // 1 set, -1 unset
		weak := map[string]bool{}
		cbLoop := 0
		// noCbs: the path is taken only when the list of callbacks is empty (len(cbs) == 0): nothing can be
		// reported there, so only the clears matter
		noCbs := false
		for _, cd := range p.conds {
			if b, ok := cd.v.(svBin); ok && cd.neg && !cd.loop && (b.op == token.NEQ || b.op == token.GTR) {
				if lc, isCall := b.x.(svCall); isCall && lc.callee == nil && lc.call != nil && c.isBuiltin(lc.call, "len") && len(lc.args) == 1 && isBareParam(lc.args[0], cbs) {
					if k, isK := b.y.(svConst); isK && k.v.String() == "0" {
						noCbs = true
					}
				}
			}
		}
		for _, cd := range p.conds {
			if f, set, ok := setLit(cd); ok {
				if set {
					state[f] = 1
				} else {
					state[f] = -1
				}
				continue
			}
			if cd.loop {
				if q, ok := cd.v.(svPath); ok && q.root == cbs {
					if cd.neg {
						cbLoop = -1
					} else {
						cbLoop = 1
					}
				}
				continue
			}
			for _, f := range mentions(cd.v) {
				weak[f] = true
			}
		}
		// a path on which the list of callbacks is both known empty and walked for an element (or known non-empty
		// and walked for none) does not exist
		hasCbs := false
		for _, cd := range p.conds {
			if b, ok := cd.v.(svBin); ok && !cd.neg && !cd.loop && (b.op == token.NEQ || b.op == token.GTR) {
				if lc, isCall := b.x.(svCall); isCall && lc.callee == nil && lc.call != nil && c.isBuiltin(lc.call, "len") && len(lc.args) == 1 && isBareParam(lc.args[0], cbs) {
					if k, isK := b.y.(svConst); isK && k.v.String() == "0" {
						hasCbs = true
					}
				}
			}
		}
		if noCbs && cbLoop == 1 || hasCbs && cbLoop == -1 {
			continue
		}
		var recs []rec
		writes := map[string][]seffect{}
		worder := map[string]int{}
		var calls []seffect
		lastRecOrWrite := -1
		for i, e := range p.effs {
			switch e.kind {
			case "append":
				for _, el := range e.elems {
					st, ok := el.(svStruct)
					if !ok || typeNameOf(st.t) != "clearedValidation" {
						continue
					}
					recs = append(recs, rec{name: st.fields["Validation"], value: st.fields["Value"], order: i})
					lastRecOrWrite = i
				}
			case "write":
				if e.dst.root == recv && len(e.dst.steps) > 0 {
					f := e.dst.steps[len(e.dst.steps)-1]
					writes[f] = append(writes[f], e)
					worder[f] = i
					written[f] = true
					fieldPos[f] = e.pos
					lastRecOrWrite = i
					continue
				}
				if v, isVar := e.dst.root.(*types.Var); isVar && (v.Parent() == c.Types.Scope() || e.dst.root == cbs) {
					stray = append(stray, "store to "+svString(e.dst))
				}
			case "call":
				if el, ok := e.call.fun.(svElem); ok {
					if q, ok := el.of.(svPath); ok && q.root == cbs {
						calls = append(calls, e)
						if i < lastRecOrWrite {
							applyOK, applyWhy = false, "a callback runs before the method has finished recording and clearing"
						}
						continue
					}
				}
				stray = append(stray, "call "+svString(*e.call))
			}
		}
		// callbacks: once per record, with the record's own name and value, when there are callbacks
		switch {
		case cbLoop == 1 && len(calls) != len(recs):
			applyOK, applyWhy = false, fmt.Sprintf("on a path with %d records the callbacks are called %d times", len(recs), len(calls))
		case cbLoop == 1:
			for i, cl := range calls {
				if len(cl.call.args) != 2 || !svEqual(cl.call.args[0], recs[i].name) || !svEqual(cl.call.args[1], recs[i].value) {
					applyOK, applyWhy = false, fmt.Sprintf("callback receives %s instead of the record (%s, %s)", svString(svList{cl.call.args}), svString(recs[i].name), svString(recs[i].value))
				}
			}
		case len(recs) > 0 && cbLoop == 0:
			applyOK, applyWhy = false, "records are made but the callbacks are never applied on this path"
		}
		// per family field
		fields := map[string]bool{}
		for f := range want {
			fields[f] = true
		}
		for f := range writes {
			fields[f] = true
		}
		for f := range fields {
			li := leaves[f]
			var mine []rec
			for _, r := range recs {
				byVal, _ := recvField(r.value)
				byName := false
				if cn, ok := r.name.(svConst); ok && cn.v.Kind() == constant.String && constant.StringVal(cn.v) == li.jsonName && li.jsonName != "" {
					byName = true
				}
				if byVal == f || byName {
					mine = append(mine, r)
				}
			}
			ws := writes[f]
			if !want[f] {
				continue // reported by :family
			}
			seenField[f] = true
			bad := func(why string) {
				if fieldWhy[f] == "" {
					fieldWhy[f] = why
				}
			}
			if noCbs {
				switch {
				case len(ws) == 0 && state[f] != -1:
					bad("on the path taken when no callback is given the validation is not cleared")
				case len(ws) > 0 && !isZeroSV(ws[len(ws)-1].val):
					bad("the store does not write the zero value")
				}
				continue
			}
			switch state[f] {
			case 1:
				switch {
				case len(mine) == 0 && len(ws) == 0:
					bad("the validation is tested but neither reported nor cleared")
				case len(mine) == 0:
					bad("validation is cleared without being reported to the callbacks")
				case len(ws) == 0:
					bad("validation is reported but never cleared")
				case len(mine) > 1:
					bad("validation handled twice: callbacks would see it twice")
				case len(ws) > 1:
					bad("second store to " + f)
				default:
					r := mine[0]
					vf, isField := recvField(r.value)
					cn, isConst := r.name.(svConst)
					switch {
					case !isField:
						bad(fmt.Sprintf("the recorded value is %s, not the previous value of %s", svString(r.value), f))
					case vf != f:
						bad(fmt.Sprintf("guard tests %s but the recorded value is %s", f, vf))
					case !isConst || cn.v.Kind() != constant.String || constant.StringVal(cn.v) != li.jsonName:
						bad(fmt.Sprintf("reported keyword %s is not the JSON name %q of %s", svString(r.name), li.jsonName, f))
					case r.order > worder[f]:
						bad("the field is cleared before its previous value is recorded: callbacks receive the zero value")
					case !isZeroSV(ws[0].val):
						bad("the store does not write the zero value")
					}
				}
			case -1:
				if len(mine) > 0 || len(ws) > 0 {
					bad("the validation is reported or cleared on a path where it is known to be unset")
				}
			default:
				switch {
				case weak[f] && (len(mine) > 0 || len(ws) > 0):
					bad("the guard is not the plain non-zero test of the field: a keyword that is present with an empty value is neither cleared nor reported, and the has-query stays true")
				case len(mine) > 0 || len(ws) > 0:
					bad("the validation is reported or cleared without its non-zero guard")
				default:
					bad("on some path the method returns without having looked at " + f + ": a keyword that is set survives the clear")
				}
			}
		}
	}
	sort.Strings(stray)
	stray = uniqStrings(stray)
	c.ob(rule, fn+":deferred-apply", fd.Pos(), applyOK, "callbacks must be applied once per record, after the last clear, with the record's keyword and previous value: "+applyWhy)
	c.ob(rule, fn+":no-other-effects", fd.Pos(), len(stray) == 0, fmt.Sprintf("effects outside (guard, record, clear, apply): %v", stray))
	var missing, extra []string
	for f := range want {
		if !written[f] {
			missing = append(missing, f)
		}
	}
	for f := range written {
		cleared[f] = true
		if !want[f] {
			extra = append(extra, f)
		}
	}
	sort.Strings(missing)
	sort.Strings(extra)
	c.ob(rule, fn+":family", fd.Pos(), len(missing) == 0 && len(extra) == 0,
		fmt.Sprintf("family %s of %s: not cleared %v, cleared but foreign %v", strings.ToLower(fam), typeNameOf(rt), missing, extra))
	var fs []string
	for f := range seenField {
		fs = append(fs, f)
	}
	sort.Strings(fs)
	for _, f := range fs {
		pos := fieldPos[f]
		if !pos.IsValid() {
			pos = fd.Pos()
		}
		c.ob(rule, fn+":"+f, pos, fieldWhy[f] == "", fieldWhy[f])
	}
	return true
}

func uniqStrings(in []string) []string {
	var out []string
	for i, s := range in {
		if i == 0 || s != in[i-1] {
			out = append(out, s)
		}
	}
	return out
}
