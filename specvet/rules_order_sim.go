package main

import (
	"fmt"
	"go/ast"
	"go/token"
	"go/types"
	"strings"
)

// totalOrderBySim decides on the effect normal form of a Less method (comparison helpers inlined, (value, ok)
// producers kept opaque, the two compared elements told apart by their index) that every answer is a constant,
// a comparison of the two elements' unique key, or a comparison of two ranks on a path where the ranks are known
// to differ. Returns ok=false when the method is outside the supported fragment or answers in another way.
func (c *Ctx) totalOrderBySim(fd *ast.FuncDecl, uniqueField map[string]bool) (decided bool, good bool, why string) {
	s := &effsim{c: c, keepIndices: true, inline: func(f *types.Func) bool {
		res := f.Type().(*types.Signature).Results()
		if res.Len() == 2 {
			if b, isB := res.At(1).Type().Underlying().(*types.Basic); isB && b.Kind() == types.Bool {
				return false
			}
		}
		return true
	}}
	st := &sstate{vars: map[types.Object]sval{}, heap: map[string]sval{}, hkeys: map[string]svPath{}}
	recv := c.recvObj(fd)
	if recv == nil {
		return false, false, ""
	}
	st.vars[recv] = svPath{root: recv}
	pi, pj := c.paramObj(fd, 0), c.paramObj(fd, 1)
	if pi == nil || pj == nil {
		return false, false, ""
	}
	st.vars[pi], st.vars[pj] = svPath{root: pi}, svPath{root: pj}
	if f, ok := c.Info.Defs[fd.Name].(*types.Func); ok {
		s.stack = append(s.stack, f)
	}
	var paths []spath
	s.callBody(fd.Type, fd.Body, st, func(st *sstate, rets []sval) {
		paths = append(paths, spath{conds: st.conds, effs: st.effs, rets: rets})
		s.npaths++
		if s.npaths > effsimMaxPaths {
			s.fail("too many paths")
		}
	})
	if s.unsupported != "" || len(paths) == 0 {
		return false, false, ""
	}
	// which of the two elements a value belongs to: 1 (index i), 2 (index j), 0 neither / both
	side := func(v sval) int {
		si, sj := false, false
		svWalk(v, func(x sval) {
			if p, ok := x.(svPath); ok {
				for _, stp := range p.steps {
					if stp == "[#"+pi.Name()+"]" {
						si = true
					}
					if stp == "[#"+pj.Name()+"]" {
						sj = true
					}
				}
			}
			if ix, ok := x.(svIndex); ok {
				if p, ok := ix.i.(svPath); ok && len(p.steps) == 0 {
					if p.root == pi {
						si = true
					}
					if p.root == pj {
						sj = true
					}
				}
			}
		})
		switch {
		case si && !sj:
			return 1
		case sj && !si:
			return 2
		}
		return 0
	}
	uniqueKeyOf := func(v sval) (string, bool) {
		if p, isPath := v.(svPath); isPath && len(p.steps) >= 2 && strings.HasPrefix(p.steps[len(p.steps)-2], "[#") {
			f := p.steps[len(p.steps)-1]
			return f, uniqueField[f]
		}
		sel, ok := v.(svSel)
		if !ok {
			return "", false
		}
		if _, isIx := sel.x.(svIndex); !isIx {
			return "", false
		}
		parts := strings.Split(sel.steps, ".")
		f := parts[len(parts)-1]
		return f, uniqueField[f]
	}
	isUniquePair := func(a, b sval) bool {
		fa, oka := uniqueKeyOf(a)
		fb, okb := uniqueKeyOf(b)
		return oka && okb && fa == fb && side(a) != 0 && side(b) != 0 && side(a) != side(b)
	}
	isOrder := func(op token.Token) bool {
		return op == token.LSS || op == token.GTR || op == token.LEQ || op == token.GEQ
	}
	for _, p := range paths {
		if len(p.rets) != 1 {
			return false, false, ""
		}
		r := p.rets[0]
		if n, isNot := r.(svNot); isNot {
			r = n.x
		}
		if _, isConst := constBool(r); isConst {
			continue
		}
		b, isBin := r.(svBin)
		if !isBin || !isOrder(b.op) {
			return false, false, ""
		}
		if isUniquePair(b.x, b.y) {
			continue
		}
		// strings.Compare(uniqueA, uniqueB) < 0 and the like
		if sc, isCall := b.x.(svCall); isCall && len(sc.args) == 2 && isUniquePair(sc.args[0], sc.args[1]) {
			if f, isF := sc.callee.(*types.Func); isF && f.Pkg() != nil && f.Pkg().Path() == "strings" && f.Name() == "Compare" {
				continue
			}
		}
		// two ranks (one of each element): the path must know that they differ
		if side(b.x) == 0 || side(b.y) == 0 || side(b.x) == side(b.y) {
			return false, false, ""
		}
		differ := false
		for _, cd := range p.conds {
			if cd.loop || cd.neg {
				continue
			}
			if nb, ok := cd.v.(svBin); ok && nb.op == token.NEQ {
				if svEqual(nb.x, b.x) && svEqual(nb.y, b.y) || svEqual(nb.x, b.y) && svEqual(nb.y, b.x) {
					differ = true
				}
			}
		}
		if !differ {
			return true, false, fmt.Sprintf("%s is answered on a path where the two keys may be equal and nothing breaks the tie: for equal keys neither Less(i,j) nor Less(j,i) holds and the output order follows map iteration", svString(r))
		}
	}
	return true, true, ""
}
