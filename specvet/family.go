package main

import (
	"go/ast"
	"go/token"
	"go/types"
	"sort"
)

// expFamily describes the expander family, found by role rather than by name.
type expFamily struct {
	loader      *types.Named         // the schema loader: struct with a ResolutionCache field and an *ExpandOptions field
	resolveRef  *types.Func          // loader method that calls swag.DynamicJSONToStruct
	members     map[*types.Func]bool // functions with a loader (param or receiver) and a string base path that reach resolveRef
	schemaExp   map[*types.Func]bool // members whose first parameter is a Schema by value
	withParents map[*types.Func]bool // members with a []string parameter (the parent-ref stack)
	callees     map[*types.Func][]*types.Func
	order       []*types.Func
}

func (c *Ctx) pkgFuncs() []*types.Func {
	var out []*types.Func
	for f := range c.decls {
		out = append(out, f)
	}
	sort.Slice(out, func(i, j int) bool { return out[i].Pos() < out[j].Pos() })
	return out
}

// staticCallees lists package-internal static callees of a function (closures included).
func (c *Ctx) staticCallees(f *types.Func) []*types.Func {
	fd := c.decl(f)
	if fd == nil || fd.Body == nil {
		return nil
	}
	seen := map[*types.Func]bool{}
	var out []*types.Func
	ast.Inspect(fd.Body, func(n ast.Node) bool {
		if call, ok := n.(*ast.CallExpr); ok {
			if g, ok := c.callee(call).(*types.Func); ok && g.Pkg() == c.Types && !seen[g] {
				if c.decl(g) != nil {
					seen[g] = true
					out = append(out, g)
				}
			}
		}
		return true
	})
	return out
}

func (c *Ctx) reaches(from *types.Func, target func(*types.Func) bool) bool {
	seen := map[*types.Func]bool{}
	var rec func(f *types.Func) bool
	rec = func(f *types.Func) bool {
		if seen[f] {
			return false
		}
		seen[f] = true
		if target(f) {
			return true
		}
		for _, g := range c.staticCallees(f) {
			if rec(g) {
				return true
			}
		}
		return false
	}
	return rec(from)
}

func (c *Ctx) reachableSet(roots []*types.Func) map[*types.Func]bool {
	seen := map[*types.Func]bool{}
	var rec func(f *types.Func)
	rec = func(f *types.Func) {
		if seen[f] {
			return
		}
		seen[f] = true
		for _, g := range c.staticCallees(f) {
			rec(g)
		}
	}
	for _, r := range roots {
		rec(r)
	}
	return seen
}

func isNamed(t types.Type, pkg *types.Package, name string) bool {
	n, ok := types.Unalias(derefType(t)).(*types.Named)
	return ok && n.Obj().Pkg() == pkg && n.Obj().Name() == name
}

func (c *Ctx) family() *expFamily {
	fam := &expFamily{members: map[*types.Func]bool{}, schemaExp: map[*types.Func]bool{}, withParents: map[*types.Func]bool{}, callees: map[*types.Func][]*types.Func{}}
	// loader type by role
	sc := c.Types.Scope()
	for _, n := range sc.Names() {
		tn, ok := sc.Lookup(n).(*types.TypeName)
		if !ok {
			continue
		}
		named, ok := tn.Type().(*types.Named)
		if !ok {
			continue
		}
		st, ok := named.Underlying().(*types.Struct)
		if !ok {
			continue
		}
		hasCache, hasOpts := false, false
		for i := 0; i < st.NumFields(); i++ {
			ft := st.Field(i).Type()
			if isNamed(ft, c.Types, "ResolutionCache") {
				hasCache = true
			}
			if _, isPtr := ft.(*types.Pointer); isPtr && isNamed(ft, c.Types, "ExpandOptions") {
				hasOpts = true
			}
		}
		if hasCache && hasOpts {
			if fam.loader != nil {
				return fam // ambiguous: leave incomplete, rules fail closed
			}
			fam.loader = named
		}
	}
	if fam.loader == nil {
		return fam
	}
	// resolveRef by role: loader method whose body calls swag.DynamicJSONToStruct
	for i := 0; i < fam.loader.NumMethods(); i++ {
		m := fam.loader.Method(i)
		fd := c.decl(m)
		if fd == nil || fd.Body == nil {
			continue
		}
		found := false
		ast.Inspect(fd.Body, func(n ast.Node) bool {
			if call, ok := n.(*ast.CallExpr); ok && c.isPkgFunc(call, "github.com/go-openapi/swag", "DynamicJSONToStruct") {
				found = true
			}
			return true
		})
		if found {
			fam.resolveRef = m
		}
	}
	if fam.resolveRef == nil {
		return fam
	}
	for _, f := range c.pkgFuncs() {
		sig := f.Type().(*types.Signature)
		hasLoader := sig.Recv() != nil && isNamed(sig.Recv().Type(), c.Types, fam.loader.Obj().Name())
		hasString, hasParents := false, false
		for i := 0; i < sig.Params().Len(); i++ {
			pt := sig.Params().At(i).Type()
			if isNamed(pt, c.Types, fam.loader.Obj().Name()) {
				hasLoader = true
			}
			if b, ok := pt.Underlying().(*types.Basic); ok && b.Kind() == types.String {
				hasString = true
			}
			if sl, ok := pt.Underlying().(*types.Slice); ok {
				if b, ok := sl.Elem().Underlying().(*types.Basic); ok && b.Kind() == types.String {
					hasParents = true
				}
			}
		}
		if !hasLoader || !hasString {
			continue
		}
		if !c.reaches(f, func(g *types.Func) bool { return g == fam.resolveRef }) {
			continue
		}
		fam.members[f] = true
		fam.order = append(fam.order, f)
		if hasParents && !sig.Variadic() {
			fam.withParents[f] = true
		}
		if sig.Params().Len() > 0 {
			if n, ok := types.Unalias(sig.Params().At(0).Type()).(*types.Named); ok && n.Obj().Pkg() == c.Types && n.Obj().Name() == "Schema" {
				fam.schemaExp[f] = true
			}
		}
	}
	return fam
}

func (fam *expFamily) ok() bool {
	return fam.loader != nil && fam.resolveRef != nil && len(fam.members) > 0
}

func funcDisplay(f *types.Func) string {
	sig := f.Type().(*types.Signature)
	if sig.Recv() != nil {
		return typeNameOf(derefType(sig.Recv().Type())) + "." + f.Name()
	}
	return f.Name()
}

// familyCalls lists the calls inside fd whose callee is a family member.
func (c *Ctx) familyCalls(fam *expFamily, fd *ast.FuncDecl) []*ast.CallExpr {
	var out []*ast.CallExpr
	ast.Inspect(fd.Body, func(n ast.Node) bool {
		if call, ok := n.(*ast.CallExpr); ok {
			if g, ok := c.callee(call).(*types.Func); ok && fam.members[g] {
				out = append(out, call)
			}
		}
		return true
	})
	return out
}

// ---- implied conditions at a program point ----

// condsAt returns the branch conditions (with polarity) that hold when the
// target node executes: enclosing if conditions, plus the negation of every
// earlier sibling `if c { ...return }` whose body always leaves the function.
func (c *Ctx) condsAt(fd *ast.FuncDecl, target ast.Node) []condLit {
	var result []condLit
	found := false
	var stack []condLit
	var walkStmt func(s ast.Stmt)
	var walkList func(list []ast.Stmt)
	contains := func(n ast.Node) bool { return n.Pos() <= target.Pos() && target.End() <= n.End() }
	walkList = func(list []ast.Stmt) {
		pushed := 0
		for _, s := range list {
			if found {
				break
			}
			if contains(s) {
				walkStmt(s)
				break
			}
			if ifs, ok := s.(*ast.IfStmt); ok && ifs.Else == nil && blockAlwaysLeaves(ifs.Body) {
				stack = append(stack, condLit{e: ifs.Cond, neg: true})
				pushed++
			}
			// if c { ...leaves } else { ...falls through }: afterwards !c holds
			if ifs, ok := s.(*ast.IfStmt); ok && ifs.Else != nil && blockAlwaysLeaves(ifs.Body) {
				if eb, ok := ifs.Else.(*ast.BlockStmt); ok && !blockAlwaysLeaves(eb) {
					stack = append(stack, condLit{e: ifs.Cond, neg: true})
					pushed++
				}
			}
			// tagless switch statement whose matching cases all leave: afterwards every such case condition is false
			if sw, ok := s.(*ast.SwitchStmt); ok && sw.Tag == nil {
				for _, cl := range sw.Body.List {
					cc := cl.(*ast.CaseClause)
					if len(cc.List) > 0 && len(cc.Body) > 0 && blockAlwaysLeaves(&ast.BlockStmt{List: cc.Body}) {
						for _, e := range cc.List {
							stack = append(stack, condLit{e: e, neg: true})
							pushed++
						}
					}
				}
			}
		}
		stack = stack[:len(stack)-pushed]
	}
	walkStmt = func(s ast.Stmt) {
		if found {
			return
		}
		switch st := s.(type) {
		case *ast.IfStmt:
			if st.Init != nil && contains(st.Init) || contains(st.Cond) {
				result, found = append([]condLit{}, stack...), true
				return
			}
			if contains(st.Body) {
				stack = append(stack, condLit{e: st.Cond, neg: false})
				walkList(st.Body.List)
				stack = stack[:len(stack)-1]
				return
			}
			if st.Else != nil && contains(st.Else) {
				stack = append(stack, condLit{e: st.Cond, neg: true})
				walkStmt(st.Else)
				stack = stack[:len(stack)-1]
				return
			}
		case *ast.BlockStmt:
			walkList(st.List)
			return
		case *ast.ForStmt:
			if contains(st.Body) {
				walkList(st.Body.List)
				return
			}
		case *ast.RangeStmt:
			if contains(st.Body) {
				walkList(st.Body.List)
				return
			}
		case *ast.SwitchStmt:
			// tagless switch: inside case k, its own condition holds and every earlier case's condition failed
			pushed := 0
			for _, cl := range st.Body.List {
				cc := cl.(*ast.CaseClause)
				// the target lies inside one of the case expressions: every earlier case, and every earlier
				// expression of this case, was false when it is evaluated
				if st.Tag == nil {
					for k, e := range cc.List {
						if contains(e) {
							for _, prev := range cc.List[:k] {
								stack = append(stack, condLit{e: prev, neg: true})
								pushed++
							}
							result, found = append([]condLit{}, stack...), true
							stack = stack[:len(stack)-pushed]
							return
						}
					}
				}
				inBody := false
				for _, b := range cc.Body {
					if contains(b) {
						inBody = true
					}
				}
				// the condition of one case: a disjunction over its expressions (compared with the tag, if any)
				caseCond := func(e ast.Expr) ast.Expr {
					if st.Tag == nil {
						return e
					}
					return &ast.BinaryExpr{X: st.Tag, Op: token.EQL, OpPos: e.Pos(), Y: e}
				}
				if inBody {
					if len(cc.List) > 0 {
						var disj ast.Expr
						for _, e := range cc.List {
							if disj == nil {
								disj = caseCond(e)
							} else {
								disj = &ast.BinaryExpr{X: disj, Op: token.LOR, OpPos: e.Pos(), Y: caseCond(e)}
							}
						}
						stack = append(stack, condLit{e: disj, neg: false})
						pushed++
					}
					walkList(cc.Body)
					stack = stack[:len(stack)-pushed]
					return
				}
				{
					for _, e := range cc.List {
						stack = append(stack, condLit{e: caseCond(e), neg: true})
						pushed++
					}
				}
			}
			stack = stack[:len(stack)-pushed]
		case *ast.TypeSwitchStmt:
			for _, cl := range st.Body.List {
				cc := cl.(*ast.CaseClause)
				for _, b := range cc.Body {
					if contains(b) {
						walkList(cc.Body)
						return
					}
				}
			}
		}
		if !found {
			result, found = append([]condLit{}, stack...), true
		}
	}
	walkList(fd.Body.List)
	return result
}

// blockAlwaysLeaves: the block ends in return, continue, break or panic.
func blockAlwaysLeaves(b *ast.BlockStmt) bool {
	if len(b.List) == 0 {
		return false
	}
	switch s := b.List[len(b.List)-1].(type) {
	case *ast.ReturnStmt:
		return true
	case *ast.BranchStmt:
		return s.Tok == token.CONTINUE || s.Tok == token.BREAK
	case *ast.ExprStmt:
		if call, ok := s.X.(*ast.CallExpr); ok {
			if id, ok := call.Fun.(*ast.Ident); ok && id.Name == "panic" {
				return true
			}
		}
	}
	return false
}

// splitConj flattens a condition with polarity into literals: (a && b) -> a, b; !(a || b) -> !a, !b.
func splitConj(cl condLit) []condLit {
	e := unparen(cl.e)
	if u, ok := e.(*ast.UnaryExpr); ok && u.Op == token.NOT {
		return splitConj(condLit{e: u.X, neg: !cl.neg})
	}
	if b, ok := e.(*ast.BinaryExpr); ok {
		if b.Op == token.LAND && !cl.neg || b.Op == token.LOR && cl.neg {
			return append(splitConj(condLit{e: b.X, neg: cl.neg}), splitConj(condLit{e: b.Y, neg: cl.neg})...)
		}
	}
	return []condLit{{e: e, neg: cl.neg, recv: cl.recv}}
}

func (c *Ctx) literalsAt(fd *ast.FuncDecl, target ast.Node) []condLit {
	var out []condLit
	for _, cl := range c.condsAt(fd, target) {
		out = append(out, splitConj(cl)...)
	}
	return out
}

// ---- origins of values ----

// origin is where a value comes from: a root variable (usually a parameter)
// and the access path applied to it; copy marks a by-value copy.
type origin struct {
	root  types.Object
	steps []string
	copy  bool
}

func (o origin) sub() string { return joinSteps(o.steps) }

func joinSteps(s []string) string {
	out := ""
	for i, x := range s {
		if i > 0 {
			out += "."
		}
		out += x
	}
	return out
}

type originCtx struct {
	c      *Ctx
	fd     *ast.FuncDecl
	defs   map[types.Object][]ast.Expr
	ranges map[types.Object]*ast.RangeStmt // range value variables
	params map[types.Object]bool
}

func (c *Ctx) newOriginCtx(fd *ast.FuncDecl) *originCtx {
	oc := &originCtx{c: c, fd: fd, defs: c.localDefs(fd), ranges: map[types.Object]*ast.RangeStmt{}, params: map[types.Object]bool{}}
	if r := c.recvObj(fd); r != nil {
		oc.params[r] = true
	}
	for i := 0; ; i++ {
		p := c.paramObj(fd, i)
		if p == nil {
			break
		}
		oc.params[p] = true
	}
	ast.Inspect(fd.Body, func(n ast.Node) bool {
		if rs, ok := n.(*ast.RangeStmt); ok {
			if id, ok := rs.Value.(*ast.Ident); ok && id.Name != "_" {
				oc.ranges[c.objOf(id)] = rs
			}
		}
		return true
	})
	return oc
}

func isRefType(t types.Type) bool {
	switch types.Unalias(t).Underlying().(type) {
	case *types.Pointer, *types.Map, *types.Slice, *types.Interface:
		return true
	}
	return false
}

// origins resolves an expression to the set of (parameter, path) positions it denotes or copies.
func (oc *originCtx) origins(e ast.Expr, depth int) []origin {
	c := oc.c
	if depth > 10 || e == nil {
		return nil
	}
	e = unparen(e)
	switch x := e.(type) {
	case *ast.Ident:
		o := c.objOf(x)
		if o == nil {
			return nil
		}
		if rs, ok := oc.ranges[o]; ok {
			// range value: element of the ranged container; composite literals yield their elements
			if lit, ok := oc.soleLiteral(rs.X); ok {
				var out []origin
				for _, el := range lit.Elts {
					out = append(out, oc.origins(el, depth+1)...)
				}
				return out
			}
			var out []origin
			for _, b := range oc.origins(rs.X, depth+1) {
				cp := !isRefType(o.Type())
				out = append(out, origin{b.root, append(append([]string{}, b.steps...), "[]"), b.copy || cp})
			}
			return out
		}
		ds := oc.defs[o]
		if oc.params[o] && len(ds) == 0 {
			return []origin{{root: o}}
		}
		var out []origin
		if oc.params[o] {
			out = append(out, origin{root: o})
		}
		for _, d := range ds {
			if d == nil {
				continue
			}
			for _, b := range oc.origins(d, depth+1) {
				cp := b.copy || !isRefType(o.Type())
				out = append(out, origin{b.root, b.steps, cp})
			}
		}
		return out
	case *ast.StarExpr:
		var out []origin
		for _, b := range oc.origins(x.X, depth+1) {
			out = append(out, b)
		}
		return out
	case *ast.UnaryExpr:
		if x.Op == token.AND {
			return oc.origins(x.X, depth+1)
		}
	case *ast.SelectorExpr:
		sel := c.Info.Selections[x]
		if sel == nil || sel.Kind() != types.FieldVal {
			return nil
		}
		var out []origin
		for _, b := range oc.origins(x.X, depth+1) {
			out = append(out, origin{b.root, append(append([]string{}, b.steps...), selectionSteps(sel)...), b.copy})
		}
		return out
	case *ast.IndexExpr:
		var out []origin
		for _, b := range oc.origins(x.X, depth+1) {
			out = append(out, origin{b.root, append(append([]string{}, b.steps...), "[]"), b.copy})
		}
		return out
	}
	return nil
}

func (oc *originCtx) soleLiteral(e ast.Expr) (*ast.CompositeLit, bool) {
	e = unparen(e)
	if lit, ok := e.(*ast.CompositeLit); ok {
		return lit, true
	}
	if id, ok := e.(*ast.Ident); ok {
		ds := oc.defs[oc.c.objOf(id)]
		if len(ds) == 1 {
			if lit, ok := unparen(ds[0]).(*ast.CompositeLit); ok {
				return lit, true
			}
		}
	}
	return nil, false
}
