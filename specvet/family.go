package main

import (
	"go/ast"
	"go/constant"
	"go/token"
	"go/types"
	"sort"
)

// expFamily describes the expander family, found by role rather than by name.
type expFamily struct {
	loader      *types.Named         // the schema loader: struct with a ResolutionCache field and an *ExpandOptions field
	resolveRef  *types.Func          // loader method that calls swag.DynamicJSONToStruct
	members     map[*types.Func]bool // functions with a loader (param or receiver) and a string base path that reach resolveRef
	schemaExp   map[*types.Func]bool // members whose first parameter is a Schema by value
	withParents map[*types.Func]bool // members with a []string parameter (the parent-ref stack)
	callees     map[*types.Func][]*types.Func
	order       []*types.Func
}

func (c *Ctx) pkgFuncs() []*types.Func {
	var out []*types.Func
	for f := range c.decls {
		out = append(out, f)
	}
	sort.Slice(out, func(i, j int) bool { return out[i].Pos() < out[j].Pos() })
	return out
}

// staticCallees lists package-internal static callees of a function (closures included).
func (c *Ctx) staticCallees(f *types.Func) []*types.Func {
	fd := c.decl(f)
	if fd == nil || fd.Body == nil {
		return nil
	}
	seen := map[*types.Func]bool{}
	var out []*types.Func
	ast.Inspect(fd.Body, func(n ast.Node) bool {
		if call, ok := n.(*ast.CallExpr); ok {
			if g, ok := c.callee(call).(*types.Func); ok && g.Pkg() == c.Types && !seen[g] {
				if c.decl(g) != nil {
					seen[g] = true
					out = append(out, g)
				}
			}
		}
		return true
	})
	return out
}

func (c *Ctx) reaches(from *types.Func, target func(*types.Func) bool) bool {
	seen := map[*types.Func]bool{}
	var rec func(f *types.Func) bool
	rec = func(f *types.Func) bool {
		if seen[f] {
			return false
		}
		seen[f] = true
		if target(f) {
			return true
		}
		for _, g := range c.staticCallees(f) {
			if rec(g) {
				return true
			}
		}
		return false
	}
	return rec(from)
}

func (c *Ctx) reachableSet(roots []*types.Func) map[*types.Func]bool {
	seen := map[*types.Func]bool{}
	var rec func(f *types.Func)
	rec = func(f *types.Func) {
		if seen[f] {
			return
		}
		seen[f] = true
		for _, g := range c.staticCallees(f) {
			rec(g)
		}
	}
	for _, r := range roots {
		rec(r)
	}
	return seen
}

func isNamed(t types.Type, pkg *types.Package, name string) bool {
	n, ok := types.Unalias(derefType(t)).(*types.Named)
	return ok && n.Obj().Pkg() == pkg && n.Obj().Name() == name
}

func (c *Ctx) family() *expFamily {
	fam := &expFamily{members: map[*types.Func]bool{}, schemaExp: map[*types.Func]bool{}, withParents: map[*types.Func]bool{}, callees: map[*types.Func][]*types.Func{}}
	// loader type by role
	sc := c.Types.Scope()
	for _, n := range sc.Names() {
		tn, ok := sc.Lookup(n).(*types.TypeName)
		if !ok {
			continue
		}
		named, ok := tn.Type().(*types.Named)
		if !ok {
			continue
		}
		st, ok := named.Underlying().(*types.Struct)
		if !ok {
			continue
		}
		hasCache, hasOpts := false, false
		for i := 0; i < st.NumFields(); i++ {
			ft := st.Field(i).Type()
			if isNamed(ft, c.Types, "ResolutionCache") {
				hasCache = true
			}
			if _, isPtr := ft.(*types.Pointer); isPtr && isNamed(ft, c.Types, "ExpandOptions") {
				hasOpts = true
			}
		}
		if hasCache && hasOpts {
			if fam.loader != nil {
				return fam // ambiguous: leave incomplete, rules fail closed
			}
			fam.loader = named
		}
	}
	if fam.loader == nil {
		return fam
	}
	// resolveRef by role: loader method whose body calls swag.DynamicJSONToStruct
	for i := 0; i < fam.loader.NumMethods(); i++ {
		m := fam.loader.Method(i)
		fd := c.decl(m)
		if fd == nil || fd.Body == nil {
			continue
		}
		found := false
		ast.Inspect(fd.Body, func(n ast.Node) bool {
			if call, ok := n.(*ast.CallExpr); ok && c.isPkgFunc(call, "github.com/go-openapi/swag", "DynamicJSONToStruct") {
				found = true
			}
			return true
		})
		if found {
			fam.resolveRef = m
		}
	}
	if fam.resolveRef == nil {
		return fam
	}
	for _, f := range c.pkgFuncs() {
		sig := f.Type().(*types.Signature)
		hasLoader := sig.Recv() != nil && isNamed(sig.Recv().Type(), c.Types, fam.loader.Obj().Name())
		hasString, hasParents := false, false
		for i := 0; i < sig.Params().Len(); i++ {
			pt := sig.Params().At(i).Type()
			if isNamed(pt, c.Types, fam.loader.Obj().Name()) {
				hasLoader = true
			}
			if b, ok := pt.Underlying().(*types.Basic); ok && b.Kind() == types.String {
				hasString = true
			}
			if sl, ok := pt.Underlying().(*types.Slice); ok {
				if b, ok := sl.Elem().Underlying().(*types.Basic); ok && b.Kind() == types.String {
					hasParents = true
				}
			}
		}
		if !hasLoader || !hasString {
			continue
		}
		if !c.reaches(f, func(g *types.Func) bool { return g == fam.resolveRef }) {
			continue
		}
		fam.members[f] = true
		fam.order = append(fam.order, f)
		if hasParents && !sig.Variadic() {
			fam.withParents[f] = true
		}
		if sig.Params().Len() > 0 {
			if n, ok := types.Unalias(sig.Params().At(0).Type()).(*types.Named); ok && n.Obj().Pkg() == c.Types && n.Obj().Name() == "Schema" {
				fam.schemaExp[f] = true
			}
		}
	}
	return fam
}

func (fam *expFamily) ok() bool {
	return fam.loader != nil && fam.resolveRef != nil && len(fam.members) > 0
}

func funcDisplay(f *types.Func) string {
	sig := f.Type().(*types.Signature)
	if sig.Recv() != nil {
		return typeNameOf(derefType(sig.Recv().Type())) + "." + f.Name()
	}
	return f.Name()
}

// familyCalls lists the calls inside fd whose callee is a family member.
func (c *Ctx) familyCalls(fam *expFamily, fd *ast.FuncDecl) []*ast.CallExpr {
	var out []*ast.CallExpr
	ast.Inspect(fd.Body, func(n ast.Node) bool {
		if call, ok := n.(*ast.CallExpr); ok {
			if g, ok := c.callee(call).(*types.Func); ok && fam.members[g] {
				out = append(out, call)
			}
		}
		return true
	})
	return out
}

// ---- implied conditions at a program point ----

// condsAt returns the branch conditions (with polarity) that hold when the
// target node executes: enclosing if conditions, plus the negation of every
// earlier sibling `if c { ...return }` whose body always leaves the function.
func (c *Ctx) condsAt(fd *ast.FuncDecl, target ast.Node) []condLit {
	var result []condLit
	found := false
	var stack []condLit
	var walkStmt func(s ast.Stmt)
	var walkList func(list []ast.Stmt)
	contains := func(n ast.Node) bool { return n.Pos() <= target.Pos() && target.End() <= n.End() }
	walkList = func(list []ast.Stmt) {
		pushed := 0
		for _, s := range list {
			if found {
				break
			}
			if contains(s) {
				walkStmt(s)
				break
			}
			if ifs, ok := s.(*ast.IfStmt); ok && ifs.Else == nil && blockAlwaysLeaves(ifs.Body) {
				stack = append(stack, condLit{e: ifs.Cond, neg: true})
				pushed++
			}
			// if c { ...leaves } else { ...falls through }: afterwards !c holds
			if ifs, ok := s.(*ast.IfStmt); ok && ifs.Else != nil && blockAlwaysLeaves(ifs.Body) {
				if eb, ok := ifs.Else.(*ast.BlockStmt); ok && !blockAlwaysLeaves(eb) {
					stack = append(stack, condLit{e: ifs.Cond, neg: true})
					pushed++
				}
			}
			// tagless switch statement whose matching cases all leave: afterwards every such case condition is false
			if sw, ok := s.(*ast.SwitchStmt); ok && sw.Tag == nil {
				for _, cl := range sw.Body.List {
					cc := cl.(*ast.CaseClause)
					if len(cc.List) > 0 && len(cc.Body) > 0 && blockAlwaysLeaves(&ast.BlockStmt{List: cc.Body}) {
						for _, e := range cc.List {
							stack = append(stack, condLit{e: e, neg: true})
							pushed++
						}
					}
				}
			}
		}
		stack = stack[:len(stack)-pushed]
	}
	walkStmt = func(s ast.Stmt) {
		if found {
			return
		}
		switch st := s.(type) {
		case *ast.IfStmt:
			if st.Init != nil && contains(st.Init) || contains(st.Cond) {
				result, found = append([]condLit{}, stack...), true
				return
			}
			if contains(st.Body) {
				stack = append(stack, condLit{e: st.Cond, neg: false})
				walkList(st.Body.List)
				stack = stack[:len(stack)-1]
				return
			}
			if st.Else != nil && contains(st.Else) {
				stack = append(stack, condLit{e: st.Cond, neg: true})
				walkStmt(st.Else)
				stack = stack[:len(stack)-1]
				return
			}
		case *ast.BlockStmt:
			walkList(st.List)
			return
		case *ast.ForStmt:
			if contains(st.Body) {
				walkList(st.Body.List)
				return
			}
		case *ast.RangeStmt:
			if contains(st.Body) {
				walkList(st.Body.List)
				return
			}
		case *ast.SwitchStmt:
			// tagless switch: inside case k, its own condition holds and every earlier case's condition failed
			pushed := 0
			for _, cl := range st.Body.List {
				cc := cl.(*ast.CaseClause)
				// the target lies inside one of the case expressions: every earlier case, and every earlier
				// expression of this case, was false when it is evaluated
				if st.Tag == nil {
					for k, e := range cc.List {
						if contains(e) {
							for _, prev := range cc.List[:k] {
								stack = append(stack, condLit{e: prev, neg: true})
								pushed++
							}
							result, found = append([]condLit{}, stack...), true
							stack = stack[:len(stack)-pushed]
							return
						}
					}
				}
				inBody := false
				for _, b := range cc.Body {
					if contains(b) {
						inBody = true
					}
				}
				// the condition of one case: a disjunction over its expressions (compared with the tag, if any)
				caseCond := func(e ast.Expr) ast.Expr {
					if st.Tag == nil {
						return e
					}
					return &ast.BinaryExpr{X: st.Tag, Op: token.EQL, OpPos: e.Pos(), Y: e}
				}
				if inBody {
					if len(cc.List) > 0 {
						var disj ast.Expr
						for _, e := range cc.List {
							if disj == nil {
								disj = caseCond(e)
							} else {
								disj = &ast.BinaryExpr{X: disj, Op: token.LOR, OpPos: e.Pos(), Y: caseCond(e)}
							}
						}
						stack = append(stack, condLit{e: disj, neg: false})
						pushed++
					}
					walkList(cc.Body)
					stack = stack[:len(stack)-pushed]
					return
				}
				{
					for _, e := range cc.List {
						stack = append(stack, condLit{e: caseCond(e), neg: true})
						pushed++
					}
				}
			}
			stack = stack[:len(stack)-pushed]
		case *ast.TypeSwitchStmt:
			for _, cl := range st.Body.List {
				cc := cl.(*ast.CaseClause)
				for _, b := range cc.Body {
					if contains(b) {
						walkList(cc.Body)
						return
					}
				}
			}
		}
		if !found {
			result, found = append([]condLit{}, stack...), true
		}
	}
	// the target sits inside a function literal: the conditions in force are those of the literal's own body
	// (it runs when it is called, not where it is written)
	var inner *ast.FuncLit
	ast.Inspect(fd.Body, func(n ast.Node) bool {
		if fl, ok := n.(*ast.FuncLit); ok && fl.Body.Pos() <= target.Pos() && target.End() <= fl.Body.End() {
			inner = fl // the innermost one is visited last
		}
		return true
	})
	if inner != nil {
		walkList(inner.Body.List)
	} else {
		walkList(fd.Body.List)
	}
	// short circuit: inside the right operand of a && b, a holds; inside the right operand of a || b, a is false
	ast.Inspect(fd.Body, func(n ast.Node) bool {
		be, ok := n.(*ast.BinaryExpr)
		if !ok || be.Op != token.LAND && be.Op != token.LOR {
			return true
		}
		if be.Y.Pos() <= target.Pos() && target.End() <= be.Y.End() {
			result = append(result, condLit{e: be.X, neg: be.Op == token.LOR})
		}
		return true
	})
	return result
}

// blockAlwaysLeaves: the block ends in return, continue, break or panic.
func blockAlwaysLeaves(b *ast.BlockStmt) bool {
	if len(b.List) == 0 {
		return false
	}
	switch s := b.List[len(b.List)-1].(type) {
	case *ast.ReturnStmt:
		return true
	case *ast.BranchStmt:
		return s.Tok == token.CONTINUE || s.Tok == token.BREAK
	case *ast.ExprStmt:
		if call, ok := s.X.(*ast.CallExpr); ok {
			if id, ok := call.Fun.(*ast.Ident); ok && id.Name == "panic" {
				return true
			}
		}
	}
	return false
}

// splitConj flattens a condition with polarity into literals: (a && b) -> a, b; !(a || b) -> !a, !b.
func splitConj(cl condLit) []condLit {
	e := unparen(cl.e)
	if u, ok := e.(*ast.UnaryExpr); ok && u.Op == token.NOT {
		return splitConj(condLit{e: u.X, neg: !cl.neg})
	}
	if b, ok := e.(*ast.BinaryExpr); ok {
		if b.Op == token.LAND && !cl.neg || b.Op == token.LOR && cl.neg {
			return append(splitConj(condLit{e: b.X, neg: cl.neg}), splitConj(condLit{e: b.Y, neg: cl.neg})...)
		}
	}
	return []condLit{{e: e, neg: cl.neg, recv: cl.recv}}
}

func (c *Ctx) literalsAt(fd *ast.FuncDecl, target ast.Node) []condLit {
	var out []condLit
	for _, cl := range c.condsAt(fd, target) {
		out = append(out, splitConj(cl)...)
	}
	return out
}

// derivedLits extends a list of literals with what they imply through small package helpers: a literal
// `h(..) == K` (or a boolean call `h(..)`) whose callee returns constants implies the conditions under which
// the callee returns K, when exactly one of its return sites does; a boolean helper with one return of a
// non-constant expression implies that expression. The derived literals are in the callee's frame.
func (c *Ctx) derivedLits(lits []condLit) []condLit {
	out := append([]condLit{}, lits...)
	for depth := 0; depth < 2; depth++ {
		var more []condLit
		for _, cl := range lits {
			e := unparen(cl.e)
			var call *ast.CallExpr
			var want constant.Value
			eq := !cl.neg
			if b, ok := e.(*ast.BinaryExpr); ok && (b.Op == token.EQL || b.Op == token.NEQ) {
				x, y := unparen(b.X), unparen(b.Y)
				if tv, ok := c.Info.Types[y]; ok && tv.Value != nil {
					call, _ = x.(*ast.CallExpr)
					want = tv.Value
				} else if tv, ok := c.Info.Types[x]; ok && tv.Value != nil {
					call, _ = y.(*ast.CallExpr)
					want = tv.Value
				}
				if b.Op == token.NEQ {
					eq = !eq
				}
			} else if ce, ok := e.(*ast.CallExpr); ok {
				if tv, ok := c.Info.Types[ce]; ok && tv.Type != nil {
					if bt, ok := tv.Type.Underlying().(*types.Basic); ok && bt.Info()&types.IsBoolean != 0 {
						call, want = ce, constant.MakeBool(true)
					}
				}
			}
			if call == nil {
				continue
			}
			g, _ := c.callee(call).(*types.Func)
			if g == nil || g.Pkg() != c.Types {
				continue
			}
			gfd := c.decl(g)
			if gfd == nil || gfd.Body == nil || g.Type().(*types.Signature).Results().Len() != 1 {
				continue
			}
			var match, other []*ast.ReturnStmt
			var nonConst []*ast.ReturnStmt
			ast.Inspect(gfd.Body, func(n ast.Node) bool {
				if _, isLit := n.(*ast.FuncLit); isLit {
					return false
				}
				rs, ok := n.(*ast.ReturnStmt)
				if !ok || len(rs.Results) != 1 {
					return true
				}
				tv, ok := c.Info.Types[rs.Results[0]]
				switch {
				case !ok || tv.Value == nil:
					nonConst = append(nonConst, rs)
				case tv.Value.Kind() == want.Kind() && constant.Compare(tv.Value, token.EQL, want):
					match = append(match, rs)
				default:
					other = append(other, rs)
				}
				return true
			})
			switch {
			case len(nonConst) == 0:
				sites := match
				if !eq {
					sites = other
				}
				if len(sites) == 1 {
					more = append(more, c.literalsAt(gfd, sites[0])...)
				}
			case len(nonConst) == 1 && len(match)+len(other) == 0 && want.Kind() == constant.Bool:
				more = append(more, splitConj(condLit{e: nonConst[0].Results[0], neg: !eq})...)
				more = append(more, c.literalsAt(gfd, nonConst[0])...)
			}
		}
		if len(more) == 0 {
			break
		}
		out = append(out, more...)
		lits = more
	}
	return out
}

// apathVia is apath looking through a local alias: a local variable defined once, by an access path, stands
// for that path (`ctx := r.context; ctx.basePath` is r.context.basePath).
func (c *Ctx) apathVia(fd *ast.FuncDecl, e ast.Expr) (APath, bool) {
	p, ok := c.apath(e)
	if !ok || fd == nil || fd.Body == nil {
		return p, ok
	}
	for i := 0; i < 3; i++ {
		v, isVar := p.Root.(*types.Var)
		if !isVar || v.Parent() == c.Types.Scope() || v.Pos() < fd.Body.Pos() || v.Pos() > fd.Body.End() {
			break
		}
		defs := c.localDefs(fd)[p.Root]
		if len(defs) != 1 || defs[0] == nil {
			break
		}
		q, ok := c.apath(defs[0])
		if !ok {
			break
		}
		p = APath{Root: q.Root, Steps: append(append([]string{}, q.Steps...), p.Steps...)}
	}
	return p, true
}

// ---- origins of values ----

// origin is where a value comes from: a root variable (usually a parameter)
// and the access path applied to it; copy marks a by-value copy.
type origin struct {
	root  types.Object
	steps []string
	copy  bool
}

func (o origin) sub() string { return joinSteps(o.steps) }

func joinSteps(s []string) string {
	out := ""
	for i, x := range s {
		if i > 0 {
			out += "."
		}
		out += x
	}
	return out
}

type originCtx struct {
	c      *Ctx
	fd     *ast.FuncDecl
	defs   map[types.Object][]ast.Expr
	ranges map[types.Object]*ast.RangeStmt // range value variables
	params map[types.Object]bool
}

func (c *Ctx) newOriginCtx(fd *ast.FuncDecl) *originCtx {
	oc := &originCtx{c: c, fd: fd, defs: c.localDefs(fd), ranges: map[types.Object]*ast.RangeStmt{}, params: map[types.Object]bool{}}
	if r := c.recvObj(fd); r != nil {
		oc.params[r] = true
	}
	for i := 0; ; i++ {
		p := c.paramObj(fd, i)
		if p == nil {
			break
		}
		oc.params[p] = true
	}
	ast.Inspect(fd.Body, func(n ast.Node) bool {
		if rs, ok := n.(*ast.RangeStmt); ok {
			if id, ok := rs.Value.(*ast.Ident); ok && id.Name != "_" {
				oc.ranges[c.objOf(id)] = rs
			}
		}
		return true
	})
	return oc
}

func isRefType(t types.Type) bool {
	switch types.Unalias(t).Underlying().(type) {
	case *types.Pointer, *types.Map, *types.Slice, *types.Interface:
		return true
	}
	return false
}

// origins resolves an expression to the set of (parameter, path) positions it denotes or copies.
func (oc *originCtx) origins(e ast.Expr, depth int) []origin {
	c := oc.c
	if depth > 10 || e == nil {
		return nil
	}
	e = unparen(e)
	switch x := e.(type) {
	case *ast.Ident:
		o := c.objOf(x)
		if o == nil {
			return nil
		}
		if rs, ok := oc.ranges[o]; ok {
			// range value: element of the ranged container; composite literals yield their elements
			if lit, ok := oc.soleLiteral(rs.X); ok {
				var out []origin
				for _, el := range lit.Elts {
					out = append(out, oc.origins(el, depth+1)...)
				}
				return out
			}
			// a package helper that lists parts of its argument: range f(x) yields those parts of x
			if call, ok := unparen(rs.X).(*ast.CallExpr); ok {
				if out, ok := oc.projected(call, true, depth+1); ok {
					return out
				}
			}
			var out []origin
			for _, b := range oc.origins(rs.X, depth+1) {
				cp := !isRefType(o.Type())
				out = append(out, origin{b.root, append(append([]string{}, b.steps...), "[]"), b.copy || cp})
			}
			return out
		}
		ds := oc.defs[o]
		if oc.params[o] && len(ds) == 0 {
			return []origin{{root: o}}
		}
		var out []origin
		if oc.params[o] {
			out = append(out, origin{root: o})
		}
		for _, d := range ds {
			if d == nil {
				continue
			}
			for _, b := range oc.origins(d, depth+1) {
				cp := b.copy || !isRefType(o.Type())
				out = append(out, origin{b.root, b.steps, cp})
			}
		}
		return out
	case *ast.StarExpr:
		var out []origin
		for _, b := range oc.origins(x.X, depth+1) {
			out = append(out, b)
		}
		return out
	case *ast.UnaryExpr:
		if x.Op == token.AND {
			return oc.origins(x.X, depth+1)
		}
	case *ast.CallExpr:
		if out, ok := oc.projected(x, false, depth+1); ok {
			return out
		}
	case *ast.SelectorExpr:
		sel := c.Info.Selections[x]
		if sel == nil || sel.Kind() != types.FieldVal {
			return nil
		}
		var out []origin
		for _, b := range oc.origins(x.X, depth+1) {
			out = append(out, origin{b.root, append(append([]string{}, b.steps...), selectionSteps(sel)...), b.copy})
		}
		return out
	case *ast.IndexExpr:
		var out []origin
		for _, b := range oc.origins(x.X, depth+1) {
			out = append(out, origin{b.root, append(append([]string{}, b.steps...), "[]"), b.copy})
		}
		return out
	}
	return nil
}

// projected: the call is of a package function that does nothing but return a part of one of its arguments
// (a getter), or, with elems, a list literal of such parts; the positions are translated to the caller's frame.
func (oc *originCtx) projected(call *ast.CallExpr, elems bool, depth int) ([]origin, bool) {
	c := oc.c
	if depth > 10 {
		return nil, false
	}
	g, _ := c.callee(call).(*types.Func)
	if g == nil || g.Pkg() != c.Types {
		return nil, false
	}
	gfd := c.decl(g)
	if gfd == nil || gfd.Body == nil || gfd == oc.fd || len(gfd.Body.List) != 1 {
		return nil, false
	}
	rs, ok := gfd.Body.List[0].(*ast.ReturnStmt)
	if !ok || len(rs.Results) != 1 {
		return nil, false
	}
	goc := c.newOriginCtx(gfd)
	var inner []origin
	res := unparen(rs.Results[0])
	if elems {
		lit, ok := res.(*ast.CompositeLit)
		if !ok {
			return nil, false
		}
		for _, el := range lit.Elts {
			if kv, ok := el.(*ast.KeyValueExpr); ok {
				el = kv.Value
			}
			inner = append(inner, goc.origins(el, depth+1)...)
		}
	} else {
		inner = goc.origins(res, depth+1)
	}
	if len(inner) == 0 {
		return nil, false
	}
	// bind the callee's parameters (and receiver) to the caller's expressions
	bind := map[types.Object]ast.Expr{}
	for i, a := range call.Args {
		if po := c.paramObj(gfd, i); po != nil {
			bind[po] = a
		}
	}
	if se, ok := unparen(call.Fun).(*ast.SelectorExpr); ok && gfd.Recv != nil {
		if ro := c.recvObj(gfd); ro != nil {
			bind[ro] = se.X
		}
	}
	var out []origin
	for _, o := range inner {
		a, ok := bind[o.root]
		if !ok {
			return nil, false
		}
		for _, b := range oc.origins(a, depth+1) {
			out = append(out, origin{b.root, append(append([]string{}, b.steps...), o.steps...), b.copy || o.copy})
		}
	}
	return out, len(out) > 0
}

func (oc *originCtx) soleLiteral(e ast.Expr) (*ast.CompositeLit, bool) {
	e = unparen(e)
	if lit, ok := e.(*ast.CompositeLit); ok {
		return lit, true
	}
	if id, ok := e.(*ast.Ident); ok {
		ds := oc.defs[oc.c.objOf(id)]
		if len(ds) == 1 {
			if lit, ok := unparen(ds[0]).(*ast.CompositeLit); ok {
				return lit, true
			}
		}
	}
	return nil, false
}
