package main

import (
	"fmt"
	"go/ast"
	"go/token"
	"go/types"
	"net/url"
	"path"
	"sort"
	"strings"
)

func init() {
	registerRule("load-once", 5, "the document loader is called only on a cache miss, under the same canonical key the cache is consulted and filled with", ruleLoadOnce)
	registerRule("canon-key", 6, "every resolution-cache key is produced by the normaliser", ruleCanonKey)
	registerRule("canon-entry", 4, "every base location entering through the API passes through normalizeBase before it can reach a loader or a cache key", ruleCanonEntry)
}

// isCacheCall: a Get/Set call on a value of the ResolutionCache interface (or an implementation).
func (c *Ctx) isCacheCall(call *ast.CallExpr, method string) bool {
	se, ok := unparen(call.Fun).(*ast.SelectorExpr)
	if !ok || se.Sel.Name != method {
		return false
	}
	sel := c.Info.Selections[se]
	if sel == nil || sel.Kind() != types.MethodVal {
		return false
	}
	t := sel.Recv()
	if isNamed(t, c.Types, "ResolutionCache") {
		return true
	}
	return types.Implements(t, c.resolutionCacheIface()) || types.Implements(types.NewPointer(derefType(t)), c.resolutionCacheIface())
}

// loaderFieldCall: a dynamic call through a func-typed field of resolverContext (the document loader).
func (c *Ctx) isDocLoaderCall(call *ast.CallExpr) bool {
	se, ok := unparen(call.Fun).(*ast.SelectorExpr)
	if !ok {
		return false
	}
	sel := c.Info.Selections[se]
	if sel == nil || sel.Kind() != types.FieldVal {
		return false
	}
	if _, isFunc := sel.Type().Underlying().(*types.Signature); !isFunc {
		return false
	}
	return isNamed(sel.Recv(), c.Types, "resolverContext")
}

// keyProvenance classifies a cache key expression.
func (c *Ctx) keyProvenance(fd *ast.FuncDecl, e ast.Expr, defs map[types.Object][]ast.Expr, depth int) (bool, string) {
	e = unparen(e)
	if depth > 4 {
		return false, "provenance too deep"
	}
	// a constant that already is in canonical form (absolute URL, lower-case scheme and host, clean path, no
	// fragment): what the normaliser would return for it is the constant itself
	if k, isConst := c.constString(e); isConst {
		if u, err := url.Parse(k); err == nil && u.Scheme != "" && u.Scheme == strings.ToLower(u.Scheme) && u.Host == strings.ToLower(u.Host) &&
			u.Fragment == "" && !strings.HasSuffix(k, "#") && u.RawQuery == "" && u.Path != "" && path.Clean(u.Path) == u.Path {
			return true, ""
		}
	}
	switch x := e.(type) {
	case *ast.CallExpr:
		if c.isSpecFunc(x, "normalizeBase") || c.isSpecFunc(x, "normalizeURI") {
			return true, ""
		}
		// <helper>(<normalised ref>.GetURL()).String() where the helper hands back a copy of the URL without its fragment
		if se, ok := unparen(x.Fun).(*ast.SelectorExpr); ok && se.Sel.Name == "String" && len(x.Args) == 0 {
			if hc, isCall := unparen(se.X).(*ast.CallExpr); isCall && len(hc.Args) == 1 {
				if g, isF := c.callee(hc).(*types.Func); isF && g.Pkg() == c.Types {
					okCopy, why := c.urlCopyWithoutFragment(g)
					if !okCopy {
						return false, "key is the result of " + exprString(hc.Fun) + "(..).String: " + why
					}
					// its argument: GetURL() of a normalised reference
					if gc, isGet := unparen(hc.Args[0]).(*ast.CallExpr); isGet {
						if gse, isSel := unparen(gc.Fun).(*ast.SelectorExpr); isSel && gse.Sel.Name == "GetURL" {
							if rid, isId := unparen(gse.X).(*ast.Ident); isId {
								norm := len(defs[c.objOf(rid)]) > 0
								for _, rd := range defs[c.objOf(rid)] {
									rc, isC := unparen(rd).(*ast.CallExpr)
									if !isC || !c.isSpecFunc(rc, "normalizeRef") {
										norm = false
									}
								}
								if norm {
									return true, ""
								}
							}
						}
					}
					return false, "URL is not that of a normalised reference"
				}
			}
		}
		// <normalised ref>.M() where M is a method of the package's Ref that prints the receiver's URL with the
		// fragment cleared (Ref.RemoteURI)
		if se, ok := unparen(x.Fun).(*ast.SelectorExpr); ok && len(x.Args) == 0 {
			if m, isM := c.callee(x).(*types.Func); isM && m.Pkg() == c.Types && c.refMethodPrintsURLWithoutFragment(m) {
				recvExpr := unparen(se.X)
				norm := false
				if rc, isCall := recvExpr.(*ast.CallExpr); isCall && c.isSpecFunc(rc, "normalizeRef") {
					norm = true
				}
				if rid, isId := recvExpr.(*ast.Ident); isId {
					norm = len(defs[c.objOf(rid)]) > 0
					for _, rd := range defs[c.objOf(rid)] {
						rc, isC := unparen(rd).(*ast.CallExpr)
						if !isC || !c.isSpecFunc(rc, "normalizeRef") {
							norm = false
						}
					}
				}
				if norm {
					return true, ""
				}
				return false, "key is " + exprString(x) + ", where the reference is not a normalised one"
			}
		}
		// <url>.String() of the URL of a normalised ref whose Fragment was cleared
		if se, ok := unparen(x.Fun).(*ast.SelectorExpr); ok && se.Sel.Name == "String" && len(x.Args) == 0 {
			if id, ok := unparen(se.X).(*ast.Ident); ok {
				o := c.objOf(id)
				fromNorm := len(defs[o]) > 0
				for _, d := range defs[o] {
					dc, ok := unparen(d).(*ast.CallExpr)
					if !ok {
						fromNorm = false
						continue
					}
					dse, ok := unparen(dc.Fun).(*ast.SelectorExpr)
					if !ok || dse.Sel.Name != "GetURL" {
						fromNorm = false
						continue
					}
					rid, ok := unparen(dse.X).(*ast.Ident)
					if !ok {
						fromNorm = false
						continue
					}
					for _, rd := range defs[c.objOf(rid)] {
						rc, ok := unparen(rd).(*ast.CallExpr)
						if !ok || !c.isSpecFunc(rc, "normalizeRef") {
							fromNorm = false
						}
					}
					if len(defs[c.objOf(rid)]) == 0 {
						fromNorm = false
					}
				}
				if !fromNorm {
					return false, "URL is not that of a normalised reference"
				}
				cleared := false
				ast.Inspect(fd.Body, func(n ast.Node) bool {
					as, ok := n.(*ast.AssignStmt)
					if !ok || as.End() > x.Pos() || len(as.Lhs) != 1 {
						return true
					}
					if p, ok := c.apath(as.Lhs[0]); ok && p.Root == o && lastStep(p) == "Fragment" {
						if s, ok := c.constString(as.Rhs[0]); ok && s == "" {
							cleared = true
						}
					}
					return true
				})
				if !cleared {
					return false, "the fragment is kept in the cache key: the same document is cached (and fetched) once per fragment"
				}
				return true, ""
			}
		}
		// a package helper every return of which hands back a canonical key
		if g, isF := c.callee(x).(*types.Func); isF && g.Pkg() == c.Types && depth < 3 {
			if gfd := c.decl(g); gfd != nil && gfd.Body != nil && g.Type().(*types.Signature).Results().Len() >= 1 {
				gdefs := c.localDefs(gfd)
				n, all := 0, true
				ast.Inspect(gfd.Body, func(nd ast.Node) bool {
					if _, isLit := nd.(*ast.FuncLit); isLit {
						return false
					}
					rs, ok := nd.(*ast.ReturnStmt)
					if !ok || len(rs.Results) == 0 {
						return true
					}
					n++
					if ok2, _ := c.keyProvenance(gfd, rs.Results[0], gdefs, depth+1); !ok2 {
						all = false
					}
					return true
				})
				if n > 0 && all {
					return true, ""
				}
			}
		}
		return false, "key is the result of " + exprString(x.Fun) + ", not of the normaliser"
	case *ast.Ident:
		ds := defs[c.objOf(x)]
		if len(ds) == 0 {
			// a parameter: every package call site must pass a canonical key
			if pi := c.paramIndex(fd, c.objOf(x)); pi >= 0 && depth < 3 {
				self, _ := c.Info.Defs[fd.Name].(*types.Func)
				sites := 0
				for _, g := range c.allFuncDecls() {
					if g.Body == nil {
						continue
					}
					gdefs := c.localDefs(g)
					var bad string
					ast.Inspect(g.Body, func(n ast.Node) bool {
						call, ok := n.(*ast.CallExpr)
						if !ok || pi >= len(call.Args) {
							return true
						}
						if f, ok := c.callee(call).(*types.Func); !ok || f != self {
							return true
						}
						sites++
						if ok, why := c.keyProvenance(g, call.Args[pi], gdefs, depth+1); !ok {
							bad = why
						}
						return true
					})
					if bad != "" {
						return false, bad
					}
				}
				if sites > 0 {
					return true, ""
				}
			}
			return false, "key " + x.Name + " comes from outside the function un-normalised"
		}
		for _, d := range ds {
			if d == nil {
				continue // declaration without value; the assignments decide
			}
			if ok, why := c.keyProvenance(fd, d, defs, depth+1); !ok {
				return false, why
			}
		}
		return true, ""
	}
	if e == nil {
		return false, "no key"
	}
	return false, "key " + exprString(e) + " is not produced by the normaliser"
}

func (c *Ctx) paramIndex(fd *ast.FuncDecl, o types.Object) int {
	for i := 0; ; i++ {
		p := c.paramObj(fd, i)
		if p == nil {
			return -1
		}
		if p == o {
			return i
		}
	}
}

func ruleCanonKey(c *Ctx) {
	const rule = "canon-key"
	c.idScopeKey(rule)
	for _, fd := range c.allFuncDecls() {
		if fd.Body == nil {
			continue
		}
		fn := c.funcName(fd)
		defs := c.localDefs(fd)
		ord := map[string]int{}
		ast.Inspect(fd.Body, func(n ast.Node) bool {
			call, ok := n.(*ast.CallExpr)
			if !ok {
				return true
			}
			for _, m := range []string{"Get", "Set"} {
				if c.isCacheCall(call, m) && len(call.Args) >= 1 {
					// skip the cache implementation's own methods calling each other (none today)
					c.saw(fn)
					ord[m]++
					ok, why := c.keyProvenance(fd, call.Args[0], defs, 0)
					c.ob(rule, fmt.Sprintf("%s:cache.%s#%d", fn, m, ord[m]), call.Pos(), ok, why)
				}
			}
			if c.isDocLoaderCall(call) && len(call.Args) == 1 {
				c.saw(fn)
				ok, why := c.keyProvenance(fd, call.Args[0], defs, 0)
				c.ob(rule, fn+":loadDoc-arg", call.Pos(), ok, "document requested from the loader under a non-canonical URL: "+why)
			}
			// the URL handed to the document-load method (the loader method with a *url.URL parameter that
			// consults the cache) is the URL of a reference value: it went through the reference parser's
			// normalisation (lower-cased host, default port dropped), like every other cache key
			if g, _ := c.callee(call).(*types.Func); g != nil && g.Pkg() == c.Types && len(call.Args) == 1 {
				sig := g.Type().(*types.Signature)
				if sig.Recv() != nil && sig.Params().Len() == 1 && c.isURLType(sig.Params().At(0).Type()) {
					if gfd := c.decl(g); gfd != nil && gfd.Body != nil && c.hasCacheCall(gfd, "Get") != nil {
						c.saw(fn)
						ord["load"]++
						fromRef := false
						a := unparen(call.Args[0])
						if ac, isCall := a.(*ast.CallExpr); isCall {
							if _, name, _, isM := c.calleeMethod(ac); isM && name == "GetURL" {
								fromRef = true
							}
						}
						if id, isId := a.(*ast.Ident); isId {
							ds := defs[c.objOf(id)]
							fromRef = len(ds) > 0
							for _, d := range ds {
								dc, isCall := unparen(d).(*ast.CallExpr)
								if !isCall {
									fromRef = false
									continue
								}
								if _, name, _, isM := c.calleeMethod(dc); !isM || name != "GetURL" {
									fromRef = false
								}
							}
						}
						c.ob(rule, fmt.Sprintf("%s:load-arg-from-ref#%d", fn, ord["load"]), call.Pos(), fromRef,
							"the document is loaded from a URL that did not come out of a reference value (Ref.GetURL()): it has skipped the reference parser's normalisation, so the same document can sit in the cache under two keys and is fetched twice (or fetched although it was pre-loaded)")
					}
				}
			}
			return true
		})
	}
}

// idScopeKey: the function that registers an id-scoped schema must register it under the very location it
// hands back as the new base path.
func (c *Ctx) idScopeKey(rule string) {
	for _, fd := range c.allFuncDecls() {
		if fd.Body == nil || fd.Name.Name != "setSchemaID" {
			continue
		}
		c.saw(c.funcName(fd))
		var key types.Object
		ast.Inspect(fd.Body, func(n ast.Node) bool {
			if call, ok := n.(*ast.CallExpr); ok && c.isCacheCall(call, "Set") && len(call.Args) == 2 {
				if id, ok := unparen(call.Args[0]).(*ast.Ident); ok {
					key = c.objOf(id)
				} else {
					key = nil
				}
			}
			return true
		})
		same := key != nil
		paramSet := map[types.Object]bool{}
		for i := 0; ; i++ {
			p := c.paramObj(fd, i)
			if p == nil {
				break
			}
			paramSet[p] = true
		}
		ast.Inspect(fd.Body, func(n ast.Node) bool {
			if rs, ok := n.(*ast.ReturnStmt); ok && len(rs.Results) > 0 {
				id, ok := unparen(rs.Results[0]).(*ast.Ident)
				if ok && c.objOf(id) == key {
					return true
				}
				// "this id has already produced the current base": the base parameter is handed back unchanged,
				// under a test of a record indexed by that very parameter (rule id-once checks the record)
				if ok {
					if _, isParam := paramSet[c.objOf(id)]; isParam {
						for _, cl := range c.literalsAt(fd, rs) {
							be, isB := unparen(cl.e).(*ast.BinaryExpr)
							if !isB || be.Op != token.EQL || cl.neg {
								continue
							}
							for _, side := range []ast.Expr{be.X, be.Y} {
								if ix, isIx := unparen(side).(*ast.IndexExpr); isIx {
									if kid, isId := unparen(ix.Index).(*ast.Ident); isId && c.objOf(kid) == c.objOf(id) {
										return true
									}
								}
							}
						}
					}
				}
				same = false
			}
			return true
		})
		// the same statement is part of id-once when that rule is decided on the effect normal form (helpers
		// inlined): "registered, on every path past the guard, under the very base that is returned"
		if !same {
			if fam := c.family(); fam.ok() {
				saved := len(c.obs)
				if c.idOnceBySim("id-once-probe", fam) {
					good := true
					for _, o := range c.obs[saved:] {
						if strings.HasSuffix(o.Key, ":scope-chain-recorded") {
							continue // another matter (and a known finding of the unchanged tree)
						}
						if o.Verdict != "discharged" {
							good = false
						}
					}
					same = good
				}
				c.obs = c.obs[:saved]
			}
		}
		c.ob(rule, c.funcName(fd)+":key-is-returned-base", fd.Pos(), same,
			"the id-scoped schema is cached under a key that is not the location returned as the new base path: refs relative to the id miss it, or it overwrites the entry of the enclosing document")
	}
}

func (c *Ctx) hasCacheCall(fd *ast.FuncDecl, method string) *ast.CallExpr {
	var out *ast.CallExpr
	ast.Inspect(fd.Body, func(n ast.Node) bool {
		if call, ok := n.(*ast.CallExpr); ok && c.isCacheCall(call, method) {
			out = call
		}
		return true
	})
	return out
}

func ruleLoadOnce(c *Ctx) {
	const rule = "load-once"
	var sites []*ast.CallExpr
	var home *ast.FuncDecl
	for _, fd := range c.allFuncDecls() {
		if fd.Body == nil {
			continue
		}
		ast.Inspect(fd.Body, func(n ast.Node) bool {
			if call, ok := n.(*ast.CallExpr); ok && c.isDocLoaderCall(call) {
				sites = append(sites, call)
				home = fd
			}
			return true
		})
	}
	c.ob(rule, "one-loader-call-site", token.NoPos, len(sites) == 1, fmt.Sprintf("the document loader is called at %d sites; exactly one (behind the cache lookup) is expected", len(sites)))
	if len(sites) != 1 {
		return
	}
	readers := 0
	for _, g := range c.allFuncDecls() {
		if g.Body == nil {
			continue
		}
		ast.Inspect(g.Body, func(n ast.Node) bool {
			se, ok := n.(*ast.SelectorExpr)
			if !ok {
				return true
			}
			sel := c.Info.Selections[se]
			if sel != nil && sel.Kind() == types.FieldVal && isNamed(sel.Recv(), c.Types, "resolverContext") {
				if _, isFunc := sel.Type().Underlying().(*types.Signature); isFunc {
					readers++
				}
			}
			return true
		})
	}
	c.ob(rule, "loader-field-single-reader", token.NoPos, readers == 1, fmt.Sprintf("the loader field is read at %d places; only the guarded call site may use it", readers))

	// region: the function that consults the cache. When the loader call sits in a helper that receives the
	// key as a parameter, the helper's (single) call site plays the role of the loader call.
	helper := (*ast.FuncDecl)(nil)
	region, call := home, sites[0]
	var keyExpr ast.Expr = call.Args[0]
	if c.hasCacheCall(home, "Get") == nil {
		kid, ok := unparen(call.Args[0]).(*ast.Ident)
		pi := -1
		if ok {
			pi = c.paramIndex(home, c.objOf(kid))
		}
		if pi < 0 || len(c.localDefs(home)[c.objOf(kid)]) > 0 {
			c.ob(rule, c.funcName(home)+":shape", home.Pos(), false, "the loader is called in a function that neither consults the cache nor receives the key unchanged as a parameter")
			return
		}
		self, _ := c.Info.Defs[home.Name].(*types.Func)
		var callers []*ast.FuncDecl
		var callSites []*ast.CallExpr
		for _, g := range c.allFuncDecls() {
			if g.Body == nil {
				continue
			}
			ast.Inspect(g.Body, func(n ast.Node) bool {
				if cc, ok := n.(*ast.CallExpr); ok {
					if f, ok := c.callee(cc).(*types.Func); ok && f == self {
						callers = append(callers, g)
						callSites = append(callSites, cc)
					}
				}
				return true
			})
		}
		if len(callSites) != 1 || pi >= len(callSites[0].Args) {
			c.ob(rule, c.funcName(home)+":shape", home.Pos(), false, fmt.Sprintf("the loading helper is called from %d places; exactly one (behind the cache lookup) is expected", len(callSites)))
			return
		}
		helper, region, call = home, callers[0], callSites[0]
		keyExpr = call.Args[pi]
	}
	fd := region
	fn := c.funcName(fd)
	c.saw(fn)
	if helper != nil {
		c.saw(c.funcName(helper))
	}
	defs := c.localDefs(fd)
	keyID, _ := unparen(keyExpr).(*ast.Ident)
	var getCall *ast.CallExpr
	var hitVar types.Object
	ast.Inspect(fd.Body, func(n ast.Node) bool {
		if as, ok := n.(*ast.AssignStmt); ok && len(as.Rhs) == 1 && len(as.Lhs) == 2 {
			if gc, ok := unparen(as.Rhs[0]).(*ast.CallExpr); ok && c.isCacheCall(gc, "Get") {
				getCall = gc
				if id, ok := as.Lhs[1].(*ast.Ident); ok {
					hitVar = c.objOf(id)
				}
			}
		}
		return true
	})
	setInRegion := c.hasCacheCall(fd, "Set")
	var setInHelper *ast.CallExpr
	if helper != nil {
		setInHelper = c.hasCacheCall(helper, "Set")
	}
	if keyID != nil && getCall != nil && hitVar != nil && setInRegion == nil && setInHelper == nil {
		c.ob(rule, fn+":fill-before-success", call.Pos(), false, "the loaded document is never stored in the cache: every later reference to it fetches it again")
		return
	}
	if keyID == nil || getCall == nil || hitVar == nil {
		c.ob(rule, fn+":shape", fd.Pos(), false, "cannot find key variable and cache lookup around the loader call")
		return
	}
	k := c.objOf(keyID)
	sameKey := func(e ast.Expr, want types.Object) bool {
		id, ok := unparen(e).(*ast.Ident)
		return ok && c.objOf(id) == want
	}
	keyOK := sameKey(getCall.Args[0], k) && len(defs[k]) == 1
	if setInRegion != nil {
		keyOK = keyOK && sameKey(setInRegion.Args[0], k)
	} else {
		// the helper fills the cache under its (unchanged) key parameter
		hk, _ := unparen(sites[0].Args[0]).(*ast.Ident)
		keyOK = keyOK && hk != nil && sameKey(setInHelper.Args[0], c.objOf(hk))
	}
	c.ob(rule, fn+":same-key", call.Pos(), keyOK, "the cache lookup, the loader call and the cache fill must use one and the same key variable, assigned once")
	miss := false
	for _, cl := range c.literalsAt(fd, call) {
		if id, ok := unparen(cl.e).(*ast.Ident); ok && c.objOf(id) == hitVar && cl.neg {
			miss = true
		}
	}
	c.ob(rule, fn+":loader-only-on-miss", call.Pos(), miss && getCall.Pos() < call.Pos(),
		"the loader is called although the document may be in the cache: documents are fetched more than once and a pre-loaded cache is ignored")

	// every successful return after the load has filled the cache with the decoded document
	const loaded, filled, decoded factBits = 1, 2, 4
	analyse := func(afd *ast.FuncDecl, loadCall, setCall *ast.CallExpr, docFromCall bool) {
		var docVar types.Object
		if docFromCall {
			docVar = c.resultVarOfCall(afd, loadCall)
		}
		transfer := func(n ast.Node, in factBits) factBits {
			ast.Inspect(n, func(m ast.Node) bool {
				cc, ok := m.(*ast.CallExpr)
				if !ok {
					return true
				}
				switch {
				case cc == loadCall:
					in |= loaded
					if docFromCall {
						in |= decoded
					}
				case c.isPkgFunc(cc, "encoding/json", "Unmarshal") && len(cc.Args) == 2 && !docFromCall:
					if p, ok := c.apath(cc.Args[1]); ok {
						docVar = p.Root
					}
					in |= decoded
				case cc == setCall:
					if len(cc.Args) == 2 {
						if id, ok := unparen(cc.Args[1]).(*ast.Ident); ok && docVar != nil && c.objOf(id) == docVar && in&decoded != 0 {
							in |= filled
						}
					}
				}
				return true
			})
			return in
		}
		nret := 0
		flowForward(c.cfgOf(afd), loaded, transfer, func(n ast.Node, in factBits) {
			rs, ok := n.(*ast.ReturnStmt)
			if !ok || in&loaded == 0 || len(rs.Results) == 0 {
				return
			}
			if !isNilIdent(c, rs.Results[len(rs.Results)-1]) {
				return
			}
			nret++
			c.ob(rule, fmt.Sprintf("%s:fill-before-success#%d", c.funcName(afd), nret), rs.Pos(), in&filled != 0,
				"a successful return after loading a document is reachable without the decoded document having been stored in the cache: it will be fetched again")
		})
		if nret == 0 {
			c.ob(rule, c.funcName(afd)+":fill-before-success", afd.Pos(), false, "no successful return after the loader call was found")
		}
	}
	switch {
	case helper == nil:
		analyse(fd, call, setInRegion, false)
	case setInHelper != nil:
		analyse(helper, sites[0], setInHelper, false)
	default:
		// helper loads and decodes, region stores: the helper must hand back the decoded document on success
		returnsDecoded := true
		var dv types.Object
		ast.Inspect(helper.Body, func(n ast.Node) bool {
			if cc, ok := n.(*ast.CallExpr); ok && c.isPkgFunc(cc, "encoding/json", "Unmarshal") && len(cc.Args) == 2 {
				if p, ok := c.apath(cc.Args[1]); ok {
					dv = p.Root
				}
			}
			return true
		})
		ast.Inspect(helper.Body, func(n ast.Node) bool {
			if rs, ok := n.(*ast.ReturnStmt); ok && len(rs.Results) >= 2 && isNilIdent(c, rs.Results[len(rs.Results)-1]) {
				id, ok := unparen(rs.Results[0]).(*ast.Ident)
				if !ok || dv == nil || c.objOf(id) != dv {
					returnsDecoded = false
				}
			}
			return true
		})
		c.ob(rule, c.funcName(helper)+":returns-decoded-document", helper.Pos(), returnsDecoded && dv != nil, "the loading helper must hand back the document it decoded")
		analyse(fd, call, setInRegion, true)
	}
}

func ruleCanonEntry(c *Ctx) {
	const rule = "canon-entry"
	// optionsOrDefault by role: package function from *ExpandOptions to *ExpandOptions
	var ood *ast.FuncDecl
	for _, f := range c.pkgFuncs() {
		sig := f.Type().(*types.Signature)
		if sig.Recv() == nil && sig.Params().Len() == 1 && sig.Results().Len() == 1 && isNamed(sig.Params().At(0).Type(), c.Types, "ExpandOptions") && isNamed(sig.Results().At(0).Type(), c.Types, "ExpandOptions") {
			ood = c.decl(f)
		}
	}
	if ood == nil {
		c.undecided(rule, "options-cloner", token.NoPos, "cannot find the function cloning *ExpandOptions")
	} else {
		c.saw(c.funcName(ood))
		if nb := c.funcObj("normalizeBase"); nb != nil {
			if f, ok := c.Info.Defs[ood.Name].(*types.Func); ok {
				if facts, ok := c.clonerFactsBySim(f, nb); ok {
					// decided on the effect normal form of the cloner
					c.ob(rule, "options:RelativeBase-normalised", ood.Pos(), facts.normalised == "", facts.normalised)
					why := facts.fresh
					if why == "" {
						why = facts.byValue
					}
					c.ob(rule, "options:returns-clone", ood.Pos(), why == "", why)
					ood = nil
				}
			}
		}
	}
	if ood != nil {
		param := c.paramObj(ood, 0)
		normalised := false
		var cloneVar types.Object
		ast.Inspect(ood.Body, func(n ast.Node) bool {
			as, ok := n.(*ast.AssignStmt)
			if !ok || len(as.Lhs) != 1 {
				return true
			}
			p, ok := c.apath(as.Lhs[0])
			if !ok || lastStep(p) != "RelativeBase" || p.Root == param {
				return true
			}
			call, ok := unparen(as.Rhs[0]).(*ast.CallExpr)
			if !ok || !c.isSpecFunc(call, "normalizeBase") || len(call.Args) != 1 {
				return true
			}
			ap, ok := c.apath(call.Args[0])
			if ok && ap.Root == p.Root && lastStep(ap) == "RelativeBase" {
				// guarded by != "" on the same field, and by nothing else but the nil test of the parameter
				lits := c.literalsAt(ood, as)
				okGuard := true
				for _, cl := range lits {
					be, isBe := unparen(cl.e).(*ast.BinaryExpr)
					if !isBe {
						okGuard = false
						continue
					}
					if gp, ok := c.apath(be.X); ok && gp.Root == p.Root && lastStep(gp) == "RelativeBase" && be.Op == token.NEQ && !cl.neg {
						continue
					}
					if id, ok := unparen(be.X).(*ast.Ident); ok && c.objOf(id) == param && isNilIdent(c, be.Y) {
						continue
					}
					okGuard = false
				}
				if okGuard {
					normalised = true
					cloneVar = p.Root
				}
			}
			return true
		})
		c.ob(rule, "options:RelativeBase-normalised", ood.Pos(), normalised, "a non-empty RelativeBase supplied by the caller must be replaced by normalizeBase of itself in the clone, unconditionally")
		// the clone (not the parameter) is what is returned
		retOK := cloneVar != nil
		ast.Inspect(ood.Body, func(n ast.Node) bool {
			rs, ok := n.(*ast.ReturnStmt)
			if !ok || len(rs.Results) != 1 {
				return true
			}
			e := unparen(rs.Results[0])
			if u, ok := e.(*ast.UnaryExpr); ok && u.Op == token.AND {
				if id, ok := unparen(u.X).(*ast.Ident); ok && c.objOf(id) == cloneVar {
					return true
				}
				if _, ok := unparen(u.X).(*ast.CompositeLit); ok {
					return true
				}
			}
			retOK = false
			return true
		})
		c.ob(rule, "options:returns-clone", ood.Pos(), retOK, "the options cloner must return the normalised clone or a fresh empty value, never the caller's pointer")
	}
	// baseForRoot by role: package function (interface{}, ResolutionCache) string: every return is a normalizeBase result
	for _, f := range c.pkgFuncs() {
		sig := f.Type().(*types.Signature)
		if sig.Recv() != nil || sig.Params().Len() != 2 || sig.Results().Len() != 1 || !isStringType(sig.Results().At(0).Type()) || !isNamed(sig.Params().At(1).Type(), c.Types, "ResolutionCache") {
			continue
		}
		fd := c.decl(f)
		c.saw(c.funcName(fd))
		defs := c.localDefs(fd)
		ok := true
		n := 0
		ast.Inspect(fd.Body, func(nd ast.Node) bool {
			rs, isR := nd.(*ast.ReturnStmt)
			if !isR || len(rs.Results) != 1 {
				return true
			}
			n++
			if good, _ := c.keyProvenance(fd, rs.Results[0], defs, 0); !good {
				ok = false
			}
			return true
		})
		c.ob(rule, c.funcName(fd)+":returns-normalised", fd.Pos(), ok && n > 0, "the pseudo-root location handed to entry points must be a normalizeBase result")
	}
	// the loader factory substitutes the pseudo root when no base is given, and the resolver context keeps the (normalised) base
	fam := c.family()
	if fam.ok() {
		for _, f := range c.pkgFuncs() {
			sig := f.Type().(*types.Signature)
			if f != c.loaderFactory(fam) {
				continue
			}
			_ = sig
			fd := c.decl(f)
			c.saw(c.funcName(fd))
			sub := false
			ast.Inspect(fd.Body, func(n ast.Node) bool {
				as, ok := n.(*ast.AssignStmt)
				if !ok || len(as.Lhs) != 1 {
					return true
				}
				p, ok := c.apath(as.Lhs[0])
				if !ok || lastStep(p) != "RelativeBase" {
					return true
				}
				call, ok := unparen(as.Rhs[0]).(*ast.CallExpr)
				if !ok {
					return true
				}
				if g, ok := c.callee(call).(*types.Func); ok && g.Pkg() == c.Types {
					gs := g.Type().(*types.Signature)
					if gs.Results().Len() == 1 && isStringType(gs.Results().At(0).Type()) && gs.Params().Len() == 2 {
						for _, cl := range c.literalsAt(fd, as) {
							if be, ok := unparen(cl.e).(*ast.BinaryExpr); ok && be.Op == token.EQL && !cl.neg {
								if s, ok := c.constString(be.Y); ok && s == "" {
									sub = true
								}
							}
						}
					}
				}
				return true
			})
			c.ob(rule, c.funcName(fd)+":empty-base-gets-pseudo-root", fd.Pos(), sub, "with no base location the loader factory must substitute the normalised pseudo-root location")
		}
	}
	// every entry point's base goes through the cloner or baseForRoot: checked by entry-wiring (C10)
}

var _ = sort.Strings
var _ = strings.HasPrefix

// urlCopyWithoutFragment: g takes one *url.URL and every value it returns is a url.URL literal that copies each
// field of the parameter except the fragment (Fragment, RawFragment), which it leaves empty. A field that is
// not copied makes two different locations share a key (or a location lose a part it is fetched with).
func (c *Ctx) urlCopyWithoutFragment(g *types.Func) (bool, string) {
	gfd := c.decl(g)
	if gfd == nil || gfd.Body == nil {
		return false, "no body"
	}
	sig := g.Type().(*types.Signature)
	if sig.Params().Len() != 1 || sig.Results().Len() != 1 {
		return false, "not a one-argument URL helper"
	}
	isURL := func(t types.Type) *types.Struct {
		nt, ok := types.Unalias(derefType(t)).(*types.Named)
		if !ok || nt.Obj().Pkg() == nil || nt.Obj().Pkg().Path() != "net/url" || nt.Obj().Name() != "URL" {
			return nil
		}
		st, _ := nt.Underlying().(*types.Struct)
		return st
	}
	ust := isURL(sig.Params().At(0).Type())
	if ust == nil || isURL(sig.Results().At(0).Type()) == nil {
		return false, "not a URL-to-URL helper"
	}
	param := c.paramObj(gfd, 0)
	defs := c.localDefs(gfd)
	good, why, n := true, "", 0
	ast.Inspect(gfd.Body, func(nd ast.Node) bool {
		if _, isLit := nd.(*ast.FuncLit); isLit {
			return false
		}
		rs, ok := nd.(*ast.ReturnStmt)
		if !ok || len(rs.Results) != 1 {
			return true
		}
		n++
		e := unparen(rs.Results[0])
		if id, isId := e.(*ast.Ident); isId {
			if ds := defs[c.objOf(id)]; len(ds) == 1 && ds[0] != nil {
				e = unparen(ds[0])
			}
		}
		if u, isAddr := e.(*ast.UnaryExpr); isAddr && u.Op == token.AND {
			e = unparen(u.X)
		}
		lit, isLit := e.(*ast.CompositeLit)
		if !isLit {
			good, why = false, "it does not return a URL literal"
			return true
		}
		set := map[string]ast.Expr{}
		for _, el := range lit.Elts {
			kv, isKV := el.(*ast.KeyValueExpr)
			if !isKV {
				good, why = false, "positional URL literal"
				return true
			}
			if k, isId := kv.Key.(*ast.Ident); isId {
				set[k.Name] = kv.Value
			}
		}
		for i := 0; i < ust.NumFields(); i++ {
			f := ust.Field(i)
			if !f.Exported() {
				continue
			}
			v, has := set[f.Name()]
			if f.Name() == "Fragment" || f.Name() == "RawFragment" {
				if has {
					if s, isC := c.constString(v); !isC || s != "" {
						good, why = false, "the fragment is kept in the copy"
					}
				}
				continue
			}
			if !has {
				good, why = false, "the hand-written copy of the URL does not carry "+f.Name()+": two locations that differ there share one cache key (and the document is requested without it)"
				continue
			}
			p, okp := c.apath(v)
			if !okp || p.Root != param || lastStep(p) != f.Name() {
				good, why = false, "field "+f.Name()+" of the copy is not the parameter's "+f.Name()
			}
		}
		return true
	})
	if n == 0 {
		return false, "no return"
	}
	return good, why
}

// refMethodPrintsURLWithoutFragment: m is a nullary method of the package's Ref type with one string result, and
// every value it returns is "" or the String() of a local copy of the receiver's URL whose Fragment was set to ""
// before.
func (c *Ctx) refMethodPrintsURLWithoutFragment(m *types.Func) bool {
	sig := m.Type().(*types.Signature)
	if sig.Recv() == nil || !isNamed(derefType(sig.Recv().Type()), c.Types, "Ref") || sig.Params().Len() != 0 || sig.Results().Len() != 1 || !isStringType(sig.Results().At(0).Type()) {
		return false
	}
	fd := c.decl(m)
	if fd == nil || fd.Body == nil {
		return false
	}
	recv := c.recvObj(fd)
	defs := c.localDefs(fd)
	n, all := 0, true
	ast.Inspect(fd.Body, func(nd ast.Node) bool {
		if _, isLit := nd.(*ast.FuncLit); isLit {
			return false
		}
		rs, ok := nd.(*ast.ReturnStmt)
		if !ok || len(rs.Results) != 1 {
			return true
		}
		if k, isConst := c.constString(rs.Results[0]); isConst && k == "" {
			return true
		}
		n++
		good := false
		if call, isCall := unparen(rs.Results[0]).(*ast.CallExpr); isCall && len(call.Args) == 0 {
			if se, isSel := unparen(call.Fun).(*ast.SelectorExpr); isSel && se.Sel.Name == "String" {
				if id, isId := unparen(se.X).(*ast.Ident); isId {
					o := c.objOf(id)
					fromRecv := len(defs[o]) > 0
					for _, d := range defs[o] {
						e := unparen(d)
						if st, isStar := e.(*ast.StarExpr); isStar {
							e = unparen(st.X)
						}
						gc, isC := e.(*ast.CallExpr)
						if !isC {
							fromRecv = false
							continue
						}
						gse, isS := unparen(gc.Fun).(*ast.SelectorExpr)
						if !isS || gse.Sel.Name != "GetURL" {
							fromRecv = false
							continue
						}
						if rid, isR := unparen(gse.X).(*ast.Ident); !isR || c.objOf(rid) != recv {
							fromRecv = false
						}
					}
					cleared := false
					ast.Inspect(fd.Body, func(q ast.Node) bool {
						as, isAs := q.(*ast.AssignStmt)
						if !isAs || as.End() > rs.Pos() || len(as.Lhs) != 1 || len(as.Rhs) != 1 {
							return true
						}
						if p, ok := c.apath(as.Lhs[0]); ok && p.Root == o && lastStep(p) == "Fragment" {
							if s, ok := c.constString(as.Rhs[0]); ok && s == "" {
								cleared = true
							}
						}
						return true
					})
					good = fromRecv && cleared
				}
			}
		}
		if !good {
			all = false
		}
		return true
	})
	return n > 0 && all
}
