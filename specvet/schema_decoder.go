package main

import (
	"go/ast"
	"go/token"
	"go/types"
)

// schemaDecoderEvents describes what Schema.UnmarshalJSON does to the generic map it decodes the whole input
// into, followed through the package functions and methods it hands that map to (bounded depth): which
// constant keys are deleted, whether every tagged member name is deleted, and where ExtraProps is filled from
// it. Positions are positions inside Schema.UnmarshalJSON (an event inside a callee takes the position of the
// call), so that "before" is meaningful.
type schemaDecoderEvents struct {
	found     bool                 // the generic map was identified
	delConst  map[string]token.Pos // delete(m, "k")
	delTagged token.Pos            // for _, n := range GetJSONNames(Schema) { delete(m, n) }
	fills     []schemaFill         // X.ExtraProps[k] = v inside a range over m
}

type schemaFill struct {
	fd  *ast.FuncDecl
	as  *ast.AssignStmt
	pos token.Pos // position in Schema.UnmarshalJSON
}

func (c *Ctx) schemaDecoderEvents() *schemaDecoderEvents {
	ev := &schemaDecoderEvents{delConst: map[string]token.Pos{}}
	u := c.decl(c.method("Schema", "UnmarshalJSON"))
	if u == nil || u.Body == nil {
		return ev
	}
	// the generic map: a local of type map[string]interface{} (or a named type of that shape) that the whole
	// input is decoded into
	// genIn: the local of a function that the whole input is decoded into as a generic map
	genIn := func(fd *ast.FuncDecl) types.Object {
		var gen types.Object
		ast.Inspect(fd.Body, func(n ast.Node) bool {
			call, ok := n.(*ast.CallExpr)
			if !ok || !c.isPkgFunc(call, "encoding/json", "Unmarshal") || len(call.Args) != 2 {
				return true
			}
			un, ok := unparen(call.Args[1]).(*ast.UnaryExpr)
			if !ok || un.Op != token.AND {
				return true
			}
			id, ok := unparen(un.X).(*ast.Ident)
			if !ok {
				return true
			}
			if mt, isMap := c.objOf(id).Type().Underlying().(*types.Map); isMap && isStringType(mt.Key()) {
				if _, isIface := mt.Elem().Underlying().(*types.Interface); isIface {
					gen = c.objOf(id)
				}
			}
			return true
		})
		return gen
	}
	gen := genIn(u)
	// ... or a helper decodes it and hands the map back among its results
	var producer *ast.FuncDecl
	var producerGen types.Object
	var producerAt token.Pos
	if gen == nil {
		ast.Inspect(u.Body, func(n ast.Node) bool {
			as, ok := n.(*ast.AssignStmt)
			if !ok || len(as.Rhs) != 1 || gen != nil {
				return true
			}
			call, ok := unparen(as.Rhs[0]).(*ast.CallExpr)
			if !ok {
				return true
			}
			g, _ := c.callee(call).(*types.Func)
			if g == nil || g.Pkg() != c.Types {
				return true
			}
			gfd := c.decl(g)
			if gfd == nil || gfd.Body == nil {
				return true
			}
			hg := genIn(gfd)
			if hg == nil {
				return true
			}
			idx := -1
			ast.Inspect(gfd.Body, func(m ast.Node) bool {
				if _, isLit := m.(*ast.FuncLit); isLit {
					return false
				}
				if rs, ok := m.(*ast.ReturnStmt); ok {
					for i, r := range rs.Results {
						if id, ok := unparen(r).(*ast.Ident); ok && c.objOf(id) == hg {
							idx = i
						}
					}
				}
				return true
			})
			if idx >= 0 && idx < len(as.Lhs) {
				if id, ok := as.Lhs[idx].(*ast.Ident); ok && c.objOf(id) != nil {
					gen, producer, producerGen, producerAt = c.objOf(id), gfd, hg, call.Pos()
				}
			}
			return true
		})
	}
	if gen == nil {
		return ev
	}
	ev.found = true
	isNamesCall := func(e ast.Expr) bool {
		call, ok := unparen(e).(*ast.CallExpr)
		if !ok || len(call.Args) != 1 {
			return false
		}
		_, name, pkg, isM := c.calleeMethod(call)
		if !isM || name != "GetJSONNames" || pkg != "github.com/go-openapi/swag" {
			return false
		}
		at := c.typeOf(call.Args[0])
		return at != nil && typeNameOf(derefType(at)) == "Schema"
	}
	var walk func(fd *ast.FuncDecl, isGen, isNames map[types.Object]bool, at token.Pos, depth int)
	walk = func(fd *ast.FuncDecl, isGen, isNames map[types.Object]bool, at token.Pos, depth int) {
		posOf := func(p token.Pos) token.Pos {
			if at.IsValid() {
				return at
			}
			return p
		}
		genExpr := func(e ast.Expr) bool {
			id, ok := unparen(e).(*ast.Ident)
			return ok && isGen[c.objOf(id)]
		}
		namesExpr := func(e ast.Expr) bool {
			if isNamesCall(e) {
				return true
			}
			id, ok := unparen(e).(*ast.Ident)
			return ok && isNames[c.objOf(id)]
		}
		ast.Inspect(fd.Body, func(n ast.Node) bool {
			switch x := n.(type) {
			case *ast.CallExpr:
				if c.isBuiltin(x, "delete") && len(x.Args) == 2 && genExpr(x.Args[0]) {
					if k, ok := c.constString(x.Args[1]); ok {
						if _, had := ev.delConst[k]; !had {
							ev.delConst[k] = posOf(x.Pos())
						}
					}
					return true
				}
				// a package function or method the map (or the list of names) is handed to
				g, _ := c.callee(x).(*types.Func)
				if g == nil || g.Pkg() != c.Types || depth >= 2 {
					return true
				}
				gfd := c.decl(g)
				if gfd == nil || gfd.Body == nil || gfd == fd {
					return true
				}
				cg, cn := map[types.Object]bool{}, map[types.Object]bool{}
				if se, ok := unparen(x.Fun).(*ast.SelectorExpr); ok && gfd.Recv != nil && genExpr(se.X) {
					if r := c.recvObj(gfd); r != nil {
						cg[r] = true
					}
				}
				for i, a := range x.Args {
					p := c.paramObj(gfd, i)
					if p == nil {
						continue
					}
					if genExpr(a) {
						cg[p] = true
					}
					if namesExpr(a) {
						cn[p] = true
					}
				}
				if len(cg) > 0 {
					walk(gfd, cg, cn, posOf(x.Pos()), depth+1)
				}
			case *ast.RangeStmt:
				// for _, n := range <names> { delete(m, n) }
				if namesExpr(x.X) {
					v, _ := x.Value.(*ast.Ident)
					ast.Inspect(x.Body, func(m ast.Node) bool {
						if dc, ok := m.(*ast.CallExpr); ok && c.isBuiltin(dc, "delete") && len(dc.Args) == 2 && genExpr(dc.Args[0]) {
							if k, ok := unparen(dc.Args[1]).(*ast.Ident); ok && v != nil && c.objOf(k) == c.objOf(v) && !ev.delTagged.IsValid() {
								ev.delTagged = posOf(x.Pos())
							}
						}
						return true
					})
				}
				// for k, v := range m { ... X.ExtraProps[k] = v ... }
				if genExpr(x.X) {
					ast.Inspect(x.Body, func(m ast.Node) bool {
						as, ok := m.(*ast.AssignStmt)
						if !ok {
							return true
						}
						for _, l := range as.Lhs {
							if p, ok := c.apath(l); ok && len(p.Steps) >= 2 && p.Steps[len(p.Steps)-2] == "ExtraProps" {
								ev.fills = append(ev.fills, schemaFill{fd, as, posOf(x.Pos())})
							}
						}
						return true
					})
				}
			}
			return true
		})
	}
	if producer != nil {
		walk(producer, map[types.Object]bool{producerGen: true}, map[types.Object]bool{}, producerAt, 1)
	}
	walk(u, map[types.Object]bool{gen: true}, map[types.Object]bool{}, token.NoPos, 0)
	return ev
}
