package main

import (
	"fmt"
	"go/ast"
	"go/token"
	"go/types"
	"sort"
	"strings"
)

func init() {
	registerRule("copy-map", 80, "validation accessors copy every field of the carrier's validation set from the same-named field and nothing else", ruleCopyMap)
	registerRule("clear-exact", 30, "Clear*Validations clears exactly its family, records (keyword, previous value) before clearing, applies callbacks once", ruleClearExact)
}

// leafFields flattens a struct type through embedded structs: leaf name -> (json name, type).
type leafInfo struct {
	name     string
	jsonName string
	typ      types.Type
}

func leafFields(t types.Type) map[string]leafInfo {
	out := map[string]leafInfo{}
	var rec func(t types.Type)
	rec = func(t types.Type) {
		st, ok := derefType(t).Underlying().(*types.Struct)
		if !ok {
			return
		}
		for i := 0; i < st.NumFields(); i++ {
			f := st.Field(i)
			if f.Embedded() {
				if _, isSt := derefType(f.Type()).Underlying().(*types.Struct); isSt {
					rec(f.Type())
					continue
				}
			}
			if _, dup := out[f.Name()]; !dup {
				out[f.Name()] = leafInfo{name: f.Name(), jsonName: strings.Split(tagName(st.Tag(i)), ",")[0], typ: f.Type()}
			}
		}
	}
	rec(t)
	return out
}

// validationUniverse: leaves of SchemaValidations that the carrier also has.
func (c *Ctx) validationUniverse(carrier types.Type) []string {
	sv := c.namedType("SchemaValidations")
	if sv == nil {
		return nil
	}
	svLeaves := leafFields(sv)
	cl := leafFields(carrier)
	var out []string
	for n, li := range svLeaves {
		if o, ok := cl[n]; ok && types.Identical(o.typ, li.typ) {
			out = append(out, n)
		}
	}
	sort.Strings(out)
	return out
}

type copyMap struct {
	m       map[string]string // dest leaf -> source leaf
	other   []string          // effects outside the pattern
	problem string
}

func lastStep(p APath) string {
	if len(p.Steps) == 0 {
		return ""
	}
	return p.Steps[len(p.Steps)-1]
}

// wholeStructCopy maps every leaf of the struct type to itself.
func wholeLeaves(t types.Type, into map[string]string) {
	for n := range leafFields(t) {
		into[n] = n
	}
}

// argMap interprets an argument expression handed to a setter: the parameter
// itself, or a composite literal wrapping it: leaf -> source leaf of param.
func (c *Ctx) argLeafMap(e ast.Expr, src types.Object) (map[string]string, bool) {
	e = unparen(e)
	out := map[string]string{}
	if p, ok := c.apath(e); ok && p.Root == src {
		t := c.typeOf(e)
		if t != nil && isStruct(derefType(t)) {
			wholeLeaves(t, out)
			return out, true
		}
		out[lastStep(p)] = lastStep(p)
		return out, true
	}
	if lit, ok := e.(*ast.CompositeLit); ok {
		for _, el := range lit.Elts {
			kv, ok := el.(*ast.KeyValueExpr)
			if !ok {
				return nil, false
			}
			key, ok := kv.Key.(*ast.Ident)
			if !ok {
				return nil, false
			}
			v := unparen(kv.Value)
			if _, isLit := v.(*ast.CompositeLit); isLit {
				sub, ok := c.argLeafMap(v, src)
				if !ok {
					return nil, false
				}
				for k, s := range sub {
					out[k] = s
				}
				continue
			}
			p, ok := c.apath(v)
			if !ok || p.Root != src {
				return nil, false
			}
			t := c.typeOf(v)
			if t != nil && isStruct(derefType(t)) && len(leafFields(t)) > 0 {
				wholeLeaves(t, out)
				continue
			}
			out[key.Name] = lastStep(p)
		}
		return out, true
	}
	return nil, false
}

// setterMap abstracts a SetValidations-like body: receiver leaf <- parameter leaf.
func (c *Ctx) setterMap(fd *ast.FuncDecl, depth int) *copyMap {
	cm := &copyMap{m: map[string]string{}}
	if depth > 3 {
		cm.problem = "delegation too deep"
		return cm
	}
	recv, val := c.recvObj(fd), c.paramObj(fd, 0)
	if recv == nil || val == nil {
		cm.problem = "receiver or parameter not named"
		return cm
	}
	for _, s := range fd.Body.List {
		switch st := s.(type) {
		case *ast.AssignStmt:
			if st.Tok != token.ASSIGN || len(st.Lhs) != len(st.Rhs) {
				cm.other = append(cm.other, exprString(st.Lhs[0]))
				continue
			}
			for i := range st.Lhs {
				lp, lok := c.apath(st.Lhs[i])
				rp, rok := c.apath(st.Rhs[i])
				// whole-struct copy: *recv = val.Part, recv.Part = val.Part
				if lok && rok && lp.Root == recv && rp.Root == val {
					lt, rt := c.typeOf(st.Lhs[i]), c.typeOf(st.Rhs[i])
					if lt != nil && rt != nil && isStruct(derefType(lt)) && types.Identical(derefType(lt), derefType(rt)) && len(leafFields(lt)) > 0 {
						for leaf := range leafFields(lt) {
							cm.m[leaf] = leaf
						}
						continue
					}
				}
				if !lok || lp.Root != recv || len(lp.Steps) == 0 {
					cm.other = append(cm.other, exprString(st.Lhs[i]))
					continue
				}
				if !rok || rp.Root != val || len(rp.Steps) == 0 {
					cm.m[lastStep(lp)] = "<" + exprString(st.Rhs[i]) + ">"
					continue
				}
				cm.m[lastStep(lp)] = lastStep(rp)
			}
		case *ast.ExprStmt:
			call, ok := st.X.(*ast.CallExpr)
			if !ok {
				cm.other = append(cm.other, exprString(st.X))
				continue
			}
			callee, _ := c.callee(call).(*types.Func)
			cfd := c.decl(callee)
			se, isSel := unparen(call.Fun).(*ast.SelectorExpr)
			if cfd == nil || !isSel || len(call.Args) != 1 {
				cm.other = append(cm.other, exprString(call))
				continue
			}
			rp, ok := c.apath(se.X)
			if !ok || rp.Root != recv {
				cm.other = append(cm.other, exprString(call))
				continue
			}
			am, ok := c.argLeafMap(call.Args[0], val)
			if !ok {
				cm.other = append(cm.other, exprString(call))
				continue
			}
			sub := c.setterMap(cfd, depth+1)
			if sub.problem != "" {
				cm.problem = sub.problem
			}
			cm.other = append(cm.other, sub.other...)
			for d, s := range sub.m {
				if src, ok := am[s]; ok {
					cm.m[d] = src
				} else {
					cm.m[d] = "<unset:" + s + ">"
				}
			}
		case *ast.ReturnStmt:
		default:
			cm.other = append(cm.other, fmt.Sprintf("%T", s))
		}
	}
	return cm
}

// getterMap abstracts a Validations-like body: result leaf <- receiver leaf.
func (c *Ctx) getterMap(fd *ast.FuncDecl, depth int) *copyMap {
	cm := &copyMap{m: map[string]string{}}
	if depth > 3 {
		cm.problem = "delegation too deep"
		return cm
	}
	recv := c.recvObj(fd)
	if recv == nil {
		cm.problem = "receiver not named"
		return cm
	}
	env := map[types.Object]map[string]string{}
	var evalExpr func(e ast.Expr) (map[string]string, bool)
	evalExpr = func(e ast.Expr) (map[string]string, bool) {
		e = unparen(e)
		switch x := e.(type) {
		case *ast.Ident:
			if m, ok := env[c.objOf(x)]; ok {
				cp := map[string]string{}
				for k, v := range m {
					cp[k] = v
				}
				return cp, true
			}
		case *ast.CompositeLit:
			return c.argLeafMap(x, recv)
		case *ast.CallExpr:
			callee, _ := c.callee(x).(*types.Func)
			cfd := c.decl(callee)
			se, isSel := unparen(x.Fun).(*ast.SelectorExpr)
			if cfd == nil || !isSel || len(x.Args) != 0 {
				return nil, false
			}
			if rp, ok := c.apath(se.X); !ok || rp.Root != recv {
				return nil, false
			}
			sub := c.getterMap(cfd, depth+1)
			if sub.problem != "" {
				return nil, false
			}
			return sub.m, true
		}
		return nil, false
	}
	returned := false
	for _, s := range fd.Body.List {
		switch st := s.(type) {
		case *ast.AssignStmt:
			if len(st.Lhs) != 1 || len(st.Rhs) != 1 {
				cm.other = append(cm.other, "multi-assign")
				continue
			}
			if id, ok := st.Lhs[0].(*ast.Ident); ok && st.Tok == token.DEFINE {
				m, ok := evalExpr(st.Rhs[0])
				if !ok {
					cm.problem = "unrecognised initialiser " + exprString(st.Rhs[0])
					return cm
				}
				env[c.objOf(id)] = m
				continue
			}
			lp, lok := c.apath(st.Lhs[0])
			rp, rok := c.apath(st.Rhs[0])
			if lok && env[lp.Root] != nil && len(lp.Steps) > 0 {
				if rok && rp.Root == recv && len(rp.Steps) > 0 {
					env[lp.Root][lastStep(lp)] = lastStep(rp)
				} else {
					env[lp.Root][lastStep(lp)] = "<" + exprString(st.Rhs[0]) + ">"
				}
				continue
			}
			cm.other = append(cm.other, exprString(st.Lhs[0]))
		case *ast.ReturnStmt:
			if len(st.Results) != 1 {
				cm.problem = "unexpected return arity"
				return cm
			}
			m, ok := evalExpr(st.Results[0])
			if !ok {
				cm.problem = "unrecognised result " + exprString(st.Results[0])
				return cm
			}
			cm.m = m
			returned = true
		default:
			cm.other = append(cm.other, fmt.Sprintf("%T", s))
		}
	}
	if !returned {
		cm.problem = "no return"
	}
	return cm
}

func (c *Ctx) recvTypeOf(fd *ast.FuncDecl) types.Type {
	r := c.recvObj(fd)
	if r == nil {
		return nil
	}
	return derefType(r.Type())
}

func ruleCopyMap(c *Ctx) {
	const rule = "copy-map"
	for _, fd := range c.allFuncDecls() {
		if fd.Recv == nil || fd.Body == nil {
			continue
		}
		rt := c.recvTypeOf(fd)
		if rt == nil {
			continue
		}
		fn := c.funcName(fd)
		switch fd.Name.Name {
		case "SetValidations":
			c.saw(fn)
			uni := c.validationUniverse(rt)
			cm, _, simOK := c.setterMapSim(fd)
			if !simOK {
				cm = c.setterMap(fd, 0)
			}
			if cm.problem != "" {
				c.undecided(rule, fn, fd.Pos(), cm.problem)
				continue
			}
			for _, leaf := range uni {
				src, ok := cm.m[leaf]
				why := ""
				if !ok {
					why = "validation " + leaf + " is never copied from the argument"
				} else if src != leaf {
					why = fmt.Sprintf("validation %s is set from %s of the argument", leaf, src)
				}
				c.ob(rule, fn+":"+leaf, fd.Pos(), ok && src == leaf, why)
			}
			var extra []string
			inUni := map[string]bool{}
			for _, l := range uni {
				inUni[l] = true
			}
			for d := range cm.m {
				if !inUni[d] {
					extra = append(extra, d)
				}
			}
			extra = append(extra, cm.other...)
			sort.Strings(extra)
			c.ob(rule, fn+":no-other-writes", fd.Pos(), len(extra) == 0, fmt.Sprintf("writes besides the validation set: %v", extra))
		case "Validations":
			c.saw(fn)
			uni := c.validationUniverse(rt)
			cm, simOK := c.getterMapSim(fd)
			if !simOK {
				cm = c.getterMap(fd, 0)
			}
			if cm.problem != "" {
				c.undecided(rule, fn, fd.Pos(), cm.problem)
				continue
			}
			for _, leaf := range uni {
				src, ok := cm.m[leaf]
				why := ""
				if !ok {
					why = "validation " + leaf + " of the receiver is not part of the returned set"
				} else if src != leaf {
					why = fmt.Sprintf("returned %s is read from %s of the receiver", leaf, src)
				}
				c.ob(rule, fn+":"+leaf, fd.Pos(), ok && src == leaf, why)
			}
			c.ob(rule, fn+":no-other-effects", fd.Pos(), len(cm.other) == 0, fmt.Sprintf("unexpected statements: %v", cm.other))
		case "WithValidations":
			c.saw(fn)
			// body: recv.SetValidations(<param or wrapper of param>); return recv
			recv, val := c.recvObj(fd), c.paramObj(fd, 0)
			if ok, why, decided := c.withValidationsSim(fd); decided {
				c.ob(rule, fn+":delegates", fd.Pos(), ok, why)
				continue
			}
			ok, why := false, "body is not `recv.SetValidations(arg); return recv`"
			if len(fd.Body.List) == 2 && recv != nil && val != nil {
				es, isE := fd.Body.List[0].(*ast.ExprStmt)
				rs, isR := fd.Body.List[1].(*ast.ReturnStmt)
				if isE && isR && len(rs.Results) == 1 {
					call, isC := es.X.(*ast.CallExpr)
					rid, isId := unparen(rs.Results[0]).(*ast.Ident)
					if isC && isId && c.objOf(rid) == recv && len(call.Args) == 1 {
						if se, isSel := unparen(call.Fun).(*ast.SelectorExpr); isSel && se.Sel.Name == "SetValidations" {
							if rp, okp := c.apath(se.X); okp && rp.Root == recv {
								am, okm := c.argLeafMap(call.Args[0], val)
								ident := okm
								for k, v := range am {
									if k != v {
										ident = false
										why = fmt.Sprintf("argument wrapper maps %s from %s", k, v)
									}
								}
								// every leaf of the parameter type must be forwarded
								for leaf := range leafFields(val.Type()) {
									if _, has := am[leaf]; !has {
										ident = false
										why = "argument wrapper drops " + leaf
									}
								}
								ok = ident
							}
						}
					}
				}
			}
			c.ob(rule, fn+":delegates", fd.Pos(), ok, why)
		}
	}
}

// ---- clear-exact ----

// validation families: JSON-Schema validation draft-4 section 5.1 (numeric),
// 5.2 (strings), 5.3 (arrays), 5.4 (objects) - restricted below to the fields a carrier has.
var validationFamilies = map[string][]string{
	"Number": {"multipleOf", "maximum", "exclusiveMaximum", "minimum", "exclusiveMinimum"},
	"String": {"maxLength", "minLength", "pattern"},
	"Array":  {"maxItems", "minItems", "uniqueItems"},
	"Object": {"maxProperties", "minProperties", "patternProperties"},
}

func isZeroExpr(c *Ctx, e ast.Expr) bool {
	e = unparen(e)
	if isNilIdent(c, e) {
		return true
	}
	if tv, ok := c.Info.Types[e]; ok && tv.Value != nil {
		switch tv.Value.String() {
		case `""`, "false", "0":
			return true
		}
	}
	return false
}

func ruleClearExact(c *Ctx) {
	const rule = "clear-exact"
	clearedBy := map[string]map[string]bool{} // carrier type + family -> cleared leaves
	nSim, nLegacy := 0, 0
	for _, fd := range c.allFuncDecls() {
		if fd.Recv == nil || fd.Body == nil {
			continue
		}
		name := fd.Name.Name
		if !strings.HasPrefix(name, "Clear") || !strings.HasSuffix(name, "Validations") {
			continue
		}
		fam := strings.TrimSuffix(strings.TrimPrefix(name, "Clear"), "Validations")
		fn := c.funcName(fd)
		c.saw(fn)
		famKeys, known := validationFamilies[fam]
		if !known {
			c.undecided(rule, fn+":family", fd.Pos(), "no validation family named "+fam)
			continue
		}
		recv := c.recvObj(fd)
		rt := c.recvTypeOf(fd)
		// decided on the effect normal form of the method whenever that is available
		if simCleared := map[string]bool{}; c.clearExactBySim(rule, fd, famKeys, fam, simCleared) {
			clearedBy[typeNameOf(rt)+"/"+fam] = simCleared
			nSim++
			continue
		}
		nLegacy++
		leaves := leafFields(rt)
		byJSON := map[string]leafInfo{}
		for _, li := range leaves {
			byJSON[li.jsonName] = li
		}
		cbs := c.paramObj(fd, 0)
		var doneObj types.Object
		deferOK := false
		cleared := map[string]bool{}
		var stray []string
		for _, s := range fd.Body.List {
			switch st := s.(type) {
			case *ast.DeclStmt:
				// const block
			case *ast.AssignStmt:
				// done := make(clearedValidations, 0, n)
				if st.Tok == token.DEFINE && len(st.Lhs) == 1 {
					if id, ok := st.Lhs[0].(*ast.Ident); ok {
						if call, ok := st.Rhs[0].(*ast.CallExpr); ok && c.isBuiltin(call, "make") {
							doneObj = c.objOf(id)
							continue
						}
					}
				}
				stray = append(stray, exprString(st.Lhs[0]))
			case *ast.DeferStmt:
				// defer func() { done.apply(cbs) }()
				if fl, ok := st.Call.Fun.(*ast.FuncLit); ok && len(fl.Body.List) == 1 {
					if es, ok := fl.Body.List[0].(*ast.ExprStmt); ok {
						if call, ok := es.X.(*ast.CallExpr); ok && c.isSpecMethod(call, "clearedValidations", "apply") && len(call.Args) == 1 {
							se := unparen(call.Fun).(*ast.SelectorExpr)
							rid, ok1 := unparen(se.X).(*ast.Ident)
							aid, ok2 := unparen(call.Args[0]).(*ast.Ident)
							if ok1 && ok2 && doneObj != nil && c.objOf(rid) == doneObj && c.objOf(aid) == cbs && call.Ellipsis == token.NoPos {
								deferOK = true
							}
						}
					}
				}
			case *ast.IfStmt:
				c.clearTriple(rule, fn, st, recv, doneObj, leaves, cleared, &stray)
			default:
				stray = append(stray, fmt.Sprintf("%T", s))
			}
		}
		c.ob(rule, fn+":deferred-apply", fd.Pos(), deferOK, "callbacks must be applied by a deferred done.apply(cbs) on every exit, on the very slice the records are appended to")
		c.ob(rule, fn+":no-other-effects", fd.Pos(), len(stray) == 0, fmt.Sprintf("statements outside the (guard, record, clear) pattern: %v", stray))
		want := map[string]bool{}
		for _, k := range famKeys {
			if li, ok := byJSON[k]; ok {
				want[li.name] = true
			}
		}
		var missing, extra []string
		for l := range want {
			if !cleared[l] {
				missing = append(missing, l)
			}
		}
		for l := range cleared {
			if !want[l] {
				extra = append(extra, l)
			}
		}
		sort.Strings(missing)
		sort.Strings(extra)
		c.ob(rule, fn+":family", fd.Pos(), len(missing) == 0 && len(extra) == 0,
			fmt.Sprintf("family %s of %s: not cleared %v, cleared but foreign %v", strings.ToLower(fam), typeNameOf(rt), missing, extra))
		clearedBy[typeNameOf(rt)+"/"+fam] = cleared
	}

	// Has<Family>Validations reads only fields the matching Clear clears
	for _, fd := range c.allFuncDecls() {
		if fd.Recv == nil || fd.Body == nil {
			continue
		}
		name := fd.Name.Name
		if !strings.HasPrefix(name, "Has") || !strings.HasSuffix(name, "Validations") {
			continue
		}
		fam := strings.TrimSuffix(strings.TrimPrefix(name, "Has"), "Validations")
		rt := c.recvTypeOf(fd)
		cl, ok := clearedBy[typeNameOf(rt)+"/"+fam]
		if !ok {
			continue
		}
		fn := c.funcName(fd)
		c.saw(fn)
		recv := c.recvObj(fd)
		var foreign []string
		reads := 0
		ast.Inspect(fd.Body, func(n ast.Node) bool {
			if e, ok := n.(ast.Expr); ok {
				if p, ok := c.apath(e); ok && p.Root == recv && len(p.Steps) > 0 {
					reads++
					if !cl[lastStep(p)] {
						foreign = append(foreign, lastStep(p))
					}
					return false
				}
			}
			return true
		})
		c.ob(rule, fn+":reads", fd.Pos(), len(foreign) == 0 && reads > 0,
			fmt.Sprintf("query reads %v, which Clear%sValidations does not clear: it can stay true after the clear", foreign, fam))
	}

	// clearedValidations.apply: every callback x every record exactly once
	if ap := c.decl(c.method("clearedValidations", "apply")); ap != nil {
		c.saw(c.funcName(ap))
		ok := false
		recv, cbs := c.recvObj(ap), c.paramObj(ap, 0)
		if len(ap.Body.List) == 1 {
			if outer, isR := ap.Body.List[0].(*ast.RangeStmt); isR && len(outer.Body.List) == 1 {
				if inner, isR2 := outer.Body.List[0].(*ast.RangeStmt); isR2 && len(inner.Body.List) == 1 {
					ox, _ := unparen(outer.X).(*ast.Ident)
					ix, _ := unparen(inner.X).(*ast.Ident)
					sets := map[types.Object]bool{}
					if ox != nil && ix != nil {
						sets[c.objOf(ox)] = true
						sets[c.objOf(ix)] = true
					}
					if sets[recv] && sets[cbs] && len(sets) == 2 {
						if es, isE := inner.Body.List[0].(*ast.ExprStmt); isE {
							if call, isC := es.X.(*ast.CallExpr); isC && len(call.Args) == 2 {
								// callee is the callback range variable; args are .Validation and .Value of the record variable
								var cbVar, recVar types.Object
								for _, r := range []*ast.RangeStmt{outer, inner} {
									x := unparen(r.X).(*ast.Ident)
									v, _ := r.Value.(*ast.Ident)
									if v == nil {
										continue
									}
									if c.objOf(x) == cbs {
										cbVar = c.objOf(v)
									} else {
										recVar = c.objOf(v)
									}
								}
								fid, _ := unparen(call.Fun).(*ast.Ident)
								a0, ok0 := c.apath(call.Args[0])
								a1, ok1 := c.apath(call.Args[1])
								if fid != nil && cbVar != nil && recVar != nil && c.objOf(fid) == cbVar && ok0 && ok1 &&
									a0.Root == recVar && a1.Root == recVar && lastStep(a0) == "Validation" && lastStep(a1) == "Value" {
									ok = true
								}
							}
						}
					}
				}
			}
		}
		// when every clear operation was decided on its effect normal form, the application of the callbacks has
		// been checked there, inlined, whatever shape apply has (obligation :deferred-apply of each operation)
		if !ok && nSim > 0 && nLegacy == 0 {
			ok = true
		}
		c.ob(rule, "clearedValidations.apply:loop-nest", ap.Pos(), ok, "apply must call each callback once per record with (record.Validation, record.Value)")
	} else {
		c.undecided(rule, "clearedValidations.apply", token.NoPos, "apply not found")
	}
}

// clearTriple checks one `if recv.F != zero { done = append(done, clearedValidation{Validation: name, Value: recv.F}); recv.F = zero }`.
func (c *Ctx) clearTriple(rule, fn string, st *ast.IfStmt, recv, doneObj types.Object, leaves map[string]leafInfo, cleared map[string]bool, stray *[]string) {
	if st.Else != nil || st.Init != nil {
		*stray = append(*stray, "if-with-else/init")
		return
	}
	// guard field
	var guard string
	ast.Inspect(st.Cond, func(n ast.Node) bool {
		if e, ok := n.(ast.Expr); ok {
			if p, ok := c.apath(e); ok && p.Root == recv && len(p.Steps) > 0 {
				if guard == "" {
					guard = lastStep(p)
				} else if guard != lastStep(p) {
					guard = "<several>"
				}
				return false
			}
		}
		return true
	})
	if guard == "" {
		*stray = append(*stray, "if without receiver guard")
		return
	}
	key := fn + ":" + guard
	// the guard must be the plain non-zero test of the field (F != nil, F != "", F): anything weaker
	// (len(F) > 0) leaves a present-but-empty keyword in place while the has-query still sees it
	shapeOK := false
	switch g := unparen(st.Cond).(type) {
	case *ast.BinaryExpr:
		if g.Op == token.NEQ && isZeroExpr(c, g.Y) {
			if p, ok := c.apath(g.X); ok && p.Root == recv {
				shapeOK = true
			}
		}
	case *ast.SelectorExpr, *ast.Ident:
		if p, ok := c.apath(g); ok && p.Root == recv {
			shapeOK = true
		}
	}
	if !shapeOK {
		c.ob(rule, key, st.Pos(), false, "the guard is not the plain non-zero test of the field: a keyword that is present with an empty value is neither cleared nor reported, and the has-query stays true")
		cleared[guard] = true
		return
	}
	if cleared[guard] {
		c.ob(rule, key, st.Pos(), false, "validation handled twice: callbacks would see it twice")
		return
	}
	var recField, recName, clearedField string
	recIdx, clearIdx := -1, -1
	zeroStore := false
	var extra []string
	for i, s := range st.Body.List {
		// record through a helper: done.add("keyword", recv.F)
		if es, isE := s.(*ast.ExprStmt); isE {
			if call, isC := es.X.(*ast.CallExpr); isC && len(call.Args) == 2 && c.isRecordHelper(call, doneObj) {
				recName, _ = c.constString(call.Args[0])
				if p, ok := c.apath(call.Args[1]); ok && p.Root == recv {
					recField = lastStep(p)
				}
				if recIdx < 0 {
					recIdx = i
				} else {
					extra = append(extra, "second record")
				}
				continue
			}
		}
		as, ok := s.(*ast.AssignStmt)
		if !ok || len(as.Lhs) != 1 || len(as.Rhs) != 1 || as.Tok != token.ASSIGN {
			extra = append(extra, fmt.Sprintf("%T", s))
			continue
		}
		if id, ok := unparen(as.Lhs[0]).(*ast.Ident); ok && c.objOf(id) == doneObj && doneObj != nil {
			call, ok := as.Rhs[0].(*ast.CallExpr)
			if !ok || !c.isBuiltin(call, "append") || len(call.Args) != 2 {
				extra = append(extra, "done = "+exprString(as.Rhs[0]))
				continue
			}
			if a0, ok := unparen(call.Args[0]).(*ast.Ident); !ok || c.objOf(a0) != doneObj {
				extra = append(extra, "append to another slice")
				continue
			}
			lit, ok := unparen(call.Args[1]).(*ast.CompositeLit)
			if !ok {
				extra = append(extra, "record is not a literal")
				continue
			}
			for _, el := range lit.Elts {
				kv, ok := el.(*ast.KeyValueExpr)
				if !ok {
					continue
				}
				k, _ := kv.Key.(*ast.Ident)
				if k == nil {
					continue
				}
				switch k.Name {
				case "Validation":
					recName, _ = c.constString(kv.Value)
				case "Value":
					if p, ok := c.apath(kv.Value); ok && p.Root == recv {
						recField = lastStep(p)
					}
				}
			}
			if recIdx < 0 {
				recIdx = i
			} else {
				extra = append(extra, "second record")
			}
			continue
		}
		lp, ok := c.apath(as.Lhs[0])
		if ok && lp.Root == recv && len(lp.Steps) > 0 {
			if clearIdx < 0 {
				clearIdx = i
				clearedField = lastStep(lp)
				zeroStore = isZeroExpr(c, as.Rhs[0])
			} else {
				extra = append(extra, "second store to "+lastStep(lp))
			}
			continue
		}
		extra = append(extra, exprString(as.Lhs[0]))
	}
	li := leaves[guard]
	ok, why := true, ""
	switch {
	case recIdx < 0:
		ok, why = false, "validation is cleared without being reported to the callbacks"
	case clearIdx < 0:
		ok, why = false, "validation is reported but never cleared"
	case recField != guard:
		ok, why = false, fmt.Sprintf("guard tests %s but the recorded value is %s", guard, recField)
	case clearedField != guard:
		ok, why = false, fmt.Sprintf("guard tests %s but %s is cleared (a neighbour is wiped)", guard, clearedField)
	case recName != li.jsonName:
		ok, why = false, fmt.Sprintf("reported keyword %q is not the JSON name %q of %s", recName, li.jsonName, guard)
	case recIdx > clearIdx:
		ok, why = false, "the field is cleared before its previous value is recorded: callbacks receive the zero value"
	case !zeroStore:
		ok, why = false, "the store does not write the zero value"
	case len(extra) > 0:
		ok, why = false, fmt.Sprintf("extra effects in the clear block: %v", extra)
	}
	c.ob(rule, key, st.Pos(), ok, why)
	if clearedField != "" {
		cleared[clearedField] = true
	}
	if clearedField != guard {
		cleared[guard] = cleared[guard] || false
	}
}

// isRecordHelper: a method called on the records slice whose body appends, to its own receiver, a record built
// from its two parameters as (Validation, Value).
func (c *Ctx) isRecordHelper(call *ast.CallExpr, doneObj types.Object) bool {
	se, ok := unparen(call.Fun).(*ast.SelectorExpr)
	if !ok || doneObj == nil {
		return false
	}
	id, ok := unparen(se.X).(*ast.Ident)
	if !ok || c.objOf(id) != doneObj {
		return false
	}
	g, ok := c.callee(call).(*types.Func)
	if !ok || g.Pkg() != c.Types {
		return false
	}
	gfd := c.decl(g)
	if gfd == nil || gfd.Body == nil || len(gfd.Body.List) != 1 {
		return false
	}
	recv, p0, p1 := c.recvObj(gfd), c.paramObj(gfd, 0), c.paramObj(gfd, 1)
	as, ok := gfd.Body.List[0].(*ast.AssignStmt)
	if !ok || len(as.Lhs) != 1 || len(as.Rhs) != 1 || recv == nil || p0 == nil || p1 == nil {
		return false
	}
	lp, ok := c.apath(as.Lhs[0])
	if !ok || lp.Root != recv || len(lp.Steps) != 0 {
		return false
	}
	ap, ok := unparen(as.Rhs[0]).(*ast.CallExpr)
	if !ok || !c.isBuiltin(ap, "append") || len(ap.Args) != 2 {
		return false
	}
	if bp, ok := c.apath(ap.Args[0]); !ok || bp.Root != recv {
		return false
	}
	lit, ok := unparen(ap.Args[1]).(*ast.CompositeLit)
	if !ok {
		return false
	}
	okName, okVal := false, false
	for _, el := range lit.Elts {
		kv, ok := el.(*ast.KeyValueExpr)
		if !ok {
			return false
		}
		k, _ := kv.Key.(*ast.Ident)
		v, _ := unparen(kv.Value).(*ast.Ident)
		if k == nil || v == nil {
			return false
		}
		switch k.Name {
		case "Validation":
			okName = c.objOf(v) == p0
		case "Value":
			okVal = c.objOf(v) == p1
		}
	}
	return okName && okVal
}
