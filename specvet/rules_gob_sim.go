package main

import (
	"go/ast"
	"go/types"
	"strings"
)

// The gob codecs read off the effect normal form: what is handed to gob's Encoder.Encode, what Decoder.Decode
// fills, and where the parts of the decoded value end up in the receiver. Helpers around the gob calls
// (encodeGob(v), decodeGob(b, &v), ungobBytes(b)) are inlined; the JSON codecs of the package are kept opaque.

type gobSimFacts struct {
	encType, decType   types.Type
	encPayload         sval
	encComps, decComps map[string]bool // components of the receiver sent / restored ("" = the receiver as a whole)
	setOnEnc           map[string]bool // proxy fields set
	readOnDec          map[string]bool // proxy fields consumed
	jsonInto           bool            // the decoded value is handed to json.Unmarshal into the receiver
	encPassed          bool            // every path that returns a nil error has run the encoder
	decPassed          bool
	decIntoRecv        string // the location of the receiver that gob decodes straight into ("" = none)
}

func isGobCodecCall(sc *svCall, method string) bool {
	f, ok := sc.callee.(*types.Func)
	if !ok || f.Pkg() == nil || f.Pkg().Path() != "encoding/gob" || f.Name() != method {
		return false
	}
	return f.Type().(*types.Signature).Recv() != nil
}

func (c *Ctx) gobSimPaths(fd *ast.FuncDecl) ([]spath, types.Object, bool) {
	s := &effsim{c: c,
		inline: func(f *types.Func) bool {
			return f.Name() != "MarshalJSON" && f.Name() != "UnmarshalJSON"
		},
		mutates: func(f *types.Func) bool {
			return f.Pkg() != nil && f.Pkg().Path() == "encoding/gob" && f.Name() == "Decode"
		},
	}
	st := &sstate{vars: map[types.Object]sval{}, heap: map[string]sval{}, hkeys: map[string]svPath{}}
	recv := c.recvObj(fd)
	if recv == nil {
		return nil, nil, false
	}
	st.vars[recv] = svPath{root: recv}
	for i := 0; ; i++ {
		p := c.paramObj(fd, i)
		if p == nil {
			break
		}
		st.vars[p] = svPath{root: p}
	}
	if f, ok := c.Info.Defs[fd.Name].(*types.Func); ok {
		s.stack = append(s.stack, f)
	}
	var paths []spath
	s.callBody(fd.Type, fd.Body, st, func(st *sstate, rets []sval) {
		paths = append(paths, spath{conds: st.conds, effs: st.effs, rets: rets, final: st.vars})
		s.npaths++
		if s.npaths > effsimMaxPaths {
			s.fail("more than %d paths", effsimMaxPaths)
		}
	})
	if s.unsupported != "" || len(paths) == 0 {
		return nil, nil, false
	}
	return paths, recv, true
}

func firstStep(p svPath) string {
	for _, s := range p.steps {
		if s != "*" {
			return s
		}
	}
	return ""
}

func (c *Ctx) gobFactsBySim(efd, dfd *ast.FuncDecl) (*gobSimFacts, bool) {
	epaths, erecv, ok1 := c.gobSimPaths(efd)
	dpaths, drecv, ok2 := c.gobSimPaths(dfd)
	if !ok1 || !ok2 {
		return nil, false
	}
	res := &gobSimFacts{encComps: map[string]bool{}, decComps: map[string]bool{}, setOnEnc: map[string]bool{}, readOnDec: map[string]bool{}, encPassed: true, decPassed: true}
	// ---- encode
	sawEnc := false
	for _, p := range epaths {
		passed := false
		for _, e := range p.effs {
			if e.kind != "call" || !isGobCodecCall(e.call, "Encode") || len(e.call.args) != 1 {
				continue
			}
			passed, sawEnc = true, true
			v := e.call.args[0]
			if res.encPayload == nil {
				res.encPayload = v
				switch x := v.(type) {
				case svStruct:
					res.encType = x.t
				case svCall:
					if f, ok := x.callee.(*types.Func); ok {
						if r := f.Type().(*types.Signature).Results(); x.idx < r.Len() {
							res.encType = r.At(x.idx).Type()
						}
					}
				case svPath:
					res.encType = c.simTypeAtPath(x)
				}
			}
			if lit, isLit := v.(svStruct); isLit {
				for name := range lit.fields {
					if name != "" {
						res.setOnEnc[name] = true
					}
				}
			}
			svWalk(v, func(x sval) {
				switch y := x.(type) {
				case svPath:
					if y.root == erecv {
						res.encComps[firstStep(y)] = true
					}
				case svAddr:
					if y.p.root == erecv {
						res.encComps[firstStep(y.p)] = true
					}
				case svCall:
					if rp, ok := y.recv.(svPath); ok && rp.root == erecv {
						res.encComps[firstStep(rp)] = true
					}
					if ra, ok := y.recv.(svAddr); ok && ra.p.root == erecv {
						res.encComps[firstStep(ra.p)] = true
					}
				}
			})
		}
		if len(p.rets) == 2 {
			if _, isNil := p.rets[1].(svNil); isNil && !passed {
				res.encPassed = false
			}
			// the error of the encoder handed back as it is: that path has run it
		}
	}
	if !sawEnc {
		return nil, false
	}
	// ---- decode
	sawDec := false
	for _, p := range dpaths {
		passed := false
		for _, e := range p.effs {
			if e.kind != "call" || !isGobCodecCall(e.call, "Decode") || len(e.call.args) != 1 {
				continue
			}
			passed, sawDec = true, true
			D := e.call
			switch a := D.args[0].(type) {
			case svAddr:
				if a.p.root == drecv {
					res.decIntoRecv = svString(a)
				}
			case svPath:
				if a.root == drecv {
					res.decIntoRecv = svString(a)
				}
			case svStruct:
				for name, fv := range a.fields {
					if fa, isAddr := fv.(svAddr); isAddr && name != "" && fa.p.root == drecv {
						res.decIntoRecv = svString(fa)
					}
				}
			}
			if res.decType == nil {
				switch a := D.args[0].(type) {
				case svAddr:
					if a.p.root != nil {
						res.decType = c.simTypeAtPath(a.p)
					}
				case svStruct:
					res.decType = a.t
				}
			}
			fromD := func(v sval) bool {
				found := false
				svWalk(v, func(x sval) {
					if sc, ok := x.(svCall); ok && sc.id == D.id && sc.idx >= 100 {
						found = true
					}
				})
				return found
			}
			noteFields := func(v sval) {
				svWalk(v, func(x sval) {
					if sel, ok := x.(svSel); ok {
						if sc, isCall := sel.x.(svCall); isCall && sc.id == D.id && sc.idx >= 100 {
							res.readOnDec[strings.Split(sel.steps, ".")[0]] = true
						}
					}
				})
			}
			for _, cd := range p.conds {
				noteFields(cd.v)
			}
			for _, g := range p.effs {
				switch g.kind {
				case "write":
					noteFields(g.val)
					if g.dst.root != drecv || !fromD(g.val) {
						continue
					}
					if fs := firstStep(g.dst); fs != "" {
						res.decComps[fs] = true
						continue
					}
					// the receiver replaced as a whole: the parts of the new value that come from the decoded one
					if lit, isLit := g.val.(svStruct); isLit {
						for name, fv := range lit.fields {
							if name != "" && fromD(fv) {
								res.decComps[name] = true
							}
						}
						if base, has := lit.fields[""]; has && fromD(base) {
							res.decComps[""] = true
						}
					} else {
						res.decComps[""] = true
					}
				case "call":
					for _, a := range g.call.args {
						noteFields(a)
					}
					if f, ok := g.call.callee.(*types.Func); ok && f.Pkg() != nil && f.Pkg().Path() == "encoding/json" && f.Name() == "Unmarshal" && len(g.call.args) == 2 {
						into := false
						switch t := g.call.args[1].(type) {
						case svPath:
							into = t.root == drecv && firstStep(t) == ""
						case svAddr:
							into = t.p.root == drecv && firstStep(t.p) == ""
						}
						if into && fromD(g.call.args[0]) {
							res.jsonInto = true
							res.decComps[""] = true
						}
					}
				}
			}
		}
		if len(p.rets) == 1 {
			if _, isNil := p.rets[0].(svNil); isNil && !passed {
				res.decPassed = false
			}
		}
	}
	if !sawDec {
		return nil, false
	}
	return res, true
}

// gobTypesAgree: the two proxy types are identical, or are structs with the same field names whose types are
// identical once a pointer on either side is removed (gob flattens pointers).
func gobTypesAgree(a, b types.Type) bool {
	if a == nil || b == nil {
		return false
	}
	if types.Identical(a, b) {
		return true
	}
	sa, ok1 := a.Underlying().(*types.Struct)
	sb, ok2 := b.Underlying().(*types.Struct)
	if !ok1 || !ok2 || sa.NumFields() != sb.NumFields() {
		return false
	}
	for i := 0; i < sa.NumFields(); i++ {
		if sa.Field(i).Name() != sb.Field(i).Name() || !types.Identical(derefType(sa.Field(i).Type()), derefType(sb.Field(i).Type())) {
			return false
		}
	}
	return true
}
