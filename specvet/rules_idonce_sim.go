package main

import (
	"go/ast"
	"go/token"
	"go/types"
	"strings"
)

// idOnceBySim decides id-once on the effect normal form of the id-applying helper (found by role: a loader
// method with two string parameters one of whose paths registers its interface-typed parameter in the cache):
//   - guard: there is a path on which `record[base] == id` is known to hold; it hands the base back unchanged and
//     neither registers nor records;
//   - on every other path the schema is registered in the cache under the very base that is returned, the record
//     maps that base to the id, and nothing else decides whether this happens.
//
// The helpers the method is split into (id-to-document, record lookup, record update) are inlined.
// Returns false when no helper is found this way or the method is outside the supported fragment.
func (c *Ctx) idOnceBySim(rule string, fam *expFamily) bool {
	opaque := map[string]bool{"normalizeURI": true, "normalizeBase": true, "MustCreateRef": true, "NewRef": true, "debugLog": true, "denormalizeRef": true, "normalizeRef": true}
	for _, fd := range c.allFuncDecls() {
		if fd.Recv == nil || fd.Body == nil || c.recvTypeOf(fd) == nil || !isNamed(derefType(c.recvTypeOf(fd)), c.Types, fam.loader.Obj().Name()) {
			continue
		}
		self, _ := c.Info.Defs[fd.Name].(*types.Func)
		if self == nil || fam.members[self] {
			continue
		}
		sig := self.Type().(*types.Signature)
		var strs []types.Object
		var target types.Object
		for i := 0; i < sig.Params().Len(); i++ {
			t := sig.Params().At(i).Type()
			switch {
			case isStringType(t):
				strs = append(strs, c.paramObj(fd, i))
			default:
				if it, ok := t.Underlying().(*types.Interface); ok && it.Empty() {
					target = c.paramObj(fd, i)
				}
			}
		}
		if len(strs) != 2 || target == nil || sig.Results().Len() == 0 || !isStringType(sig.Results().At(0).Type()) {
			continue
		}
		s := &effsim{c: c, keepIndices: true, keepAllIndices: true, inline: func(f *types.Func) bool {
			return !opaque[f.Name()] && !fam.members[f] && f.Pkg() == c.Types
		}}
		st := &sstate{vars: map[types.Object]sval{}, heap: map[string]sval{}, hkeys: map[string]svPath{}}
		recv := c.recvObj(fd)
		if recv == nil {
			continue
		}
		st.vars[recv] = svPath{root: recv}
		for i := 0; ; i++ {
			p := c.paramObj(fd, i)
			if p == nil {
				break
			}
			st.vars[p] = svPath{root: p}
		}
		s.stack = append(s.stack, self)
		var paths []spath
		s.callBody(fd.Type, fd.Body, st, func(st *sstate, rets []sval) {
			paths = append(paths, spath{conds: st.conds, effs: st.effs, rets: rets})
			s.npaths++
			if s.npaths > effsimMaxPaths {
				s.fail("too many paths")
			}
		})
		if s.unsupported != "" || len(paths) == 0 {
			continue
		}
		// is this the id-applying helper: some path registers the target in the cache
		isSetOfTarget := func(e seffect) (sval, bool) {
			if e.kind != "call" || len(e.call.args) != 2 {
				return nil, false
			}
			f, ok := e.call.callee.(*types.Func)
			if !ok || f.Name() != "Set" {
				return nil, false
			}
			if p, ok := e.call.args[1].(svPath); !ok || p.root != target {
				return nil, false
			}
			return e.call.args[0], true
		}
		registers := false
		for _, p := range paths {
			for _, e := range p.effs {
				if _, ok := isSetOfTarget(e); ok {
					registers = true
				}
			}
		}
		if !registers {
			continue
		}
		fn := c.funcName(fd)
		c.saw(fn)
		isParam := func(v sval, o types.Object) bool {
			p, ok := v.(svPath)
			return ok && p.root == o && len(p.steps) == 0
		}
		// the record: a map below the receiver indexed by one string parameter and compared with the other
		var base, id types.Object
		var recSteps string
		guardSeen, guardOK := false, true
		// when the record is a small struct: the member that holds the id (the one a string parameter is stored in)
		idMember := ""
		var candidates map[string]bool
		for _, p := range paths {
			for _, e := range p.effs {
				if e.kind != "write" || e.dst.root != recv {
					continue
				}
				if st, isSt := e.val.(svStruct); isSt {
					here := map[string]bool{}
					for name, fv := range st.fields {
						for k := 0; k < 2; k++ {
							if name != "" && isParam(fv, strs[k]) {
								here[name] = true
							}
						}
					}
					// the member that holds the parameter in every record written
					if candidates == nil {
						candidates = here
					} else {
						for name := range candidates {
							if !here[name] {
								delete(candidates, name)
							}
						}
					}
				}
			}
		}
		if len(candidates) == 1 {
			for name := range candidates {
				idMember = name
			}
		}
		memberOK := func(v sval) bool {
			sel, isSel := v.(svSel)
			return !isSel || idMember == "" || sel.steps == idMember
		}
		for _, p := range paths {
			for _, cd := range expandConds(p.conds) {
				b, ok := cd.v.(svBin)
				if !ok || b.op != token.NEQ || cd.loop {
					continue
				}
				x, y := b.x, b.y
				if _, isIx := recordEntry(y); isIx {
					x, y = y, x
				}
				ix, isIx := recordEntry(x)
				if !isIx || !memberOK(x) {
					continue
				}
				rp, isRecv := ix.x.(svPath)
				if !isRecv || rp.root != recv {
					continue
				}
				for k := 0; k < 2; k++ {
					if isParam(ix.i, strs[k]) && isParam(y, strs[1-k]) {
						base, id, recSteps = strs[k], strs[1-k], strings.Join(rp.steps, ".")
						if cd.neg {
							// record[base] == id holds on this path: the guard path
							guardSeen = true
							if len(p.rets) == 0 || !isParam(p.rets[0], base) {
								guardOK = false
							}
							for _, e := range p.effs {
								if _, isSet := isSetOfTarget(e); isSet {
									guardOK = false
								}
								if e.kind == "write" && e.dst.root == recv {
									guardOK = false
								}
							}
						}
					}
				}
			}
		}
		// ... and every path decides on that very comparison (a guard that compares the record with something
		// derived from the id - its document form, say - misses the ids for which the two differ)
		if base != nil {
			for _, p := range paths {
				decided := false
				for _, cd := range expandConds(p.conds) {
					// (no entry for this base at all: the base was not produced by any id)
					if h, isHas := cd.v.(svHas); isHas && cd.neg && !cd.loop && isParam(h.i, base) {
						decided = true
					}
					b, ok := cd.v.(svBin)
					if !ok || b.op != token.NEQ || cd.loop {
						continue
					}
					for _, pr := range [][2]sval{{b.x, b.y}, {b.y, b.x}} {
						if ix, isIx := recordEntry(pr[0]); isIx && memberOK(pr[0]) && isParam(ix.i, base) && isParam(pr[1], id) {
							decided = true
						}
					}
				}
				if !decided {
					guardOK = false
				}
			}
		}
		c.idOnceSimDecided = true
		c.ob(rule, fn+":guard", fd.Pos(), guardSeen && guardOK,
			fn+" applies the id to the current base without first checking that this base was not itself produced by the same id (or does not hand the base back untouched when it was): a $ref leading back to the id's own location grows the base path at every unfolding and the expansion never terminates")
		if base == nil {
			c.ob(rule, fn+":record", fd.Pos(), false, fn+" does not record which id produced the new base path, so a later re-application of the same id cannot be recognised")
			return true
		}
		recorded, always, keyOK, plainBase := true, true, true, true
		npaths := 0
		for _, p := range paths {
			onGuard := false
			for _, cd := range expandConds(p.conds) {
				if b, ok := cd.v.(svBin); ok && b.op == token.NEQ && cd.neg {
					if ix, isIx := recordEntry(b.x); isIx && isParam(ix.i, base) {
						onGuard = true
					}
					if ix, isIx := recordEntry(b.y); isIx && isParam(ix.i, base) {
						onGuard = true
					}
				}
			}
			if onGuard || len(p.rets) == 0 {
				continue
			}
			npaths++
			newBase := p.rets[0]
			// the new base is what normalizeURI makes of (the id's document, the current base), as it is: passing it
			// through another normaliser (normalizeBase drops the fragment) makes an id such as "#part" stand for
			// its whole document, whose cache entry the sub-schema then overwrites
			if sc, isCall := newBase.(svCall); !isCall || sc.callee == nil || sc.callee.Name() != "normalizeURI" || sc.idx != 0 {
				plainBase = false
			} else {
				mentionsBase, mentionsID := false, false
				svWalk(sc, func(x sval) {
					if isParam(x, base) {
						mentionsBase = true
					}
					if isParam(x, id) {
						mentionsID = true
					}
				})
				if !mentionsBase || !mentionsID {
					plainBase = false
				}
			}
			set, rec := false, false
			for _, e := range p.effs {
				if key, isSet := isSetOfTarget(e); isSet {
					set = true
					if !svEqual(key, newBase) {
						keyOK = false
					}
				}
				if e.kind == "write" && e.dst.root == recv && len(e.dst.steps) > 0 {
					stepsNoKey := strings.Join(e.dst.steps[:len(e.dst.steps)-1], ".")
					last := e.dst.steps[len(e.dst.steps)-1]
					holdsID := isParam(e.val, id)
					if st, isSt := e.val.(svStruct); isSt {
						// a small record struct one member of which is the id
						for name, fv := range st.fields {
							if name != "" && isParam(fv, id) {
								holdsID = true
							}
						}
					}
					if stepsNoKey == recSteps && holdsID && last == "[#"+svString(newBase)+"]" {
						rec = true
					}
				}
			}
			if !set {
				always = false
			}
			if !rec {
				recorded = false
			}
		}
		// the scope chain: for a derived base the record must also tell which base the id was applied to, or an id
		// that was applied two scopes up (two schemas with relative ids that refer to each other) is not recognised
		// and the base grows at every unfolding
		linksParent := false
		for _, p := range paths {
			for _, e := range p.effs {
				if e.kind != "write" || e.dst.root != recv || len(e.dst.steps) == 0 || !strings.HasPrefix(e.dst.steps[len(e.dst.steps)-1], "[#") {
					continue
				}
				if isParam(e.val, base) {
					linksParent = true
				}
				if st, isSt := e.val.(svStruct); isSt {
					for name, fv := range st.fields {
						if name != "" && isParam(fv, base) {
							linksParent = true
						}
					}
				}
			}
		}
		c.ob(rule, fn+":scope-chain-recorded", fd.Pos(), linksParent,
			fn+" records which id produced a base but not which base that id was applied to: the guard only recognises an id that produced the current base, so two schemas with relative ids (with a directory part) that refer to each other re-apply each other's id on top of the other's base at every unfolding; the base grows, the cycle cut never sees the same key, and the expansion overflows the stack")
		c.ob(rule, fn+":record", fd.Pos(), recorded && npaths > 0,
			fn+" does not record, under the new base path it returns, which id produced it: a later re-application of the same id cannot be recognised")
		c.ob(rule, fn+":registers-always", fd.Pos(), always && keyOK && npaths > 0,
			"past the guard the id-scoped schema is not registered on every path under the very base that is returned (for instance only when nothing is cached there yet, or under another key): a $ref through the id reaches the wrong schema, or the schema of an earlier root")
		c.ob(rule, fn+":new-base", fd.Pos(), plainBase && npaths > 0,
			"the base path handed back for an id is not the result of normalizeURI(id document, current base) itself: an id that is only a fragment (or a further normalisation that drops one) makes the sub-schema stand for, and overwrite, its whole document in the cache")
		// the record is written nowhere else
		var others []string
		for _, g := range c.allFuncDecls() {
			if g.Body == nil || g == fd {
				continue
			}
			gf, _ := c.Info.Defs[g.Name].(*types.Func)
			if gf != nil && c.reachesFrom(self, gf) {
				continue // one of the helpers the method is split into
			}
			ast.Inspect(g.Body, func(n ast.Node) bool {
				as, ok := n.(*ast.AssignStmt)
				if !ok {
					return true
				}
				for _, l := range as.Lhs {
					if ix, ok := unparen(l).(*ast.IndexExpr); ok {
						if p, ok := c.apath(ix.X); ok && strings.HasSuffix(recSteps, p.Sub()) && p.Sub() != "" && strings.HasSuffix(p.Sub(), lastOf(recSteps)) {
							if f := c.fieldOfSel(ix.X); f != nil && f.Name() == lastOf(recSteps) {
								others = append(others, c.funcName(g))
							}
						}
					}
				}
				return true
			})
		}
		c.ob(rule, fn+":record-private", fd.Pos(), len(others) == 0, "the id record is also written by "+joinSteps(others))
		return true
	}
	return false
}

func lastOf(dotted string) string {
	parts := strings.Split(dotted, ".")
	return parts[len(parts)-1]
}

// reachesFrom: g is reachable from f through static package calls.
func (c *Ctx) reachesFrom(f, g *types.Func) bool {
	return c.reaches(f, func(h *types.Func) bool { return h == g })
}

// recordEntry: the value is an entry of a map (m[k]) or a field of such an entry (m[k].id): the entry.
func recordEntry(v sval) (svIndex, bool) {
	switch x := v.(type) {
	case svIndex:
		return x, true
	case svSel:
		if ix, ok := x.x.(svIndex); ok && !strings.Contains(x.steps, ".") {
			return ix, true
		}
	}
	return svIndex{}, false
}

// expandConds splits conjunctions: on the branch where `a && b` holds both do; on the other branch the
// comparisons it contains are taken not to hold (an entry that is absent has not the value looked for).
func expandConds(conds []scond) []scond {
	var out []scond
	var add func(v sval, neg bool, loop bool)
	add = func(v sval, neg bool, loop bool) {
		switch x := v.(type) {
		case svNot:
			add(x.x, !neg, loop)
			return
		case svBin:
			if x.op == token.LAND {
				if !neg {
					add(x.x, false, loop)
					add(x.y, false, loop)
				} else {
					// not (a && b): each comparison below it fails as far as the guard is concerned
					for _, part := range []sval{x.x, x.y} {
						if n, isNot := part.(svNot); isNot {
							add(n.x, false, loop)
						} else if b, isB := part.(svBin); isB && b.op == token.NEQ {
							add(b, true, loop)
						}
					}
				}
				return
			}
		}
		out = append(out, scond{v: v, neg: neg, loop: loop})
	}
	for _, cd := range conds {
		add(cd.v, cd.neg, cd.loop)
	}
	return out
}
