package main

import (
	"bufio"
	"crypto/sha1"
	"encoding/json"
	"fmt"
	"os"
	"path/filepath"
	"sort"
	"strings"
	"time"
)

// Rule is a named analysis with a floor: the minimum number of obligations
// it must produce (hand-confirmed on the reference tree). Fewer means the
// rule lost its anchors and would pass vacuously: that fails the check.
type Rule struct {
	Name  string
	Run   func(c *Ctx)
	Floor int
	Doc   string
}

type Property struct {
	ID          string
	Rules       []string
	Explanation string
	NotCovered  string
}

var ruleTable = map[string]*Rule{}

func registerRule(name string, floor int, doc string, run func(c *Ctx)) {
	ruleTable[name] = &Rule{Name: name, Run: run, Floor: floor, Doc: doc}
}

type knownFinding struct {
	Property string
	Key      string
	Text     string
}

func loadKnown(path string) ([]knownFinding, error) {
	f, err := os.Open(path)
	if err != nil {
		if os.IsNotExist(err) {
			return nil, nil
		}
		return nil, err
	}
	defer f.Close()
	var out []knownFinding
	sc := bufio.NewScanner(f)
	sc.Buffer(make([]byte, 1<<20), 1<<20)
	for sc.Scan() {
		line := strings.TrimSpace(sc.Text())
		if !strings.HasPrefix(line, "known:") {
			continue // comments and "fixed:" entries suppress nothing
		}
		rest := strings.TrimSpace(strings.TrimPrefix(line, "known:"))
		fs := strings.Fields(rest)
		kf := knownFinding{}
		n := 0
		for _, w := range fs {
			if strings.HasPrefix(w, "property=") && kf.Property == "" {
				kf.Property = strings.TrimPrefix(w, "property=")
				n++
			} else if strings.HasPrefix(w, "key=") && kf.Key == "" {
				kf.Key = strings.TrimPrefix(w, "key=")
				n++
			} else {
				break
			}
		}
		if kf.Property == "" || kf.Key == "" {
			continue
		}
		kf.Text = strings.Join(fs[n:], " ")
		out = append(out, kf)
	}
	return out, sc.Err()
}

type runResult struct {
	obs        []*Obligation
	notes      []string
	analysed   map[string]bool
	configs    []string
	ruleCounts map[string]int
}

// runProperty runs the property's rules on the given configurations.
func runProperty(p *Property, repo string, configs [][2]string) (*runResult, error) {
	res := &runResult{analysed: map[string]bool{}, ruleCounts: map[string]int{}}
	for _, cf := range configs {
		c, err := load(repo, cf[0], cf[1])
		if err != nil {
			return nil, fmt.Errorf("config %s/%s: %w", cf[0], cf[1], err)
		}
		res.configs = append(res.configs, c.Config)
		for _, rn := range p.Rules {
			r := ruleTable[rn]
			if r == nil {
				return nil, fmt.Errorf("unknown rule %q", rn)
			}
			before := len(c.obs)
			c.curRule = rn
			func() {
				defer func() {
					if e := recover(); e != nil {
						// a crash of a rule is never a silent pass
						c.undecided(rn, "rule-panic", 0, fmt.Sprint(e))
					}
				}()
				r.Run(c)
			}()
			n := len(c.obs) - before
			if cf == configs[0] {
				res.ruleCounts[rn] = n
			}
			if n < r.Floor {
				c.add(rn, "floor", 0, "violated", fmt.Sprintf("rule matched %d constructs, floor is %d: anchors lost (rule would pass vacuously)", n, r.Floor))
			}
		}
		res.obs = append(res.obs, c.obs...)
		for _, n := range c.notes {
			res.notes = append(res.notes, "["+c.Config+"] "+n)
		}
		for k := range c.analysed {
			res.analysed[k] = true
		}
	}
	return res, nil
}

type evidence struct {
	PropertyID  string                 `json:"property_id"`
	Tier        string                 `json:"tier"`
	Seed        int                    `json:"seed"`
	Level       string                 `json:"level"`
	Coverage    map[string]interface{} `json:"coverage"`
	Assumptions []string               `json:"assumptions"`
	WallS       float64                `json:"wall_s"`
	Violations  int                    `json:"violations"`
}

func verifDir() string {
	if d := os.Getenv("VERIF_DIR"); d != "" {
		return d
	}
	exe, err := os.Executable()
	if err == nil {
		d := filepath.Dir(filepath.Dir(exe))
		if _, err := os.Stat(filepath.Join(d, "properties.jsonl")); err == nil {
			return d
		}
	}
	wd, _ := os.Getwd()
	return wd
}

// report prints verdicts, writes evidence and returns the exit code.
func report(p *Property, tier string, seed int, res *runResult, start time.Time, extra map[string]interface{}, writeEvidence bool) int {
	vd := verifDir()
	known, err := loadKnown(filepath.Join(vd, "known_findings.txt"))
	if err != nil {
		fmt.Printf("CHECKER-ERROR cannot read known_findings.txt: %v\n", err)
		return 2
	}
	isKnown := func(key string) *knownFinding {
		for i := range known {
			if known[i].Property == p.ID && known[i].Key == key {
				return &known[i]
			}
		}
		return nil
	}

	fmt.Printf("specvet property=%s tier=%s configs=%s\n", p.ID, tier, strings.Join(res.configs, ","))
	fmt.Printf("rules: %s\n", strings.Join(p.Rules, ", "))
	fns := sortedKeys(res.analysed)
	fmt.Printf("functions analysed (%d): %s\n", len(fns), strings.Join(fns, " "))

	total, discharged, violated, undecided, knownN := 0, 0, 0, 0, 0
	distinct := map[string]bool{}
	perRule := map[string][2]int{}
	var samples []interface{}
	sampleByRule := map[string]int{}
	var bad []*Obligation
	seenBad := map[string]bool{}
	for _, o := range res.obs {
		total++
		pr := perRule[o.Rule]
		pr[0]++
		switch o.Verdict {
		case "discharged":
			discharged++
			pr[1]++
		case "violated":
			violated++
		default:
			undecided++
		}
		perRule[o.Rule] = pr
		if !o.Trivial {
			distinct[o.FullKey()] = true
		}
		if sampleByRule[o.Rule] < 4 && o.Config == res.configs[0] {
			sampleByRule[o.Rule]++
			samples = append(samples, map[string]string{"rule": o.Rule, "key": o.Key, "pos": o.Pos, "verdict": o.Verdict, "why": o.Why})
		}
		if o.Verdict != "discharged" {
			if !seenBad[o.FullKey()] {
				seenBad[o.FullKey()] = true
				bad = append(bad, o)
			}
		}
	}
	if os.Getenv("SPECVET_VERBOSE") != "" {
		for _, o := range res.obs {
			fmt.Printf("  %-10s %s:%s @%s %s\n", o.Verdict, o.Rule, o.Key, o.Pos, o.Why)
		}
	}
	rn := make([]string, 0, len(perRule))
	for r := range perRule {
		rn = append(rn, r)
	}
	sort.Strings(rn)
	ruleSummary := map[string]interface{}{}
	for _, r := range rn {
		floor := 0
		if rt := ruleTable[r]; rt != nil {
			floor = rt.Floor
		}
		fmt.Printf("rule %-22s obligations=%-4d discharged=%-4d floor=%d\n", r, perRule[r][0], perRule[r][1], floor)
		ruleSummary[r] = map[string]int{"obligations": perRule[r][0], "discharged": perRule[r][1], "floor": floor}
	}
	for _, n := range res.notes {
		fmt.Printf("note: %s\n", n)
	}

	exit := 0
	newViol := 0
	for _, o := range bad {
		if o.Verdict == "violated" {
			if kf := isKnown(o.FullKey()); kf != nil {
				knownN++
				fmt.Printf("KNOWN-FINDING: property=%s %s @%s %s\n", p.ID, o.FullKey(), o.Pos, kf.Text)
				continue
			}
		}
		newViol++
		rp := writeReplay(vd, p.ID, o)
		fmt.Printf("%s %s:%s @%s [%s] %s\n", strings.ToUpper(o.Verdict), o.Rule, o.Key, o.Pos, o.Config, o.Why)
		fmt.Printf("VIOLATION property=%s replay=%s\n", p.ID, rp)
		exit = 1
	}
	fmt.Printf("summary property=%s obligations=%d discharged=%d violated=%d undecided=%d known=%d new=%d\n",
		p.ID, total, discharged, violated, undecided, knownN, newViol)

	if writeEvidence {
		ruleDocs := []string{}
		for _, r := range p.Rules {
			if rt := ruleTable[r]; rt != nil {
				ruleDocs = append(ruleDocs, r+": "+rt.Doc)
			}
		}
		cov := map[string]interface{}{
			"explanation":         p.Explanation + " Rules applied in this run - " + strings.Join(ruleDocs, "; ") + ".",
			"not_covered":         p.NotCovered,
			"obligations":         total,
			"discharged":          discharged,
			"violated_known":      knownN,
			"violated_new":        newViol,
			"evaluations":         total,
			"distinct_nontrivial": len(distinct),
			"rule": "one obligation per (rule, program construct); key = rule:construct, stable across unrelated edits; " +
				"distinct_nontrivial counts distinct keys over all configurations, excluding obligations a rule marks trivially true",
			"samples":            samples,
			"checker_cmd":        fmt.Sprintf("bin/specvet -property %s -tier %s", p.ID, tier),
			"trusted_base":       []string{"go/types (Go 1.23.5)", "golang.org/x/tools v0.29.0 go/packages, go/cfg, go/types/typeutil", "documented semantics of encoding/json, encoding/gob, swag, jsonpointer, jsonreference", "schemas/v2/schema.json and schemas/jsonschema-draft-04.json as vocabulary oracle"},
			"rules":              ruleSummary,
			"configurations":     res.configs,
			"functions_analysed": fns,
			"notes":              res.notes,
			"exhaustive":         false,
		}
		for k, v := range extra {
			cov[k] = v
		}
		ev := evidence{
			PropertyID: p.ID, Tier: tier, Seed: seed, Level: "other", Coverage: cov,
			Assumptions: []string{
				"static analysis only: no code of the package is executed; value-level clauses listed under not_covered are not decided",
				"dependencies behave as documented (encoding/json field resolution, gob, swag.ConcatJSON, jsonpointer, jsonreference)",
			},
			WallS: time.Since(start).Seconds(), Violations: newViol,
		}
		b, _ := json.MarshalIndent(ev, "", " ")
		os.MkdirAll(filepath.Join(vd, "evidence"), 0o755)
		if err := os.WriteFile(filepath.Join(vd, "evidence", p.ID+".json"), b, 0o644); err != nil {
			fmt.Printf("CHECKER-ERROR cannot write evidence: %v\n", err)
			return 2
		}
	}
	return exit
}

type replayFile struct {
	Property string `json:"property"`
	Rule     string `json:"rule"`
	Key      string `json:"key"`
	Pos      string `json:"pos"`
	Verdict  string `json:"verdict"`
	Why      string `json:"why"`
	Config   string `json:"config"`
}

func writeReplay(vd, prop string, o *Obligation) string {
	if os.Getenv("SPECVET_NOREPLAY") != "" {
		return "-"
	}
	dir := filepath.Join(vd, "replay")
	os.MkdirAll(dir, 0o755)
	h := sha1.Sum([]byte(prop + o.FullKey()))
	path := filepath.Join(dir, fmt.Sprintf("%s-%x.json", prop, h[:6]))
	b, _ := json.MarshalIndent(replayFile{Property: prop, Rule: o.Rule, Key: o.Key, Pos: o.Pos, Verdict: o.Verdict, Why: o.Why, Config: o.Config}, "", " ")
	os.WriteFile(path, b, 0o644)
	return path
}
