package main

import (
	"fmt"
	"go/ast"
	"go/constant"
	"go/token"
	"go/types"
	"reflect"
	"sort"
	"strconv"
	"strings"
)

func init() {
	registerRule("cache-hit-is-presence", 2, "the package's resolution cache answers 'found' exactly when the key is present in its table, hands back what the table holds, and stores what it is given under the key it is given", ruleCacheHitIsPresence)
}

// simulateIndexed normalises fd with map / slice indices kept in the written locations ("[#key]" steps).
func (c *Ctx) simulateIndexed(fd *ast.FuncDecl) ([]spath, string) {
	s := &effsim{c: c, keepIndices: true, keepAllIndices: true}
	st := &sstate{vars: map[types.Object]sval{}, heap: map[string]sval{}, hkeys: map[string]svPath{}}
	if r := c.recvObj(fd); r != nil {
		st.vars[r] = svPath{root: r}
	}
	for i := 0; ; i++ {
		p := c.paramObj(fd, i)
		if p == nil {
			break
		}
		st.vars[p] = svPath{root: p}
	}
	if f, ok := c.Info.Defs[fd.Name].(*types.Func); ok {
		s.stack = append(s.stack, f)
	}
	var out []spath
	s.callBody(fd.Type, fd.Body, st, func(st *sstate, rets []sval) {
		out = append(out, spath{conds: st.conds, effs: st.effs, rets: rets, final: st.vars})
		s.npaths++
		if s.npaths > effsimMaxPaths {
			s.fail("more than %d paths", effsimMaxPaths)
		}
	})
	return out, s.unsupported
}

// ruleCacheHitIsPresence (C18/C11): for every type of the package that implements ResolutionCache, on the effect
// normal form of its methods:
//
//	Get: the bool result is the comma-ok of indexing a table below the receiver with the key parameter (or a
//	     constant decided by a test of that comma-ok), and the value result on a 'found' path is the indexed entry;
//	     a test of the entry itself (nil-ness, type) never decides the answer - a document whose value is null is a
//	     document;
//	Set: on every path the data parameter is stored in the same table under the key parameter.
func ruleCacheHitIsPresence(c *Ctx) {
	const rule = "cache-hit-is-presence"
	iface := c.resolutionCacheIface()
	if iface.NumMethods() == 0 {
		c.undecided(rule, "interface", token.NoPos, "type ResolutionCache not found")
		return
	}
	n := 0
	for _, name := range c.Types.Scope().Names() {
		tn, ok := c.Types.Scope().Lookup(name).(*types.TypeName)
		if !ok || tn.IsAlias() {
			continue
		}
		named, ok := tn.Type().(*types.Named)
		if !ok {
			continue
		}
		if _, isI := named.Underlying().(*types.Interface); isI {
			continue
		}
		if !types.Implements(types.NewPointer(named), iface) && !types.Implements(named, iface) {
			continue
		}
		n++
		get, set := c.decl(c.method(name, "Get")), c.decl(c.method(name, "Set"))
		var table string
		if get == nil || get.Body == nil {
			c.undecided(rule, name+".Get", token.NoPos, "method Get not found")
		} else {
			c.saw(c.funcName(get))
			table = c.cacheGetFacts(rule, name, get)
		}
		if set == nil || set.Body == nil {
			c.undecided(rule, name+".Set", token.NoPos, "method Set not found")
		} else {
			c.saw(c.funcName(set))
			c.cacheSetFacts(rule, name, set, table)
		}
	}
	if n == 0 {
		c.undecided(rule, "implementation", token.NoPos, "no type of the package implements ResolutionCache")
	}
}

func isBareParam(v sval, o types.Object) bool {
	p, ok := v.(svPath)
	return ok && o != nil && p.root == o && len(p.steps) == 0 && p.via == nil
}

// cacheGetFacts files the obligations of Get and returns the table (steps below the receiver) it consults.
func (c *Ctx) cacheGetFacts(rule, tname string, fd *ast.FuncDecl) string {
	fn := c.funcName(fd)
	paths, unsup := c.simulateIndexed(fd)
	if unsup != "" || len(paths) == 0 {
		c.undecided(rule, fn+":found-is-presence", fd.Pos(), "Get is outside the fragment the normaliser supports: "+unsup)
		return ""
	}
	recv, key := c.recvObj(fd), c.paramObj(fd, 0)
	table := ""
	isTableHas := func(v sval) (svHas, bool) {
		h, ok := v.(svHas)
		if !ok {
			return h, false
		}
		p, isP := h.x.(svPath)
		if !isP || p.root != recv || len(p.steps) == 0 || !isBareParam(h.i, key) {
			return h, false
		}
		return h, true
	}
	why, whyVal := "", ""
	for _, p := range paths {
		if len(p.rets) != 2 {
			why = "a path does not return (value, found)"
			break
		}
		var h svHas
		found, decided := false, false // found: the path answers true
		switch r := p.rets[1].(type) {
		case svHas:
			hh, ok := isTableHas(r)
			if !ok {
				why = "the answer is " + svString(r) + ", not the presence of the key parameter in a table of the receiver"
			}
			h, decided, found = hh, ok, true
		case svConst:
			b, isB := constBool(r)
			if !isB {
				why = "the answer is " + svString(r)
				break
			}
			for _, cd := range p.conds {
				if hh, ok := isTableHas(cd.v); ok && !cd.loop && cd.neg == !b {
					h, decided, found = hh, true, b
				}
			}
			if !decided {
				var tests []string
				for _, cd := range p.conds {
					if !cd.loop {
						t := svString(cd.v)
						if cd.neg {
							t = "!(" + t + ")"
						}
						tests = append(tests, t)
					}
				}
				why = fmt.Sprintf("a path answers %v under %s: not decided by the presence of the key in the table (an entry whose value is nil - a document that is `null` - or of another type is still an entry)", b, strings.Join(tests, " && "))
			}
		default:
			why = "the answer is " + svString(r) + ", not the presence of the key parameter in a table of the receiver"
		}
		if why != "" {
			break
		}
		if decided {
			t := strings.Join(h.x.(svPath).steps, ".")
			if table == "" {
				table = t
			} else if table != t {
				why = "two tables are consulted: " + table + " and " + t
				break
			}
		}
		if found {
			want := svIndex{h.x, h.i}
			if !svEqual(p.rets[0], want) {
				whyVal = "on a 'found' path the value handed back is " + svString(p.rets[0]) + ", not the entry " + svString(want)
			}
		}
	}
	c.ob(rule, fn+":found-is-presence", fd.Pos(), why == "", why)
	if why == "" {
		c.ob(rule, fn+":hands-back-entry", fd.Pos(), whyVal == "", whyVal)
	}
	return table
}

func (c *Ctx) cacheSetFacts(rule, tname string, fd *ast.FuncDecl, table string) {
	fn := c.funcName(fd)
	paths, unsup := c.simulateIndexed(fd)
	if unsup != "" || len(paths) == 0 {
		c.undecided(rule, fn+":stores-under-key", fd.Pos(), "Set is outside the fragment the normaliser supports: "+unsup)
		return
	}
	recv, key, data := c.recvObj(fd), c.paramObj(fd, 0), c.paramObj(fd, 1)
	why := ""
	for _, p := range paths {
		stored := false
		for _, e := range p.effs {
			if e.kind != "write" || e.dst.root != recv || len(e.dst.steps) < 2 {
				continue
			}
			last := e.dst.steps[len(e.dst.steps)-1]
			if !strings.HasPrefix(last, "[") {
				continue
			}
			tbl := strings.Join(e.dst.steps[:len(e.dst.steps)-1], ".")
			if table != "" && tbl != table {
				continue
			}
			if last != "[#"+key.Name()+"]" {
				why = "the entry is stored under " + last + ", not under the key parameter"
				continue
			}
			if !isBareParam(e.val, data) {
				why = "what is stored is " + svString(e.val) + ", not the data parameter"
				continue
			}
			stored = true
		}
		if !stored && why == "" {
			why = "a path returns without storing the data parameter under the key parameter in " + tname + "." + table
		}
	}
	c.ob(rule, fn+":stores-under-key", fd.Pos(), why == "", why)
}

func init() {
	registerRule("chain-followed", 1, "the chain dereference stops (with success, after a hop has been resolved) only where the $ref it found is known to be empty or unchanged; on every other path it follows the next hop", ruleChainFollowed)
}

// ruleChainFollowed (C02/C09): on the effect normal form of the chain dereference (leaf helpers inlined), every path
// that resolves a hop and then returns nil without calling the dereference again carries the test that the $ref
// read after the resolution is "" or equals the $ref read before it. A path that stops for any other reason (a
// non-empty list of parents, say) leaves a chain of three or more hops half followed.
func ruleChainFollowed(c *Ctx) {
	const rule = "chain-followed"
	fam := c.family()
	if !fam.ok() {
		c.undecided(rule, "family", token.NoPos, "expander family not found by role")
		return
	}
	deref := c.chainDeref(fam)
	if deref == nil {
		c.undecided(rule, "deref", token.NoPos, "chain-dereference method not found by role")
		return
	}
	fd := c.decl(deref)
	fn := c.funcName(fd)
	c.saw(fn)
	selfCall := false
	ast.Inspect(fd.Body, func(n ast.Node) bool {
		if call, ok := n.(*ast.CallExpr); ok && c.callee(call) == deref {
			selfCall = true
		}
		return true
	})
	if !selfCall {
		// the recursion written as a loop: the loop test is decided by chain-ref-absolute; nothing to add here
		c.ob(rule, fn+":stops-only-when-settled", fd.Pos(), true, "")
		return
	}
	leaf := func(f *types.Func) bool {
		g := c.decl(f)
		return g != nil && g.Body != nil && len(c.staticCallees(f)) == 0 && f != fam.resolveRef
	}
	paths, unsup := c.simulate(fd, leaf)
	if unsup != "" {
		paths, unsup = c.simulate(fd, func(*types.Func) bool { return false })
	}
	if unsup != "" || len(paths) == 0 {
		c.undecided(rule, fn+":stops-only-when-settled", fd.Pos(), "the chain dereference is outside the fragment the normaliser supports: "+unsup)
		return
	}
	isRefString := func(v sval) (*svCall, bool) {
		sc, ok := v.(svCall)
		if !ok {
			return nil, false
		}
		f, isF := sc.callee.(*types.Func)
		if !isF || f.Name() != "String" || len(sc.args) != 0 || sc.recv == nil {
			return nil, false
		}
		sig := f.Type().(*types.Signature)
		if sig.Recv() == nil {
			return nil, false
		}
		rt := derefType(sig.Recv().Type())
		n, isN := types.Unalias(rt).(*types.Named)
		if !isN || n.Obj().Name() != "Ref" {
			return nil, false
		}
		return &sc, true
	}
	why := ""
	nStop := 0
	for _, p := range paths {
		resolveID := -1
		follows := false
		for _, e := range p.effs {
			if e.kind != "call" {
				continue
			}
			if e.call.callee == fam.resolveRef && resolveID < 0 {
				resolveID = e.call.id
			}
			if e.call.callee == deref && resolveID >= 0 {
				follows = true
			}
		}
		if resolveID < 0 || follows || len(p.rets) != 1 {
			continue
		}
		if _, isNil := p.rets[0].(svNil); !isNil {
			continue
		}
		nStop++
		settled := false
		for _, cd := range p.conds {
			b, ok := cd.v.(svBin)
			if !ok || b.op != token.NEQ || !cd.neg || cd.loop {
				continue
			}
			for _, pair := range [][2]sval{{b.x, b.y}, {b.y, b.x}} {
				post, ok := isRefString(pair[0])
				if !ok || post.id < resolveID {
					continue
				}
				if k, isK := pair[1].(svConst); isK && k.v.String() == `""` {
					settled = true
				}
				if pre, ok := isRefString(pair[1]); ok && pre.id < resolveID {
					settled = true
				}
			}
		}
		if !settled && why == "" {
			var tests []string
			for _, cd := range p.conds {
				if cd.loop {
					continue
				}
				if b, ok := cd.v.(svBin); ok {
					if _, isS := isRefString(b.x); !isS {
						if _, isS = isRefString(b.y); !isS {
							if _, isCall := b.x.(svCall); !isCall {
								continue
							}
						}
					}
				} else {
					continue
				}
				t := svString(cd.v)
				if cd.neg {
					t = "!" + t
				}
				tests = append(tests, t)
			}
			why = "a path resolves a hop and returns nil without following the next one although the $ref found is not known to be empty or unchanged (tests on the path: " + strings.Join(tests, ", ") + "): a chain of three or more hops is left half followed"
		}
	}
	if nStop == 0 && why == "" {
		why = "no path of the chain dereference stops with success after resolving a hop"
	}
	c.ob(rule, fn+":stops-only-when-settled", fd.Pos(), why == "", why)
}

func init() {
	registerRule("decode-once", 10, "no decoder hands the same bytes twice to the standard decoder for the same part when that part can contain the decoder's own type: the work would double at every level of nesting", ruleDecodeOnce)
}

// typeContains: can a value of type t hold (through fields, pointers, slices, arrays, maps) a value of the named
// type target?
func typeContains(t types.Type, target *types.TypeName, seen map[types.Type]bool) bool {
	t = types.Unalias(t)
	if seen[t] {
		return false
	}
	seen[t] = true
	switch x := t.(type) {
	case *types.Named:
		if x.Obj() == target {
			return true
		}
		return typeContains(x.Underlying(), target, seen)
	case *types.Pointer:
		return typeContains(x.Elem(), target, seen)
	case *types.Slice:
		return typeContains(x.Elem(), target, seen)
	case *types.Array:
		return typeContains(x.Elem(), target, seen)
	case *types.Map:
		return typeContains(x.Elem(), target, seen)
	case *types.Struct:
		for i := 0; i < x.NumFields(); i++ {
			if typeContains(x.Field(i).Type(), target, seen) {
				return true
			}
		}
	}
	return false
}

// ruleDecodeOnce (C07): on the effect normal form of every UnmarshalJSON method of the package (helpers inlined,
// variadic packs and literal tables unrolled), no path hands the same source bytes to json.Unmarshal twice for the
// same destination when the destination's type can contain the receiver's type. Decoding such a part twice makes
// the decoder of a document nested n levels deep run 2^n times: the decoder "hangs" on a small input.
func ruleDecodeOnce(c *Ctx) {
	const rule = "decode-once"
	for _, fd := range c.allFuncDecls() {
		if fd.Body == nil || fd.Recv == nil || fd.Name.Name != "UnmarshalJSON" {
			continue
		}
		recv := c.recvObj(fd)
		if recv == nil {
			continue
		}
		named, ok := types.Unalias(derefType(recv.Type())).(*types.Named)
		if !ok {
			continue
		}
		paths, unsup := c.simulate(fd, nil)
		if unsup != "" || len(paths) == 0 {
			continue // outside the fragment: nothing is claimed for this decoder
		}
		fn := c.funcName(fd)
		c.saw(fn)
		why := ""
		pos := fd.Pos()
		for _, p := range paths {
			var calls []*svCall
			var poss []token.Pos
			for _, e := range p.effs {
				if e.kind != "call" || len(e.call.args) != 2 {
					continue
				}
				f, isF := e.call.callee.(*types.Func)
				if !isF || f.Pkg() == nil || f.Name() != "Unmarshal" || f.Pkg().Path() != "encoding/json" {
					continue
				}
				calls = append(calls, e.call)
				poss = append(poss, e.pos)
			}
			for i := 0; i < len(calls) && why == ""; i++ {
				for j := i + 1; j < len(calls); j++ {
					if !svEqual(calls[i].args[0], calls[j].args[0]) || !svEqual(calls[i].args[1], calls[j].args[1]) {
						continue
					}
					ad, isAddr := calls[i].args[1].(svAddr)
					if !isAddr {
						continue
					}
					t := c.simTypeAtPath(ad.p)
					if t == nil || !typeContains(t, named.Obj(), map[types.Type]bool{}) {
						continue
					}
					why = fmt.Sprintf("a path decodes the same bytes twice into %s, whose type %s can contain a %s: the decoder of a value nested n levels deep runs 2^n times", svString(calls[i].args[1]), t.String(), named.Obj().Name())
					pos = poss[j]
					break
				}
			}
			if why != "" {
				break
			}
		}
		c.ob(rule, fn+":no-part-twice", pos, why == "", why)
	}
}

// simTypeAtPath: the static type of a location of the normal form (nil when a step cannot be followed).
func (c *Ctx) simTypeAtPath(p svPath) types.Type {
	if p.root == nil {
		return nil
	}
	t := p.root.Type()
	for _, stp := range p.steps {
		switch {
		case stp == "*":
			t = derefType(t)
		case strings.HasPrefix(stp, "["):
			switch u := derefType(t).Underlying().(type) {
			case *types.Slice:
				t = u.Elem()
			case *types.Array:
				t = u.Elem()
			case *types.Map:
				t = u.Elem()
			default:
				return nil
			}
		default:
			st, ok := derefType(t).Underlying().(*types.Struct)
			if !ok {
				return nil
			}
			var ft types.Type
			for i := 0; i < st.NumFields(); i++ {
				if st.Field(i).Name() == stp {
					ft = st.Field(i).Type()
				}
			}
			if ft == nil {
				return nil
			}
			t = ft
		}
	}
	return t
}

// keyFilterBySim decides, on the effect normal form of an encoder (helpers and methods of the map type inlined),
// that every entry of a user-keyed map below the receiver that is copied into a map made during the call is
// copied under a test that its key starts with `want` (case-insensitively when lower is set).
func (c *Ctx) keyFilterBySim(fd *ast.FuncDecl, want string, lower bool) (ok bool, why string, decided bool) {
	paths, unsup := c.simulate(fd, nil)
	if unsup != "" || len(paths) == 0 {
		return false, "", false
	}
	recv := c.recvObj(fd)
	isPrefixTest := func(v sval) bool {
		_, ok := c.simPrefixTest(v, want, lower)
		return ok
	}
	stores, guarded := 0, 0
	for _, p := range paths {
		for _, e := range p.effs {
			if e.kind != "write" || len(e.dst.steps) == 0 || !strings.HasPrefix(e.dst.steps[len(e.dst.steps)-1], "[") {
				continue
			}
			el, isElem := e.val.(svElem)
			if !isElem {
				continue
			}
			src, isPath := el.of.(svPath)
			if !isPath || src.root != recv {
				continue
			}
			if t := c.simTypeAtPath(src); t == nil {
				continue
			} else if _, isMap := t.Underlying().(*types.Map); !isMap {
				continue
			}
			stores++
			okStore := false
			n := e.ncond
			if n > len(p.conds) {
				n = len(p.conds)
			}
			for _, cd := range p.conds[:n] {
				if !cd.neg && !cd.loop && isPrefixTest(cd.v) {
					okStore = true
				}
			}
			if okStore {
				guarded++
			} else if why == "" {
				why = fmt.Sprintf("a key of the user-supplied map is emitted without the %q prefix test: it can collide with a tagged member of the same object", want)
			}
		}
	}
	if stores == 0 {
		return false, "the encoder no longer builds a filtered copy of the user-keyed map", true
	}
	if stores != guarded {
		// the other way round: everything is copied into a map made during the call, and that map is then walked
		// and every key that fails the prefix test is deleted from it before it is encoded
		filtered := false
		for _, p := range paths {
			for _, e := range p.effs {
				if e.kind != "call" || e.call.call == nil || !c.isBuiltin(e.call.call, "delete") || len(e.call.args) != 2 {
					continue
				}
				if _, isMade := e.call.args[0].(svFresh); !isMade {
					continue
				}
				n := e.ncond
				if n > len(p.conds) {
					n = len(p.conds)
				}
				inLoop, failsTest := false, false
				for _, cd := range p.conds[:n] {
					if cd.loop && !cd.neg && svEqual(cd.v, e.call.args[0]) {
						inLoop = true
					}
					if cd.neg && !cd.loop && isPrefixTest(cd.v) {
						failsTest = true
					}
				}
				if inLoop && failsTest {
					filtered = true
				}
			}
		}
		if filtered {
			return true, "", true
		}
	}
	return stores == guarded, why, true
}

// enclosingCond: the outermost boolean expression (operand chain of && / ||, a return value, an if condition) that
// contains the node.
func (c *Ctx) enclosingCond(n ast.Node) ast.Expr {
	for _, fd := range c.allFuncDecls() {
		if fd.Body == nil || !(fd.Pos() <= n.Pos() && n.End() <= fd.End()) {
			continue
		}
		var best ast.Expr
		ast.Inspect(fd.Body, func(m ast.Node) bool {
			if m == nil || !(m.Pos() <= n.Pos() && n.End() <= m.End()) {
				return false
			}
			if e, ok := m.(ast.Expr); ok && best == nil {
				if tv, has := c.Info.Types[e]; has && tv.Type != nil {
					if b, isBasic := tv.Type.Underlying().(*types.Basic); isBasic && b.Info()&types.IsBoolean != 0 {
						best = e
					}
				}
			}
			return true
		})
		return best
	}
	return nil
}

func init() {
	registerRule("fragment-kept", 8, "in an encoder that joins fragments, every fragment that is rendered on a successful path reaches the join: none is dropped or overwritten before it", ruleFragmentKept)
}

// ruleFragmentKept (C01/C06): on the effect normal form of every MarshalJSON method that calls swag.ConcatJSON
// (helpers inlined, loops over literal tables unrolled, element indices kept), on every path that returns a nil
// error, the result of every json.Marshal / ConcatJSON call is used afterwards: handed to a later call, returned,
// or stored in an element of a local slice that is not stored into again before the function returns. A store at
// an index that is not a constant (blobs[len(blobs)-1] = b) may land on an element that already holds a fragment.
func ruleFragmentKept(c *Ctx) {
	const rule = "fragment-kept"
	for _, fd := range c.allFuncDecls() {
		if fd.Body == nil || fd.Recv == nil || fd.Name.Name != "MarshalJSON" {
			continue
		}
		joins := false
		ast.Inspect(fd.Body, func(n ast.Node) bool {
			if call, ok := n.(*ast.CallExpr); ok && c.isPkgFunc(call, "github.com/go-openapi/swag", "ConcatJSON") {
				joins = true
			}
			return true
		})
		if !joins {
			continue
		}
		paths, unsup := c.simulateIndexed(fd)
		if unsup != "" || len(paths) == 0 {
			continue // outside the fragment: nothing is claimed for this encoder
		}
		fn := c.funcName(fd)
		c.saw(fn)
		isProducer := func(sc *svCall) bool {
			f, ok := sc.callee.(*types.Func)
			if !ok || f.Pkg() == nil {
				return false
			}
			return f.Pkg().Path() == "encoding/json" && f.Name() == "Marshal" || f.Pkg().Path() == "github.com/go-openapi/swag" && f.Name() == "ConcatJSON"
		}
		mentions := func(v sval, id int) bool {
			found := false
			svWalk(v, func(x sval) {
				if sc, ok := x.(svCall); ok && sc.id == id && sc.idx == 0 {
					found = true
				}
			})
			return found
		}
		why := ""
		pos := fd.Pos()
		for _, p := range paths {
			if len(p.rets) != 2 {
				continue
			}
			if _, isNil := p.rets[1].(svNil); !isNil {
				continue
			}
			for i, e := range p.effs {
				if e.kind != "call" || !isProducer(e.call) || why != "" {
					continue
				}
				id := e.call.id
				used := mentions(p.rets[0], id)
				storedAt := -1
				var slot svPath
				for j := i + 1; j < len(p.effs) && !used; j++ {
					g := p.effs[j]
					switch g.kind {
					case "call":
						for _, a := range g.call.args {
							if mentions(a, id) {
								used = true
							}
						}
						if g.call.recv != nil && mentions(g.call.recv, id) {
							used = true
						}
					case "append":
						for _, a := range g.elems {
							if mentions(a, id) {
								used = true
							}
						}
					case "write":
						if mentions(g.val, id) && storedAt < 0 {
							storedAt, slot = j, g.dst
						}
					}
				}
				if !used && storedAt < 0 {
					// kept in a local aggregate (an array or struct variable filled element by element)
					for _, v := range p.final {
						switch v.(type) {
						case svStruct, svList:
							if mentions(v, id) {
								used = true
							}
						}
					}
				}
				if used {
					continue
				}
				if storedAt < 0 {
					why = "the fragment rendered by " + svString(*e.call) + " is dropped: it reaches neither the join nor the result"
					pos = e.pos
					continue
				}
				// stored in a slot: the slot must be an element with a constant index (or a plain location) that no
				// later store on the path can land on
				last := ""
				if len(slot.steps) > 0 {
					last = slot.steps[len(slot.steps)-1]
				}
				for j := storedAt + 1; j < len(p.effs); j++ {
					g := p.effs[j]
					if g.kind != "write" || g.dst.root != slot.root || len(g.dst.steps) != len(slot.steps) {
						continue
					}
					same := true
					for k := 0; k < len(slot.steps)-1; k++ {
						if g.dst.steps[k] != slot.steps[k] {
							same = false
						}
					}
					if !same {
						continue
					}
					gl := g.dst.steps[len(g.dst.steps)-1]
					constIdx := func(s string) bool {
						if !strings.HasPrefix(s, "[#") {
							return !strings.HasPrefix(s, "[")
						}
						_, isInt := constInt(strings.TrimSuffix(strings.TrimPrefix(s, "[#"), "]"))
						return isInt
					}
					if gl == last || !constIdx(gl) || !constIdx(last) {
						why = "the fragment rendered by " + svString(*e.call) + " is stored in " + svString(slot) + " and a later store into " + svString(g.dst) + " can replace it before the fragments are joined: the member it holds disappears from the output"
						pos = g.pos
						break
					}
				}
			}
			if why != "" {
				break
			}
		}
		c.ob(rule, fn+":no-fragment-dropped", pos, why == "", why)
		// a fragment is an object: a nil map, pointer or slice of the receiver rendered by json.Marshal is the
		// text null, which the join does not treat as an empty object
		nullWhy := ""
		nullPos := fd.Pos()
		recv := c.recvObj(fd)
		for _, p := range paths {
			if len(p.rets) != 2 || nullWhy != "" {
				continue
			}
			if _, isNil := p.rets[1].(svNil); !isNil {
				continue
			}
			for _, e := range p.effs {
				if e.kind != "call" || len(e.call.args) != 1 {
					continue
				}
				f, ok := e.call.callee.(*types.Func)
				if !ok || f.Pkg() == nil || f.Pkg().Path() != "encoding/json" || f.Name() != "Marshal" {
					continue
				}
				q, isP := e.call.args[0].(svPath)
				if !isP || q.root != recv || recv == nil {
					continue
				}
				t := c.simTypeAtPath(q)
				if t == nil {
					continue
				}
				switch t.Underlying().(type) {
				case *types.Map, *types.Pointer, *types.Slice:
				default:
					continue
				}
				known := false
				n := e.ncond
				if n > len(p.conds) {
					n = len(p.conds)
				}
				for _, cd := range p.conds[:n] {
					if cd.loop {
						if lq, isLP := cd.v.(svPath); isLP && !cd.neg && svEqual(lq, q) {
							known = true
						}
						continue
					}
					b, isB := cd.v.(svBin)
					if !isB || cd.neg {
						continue
					}
					if x, isX := b.x.(svPath); isX && svEqual(x, q) && b.op == token.NEQ {
						if _, isNil := b.y.(svNil); isNil {
							known = true
						}
					}
					if lc, isCall := b.x.(svCall); isCall && lc.callee == nil && len(lc.args) == 1 && svEqual(lc.args[0], q) && (b.op == token.GTR || b.op == token.NEQ) {
						known = true
					}
				}
				if !known {
					nullWhy = svString(q) + " is rendered as a fragment where it is not known to be non-nil: a nil " + t.Underlying().String() + " renders as null, and the joined output is not the object it should be"
					nullPos = e.pos
				}
			}
		}
		c.ob(rule, fn+":no-null-fragment", nullPos, nullWhy == "", nullWhy)
	}
}

func init() {
	registerRule("id-scopes-base", 1, "in a schema expander that applies schema ids, the base path is handed on to the expander family unchanged only where the schema is known to carry no id", ruleIDScopesBase)
}

// ruleIDScopesBase (C02/C08/C09): on the happy paths of every schema expander that calls the id-applying helper
// (the loader method that re-scopes a base path by a schema id), every call of a family member that is given
// the expander's own base-path parameter as it came in is made where the schema's ID is known to be empty. A
// $ref followed (or a sub-schema expanded) before the id was applied is read against the parent's base instead
// of the base the id declares.
func ruleIDScopesBase(c *Ctx) {
	const rule = "id-scopes-base"
	fam := c.family()
	if !fam.ok() {
		c.undecided(rule, "family", token.NoPos, "expander family not found by role")
		return
	}
	isIDHelper := func(f *types.Func) bool {
		sig := f.Type().(*types.Signature)
		if sig.Recv() == nil || !isNamed(derefType(sig.Recv().Type()), c.Types, fam.loader.Obj().Name()) {
			return false
		}
		nstr := 0
		for i := 0; i < sig.Params().Len(); i++ {
			if isStringType(sig.Params().At(i).Type()) {
				nstr++
			}
		}
		return nstr == 2 && sig.Results().Len() >= 1 && isStringType(sig.Results().At(0).Type())
	}
	n := 0
	for _, f := range fam.order {
		if !fam.schemaExp[f] {
			continue
		}
		fd := c.decl(f)
		applies := false
		for _, g := range c.staticCallees(f) {
			if isIDHelper(g) {
				applies = true
			}
		}
		if !applies {
			continue
		}
		fn := c.funcName(fd)
		paths, ok := c.expanderHappyPaths(fam, fd)
		if !ok {
			c.undecided(rule, fn+":base-after-id", fd.Pos(), "the schema expander is outside the fragment the normaliser supports")
			continue
		}
		c.saw(fn)
		n++
		elem := c.paramObj(fd, 0)
		var baseParam types.Object
		sig := f.Type().(*types.Signature)
		if bi := lastStringParamIndex(sig); bi >= 0 {
			baseParam = c.paramObj(fd, bi)
		}
		why := ""
		pos := fd.Pos()
		for _, p := range paths {
			for _, e := range p.effs {
				if e.kind != "call" || why != "" {
					continue
				}
				g, isF := e.call.callee.(*types.Func)
				if !isF || !fam.members[g] {
					continue
				}
				bi := lastStringParamIndex(g.Type().(*types.Signature))
				if bi < 0 || bi >= len(e.call.args) || !isBareParam(e.call.args[bi], baseParam) {
					continue
				}
				noID := false
				nc := e.ncond
				if nc > len(p.conds) {
					nc = len(p.conds)
				}
				for _, cd := range p.conds[:nc] {
					b, isB := cd.v.(svBin)
					if !isB || !cd.neg || cd.loop || b.op != token.NEQ {
						continue
					}
					q, isP := b.x.(svPath)
					if !isP || q.root != elem || len(q.steps) == 0 || q.steps[len(q.steps)-1] != "ID" {
						continue
					}
					if k, isK := b.y.(svConst); isK && k.v.String() == `""` {
						noID = true
					}
				}
				if !noID {
					why = g.Name() + " is given the base path as it came in on a path where the schema is not known to carry no id: a schema with both an id and a $ref (or sub-schemas) is read against its parent's base, not the base its id declares"
					pos = e.pos
				}
			}
		}
		c.ob(rule, fn+":base-after-id", pos, why == "", why)
	}
	if n == 0 {
		c.ob(rule, "id-aware-expander", token.NoPos, false, "no schema expander applies schema ids")
	}
}

// fromMapFactsBySim reads, off the effect normal form of a "take my member from this decoded object" helper
// (lookup helpers inlined), the constant member names it looks up in the map parameter and, for each call of the
// reference parser, whether the text handed over is the looked-up member itself.
func (c *Ctx) fromMapFactsBySim(fm *ast.FuncDecl, mapParam types.Object) (keys []string, parserArgs []sval, decided bool) {
	paths, unsup := c.simulate(fm, nil)
	if unsup != "" || len(paths) == 0 || mapParam == nil {
		return nil, nil, false
	}
	seen := map[string]bool{}
	note := func(v sval) {
		svWalk(v, func(x sval) {
			var m, i sval
			switch y := x.(type) {
			case svIndex:
				m, i = y.x, y.i
			case svHas:
				m, i = y.x, y.i
			default:
				return
			}
			if !isBareParam(m, mapParam) {
				return
			}
			k := "<not a constant>"
			if kc, ok := i.(svConst); ok && kc.v.Kind() == constant.String {
				k = constant.StringVal(kc.v)
			}
			if !seen[k] {
				seen[k] = true
				keys = append(keys, k)
			}
		})
	}
	seenCall := map[*ast.CallExpr]bool{}
	for _, p := range paths {
		for _, cd := range p.conds {
			note(cd.v)
		}
		for _, r := range p.rets {
			note(r)
		}
		for _, e := range p.effs {
			switch e.kind {
			case "write":
				note(e.val)
			case "call":
				for _, a := range e.call.args {
					note(a)
				}
				f, _ := e.call.callee.(*types.Func)
				if f == nil || f.Pkg() == nil || len(e.call.args) == 0 {
					continue
				}
				if strings.HasSuffix(f.Pkg().Path(), "/jsonreference") || f.Pkg() == c.Types && (f.Name() == "NewRef" || f.Name() == "MustCreateRef") {
					if e.call.call != nil && !seenCall[e.call.call] {
						seenCall[e.call.call] = true
						parserArgs = append(parserArgs, e.call.args[0])
					}
				}
			}
		}
	}
	sort.Strings(keys)
	return keys, parserArgs, true
}

func simIsRangeKey(v sval) bool {
	o, ok := v.(svOpaque)
	if !ok || o.e == nil {
		return false
	}
	_, isIdent := unparen(o.e).(*ast.Ident)
	return isIdent
}

// simPrefixTest: v is a test that a range key starts with want (case-insensitively when lower is set): the key.
func (c *Ctx) simPrefixTest(v sval, want string, lower bool) (sval, bool) {
	sc, ok := v.(svCall)
	if !ok || len(sc.args) != 2 {
		return nil, false
	}
	f, isF := sc.callee.(*types.Func)
	if !isF || f.Pkg() == nil || f.Pkg().Path() != "strings" {
		return nil, false
	}
	switch f.Name() {
	case "HasPrefix":
		k, isK := sc.args[1].(svConst)
		if !isK || k.v.String() != fmt.Sprintf("%q", want) {
			return nil, false
		}
		if simIsRangeKey(sc.args[0]) {
			return sc.args[0], !lower
		}
		if lc, isCall := sc.args[0].(svCall); isCall && len(lc.args) == 1 && simIsRangeKey(lc.args[0]) {
			if lf, ok := lc.callee.(*types.Func); ok && lf.Pkg() != nil && lf.Pkg().Path() == "strings" && lf.Name() == "ToLower" {
				return lc.args[0], true
			}
		}
	case "EqualFold":
		for _, pr := range [][2]sval{{sc.args[0], sc.args[1]}, {sc.args[1], sc.args[0]}} {
			k, isK := pr[1].(svConst)
			if !isK || !strings.EqualFold(k.v.String(), fmt.Sprintf("%q", want)) {
				continue
			}
			o, isO := pr[0].(svOpaque)
			if !isO || o.e == nil {
				continue
			}
			sl, isSlice := unparen(o.e).(*ast.SliceExpr)
			if !isSlice || sl.Low != nil || sl.High == nil {
				continue
			}
			if tv, has := c.Info.Types[sl.High]; has && tv.Value != nil && tv.Value.String() == fmt.Sprint(len(want)) {
				// (the length test next to it must not exclude the key that is exactly the prefix)
				if ce, isCall := unparen(o.e).(*ast.SliceExpr); isCall {
					if encl := c.enclosingCond(ce); encl != nil && c.lenGuardExcludesExact(encl, sl.X, len(want)) {
						return nil, false
					}
				}
				return nil, true // (the key behind the slice expression is not tracked)
			}
		}
	}
	return nil, false
}

// extraFillFacts: what is known about the keys that the Schema decoder parks in ExtraProps ("" = holds).
type extraFillFacts struct {
	stores                               int
	ref, schema, tagged, xrouted         string
	firstPos                             token.Pos
	refOK, schemaOK, taggedOK, xroutedOK bool
}

// setContents: the members a set (a map used for membership tests) is known to hold.
type setContents struct {
	consts map[string]bool
	tagged bool // every name swag's name provider lists for Schema
}

// isSchemaNamesCall: swag's GetJSONNames applied to a Schema (value or pointer).
func (c *Ctx) isSchemaNamesCall(v sval) bool {
	sc, ok := v.(svCall)
	if !ok || sc.call == nil || len(sc.call.Args) != 1 {
		return false
	}
	f, isF := sc.callee.(*types.Func)
	if !isF || f.Name() != "GetJSONNames" || f.Pkg() == nil || f.Pkg().Path() != "github.com/go-openapi/swag" {
		return false
	}
	at := c.typeOf(sc.call.Args[0])
	return at != nil && typeNameOf(derefType(at)) == "Schema"
}

// setFromWrites reads the contents of the set held by variable v off the stores of one path.
func (c *Ctx) setFromWrites(p spath, v types.Object, upto int) setContents {
	out := setContents{consts: map[string]bool{}}
	for i, e := range p.effs {
		if upto >= 0 && i >= upto {
			break
		}
		if e.kind != "write" || e.dst.root != v || len(e.dst.steps) != 1 || !strings.HasPrefix(e.dst.steps[0], "[#") {
			continue
		}
		k := strings.TrimSuffix(strings.TrimPrefix(e.dst.steps[0], "[#"), "]")
		if strings.HasPrefix(k, "\"") {
			if u, err := strconv.Unquote(k); err == nil {
				out.consts[u] = true
			}
			continue
		}
		// the element of a loop over the schema's tagged names
		n := e.ncond
		if n > len(p.conds) {
			n = len(p.conds)
		}
		for _, cd := range p.conds[:n] {
			if cd.loop && !cd.neg && c.isSchemaNamesCall(cd.v) && k == svString(svElem{cd.v}) {
				out.tagged = true
			}
		}
	}
	return out
}

// pkgSetContents: the contents of a package-level set initialised by a function literal called in place.
func (c *Ctx) pkgSetContents(v *types.Var) (setContents, bool) {
	for _, f := range c.Files {
		for _, d := range f.Decls {
			gd, ok := d.(*ast.GenDecl)
			if !ok {
				continue
			}
			for _, sp := range gd.Specs {
				vs, ok := sp.(*ast.ValueSpec)
				if !ok {
					continue
				}
				for i, nm := range vs.Names {
					if c.objOf(nm) != types.Object(v) || i >= len(vs.Values) {
						continue
					}
					call, isCall := unparen(vs.Values[i]).(*ast.CallExpr)
					if !isCall || len(call.Args) != 0 {
						return setContents{}, false
					}
					lit, isLit := unparen(call.Fun).(*ast.FuncLit)
					if !isLit {
						return setContents{}, false
					}
					s := &effsim{c: c, keepIndices: true, keepAllIndices: true}
					st := &sstate{vars: map[types.Object]sval{}, heap: map[string]sval{}, hkeys: map[string]svPath{}}
					var paths []spath
					s.callBody(lit.Type, lit.Body, st, func(st *sstate, rets []sval) {
						paths = append(paths, spath{conds: st.conds, effs: st.effs, rets: rets, final: st.vars})
						s.npaths++
						if s.npaths > effsimMaxPaths {
							s.fail("too many paths")
						}
					})
					if s.unsupported != "" || len(paths) == 0 {
						return setContents{}, false
					}
					// the members every path stores (paths that skip a loop "for no element" are ignored: the name
					// provider lists at least one name)
					var best setContents
					found := false
					for _, p := range paths {
						if len(p.rets) != 1 {
							continue
						}
						for o, fv := range p.final {
							if !svEqual(fv, p.rets[0]) {
								continue
							}
							sc := c.setFromWrites(p, o, -1)
							if !found || len(sc.consts) > len(best.consts) || sc.tagged && !best.tagged {
								best, found = sc, true
							}
						}
					}
					return best, found
				}
			}
		}
	}
	return setContents{}, false
}

// extraFillBySim decides, on the effect normal form of the Schema decoder (helpers inlined, indices kept), what
// is known about a key at every store into the map that ends up in ExtraProps: that it is neither "$ref" nor
// "$schema", that it is none of the tagged member names, and that it is not an x- key. A key is excluded either
// because it was deleted from the generic map being walked before the walk, or because the store is made under a
// negative membership test in a set that holds it.
func (c *Ctx) extraFillBySim(u *ast.FuncDecl) (*extraFillFacts, bool) {
	paths, unsup := c.simulateIndexed(u)
	if unsup != "" || len(paths) == 0 {
		return nil, false
	}
	res := &extraFillFacts{refOK: true, schemaOK: true, taggedOK: true, xroutedOK: true}
	pkgSets := map[*types.Var]*setContents{}
	for _, p := range paths {
		// the maps that end up in a field named ExtraProps
		extraVars := map[types.Object]bool{}
		skipPath := false
		for _, cd := range p.conds {
			// (the name provider lists at least one name for Schema: the "no element" side of a loop over the
			// names is not a path of the decoder)
			if cd.loop && cd.neg && c.isSchemaNamesCall(cd.v) {
				skipPath = true
			}
		}
		if skipPath {
			continue
		}
		var extraFresh []sval
		var findExtra func(v sval, underExtra bool)
		findExtra = func(v sval, underExtra bool) {
			switch x := v.(type) {
			case svFresh:
				if underExtra {
					extraFresh = append(extraFresh, x)
				}
			case svStruct:
				for name, fv := range x.fields {
					findExtra(fv, name == "ExtraProps")
				}
			}
		}
		for _, e := range p.effs {
			if e.kind != "write" {
				continue
			}
			findExtra(e.val, len(e.dst.steps) > 0 && e.dst.steps[len(e.dst.steps)-1] == "ExtraProps")
		}
		for o, fv := range p.final {
			for _, xf := range extraFresh {
				if svEqual(fv, xf) {
					extraVars[o] = true
				}
			}
		}
		for ei, e := range p.effs {
			if e.kind != "write" || len(e.dst.steps) == 0 {
				continue
			}
			last := e.dst.steps[len(e.dst.steps)-1]
			if !strings.HasPrefix(last, "[#") {
				continue
			}
			direct := len(e.dst.steps) >= 2 && e.dst.steps[len(e.dst.steps)-2] == "ExtraProps"
			if !direct && !(len(e.dst.steps) == 1 && extraVars[e.dst.root]) {
				continue
			}
			res.stores++
			if res.firstPos == token.NoPos {
				res.firstPos = e.pos
			}
			key := strings.TrimSuffix(strings.TrimPrefix(last, "[#"), "]")
			n := e.ncond
			if n > len(p.conds) {
				n = len(p.conds)
			}
			// the generic map being walked: the innermost loop in force
			var walked sval
			for _, cd := range p.conds[:n] {
				if cd.loop && !cd.neg {
					walked = cd.v
				}
			}
			excluded := setContents{consts: map[string]bool{}}
			// (a) deleted from the walked map before the store
			for _, d := range p.effs[:ei] {
				if d.kind != "call" || d.call.call == nil || !c.isBuiltin(d.call.call, "delete") || len(d.call.args) != 2 || walked == nil || !sameObject(d.call.args[0], walked) {
					continue
				}
				switch k := d.call.args[1].(type) {
				case svConst:
					if k.v.Kind() == constant.String {
						excluded.consts[constant.StringVal(k.v)] = true
					}
				case svElem:
					if c.isSchemaNamesCall(k.of) {
						excluded.tagged = true
					}
				}
			}
			// (b) a negative membership test of the key in a set
			xOK := false
			for _, cd := range p.conds[:n] {
				if cd.loop {
					continue
				}
				if h, isHas := cd.v.(svHas); isHas && cd.neg && svString(h.i) == key {
					var sc setContents
					known := false
					switch sx := h.x.(type) {
					case svFresh:
						for o, fv := range p.final {
							if svEqual(fv, sx) {
								sc, known = c.setFromWrites(p, o, ei), true
							}
						}
					case svPath:
						if pv, isVar := sx.root.(*types.Var); isVar && len(sx.steps) == 0 && pv.Parent() == c.Types.Scope() {
							if _, done := pkgSets[pv]; !done {
								if got, ok := c.pkgSetContents(pv); ok {
									pkgSets[pv] = &got
								} else {
									pkgSets[pv] = nil
								}
							}
							if ps := pkgSets[pv]; ps != nil {
								sc, known = *ps, true
							}
						}
					}
					if known {
						for k := range sc.consts {
							excluded.consts[k] = true
						}
						if sc.tagged {
							excluded.tagged = true
						}
					}
				}
				if cd.neg {
					if k, isTest := c.simPrefixTest(cd.v, "x-", true); isTest && (k == nil || svString(k) == key) {
						xOK = true
					}
				}
			}
			if !excluded.consts["$ref"] {
				res.refOK = false
			}
			if !excluded.consts["$schema"] {
				res.schemaOK = false
			}
			if !excluded.tagged {
				res.taggedOK = false
			}
			if !xOK {
				res.xroutedOK = false
			}
		}
	}
	return res, res.stores > 0
}

func init() {
	registerRule("lookup-token-verbatim", 5, "a JSONLookup method indexes its maps with the token exactly as it is given (or with its integer value): the token arrives decoded, transforming it again looks up another name", ruleLookupTokenVerbatim)
}

// ruleLookupTokenVerbatim (C15): on the effect normal form of every JSONLookup method (helpers inlined), every
// map or slice selection whose index depends on the token parameter uses the parameter itself, or the first
// result of strconv.Atoi applied to it. jsonpointer hands the token over already unescaped; a second Unescape,
// a case fold or a trim makes names that contain "~0", "~1", upper-case letters or blanks unreachable on the
// typed document while they are reachable on its JSON form.
func ruleLookupTokenVerbatim(c *Ctx) {
	const rule = "lookup-token-verbatim"
	for _, fd := range c.allFuncDecls() {
		if fd.Body == nil || fd.Recv == nil || fd.Name.Name != "JSONLookup" {
			continue
		}
		token := c.paramObj(fd, 0)
		if token == nil || !isStringType(token.Type()) {
			continue
		}
		paths, unsup := c.simulate(fd, nil)
		if unsup != "" || len(paths) == 0 {
			continue // outside the fragment: nothing is claimed for this lookup
		}
		fn := c.funcName(fd)
		c.saw(fn)
		why := ""
		mentionsToken := func(v sval) bool {
			found := false
			svWalk(v, func(x sval) {
				if p, ok := x.(svPath); ok && p.root == token {
					found = true
				}
			})
			return found
		}
		verbatim := func(i sval) bool {
			if isBareParam(i, token) {
				return true
			}
			if sc, ok := i.(svCall); ok && sc.idx == 0 && len(sc.args) == 1 && isBareParam(sc.args[0], token) {
				if f, isF := sc.callee.(*types.Func); isF && f.Pkg() != nil && f.Pkg().Path() == "strconv" && (f.Name() == "Atoi" || f.Name() == "ParseInt") {
					return true
				}
			}
			return false
		}
		check := func(v sval) {
			svWalk(v, func(x sval) {
				var m, i sval
				switch y := x.(type) {
				case svIndex:
					m, i = y.x, y.i
				case svHas:
					m, i = y.x, y.i
				default:
					return
				}
				if !mentionsToken(i) || verbatim(i) || why != "" {
					return
				}
				// a string indexed by position (token[0]) is not a lookup
				if mp, isP := m.(svPath); isP && mp.root == token {
					return
				}
				// only string-keyed maps: an integer key computed from the token is its value, however it is parsed
				if mp, isP := m.(svPath); isP {
					if t := c.simTypeAtPath(mp); t != nil {
						if mt, isMap := t.Underlying().(*types.Map); isMap {
							if b, isB := mt.Key().Underlying().(*types.Basic); !isB || b.Info()&types.IsString == 0 {
								return
							}
						} else {
							return
						}
					}
				}
				why = "the lookup selects " + svString(x) + ": the index is derived from the token but is not the token itself (it arrives decoded: names holding the characters the transformation touches are found on the JSON form and not on the typed document)"
			})
		}
		for _, p := range paths {
			for _, cd := range p.conds {
				check(cd.v)
			}
			for _, r := range p.rets {
				check(r)
			}
			for _, e := range p.effs {
				if e.kind == "call" {
					for _, a := range e.call.args {
						check(a)
					}
				}
				if e.kind == "write" {
					check(e.val)
				}
			}
		}
		c.ob(rule, fn+":token-as-given", fd.Pos(), why == "", why)
	}
}

func init() {
	registerRule("encode-guard-complete", 10, "an encoder skips a struct component of its receiver only under tests that read every member the component can emit", ruleEncodeGuardComplete)
}

// ruleEncodeGuardComplete (C01/C06): on the effect normal form of every MarshalJSON method (predicates inlined),
// take a component C of the receiver (a struct-typed field, embedded or not) that some successful path hands to an
// encoder and another successful path does not mention in anything it encodes. On the skipping path the conditions
// in force must read every member of C that has a JSON name: a "has anything to say" predicate that forgets one
// member drops that member whenever it is the only one set.
func ruleEncodeGuardComplete(c *Ctx) {
	const rule = "encode-guard-complete"
	for _, fd := range c.allFuncDecls() {
		if fd.Body == nil || fd.Recv == nil || fd.Name.Name != "MarshalJSON" {
			continue
		}
		recv := c.recvObj(fd)
		if recv == nil {
			continue
		}
		rst, ok := derefType(recv.Type()).Underlying().(*types.Struct)
		if !ok {
			continue
		}
		paths, unsup := c.simulate(fd, nil)
		if unsup != "" || len(paths) == 0 {
			continue
		}
		fn := c.funcName(fd)
		c.saw(fn)
		// the struct components, and their members with a JSON name
		type comp struct {
			name    string
			members []string
		}
		var comps []comp
		for i := 0; i < rst.NumFields(); i++ {
			f := rst.Field(i)
			st, isSt := derefType(f.Type()).Underlying().(*types.Struct)
			if !isSt || !f.Exported() {
				continue
			}
			if n, isN := types.Unalias(derefType(f.Type())).(*types.Named); isN && n.Obj().Pkg() != c.Types {
				continue
			}
			cm := comp{name: f.Name()}
			for k := 0; k < st.NumFields(); k++ {
				sf := st.Field(k)
				tag := reflect.StructTag(st.Tag(k)).Get("json")
				if !sf.Exported() || tag == "-" {
					continue
				}
				cm.members = append(cm.members, sf.Name())
			}
			if len(cm.members) > 0 {
				comps = append(comps, cm)
			}
		}
		mentionsComp := func(v sval, name string) bool {
			found := false
			svWalk(v, func(x sval) {
				var p svPath
				switch y := x.(type) {
				case svPath:
					p = y
				case svAddr:
					p = y.p
				default:
					return
				}
				if p.root == recv && firstStep(p) == name {
					found = true
				}
			})
			return found
		}
		isEncoderCall := func(sc *svCall) bool {
			f, ok := sc.callee.(*types.Func)
			if !ok || f.Pkg() == nil {
				return false
			}
			return f.Pkg().Path() == "encoding/json" && f.Name() == "Marshal" || f.Name() == "MarshalJSON"
		}
		success := func(p spath) bool {
			if len(p.rets) != 2 {
				return false
			}
			_, isNil := p.rets[1].(svNil)
			return isNil
		}
		for _, cm := range comps {
			encodedSomewhere := false
			var skipping []spath
			for _, p := range paths {
				if !success(p) {
					continue
				}
				enc := false
				for _, e := range p.effs {
					if e.kind != "call" || !isEncoderCall(e.call) {
						continue
					}
					for _, a := range e.call.args {
						if mentionsComp(a, cm.name) {
							enc = true
						}
					}
					if e.call.recv != nil && mentionsComp(e.call.recv, cm.name) {
						enc = true
					}
				}
				if enc {
					encodedSomewhere = true
				} else {
					skipping = append(skipping, p)
				}
			}
			if !encodedSomewhere || len(skipping) == 0 {
				continue
			}
			why := ""
			for _, p := range skipping {
				read := map[string]bool{}
				whole := false
				for _, cd := range p.conds {
					svWalk(cd.v, func(x sval) {
						q, ok := x.(svPath)
						if !ok || q.root != recv || firstStep(q) != cm.name {
							return
						}
						var steps []string
						for _, s := range q.steps {
							if s != "*" {
								steps = append(steps, s)
							}
						}
						if len(steps) == 1 {
							whole = true // the component compared as a whole
						} else {
							read[steps[1]] = true
						}
					})
				}
				if whole {
					continue
				}
				var missing []string
				for _, m := range cm.members {
					if !read[m] {
						missing = append(missing, m)
					}
				}
				if len(missing) > 0 && why == "" {
					why = fmt.Sprintf("a successful path encodes nothing of %s although the tests it took never looked at %s: a value in which only that member is set loses it", cm.name, strings.Join(missing, ", "))
				}
			}
			c.ob(rule, fn+":"+cm.name, fd.Pos(), why == "", why)
		}
		c.ob(rule, "scan:"+fn, fd.Pos(), true, "").Trivial = true
	}
}

func init() {
	registerRule("memo-key-complete", 1, "what a function remembers in a map (or in a field) of its receiver, its context or the package is looked up again under a key (a test) that involves every parameter the remembered value was computed from", ruleMemoKeyComplete)
}

// ruleMemoKeyComplete (C02/C05/C10/C16): on the effect normal form (nothing inlined, indices kept) of every
// package function that both looks a key up in a map held below its receiver or in a package variable and stores
// into that map under the same key, the parameters the stored value was computed from all occur in the key:
// otherwise a later call with another value of the forgotten parameter is served the answer computed for the
// first one. The single-slot form is decided the same way: a field of the receiver's object graph that one path
// fills from its parameters and another path hands back must be handed back only under tests that involve those
// parameters.
func ruleMemoKeyComplete(c *Ctx) {
	const rule = "memo-key-complete"
	n := 0
	for _, fd := range c.allFuncDecls() {
		if fd.Body == nil {
			continue
		}
		// cheap syntactic pre-filter: a store into a map or a field that is not a local
		interesting := false
		ast.Inspect(fd.Body, func(nd ast.Node) bool {
			as, ok := nd.(*ast.AssignStmt)
			if !ok {
				return true
			}
			for _, l := range as.Lhs {
				switch x := unparen(l).(type) {
				case *ast.IndexExpr:
					if _, isSel := unparen(x.X).(*ast.SelectorExpr); isSel {
						interesting = true
					}
					if id, isId := unparen(x.X).(*ast.Ident); isId {
						if v, isVar := c.objOf(id).(*types.Var); isVar && v.Parent() == c.Types.Scope() {
							interesting = true
						}
					}
				case *ast.SelectorExpr:
					interesting = true
				}
			}
			return true
		})
		if !interesting {
			continue
		}
		params := map[types.Object]bool{}
		for i := 0; ; i++ {
			p := c.paramObj(fd, i)
			if p == nil {
				break
			}
			params[p] = true
		}
		if len(params) == 0 {
			continue
		}
		s := &effsim{c: c, keepIndices: true, keepAllIndices: true, inline: func(*types.Func) bool { return false }}
		st := &sstate{vars: map[types.Object]sval{}, heap: map[string]sval{}, hkeys: map[string]svPath{}}
		recv := c.recvObj(fd)
		if recv != nil {
			st.vars[recv] = svPath{root: recv}
		}
		for p := range params {
			st.vars[p] = svPath{root: p}
		}
		if f, ok := c.Info.Defs[fd.Name].(*types.Func); ok {
			s.stack = append(s.stack, f)
		}
		var paths []spath
		s.callBody(fd.Type, fd.Body, st, func(st *sstate, rets []sval) {
			paths = append(paths, spath{conds: st.conds, effs: st.effs, rets: rets, final: st.vars})
			s.npaths++
			if s.npaths > effsimMaxPaths {
				s.fail("too many paths")
			}
		})
		if s.unsupported != "" || len(paths) == 0 {
			continue
		}
		fn := c.funcName(fd)
		paramsOf := func(v sval) map[string]bool {
			out := map[string]bool{}
			svWalk(v, func(x sval) {
				switch y := x.(type) {
				case svPath:
					if params[y.root] {
						out[y.root.Name()] = true
					}
				case svAddr:
					if params[y.p.root] {
						out[y.p.root.Name()] = true
					}
				}
			})
			return out
		}
		shared := func(p svPath) bool {
			if p.root == nil {
				return p.via != nil
			}
			if p.root == recv && recv != nil {
				return true
			}
			if v, ok := p.root.(*types.Var); ok && v.Parent() == c.Types.Scope() {
				return true
			}
			return false
		}
		derived := func(v sval) bool {
			// only values computed by a call are "remembered results"
			found := false
			svWalk(v, func(x sval) {
				if _, ok := x.(svCall); ok {
					found = true
				}
			})
			return found
		}
		reported := map[string]bool{}
		for _, p := range paths {
			for _, e := range p.effs {
				if e.kind != "write" || !shared(e.dst) || len(e.dst.steps) == 0 || !derived(e.val) {
					continue
				}
				last := e.dst.steps[len(e.dst.steps)-1]
				need := paramsOf(e.val)
				if len(need) == 0 {
					continue
				}
				if strings.HasPrefix(last, "[#") {
					// ---- map form: the miss test of the same key on this path
					keyStr := strings.TrimSuffix(strings.TrimPrefix(last, "[#"), "]")
					var key sval
					for _, cd := range p.conds {
						if h, ok := cd.v.(svHas); ok && cd.neg && svString(h.i) == keyStr {
							key = h.i
						}
					}
					if key == nil {
						continue
					}
					have := paramsOf(key)
					var missing []string
					for q := range need {
						if !have[q] {
							missing = append(missing, q)
						}
					}
					sort.Strings(missing)
					k := fn + ":" + strings.Join(e.dst.steps[:len(e.dst.steps)-1], ".")
					if reported[k] {
						continue
					}
					reported[k] = true
					n++
					c.saw(fn)
					c.ob(rule, k, e.pos, len(missing) == 0,
						fmt.Sprintf("the value remembered under %s is computed from %s, which the key does not involve: a later call that differs only there is served the value computed for this one", keyStr, strings.Join(missing, ", ")))
					continue
				}
				if strings.HasPrefix(last, "[") {
					continue
				}
				// ---- slot form: another path hands the slot back without having stored into it
				slot := e.dst
				for _, h := range paths {
					wrote, tested, handed := false, false, false
					for _, g := range h.effs {
						if g.kind == "write" && svEqual(g.dst, slot) {
							wrote = true
						}
					}
					if wrote {
						continue
					}
					for _, cd := range h.conds {
						if b, ok := cd.v.(svBin); ok && !cd.neg {
							if q, isP := b.x.(svPath); isP && svEqual(q, slot) {
								tested = true
							}
						}
					}
					for _, rv := range h.rets {
						svWalk(rv, func(x sval) {
							if q, ok := x.(svPath); ok && svEqual(q, slot) {
								handed = true
							}
						})
					}
					if !tested || !handed {
						continue
					}
					have := map[string]bool{}
					for _, cd := range h.conds {
						for q := range paramsOf(cd.v) {
							have[q] = true
						}
					}
					var missing []string
					for q := range need {
						if !have[q] {
							missing = append(missing, q)
						}
					}
					sort.Strings(missing)
					k := fn + ":" + strings.Join(slot.steps, ".")
					if reported[k] {
						continue
					}
					reported[k] = true
					n++
					c.saw(fn)
					c.ob(rule, k, e.pos, len(missing) == 0,
						fmt.Sprintf("%s is filled from %s on one path and handed back on another under tests that do not involve %s: a later call that differs only there is served the value computed for the first one", svString(slot), strings.Join(missing, ", "), strings.Join(missing, ", ")))
				}
			}
		}
	}
	if n == 0 {
		c.ob(rule, "no-memo", token.NoPos, true, "").Trivial = true
	}
}

func init() {
	registerRule("pool-reset-complete", 1, "an object handed back to a package-level sync.Pool has every one of its members reset (before the Put, or right after the Get) on every path", rulePoolResetComplete)
}

// rulePoolResetComplete (C16/C17): for every package-level sync.Pool, on the effect normal form of the functions
// that Put into it and Get from it: a pooled value of a package struct type has each of its fields stored into (or,
// for maps, emptied: delete in a loop over it, clear) on every path that reaches the Put, or on every path right
// after the Get; a pooled value of a foreign type with a Reset method (bytes.Buffer) has Reset called on every such
// path. A member that is reset on neither side carries what one call learnt into the next.
func rulePoolResetComplete(c *Ctx) {
	const rule = "pool-reset-complete"
	var pools []*types.Var
	for _, v := range c.pkgVars() {
		if n, ok := types.Unalias(v.Type()).(*types.Named); ok && n.Obj().Pkg() != nil && n.Obj().Pkg().Path() == "sync" && n.Obj().Name() == "Pool" {
			pools = append(pools, v)
		}
	}
	if len(pools) == 0 {
		c.ob(rule, "no-pool", token.NoPos, true, "").Trivial = true
		return
	}
	isPoolCall := func(sc *svCall, pool *types.Var, name string) bool {
		f, ok := sc.callee.(*types.Func)
		if !ok || f.Name() != name || f.Pkg() == nil || f.Pkg().Path() != "sync" {
			return false
		}
		switch r := sc.recv.(type) {
		case svAddr:
			return r.p.root == pool && len(r.p.steps) == 0
		case svPath:
			return r.root == pool && len(r.steps) == 0
		}
		return false
	}
	// objKey identifies the pooled object a location lies below: the root variable, or the call it came from
	sameObj := func(a, b sval) bool {
		strip := func(v sval) sval {
			if p, ok := v.(svPath); ok && p.root == nil && p.via != nil && len(p.steps) == 0 {
				return p.via
			}
			if ad, ok := v.(svAddr); ok && len(ad.p.steps) == 0 {
				return ad.p
			}
			return v
		}
		return svEqual(strip(a), strip(b))
	}
	below := func(dst svPath, obj sval) (string, bool) {
		// the object is itself a location (ctx := r.context; ... Put(ctx)): what lies below that location
		if op, isP := obj.(svPath); isP && op.root != nil && dst.root == op.root {
			strip := func(steps []string) []string {
				var out []string
				for _, s := range steps {
					if s != "*" {
						out = append(out, s)
					}
				}
				return out
			}
			os, ds := strip(op.steps), strip(dst.steps)
			if len(ds) >= len(os) {
				same := true
				for i := range os {
					if ds[i] != os[i] {
						same = false
					}
				}
				if same {
					if len(ds) == len(os) {
						return "", true
					}
					return ds[len(os)], true
				}
			}
			return "", false
		}
		var base sval
		if dst.root != nil {
			base = svPath{root: dst.root}
		} else {
			base = dst.via
		}
		if base == nil || !sameObj(base, obj) {
			return "", false
		}
		return firstStep(dst), true
	}
	for _, pool := range pools {
		var elem types.Type
		resetOnPut := map[string]bool{} // fields reset on every path before the Put
		resetOnGet := map[string]bool{} // fields set on every path after the Get
		putPaths, getPaths := 0, 0
		wholeOnPut, wholeOnGet := true, true // for Reset()-style types: Reset called on every path
		var putPos token.Pos
		for _, fd := range c.allFuncDecls() {
			if fd.Body == nil {
				continue
			}
			uses := false
			ast.Inspect(fd.Body, func(n ast.Node) bool {
				if id, ok := n.(*ast.Ident); ok && c.objOf(id) == types.Object(pool) {
					uses = true
				}
				return true
			})
			if !uses {
				continue
			}
			paths, unsup := c.simulate(fd, func(*types.Func) bool { return false })
			if unsup != "" {
				c.undecided(rule, pool.Name()+":"+c.funcName(fd), fd.Pos(), "a function that uses the pool is outside the fragment the normaliser supports: "+unsup)
				continue
			}
			c.saw(c.funcName(fd))
			for _, p := range paths {
				for ei, e := range p.effs {
					if e.kind != "call" {
						continue
					}
					switch {
					case isPoolCall(e.call, pool, "Put") && len(e.call.args) == 1:
						obj := e.call.args[0]
						if elem == nil && e.call.call != nil && len(e.call.call.Args) == 1 {
							elem = c.typeOf(e.call.call.Args[0])
						}
						putPos = e.pos
						putPaths++
						here := map[string]bool{}
						reset := false
						for _, g := range p.effs[:ei] {
							switch g.kind {
							case "write":
								if f, ok := below(g.dst, obj); ok {
									if f == "" {
										reset = true // the whole object overwritten
									}
									here[f] = true
								}
							case "call":
								if g.call.callee == nil && g.call.call != nil && len(g.call.args) >= 1 && (c.isBuiltin(g.call.call, "delete") || c.isBuiltin(g.call.call, "clear")) {
									if q, isP := g.call.args[0].(svPath); isP {
										if f, ok := below(q, obj); ok {
											here[f] = true
										}
									}
								}
								if f, isF := g.call.callee.(*types.Func); isF && f.Name() == "Reset" && g.call.recv != nil && sameObj(g.call.recv, obj) {
									reset = true
								}
							}
						}
						// a map walked for no element is empty already
						for _, cd := range p.conds {
							if cd.loop && cd.neg {
								if q, isP := cd.v.(svPath); isP {
									if f, ok := below(q, obj); ok {
										here[f] = true
									}
								}
							}
						}
						if !reset {
							wholeOnPut = false
						}
						if putPaths == 1 {
							resetOnPut = here
						} else {
							for f := range resetOnPut {
								if !here[f] {
									delete(resetOnPut, f)
								}
							}
						}
					case isPoolCall(e.call, pool, "Get"):
						getPaths++
						obj := sval(svCall{id: e.call.id, callee: e.call.callee, idx: 0})
						here := map[string]bool{}
						reset := false
						for _, g := range p.effs[ei+1:] {
							switch g.kind {
							case "write":
								if f, ok := below(g.dst, obj); ok {
									here[f] = true
								}
							case "call":
								if f, isF := g.call.callee.(*types.Func); isF && f.Name() == "Reset" && g.call.recv != nil && sameObj(g.call.recv, obj) {
									reset = true
								}
							}
						}
						if !reset {
							wholeOnGet = false
						}
						if getPaths == 1 {
							resetOnGet = here
						} else {
							for f := range resetOnGet {
								if !here[f] {
									delete(resetOnGet, f)
								}
							}
						}
					}
				}
			}
		}
		if putPaths == 0 {
			c.ob(rule, pool.Name()+":reset", pool.Pos(), true, "").Trivial = true
			continue
		}
		key := pool.Name() + ":reset"
		st, isStruct := derefType(elem).Underlying().(*types.Struct)
		named, _ := types.Unalias(derefType(elem)).(*types.Named)
		if elem == nil || !isStruct || named == nil || named.Obj().Pkg() != c.Types {
			// a type of another package: its own Reset
			ok := wholeOnPut || getPaths > 0 && wholeOnGet
			c.ob(rule, key, putPos, ok, "an object goes back to "+pool.Name()+" on a path on which it was not Reset (and it is not Reset on every path right after Get either): the next user starts with what this one left in it")
			continue
		}
		if wholeOnPut {
			c.ob(rule, key, putPos, true, "")
			continue
		}
		var missing []string
		for i := 0; i < st.NumFields(); i++ {
			f := st.Field(i).Name()
			// (locks and other values of package sync carry no data of a call)
			if fn, isN := types.Unalias(derefType(st.Field(i).Type())).(*types.Named); isN && fn.Obj().Pkg() != nil && fn.Obj().Pkg().Path() == "sync" {
				continue
			}
			if !resetOnPut[f] && !(getPaths > 0 && resetOnGet[f]) {
				missing = append(missing, f)
			}
		}
		c.ob(rule, key, putPos, len(missing) == 0, fmt.Sprintf("a %s goes back to %s with %s neither reset before the Put nor set after the Get on every path: what one call stored there is seen by the next one", named.Obj().Name(), pool.Name(), strings.Join(missing, ", ")))
	}
}

func init() {
	registerRule("cache-consulted-first", 1, "in the function that calls the document loader every exit comes after the cache lookup: nothing (a memo of failures, a shortcut) answers for a document before the cache has been asked", ruleCacheConsultedFirst)
	registerRule("fresh-ref-producers", 1, "the functions whose results are treated as fresh references (their URL may be altered in place by the caller) build those results in the call: none hands back a reference kept in a map or a package variable", ruleFreshRefProducers)
}

// ruleCacheConsultedFirst (C08/C18): go/cfg must-analysis on the function that holds the loader call site: every
// return statement is reached only through the ResolutionCache lookup. A document the supplied cache holds (a
// pre-loaded one, or an id-scoped schema registered during the expansion) must be found there whatever else the
// function remembers about its location.
func ruleCacheConsultedFirst(c *Ctx) {
	const rule = "cache-consulted-first"
	var home *ast.FuncDecl
	for _, fd := range c.allFuncDecls() {
		if fd.Body == nil {
			continue
		}
		ast.Inspect(fd.Body, func(n ast.Node) bool {
			if call, ok := n.(*ast.CallExpr); ok && c.isDocLoaderCall(call) {
				home = fd
			}
			return true
		})
	}
	if home == nil {
		c.undecided(rule, "loader-call", token.NoPos, "the function calling the document loader was not found")
		return
	}
	// the loader call may sit in a helper that is only called on a miss: the function to look at is the nearest
	// caller that holds the cache lookup
	for depth := 0; depth < 3 && c.hasCacheCall(home, "Get") == nil; depth++ {
		self, _ := c.Info.Defs[home.Name].(*types.Func)
		var callers []*ast.FuncDecl
		for _, g := range c.pkgFuncs() {
			for _, h := range c.staticCallees(g) {
				if h == self {
					callers = append(callers, c.decl(g))
				}
			}
		}
		if len(callers) != 1 || callers[0] == nil {
			break
		}
		home = callers[0]
	}
	fn := c.funcName(home)
	c.saw(fn)
	isGet := func(call *ast.CallExpr) bool {
		if c.isCacheCall(call, "Get") {
			return true
		}
		// ... or a package helper that consults the cache on every path
		if g, ok := c.callee(call).(*types.Func); ok && g.Pkg() == c.Types {
			if gfd := c.decl(g); gfd != nil && gfd.Body != nil && gfd != home {
				return c.hasCacheCall(gfd, "Get") != nil
			}
		}
		return false
	}
	const asked factBits = 1
	n, bad := 0, token.NoPos
	flowForward(c.cfgOf(home), 0, func(nd ast.Node, in factBits) factBits {
		if containsCall(nd, isGet) {
			in |= asked
		}
		return in
	}, func(nd ast.Node, in factBits) {
		rs, ok := nd.(*ast.ReturnStmt)
		if !ok {
			return
		}
		n++
		if containsCall(rs, isGet) {
			in |= asked
		}
		if in&asked == 0 && bad == token.NoPos {
			bad = rs.Pos()
		}
	})
	pos := home.Pos()
	if bad != token.NoPos {
		pos = bad
	}
	c.ob(rule, fn+":every-exit-after-lookup", pos, n > 0 && bad == token.NoPos,
		fn+" can return before the resolution cache has been asked for the document: a document that the cache holds (pre-loaded, or registered under a schema id during the expansion) is then reported as failing or fetched again")
}

// ruleFreshRefProducers (C13/C16): ref-opaque lets callers store through the *url.URL of a reference that
// normalizeRef, NewRef or MustCreateRef has just returned, because such a reference is theirs alone. That holds
// only while those functions build what they return: on their effect normal form no returned value is (or is a
// copy of) something read out of a map, a sync.Map or a package-level variable.
func ruleFreshRefProducers(c *Ctx) {
	const rule = "fresh-ref-producers"
	n := 0
	for _, name := range []string{"normalizeRef", "NewRef", "MustCreateRef"} {
		f := c.funcObj(name)
		fd := c.decl(f)
		if f == nil || fd == nil || fd.Body == nil {
			continue
		}
		paths, unsup := c.simulate(fd, func(*types.Func) bool { return false })
		if unsup != "" || len(paths) == 0 {
			continue
		}
		n++
		c.saw(name)
		why := ""
		for _, p := range paths {
			for _, r := range p.rets {
				if t := c.svStaticType(r); t == nil || !isNamed(t, c.Types, "Ref") {
					continue
				}
				v := r
				if ad, isAddr := v.(svAddr); isAddr && len(ad.p.steps) == 0 {
					if held, has := p.final[ad.p.root]; has {
						v = held
					}
				}
				// (what goes through a parse - MustCreateRef, NewRef, jsonreference.New - comes out as a new reference:
				// the walk does not look below such a call)
				var walk func(x sval)
				walk = func(x sval) {
					if why != "" || x == nil {
						return
					}
					switch y := x.(type) {
					case svIndex:
						why = "hands back " + svString(y) + ", an entry of a map"
					case svPath:
						if pv, isVar := y.root.(*types.Var); isVar && pv.Parent() == c.Types.Scope() {
							why = "hands back a value held by the package variable " + pv.Name()
						}
						if y.via != nil {
							walk(y.via)
						}
					case svAddr:
						walk(y.p)
					case svSel:
						walk(y.x)
					case svStruct:
						for _, fv := range y.fields {
							walk(fv)
						}
					case svCall:
						if g, isF := y.callee.(*types.Func); isF {
							if g.Pkg() != nil && g.Pkg().Path() == "sync" && (g.Name() == "Load" || g.Name() == "LoadOrStore" || g.Name() == "Get") {
								why = "hands back what " + g.Name() + " found in a shared table"
								return
							}
							switch g.Name() {
							case "MustCreateRef", "NewRef", "New", "MustCreateRefFromURL":
								return
							}
						}
						if y.recv != nil {
							walk(y.recv)
						}
						for _, a := range y.args {
							walk(a)
						}
					}
				}
				walk(v)
			}
		}
		if why != "" {
			why = name + " " + why + ": its callers alter the URL of the reference they receive in place (transitiveResolver clears the fragment), which then changes the remembered reference for every later call"
		}
		c.ob(rule, name+":builds-its-result", fd.Pos(), why == "", why)
	}
	if n == 0 {
		c.undecided(rule, "producers", token.NoPos, "none of normalizeRef / NewRef / MustCreateRef could be normalised")
	}
}

// svStaticType: the static type of a returned normal-form value, where it can be told.
func (c *Ctx) svStaticType(v sval) types.Type {
	switch x := v.(type) {
	case svAddr:
		if t := c.simTypeAtPath(x.p); t != nil {
			return types.NewPointer(t)
		}
	case svPath:
		return c.simTypeAtPath(x)
	case svStruct:
		return x.t
	case svZero:
		return x.t
	case svCall:
		if f, ok := x.callee.(*types.Func); ok {
			if res := f.Type().(*types.Signature).Results(); x.idx < res.Len() {
				return res.At(x.idx).Type()
			}
		}
	}
	return nil
}

func init() {
	registerRule("order-not-by-difference", 1, "two int values are ordered by comparing them, never by the sign of their difference (which wraps around for values more than MaxInt apart)", ruleOrderNotByDifference)
}

// ruleOrderNotByDifference (C06/C07): in every package function, an int difference a - b of two values that are not
// lengths, capacities or constants is not used as an ordering: it is neither compared with zero (d < 0, d > 0,
// d != 0 followed by a sign test) nor returned by a function whose result callers compare with zero. For x-order
// values taken from the document the difference overflows, the comparator stops being transitive and the order of
// the output depends on map iteration.
func ruleOrderNotByDifference(c *Ctx) {
	const rule = "order-not-by-difference"
	isBounded := func(e ast.Expr) bool {
		e = unparen(e)
		if tv, ok := c.Info.Types[e]; ok && tv.Value != nil {
			return true
		}
		if call, ok := e.(*ast.CallExpr); ok && (c.isBuiltin(call, "len") || c.isBuiltin(call, "cap")) {
			return true
		}
		if call, ok := e.(*ast.CallExpr); ok && c.isConversion(call) && len(call.Args) == 1 {
			// int(b - '0'), int(x[i]): a byte or rune widened
			if t := c.typeOf(call.Args[0]); t != nil {
				if b, isB := t.Underlying().(*types.Basic); isB && (b.Kind() == types.Uint8 || b.Kind() == types.Int32 || b.Kind() == types.Uint16 || b.Kind() == types.Int8 || b.Kind() == types.Int16) {
					return true
				}
			}
		}
		return false
	}
	isWideInt := func(e ast.Expr) bool {
		t := c.typeOf(e)
		if t == nil {
			return false
		}
		b, ok := t.Underlying().(*types.Basic)
		return ok && (b.Kind() == types.Int || b.Kind() == types.Int64 || b.Kind() == types.UntypedInt)
	}
	isUnboundedDiff := func(e ast.Expr) bool {
		be, ok := unparen(e).(*ast.BinaryExpr)
		if !ok || be.Op != token.SUB || !isWideInt(be) {
			return false
		}
		return !isBounded(be.X) && !isBounded(be.Y)
	}
	isZero := func(e ast.Expr) bool {
		tv, ok := c.Info.Types[e]
		return ok && tv.Value != nil && tv.Value.String() == "0"
	}
	// functions that return such a difference
	returnsDiff := map[*types.Func]token.Pos{}
	for _, fd := range c.allFuncDecls() {
		if fd.Body == nil {
			continue
		}
		f, _ := c.Info.Defs[fd.Name].(*types.Func)
		if f == nil {
			continue
		}
		ast.Inspect(fd.Body, func(n ast.Node) bool {
			if _, isLit := n.(*ast.FuncLit); isLit {
				return false
			}
			if rs, ok := n.(*ast.ReturnStmt); ok && len(rs.Results) == 1 && isUnboundedDiff(rs.Results[0]) {
				returnsDiff[f] = rs.Pos()
			}
			return true
		})
	}
	n := 0
	for _, fd := range c.allFuncDecls() {
		if fd.Body == nil {
			continue
		}
		fn := c.funcName(fd)
		defs := c.localDefs(fd)
		var bad []string
		var badPos token.Pos
		isDiffValue := func(e ast.Expr) bool {
			e = unparen(e)
			if isUnboundedDiff(e) {
				return true
			}
			if id, ok := e.(*ast.Ident); ok {
				ds := defs[c.objOf(id)]
				if len(ds) == 0 {
					return false
				}
				for _, d := range ds {
					if d == nil || !isUnboundedDiff(d) {
						return false
					}
				}
				return true
			}
			if call, ok := e.(*ast.CallExpr); ok {
				if g, isF := c.callee(call).(*types.Func); isF {
					if _, has := returnsDiff[g]; has {
						return true
					}
				}
			}
			return false
		}
		ast.Inspect(fd.Body, func(nd ast.Node) bool {
			be, ok := nd.(*ast.BinaryExpr)
			if !ok {
				return true
			}
			switch be.Op {
			case token.LSS, token.GTR, token.LEQ, token.GEQ:
			default:
				return true
			}
			if isZero(be.Y) && isDiffValue(be.X) || isZero(be.X) && isDiffValue(be.Y) {
				bad = append(bad, exprString(be))
				if badPos == token.NoPos {
					badPos = be.Pos()
				}
			}
			return true
		})
		if len(bad) > 0 {
			n++
			c.saw(fn)
			c.ob(rule, fn+":"+bad[0], badPos, false, "the sign of an int difference ("+strings.Join(bad, ", ")+") is used as an ordering: for values more than MaxInt apart (an x-order of 9223372036854775807 next to -1) the difference wraps around, the relation is not transitive and the sorted output depends on map iteration order")
		}
	}
	c.ob(rule, "scan", token.NoPos, true, "").Trivial = n > 0
}
