package main

import (
	"go/ast"
	"go/token"
	"go/types"
	"strings"
)

// location-prefix: a location (URL text or URL path) is never used as a plain string prefix of another one.
// "lies in / below this document or folder" is a statement about whole path segments; strings.HasPrefix and
// strings.TrimPrefix cut anywhere, so a sibling whose name merely starts with the same letters
// (spec.json / spec.json2, /api / /api-v2) is taken for the same place. The prefix operand must therefore be
// known to be empty or to end with "/" where it is used:
//   - it is built as <location> + "/" (a constant ending with a slash), or
//   - it was normalised earlier in the function by `if !strings.HasSuffix(P, "/") { P += "/" }` (other arms of
//     that if-chain may only set it to ""), and is not assigned in between, or
//   - (TrimPrefix only) the call is guarded by `X == P || strings.HasPrefix(X, P+"/")`.
func init() {
	registerRule("location-prefix", 1, "a location is used as a string prefix of another location only where it is known to be empty or to end with a slash (segment boundary)", ruleLocationPrefix)
}

func (c *Ctx) isLocationText(fd *ast.FuncDecl, e ast.Expr, defs map[types.Object][]ast.Expr, depth int) bool {
	if depth > 5 {
		return false
	}
	e = unparen(e)
	if tv, ok := c.Info.Types[e]; ok && tv.Value != nil {
		return false
	}
	isURLish := func(t types.Type) bool {
		t = derefType(t)
		n, ok := types.Unalias(t).(*types.Named)
		if !ok || n.Obj().Pkg() == nil {
			return false
		}
		switch n.Obj().Pkg().Path() + "." + n.Obj().Name() {
		case "net/url.URL", "github.com/go-openapi/jsonreference.Ref":
			return true
		}
		return n.Obj().Pkg() == c.Types && n.Obj().Name() == "Ref"
	}
	switch x := e.(type) {
	case *ast.CallExpr:
		if se, ok := unparen(x.Fun).(*ast.SelectorExpr); ok && len(x.Args) == 0 && se.Sel.Name == "String" {
			if t := c.typeOf(se.X); t != nil && isURLish(t) {
				return true
			}
		}
		if (c.isPkgFunc(x, "path", "Dir") || c.isPkgFunc(x, "path/filepath", "Dir") || c.isPkgFunc(x, "path", "Clean") || c.isPkgFunc(x, "path/filepath", "ToSlash")) && len(x.Args) == 1 {
			return c.isLocationText(fd, x.Args[0], defs, depth+1)
		}
	case *ast.SelectorExpr:
		if x.Sel.Name == "Path" || x.Sel.Name == "RawPath" {
			if t := c.typeOf(x.X); t != nil && isURLish(t) {
				return true
			}
		}
	case *ast.Ident:
		ds := defs[c.objOf(x)]
		if len(ds) == 0 {
			// a string parameter of an unexported function: a location when every call site hands one over
			return c.paramIsLocationText(fd, c.objOf(x), depth)
		}
		for _, d := range ds {
			if d == nil || !c.isLocationText(fd, d, defs, depth+1) {
				return false
			}
		}
		return true
	case *ast.BinaryExpr:
		if x.Op == token.ADD {
			return c.isLocationText(fd, x.X, defs, depth+1)
		}
	}
	return false
}

func endsWithSlashConst(c *Ctx, e ast.Expr) bool {
	s, ok := c.constString(e)
	return ok && strings.HasSuffix(s, "/")
}

// slashNormalisedBefore: P was forced to "" or to end with "/" by an if-chain at the top level of the function,
// before pos, and is not assigned between that statement and pos.
func (c *Ctx) slashNormalisedBefore(fd *ast.FuncDecl, p ast.Expr, pos token.Pos) bool {
	ptxt := exprString(unparen(p))
	isP := func(e ast.Expr) bool { return exprString(unparen(e)) == ptxt }
	normEnd := token.NoPos
	type arm struct {
		cond ast.Expr // nil: else / default
		body []ast.Stmt
	}
	for _, st := range fd.Body.List {
		if st.End() > pos {
			break
		}
		var arms []arm
		switch x := st.(type) {
		case *ast.IfStmt:
			for cur := x; cur != nil; {
				arms = append(arms, arm{cur.Cond, cur.Body.List})
				switch el := cur.Else.(type) {
				case *ast.IfStmt:
					cur = el
				case *ast.BlockStmt:
					arms = append(arms, arm{nil, el.List})
					cur = nil
				default:
					cur = nil
				}
			}
		case *ast.SwitchStmt:
			if x.Tag != nil || x.Init != nil {
				continue
			}
			for _, cl := range x.Body.List {
				cc := cl.(*ast.CaseClause)
				switch len(cc.List) {
				case 0:
					arms = append(arms, arm{nil, cc.Body})
				case 1:
					arms = append(arms, arm{cc.List[0], cc.Body})
				default:
					arms = append(arms, arm{nil, nil}, arm{nil, []ast.Stmt{&ast.EmptyStmt{}}}) // not understood
				}
			}
		default:
			continue
		}
		good, sawNorm := true, false
		for _, a := range arms {
			// the normalising arm: !strings.HasSuffix(P, "/") { P += "/" }
			isNorm := false
			if a.cond != nil {
				for _, cl := range splitConj(condLit{e: a.cond}) {
					if subj, isTest := c.slashSuffixTest(cl.e); isTest && cl.neg && subj == ptxt {
						isNorm = true
					}
				}
			}
			appended, emptied, other := false, false, false
			for _, bs := range a.body {
				as, ok := bs.(*ast.AssignStmt)
				if !ok || len(as.Lhs) != 1 || !isP(as.Lhs[0]) {
					continue
				}
				switch {
				case as.Tok == token.ADD_ASSIGN && endsWithSlashConst(c, as.Rhs[0]):
					appended = true
				case as.Tok == token.ASSIGN:
					if be, ok := unparen(as.Rhs[0]).(*ast.BinaryExpr); ok && be.Op == token.ADD && isP(be.X) && endsWithSlashConst(c, be.Y) {
						appended = true
					} else if s, ok := c.constString(as.Rhs[0]); ok && s == "" {
						emptied = true
					} else {
						other = true
					}
				default:
					other = true
				}
			}
			switch {
			case isNorm && appended && !other:
				sawNorm = true
			case !isNorm && emptied && !other:
			default:
				good = false
			}
		}
		if good && sawNorm {
			normEnd = st.End()
		}
	}
	// or: P = helper(...) where every result of the package helper is "" or ends with "/"
	for _, st := range fd.Body.List {
		if st.End() > pos {
			break
		}
		as, ok := st.(*ast.AssignStmt)
		if !ok || len(as.Lhs) != 1 || len(as.Rhs) != 1 || !isP(as.Lhs[0]) {
			continue
		}
		if call, ok := unparen(as.Rhs[0]).(*ast.CallExpr); ok && c.resultsSlashTerminated(call) && st.End() > normEnd {
			normEnd = st.End() // a later plain assignment is caught by the no-assignment-in-between test below
		}
	}
	if normEnd == token.NoPos {
		return false
	}
	clean := true
	ast.Inspect(fd.Body, func(n ast.Node) bool {
		as, ok := n.(*ast.AssignStmt)
		if !ok || as.Pos() < normEnd || as.Pos() >= pos {
			return true
		}
		for _, l := range as.Lhs {
			if isP(l) {
				clean = false
			}
		}
		return true
	})
	return clean
}

func ruleLocationPrefix(c *Ctx) {
	const rule = "location-prefix"
	for _, fd := range c.allFuncDecls() {
		if fd.Body == nil {
			continue
		}
		fn := c.funcName(fd)
		defs := c.localDefs(fd)
		ast.Inspect(fd.Body, func(n ast.Node) bool {
			call, ok := n.(*ast.CallExpr)
			if !ok || len(call.Args) != 2 {
				return true
			}
			isHas, isTrim := c.isPkgFunc(call, "strings", "HasPrefix"), c.isPkgFunc(call, "strings", "TrimPrefix")
			if !isHas && !isTrim {
				return true
			}
			x, p := call.Args[0], call.Args[1]
			if !c.isLocationText(fd, p, defs, 0) {
				return true
			}
			c.saw(fn)
			op := "HasPrefix"
			if isTrim {
				op = "TrimPrefix"
			}
			key := fn + ":" + op + "(" + exprString(x) + ", " + exprString(p) + ")"
			good := false
			// <location> + "/"
			if be, ok := unparen(p).(*ast.BinaryExpr); ok && be.Op == token.ADD && endsWithSlashConst(c, be.Y) {
				good = true
			}
			if !good && c.slashNormalisedBefore(fd, p, call.Pos()) {
				good = true
			}
			if !good && isTrim {
				// guarded by X == P || HasPrefix(X, P+"/")  (or one of the two alone)
				xt, pt := exprString(unparen(x)), exprString(unparen(p))
				var okDisj func(e ast.Expr) bool
				okDisj = func(e ast.Expr) bool {
					e = unparen(e)
					if be, ok := e.(*ast.BinaryExpr); ok {
						if be.Op == token.LOR {
							return okDisj(be.X) && okDisj(be.Y)
						}
						if be.Op == token.EQL {
							a, b := exprString(unparen(be.X)), exprString(unparen(be.Y))
							return a == xt && b == pt || a == pt && b == xt
						}
					}
					if cc, ok := e.(*ast.CallExpr); ok && c.isPkgFunc(cc, "strings", "HasPrefix") && len(cc.Args) == 2 && exprString(unparen(cc.Args[0])) == xt {
						if be, ok := unparen(cc.Args[1]).(*ast.BinaryExpr); ok && be.Op == token.ADD && exprString(unparen(be.X)) == pt && endsWithSlashConst(c, be.Y) {
							return true
						}
					}
					return false
				}
				for _, cl := range c.literalsAt(fd, call) {
					if !cl.neg && okDisj(cl.e) {
						good = true
					}
				}
			}
			c.ob(rule, key, call.Pos(), good,
				"the location "+exprString(p)+" is used as a plain string prefix although it is not known to end at a path-segment boundary: a sibling whose name only starts with the same characters (spec.json / spec.json2) is taken for the same document or folder")
			return true
		})
	}
}

// resultsSlashTerminated: the call is to a package function with one result, and every return statement of it
// yields "" or a string known to end with "/" (a constant, X + "/", or a value tested with strings.HasSuffix).
func (c *Ctx) resultsSlashTerminated(call *ast.CallExpr) bool {
	g, _ := c.callee(call).(*types.Func)
	if g == nil || g.Pkg() != c.Types {
		return false
	}
	gfd := c.decl(g)
	if gfd == nil || gfd.Body == nil || g.Type().(*types.Signature).Results().Len() != 1 {
		return false
	}
	ok, n := true, 0
	ast.Inspect(gfd.Body, func(nd ast.Node) bool {
		if _, isLit := nd.(*ast.FuncLit); isLit {
			return false
		}
		rs, isR := nd.(*ast.ReturnStmt)
		if !isR || len(rs.Results) != 1 {
			return true
		}
		n++
		r := unparen(rs.Results[0])
		if s, isC := c.constString(r); isC {
			if s != "" && !strings.HasSuffix(s, "/") {
				ok = false
			}
			return true
		}
		if be, isB := r.(*ast.BinaryExpr); isB && be.Op == token.ADD && endsWithSlashConst(c, be.Y) {
			return true
		}
		rt := exprString(r)
		for _, cl := range c.literalsAt(gfd, rs) {
			if subj, isTest := c.slashSuffixTest(cl.e); isTest && !cl.neg && subj == rt {
				return true
			}
		}
		ok = false
		return true
	})
	return ok && n > 0
}

// slashSuffixTest: the expression tests that a string ends with "/": strings.HasSuffix(x, ".../") directly, or a
// package predicate whose body is one return of such a test on its parameter. Returns the text of the subject.
func (c *Ctx) slashSuffixTest(e ast.Expr) (string, bool) {
	call, ok := unparen(e).(*ast.CallExpr)
	if !ok {
		return "", false
	}
	if c.isPkgFunc(call, "strings", "HasSuffix") && len(call.Args) == 2 && endsWithSlashConst(c, call.Args[1]) {
		return exprString(unparen(call.Args[0])), true
	}
	g, _ := c.callee(call).(*types.Func)
	if g == nil || g.Pkg() != c.Types || len(call.Args) != 1 {
		return "", false
	}
	gfd := c.decl(g)
	if gfd == nil || gfd.Body == nil || len(gfd.Body.List) != 1 {
		return "", false
	}
	rs, ok := gfd.Body.List[0].(*ast.ReturnStmt)
	if !ok || len(rs.Results) != 1 {
		return "", false
	}
	subj, isTest := c.slashSuffixTest(rs.Results[0])
	if !isTest {
		return "", false
	}
	if p := c.paramObj(gfd, 0); p == nil || subj != p.Name() {
		return "", false
	}
	return exprString(unparen(call.Args[0])), true
}

// paramIsLocationText: o is a parameter of the unexported function fd, and at every call of fd in the package
// the argument in that position is a location text.
func (c *Ctx) paramIsLocationText(fd *ast.FuncDecl, o types.Object, depth int) bool {
	if o == nil || fd.Recv != nil || fd.Name.IsExported() {
		return false
	}
	idx := -1
	for i := 0; ; i++ {
		p := c.paramObj(fd, i)
		if p == nil {
			break
		}
		if p == o {
			idx = i
		}
	}
	f, _ := c.Info.Defs[fd.Name].(*types.Func)
	if idx < 0 || f == nil {
		return false
	}
	sites, all := 0, true
	for _, g := range c.allFuncDecls() {
		if g.Body == nil {
			continue
		}
		var gdefs map[types.Object][]ast.Expr
		ast.Inspect(g.Body, func(n ast.Node) bool {
			call, ok := n.(*ast.CallExpr)
			if !ok || c.callee(call) != types.Object(f) || idx >= len(call.Args) {
				return true
			}
			if gdefs == nil {
				gdefs = c.localDefs(g)
			}
			sites++
			if !c.isLocationText(g, call.Args[idx], gdefs, depth+1) {
				all = false
			}
			return true
		})
	}
	return sites > 0 && all
}
