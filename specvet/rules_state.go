package main

import (
	"fmt"
	"go/ast"
	"go/token"
	"go/types"
	"sort"
	"strings"
)

func init() {
	registerRule("lockset", 5, "every access to lock-protected state happens with the right lock held on every path, and every exit releases it", ruleLockset)
	registerRule("no-call-under-lock", 3, "no call is made while a cache lock is held; sync.Once is used only through Do", ruleNoCallUnderLock)
	registerRule("globals", 13, "who-may-write inventory of every package-level variable", ruleGlobals)
	registerRule("ctx-private", 5, "resolver contexts and loaders are created per call and never escape into shared storage", ruleCtxPrivate)
	registerRule("no-goroutines", 1, "the package starts no goroutine: all concurrency is the caller's", ruleNoGoroutines)
}

type lockedType struct {
	named     *types.Named
	lockField string
	rw        bool
	protected map[string]bool
}

func (c *Ctx) lockedTypes() []lockedType {
	var out []lockedType
	sc := c.Types.Scope()
	for _, n := range sc.Names() {
		named := c.namedType(n)
		if named == nil {
			continue
		}
		st, ok := named.Underlying().(*types.Struct)
		if !ok {
			continue
		}
		lt := lockedType{named: named, protected: map[string]bool{}}
		for i := 0; i < st.NumFields(); i++ {
			f := st.Field(i)
			if nn, ok := types.Unalias(f.Type()).(*types.Named); ok && nn.Obj().Pkg() != nil && nn.Obj().Pkg().Path() == "sync" && (nn.Obj().Name() == "RWMutex" || nn.Obj().Name() == "Mutex") {
				lt.lockField = f.Name()
				lt.rw = nn.Obj().Name() == "RWMutex"
			} else {
				lt.protected[f.Name()] = true
			}
		}
		if lt.lockField != "" {
			out = append(out, lt)
		}
	}
	return out
}

// lockOp classifies a call as Lock/Unlock/RLock/RUnlock on <x>.<lockField> of a locked type.
func (c *Ctx) lockOp(call *ast.CallExpr, lts []lockedType) string {
	r, name, pkg, isM := c.calleeMethod(call)
	if !isM || pkg != "sync" || (r != "RWMutex" && r != "Mutex") {
		return ""
	}
	se, ok := unparen(call.Fun).(*ast.SelectorExpr)
	if !ok {
		return ""
	}
	p, ok := c.apath(se.X)
	if !ok || len(p.Steps) == 0 {
		return ""
	}
	for _, lt := range lts {
		if isNamed(p.Root.Type(), c.Types, lt.named.Obj().Name()) && lastStep(p) == lt.lockField {
			return name
		}
	}
	return ""
}

type protAccess struct {
	node  ast.Node
	expr  ast.Expr
	write bool
	field string
}

// protectedAccesses lists reads/writes of protected fields inside a CFG node.
func (c *Ctx) protectedAccesses(n ast.Node, lts []lockedType) []protAccess {
	var out []protAccess
	isProt := func(e ast.Expr) (string, bool) {
		se, ok := unparen(e).(*ast.SelectorExpr)
		if !ok {
			return "", false
		}
		sel := c.Info.Selections[se]
		if sel == nil || sel.Kind() != types.FieldVal {
			return "", false
		}
		// a value this very function has just built from a literal is not shared yet: nobody else can hold its lock
		if id, isId := unparen(se.X).(*ast.Ident); isId {
			if fd := c.funcContaining(id.Pos()); fd != nil {
				if ds := c.localDefs(fd)[c.objOf(id)]; len(ds) == 1 && ds[0] != nil {
					d := unparen(ds[0])
					if u, isAddr := d.(*ast.UnaryExpr); isAddr && u.Op == token.AND {
						d = unparen(u.X)
					}
					if _, isLit := d.(*ast.CompositeLit); isLit {
						return "", false
					}
				}
			}
		}
		for _, lt := range lts {
			if isNamed(sel.Recv(), c.Types, lt.named.Obj().Name()) && lt.protected[se.Sel.Name] {
				return se.Sel.Name, true
			}
		}
		return "", false
	}
	writes := map[ast.Expr]bool{}
	ast.Inspect(n, func(m ast.Node) bool {
		if _, ok := m.(*ast.FuncLit); ok {
			return false
		}
		switch x := m.(type) {
		case *ast.AssignStmt:
			for _, l := range x.Lhs {
				l = unparen(l)
				if ix, ok := l.(*ast.IndexExpr); ok {
					if _, ok := isProt(ix.X); ok {
						writes[unparen(ix.X)] = true
					}
				}
				if _, ok := isProt(l); ok {
					writes[l] = true
				}
			}
		case *ast.CallExpr:
			if c.isBuiltin(x, "delete") && len(x.Args) > 0 {
				if _, ok := isProt(x.Args[0]); ok {
					writes[unparen(x.Args[0])] = true
				}
			}
		}
		return true
	})
	ast.Inspect(n, func(m ast.Node) bool {
		if _, ok := m.(*ast.FuncLit); ok {
			return false
		}
		if e, ok := m.(ast.Expr); ok {
			if f, ok := isProt(e); ok {
				out = append(out, protAccess{node: n, expr: e, write: writes[unparen(e)], field: f})
			}
		}
		return true
	})
	return out
}

func ruleLockset(c *Ctx) {
	const rule = "lockset"
	lts := c.lockedTypes()
	if len(lts) == 0 {
		c.ob(rule, "locked-types", token.NoPos, false, "no lock-protected type found (the cache lost its mutex)")
		return
	}
	const W, R, deferredRelease factBits = 1, 2, 4
	simDone := c.locksetSimObligations(rule, lts)
	for _, fd := range c.allFuncDecls() {
		if fd.Body == nil || simDone[fd] {
			continue
		}
		touches := false
		ast.Inspect(fd.Body, func(n ast.Node) bool {
			if n == nil {
				return false
			}
			if _, isExpr := n.(ast.Expr); isExpr && len(c.protectedAccesses(n, lts)) > 0 {
				touches = true
				return false
			}
			if call, ok := n.(*ast.CallExpr); ok && c.lockOp(call, lts) != "" {
				touches = true
			}
			return !touches
		})
		if !touches {
			continue
		}
		fn := c.funcName(fd)
		c.saw(fn)
		transfer := func(n ast.Node, in factBits) factBits {
			if d, ok := n.(*ast.DeferStmt); ok {
				switch c.lockOp(d.Call, lts) {
				case "Unlock", "RUnlock":
					return in | deferredRelease
				}
				return in
			}
			ast.Inspect(n, func(m ast.Node) bool {
				if _, ok := m.(*ast.FuncLit); ok {
					return false
				}
				if call, ok := m.(*ast.CallExpr); ok {
					switch c.lockOp(call, lts) {
					case "Lock":
						in |= W
					case "Unlock":
						in &^= W
					case "RLock":
						in |= R
					case "RUnlock":
						in &^= R
					}
				}
				return true
			})
			return in
		}
		ord := map[string]int{}
		flowForward(c.cfgOf(fd), 0, transfer, func(n ast.Node, in factBits) {
			// state inside the node: lock operations in the same node take effect first only if they precede textually
			for _, a := range c.protectedAccesses(n, lts) {
				kind := "read"
				if a.write {
					kind = "write"
				}
				ord[kind+a.field]++
				key := fmt.Sprintf("%s:%s(%s)#%d", fn, kind, a.field, ord[kind+a.field])
				held := in
				ok := held&W != 0 || (!a.write && held&R != 0)
				why := ""
				if !ok {
					why = fmt.Sprintf("%s of %s without the lock held on every path: concurrent Get/Set on a shared cache race", kind, exprString(a.expr))
					// audited exception: len(store) sizing hint in the clone of the immutable base cache
					if !a.write && c.isLenArg(fd, a.expr) && c.onlyServesShallowClone(fd) && c.shallowCloneOnlyOnResCache() {
						ok, why = true, ""
						c.note("lockset exception %s: len(store) read before RLock in ShallowClone is sound only because ShallowClone is invoked solely on resCache, which the globals rule proves is never written after its sync.Once initialisation", key)
					}
				}
				c.ob(rule, key, a.expr.Pos(), ok, why)
			}
			if rs, ok := n.(*ast.ReturnStmt); ok {
				ord["ret"]++
				leak := in&(W|R) != 0 && in&deferredRelease == 0
				c.ob(rule, fmt.Sprintf("%s:release-on-return#%d", fn, ord["ret"]), rs.Pos(), !leak, "a return is reachable with the cache lock still held: the next Get/Set deadlocks")
			}
		})
		// functions without an explicit return: end of body
		if len(fd.Body.List) > 0 {
			if _, isRet := fd.Body.List[len(fd.Body.List)-1].(*ast.ReturnStmt); !isRet {
				// evaluate facts at the end by adding a synthetic check over the last block
				held := factBits(0)
				for _, s := range fd.Body.List {
					held = transfer(s, held)
				}
				leak := held&(W|R) != 0 && held&deferredRelease == 0
				c.ob(rule, fn+":release-at-end", fd.End(), !leak, "the function ends with the cache lock still held")
			}
		}
	}
}

func (c *Ctx) isLenArg(fd *ast.FuncDecl, e ast.Expr) bool {
	found := false
	ast.Inspect(fd.Body, func(n ast.Node) bool {
		if call, ok := n.(*ast.CallExpr); ok && c.isBuiltin(call, "len") && len(call.Args) == 1 && unparen(call.Args[0]) == unparen(e) {
			found = true
		}
		return true
	})
	return found
}

// shallowCloneOnlyOnResCache: every call of ShallowClone in non-test code has the package cache as receiver.
func (c *Ctx) shallowCloneOnlyOnResCache() bool {
	n, ok := 0, true
	for _, fd := range c.allFuncDecls() {
		if fd.Body == nil {
			continue
		}
		ast.Inspect(fd.Body, func(nd ast.Node) bool {
			call, isC := nd.(*ast.CallExpr)
			if !isC {
				return true
			}
			if _, name, pkg, isM := c.calleeMethod(call); isM && pkg == specPkgPath && name == "ShallowClone" {
				n++
				se := unparen(call.Fun).(*ast.SelectorExpr)
				id, isId := unparen(se.X).(*ast.Ident)
				if !isId {
					ok = false
					return true
				}
				v, isVar := c.objOf(id).(*types.Var)
				if !isVar || v.Parent() != c.Types.Scope() || v.Name() != "resCache" {
					ok = false
				}
			}
			return true
		})
	}
	return ok && n > 0
}

func ruleNoCallUnderLock(c *Ctx) {
	const rule = "no-call-under-lock"
	lts := c.lockedTypes()
	const held factBits = 1
	simDone := c.noCallUnderLockSim(rule, lts)
	for _, fd := range c.allFuncDecls() {
		if fd.Body == nil || simDone[fd] {
			continue
		}
		uses := false
		ast.Inspect(fd.Body, func(n ast.Node) bool {
			if call, ok := n.(*ast.CallExpr); ok && c.lockOp(call, lts) != "" {
				uses = true
			}
			return true
		})
		if !uses {
			continue
		}
		fn := c.funcName(fd)
		c.saw(fn)
		var bad []string
		transfer := func(n ast.Node, in factBits) factBits {
			ast.Inspect(n, func(m ast.Node) bool {
				if call, ok := m.(*ast.CallExpr); ok {
					switch c.lockOp(call, lts) {
					case "Lock", "RLock":
						in |= held
					case "Unlock", "RUnlock":
						in &^= held
					}
				}
				return true
			})
			return in
		}
		flowForward(c.cfgOf(fd), held, transfer, func(n ast.Node, in factBits) {
			if in&held == 0 {
				return
			}
			ast.Inspect(n, func(m ast.Node) bool {
				call, ok := m.(*ast.CallExpr)
				if !ok || c.lockOp(call, lts) != "" || c.isBuiltinAny(call) || c.isConversion(call) {
					return true
				}
				bad = append(bad, exprString(call.Fun))
				return true
			})
		})
		c.ob(rule, fn, fd.Pos(), len(bad) == 0, fmt.Sprintf("calls %v are made while the cache lock may be held: re-entrancy or a lock-order cycle can deadlock", bad))
	}
	// sync.Once only through Do, with a function that does not re-enter the caller
	onceOK, uses := true, 0
	var why string
	for _, fd := range c.allFuncDecls() {
		if fd.Body == nil {
			continue
		}
		ast.Inspect(fd.Body, func(n ast.Node) bool {
			id, ok := n.(*ast.Ident)
			if !ok {
				return true
			}
			v, ok := c.objOf(id).(*types.Var)
			if !ok || v.Parent() != c.Types.Scope() {
				return true
			}
			if nn, ok := types.Unalias(v.Type()).(*types.Named); !ok || nn.Obj().Pkg() == nil || nn.Obj().Pkg().Path() != "sync" || nn.Obj().Name() != "Once" {
				return true
			}
			uses++
			return true
		})
		ast.Inspect(fd.Body, func(n ast.Node) bool {
			call, ok := n.(*ast.CallExpr)
			if !ok {
				return true
			}
			if r, name, pkg, isM := c.calleeMethod(call); isM && pkg == "sync" && r == "Once" && name == "Do" && len(call.Args) == 1 {
				uses--
				if id, ok := unparen(call.Args[0]).(*ast.Ident); ok {
					if g, ok := c.objOf(id).(*types.Func); ok {
						caller, _ := c.Info.Defs[fd.Name].(*types.Func)
						if c.reaches(g, func(h *types.Func) bool { return h == caller }) {
							onceOK, why = false, "the function run by Once.Do re-enters "+fd.Name.Name+": Do deadlocks on itself"
						}
					}
				} else if fl, ok := unparen(call.Args[0]).(*ast.FuncLit); ok {
					caller, _ := c.Info.Defs[fd.Name].(*types.Func)
					ast.Inspect(fl.Body, func(m ast.Node) bool {
						if cc, ok := m.(*ast.CallExpr); ok {
							if g, ok := c.callee(cc).(*types.Func); ok && g.Pkg() == c.Types {
								if c.reaches(g, func(h *types.Func) bool { return h == caller }) {
									onceOK, why = false, "the function literal run by Once.Do re-enters "+fd.Name.Name+": Do deadlocks on itself"
								}
							}
						}
						return true
					})
				} else {
					onceOK, why = false, "Once.Do argument is neither a named function nor a function literal"
				}
			}
			return true
		})
	}
	if uses != 0 {
		onceOK, why = false, "a sync.Once variable is used other than as the receiver of Do"
	}
	c.ob(rule, "once-via-Do", token.NoPos, onceOK, why)
}

// ---- globals ----

func (c *Ctx) pkgVars() []*types.Var {
	var out []*types.Var
	sc := c.Types.Scope()
	for _, n := range sc.Names() {
		if v, ok := sc.Lookup(n).(*types.Var); ok {
			out = append(out, v)
		}
	}
	return out
}

// onceInitFuncs: functions handed to sync.Once.Do, closed under their callees.
func (c *Ctx) onceInitFuncs() map[*types.Func]bool {
	out := map[*types.Func]bool{}
	for _, fd := range c.allFuncDecls() {
		if fd.Body == nil {
			continue
		}
		ast.Inspect(fd.Body, func(n ast.Node) bool {
			call, ok := n.(*ast.CallExpr)
			if !ok {
				return true
			}
			if r, name, pkg, isM := c.calleeMethod(call); isM && pkg == "sync" && r == "Once" && name == "Do" && len(call.Args) == 1 {
				if id, ok := unparen(call.Args[0]).(*ast.Ident); ok {
					if g, ok := c.objOf(id).(*types.Func); ok {
						out[g] = true
					}
				}
			}
			return true
		})
	}
	return out
}

// onceOnlyFuncs: the functions handed to sync.Once.Do by name, and every unexported function each of whose uses
// is a call made inside a function literal handed to Once.Do or inside another such function: what they write is
// written once, under the Once.
func (c *Ctx) onceOnlyFuncs() map[*types.Func]bool {
	out := c.onceInitFuncs()
	lits := c.onceLiterals()
	inLit := func(p token.Pos) bool {
		for _, fl := range lits {
			if fl.Pos() <= p && p <= fl.End() {
				return true
			}
		}
		return false
	}
	type use struct {
		in     *types.Func
		pos    token.Pos
		called bool
	}
	uses := map[*types.Func][]use{}
	for _, fd := range c.allFuncDecls() {
		if fd.Body == nil {
			continue
		}
		in, _ := c.Info.Defs[fd.Name].(*types.Func)
		calledIdents := map[*ast.Ident]bool{}
		ast.Inspect(fd.Body, func(n ast.Node) bool {
			if call, ok := n.(*ast.CallExpr); ok {
				switch f := unparen(call.Fun).(type) {
				case *ast.Ident:
					calledIdents[f] = true
				case *ast.SelectorExpr:
					calledIdents[f.Sel] = true
				}
			}
			return true
		})
		ast.Inspect(fd.Body, func(n ast.Node) bool {
			if id, ok := n.(*ast.Ident); ok {
				if g, ok := c.Info.Uses[id].(*types.Func); ok && g.Pkg() == c.Types {
					uses[g] = append(uses[g], use{in, id.Pos(), calledIdents[id]})
				}
			}
			return true
		})
	}
	for changed := true; changed; {
		changed = false
		for g, us := range uses {
			if out[g] || g.Exported() || len(us) == 0 {
				continue
			}
			all := true
			for _, u := range us {
				if !u.called || !(inLit(u.pos) || out[u.in]) {
					all = false
				}
			}
			if all {
				out[g] = true
				changed = true
			}
		}
	}
	return out
}

// initOnlyFuncs: init functions and functions all of whose callers are init-only.
func (c *Ctx) initOnlyFuncs() map[string]bool {
	callers := map[*types.Func][]string{}
	for _, fd := range c.allFuncDecls() {
		f, _ := c.Info.Defs[fd.Name].(*types.Func)
		if f == nil {
			continue
		}
		for _, g := range c.staticCallees(f) {
			callers[g] = append(callers[g], fd.Name.Name)
		}
	}
	out := map[string]bool{"init": true}
	for changed := true; changed; {
		changed = false
		for g, cs := range callers {
			if out[g.Name()] || g.Exported() {
				continue
			}
			all := len(cs) > 0
			for _, cn := range cs {
				if !out[cn] {
					all = false
				}
			}
			if all {
				out[g.Name()] = true
				changed = true
			}
		}
	}
	return out
}

// onceLiterals: function literals handed directly to sync.Once.Do.
func (c *Ctx) onceLiterals() []*ast.FuncLit {
	var out []*ast.FuncLit
	for _, fd := range c.allFuncDecls() {
		if fd.Body == nil {
			continue
		}
		ast.Inspect(fd.Body, func(n ast.Node) bool {
			call, ok := n.(*ast.CallExpr)
			if !ok {
				return true
			}
			if r, name, pkg, isM := c.calleeMethod(call); isM && pkg == "sync" && r == "Once" && name == "Do" && len(call.Args) == 1 {
				if fl, ok := unparen(call.Args[0]).(*ast.FuncLit); ok {
					out = append(out, fl)
				}
			}
			return true
		})
	}
	return out
}

func ruleGlobals(c *Ctx) {
	const rule = "globals"
	onceLits := c.onceLiterals()
	inOnceLit := func(p token.Pos) bool {
		for _, fl := range onceLits {
			if fl.Pos() <= p && p <= fl.End() {
				return true
			}
		}
		return false
	}
	onceFns := c.onceInitFuncs()
	initOnly := c.initOnlyFuncs()
	onceOnly := c.onceOnlyFuncs()
	writers := map[*types.Var][]string{}
	for _, fd := range c.allFuncDecls() {
		if fd.Body == nil {
			continue
		}
		fn := c.funcName(fd)
		ast.Inspect(fd.Body, func(n ast.Node) bool {
			record := func(e ast.Expr) {
				if p, ok := c.apath(e); ok {
					if v, ok := p.Root.(*types.Var); ok && v.Parent() == c.Types.Scope() {
						if inOnceLit(e.Pos()) {
							writers[v] = append(writers[v], onceLiteralWriter)
						} else {
							writers[v] = append(writers[v], fn)
						}
					}
				}
			}
			switch x := n.(type) {
			case *ast.AssignStmt:
				for _, l := range x.Lhs {
					record(l)
				}
			case *ast.IncDecStmt:
				record(x.X)
			case *ast.UnaryExpr:
				// address taken of a global: it may be written through
				if x.Op == token.AND {
					if id, ok := unparen(x.X).(*ast.Ident); ok {
						if v, ok := c.objOf(id).(*types.Var); ok && v.Parent() == c.Types.Scope() {
							if nn, ok := types.Unalias(v.Type()).(*types.Named); ok && nn.Obj().Pkg() != nil && nn.Obj().Pkg().Path() == "sync" {
								return true
							}
							writers[v] = append(writers[v], fn+"(&)")
						}
					}
				}
			case *ast.CallExpr:
				if c.isBuiltin(x, "delete") && len(x.Args) > 0 {
					record(x.Args[0])
				}
				// a pointer-receiver method called on a package variable may mutate it (sync.Map.Store, ...)
				if se, ok := unparen(x.Fun).(*ast.SelectorExpr); ok {
					if sel := c.Info.Selections[se]; sel != nil && sel.Kind() == types.MethodVal {
						if id, ok := unparen(se.X).(*ast.Ident); ok {
							if v, ok := c.objOf(id).(*types.Var); ok && v.Parent() == c.Types.Scope() {
								if mf, ok := sel.Obj().(*types.Func); ok {
									if _, isPtr := mf.Type().(*types.Signature).Recv().Type().(*types.Pointer); isPtr && !benignGlobalMethod(mf) {
										writers[v] = append(writers[v], fn+"(."+mf.Name()+")")
									}
								}
							}
						}
					}
				}
			}
			return true
		})
	}
	for _, v := range c.pkgVars() {
		if v.Name() == "_" {
			continue
		}
		ws := writers[v]
		sort.Strings(ws)
		key := "writers(" + v.Name() + ")"
		isSync := false
		if nn, ok := types.Unalias(v.Type()).(*types.Named); ok && nn.Obj().Pkg() != nil && nn.Obj().Pkg().Path() == "sync" {
			isSync = true
		}
		switch {
		case isSync:
			c.ob(rule, key, v.Pos(), len(ws) == 0, fmt.Sprintf("package-level sync value written or used as a store by %v (a sync.Map is shared mutable state, not a lock)", ws))
		case isNamed(v.Type(), c.Types, "simpleCache") || types.Implements(v.Type(), c.resolutionCacheIface()):
			// the package cache: stored only by the function run under sync.Once
			ok := len(ws) > 0
			for _, w := range ws {
				isOnce := w == onceLiteralWriter
				for f := range onceFns {
					if funcDisplay(f) == w {
						isOnce = true
					}
				}
				if !isOnce {
					ok = false
				}
			}
			c.ob(rule, key, v.Pos(), ok, fmt.Sprintf("package cache written by %v: it may only be stored by the function run under sync.Once", ws))
		case v.Name() == "specLogger":
			ok := true
			for _, w := range ws {
				underOnce := w == onceLiteralWriter
				for f := range onceOnly {
					if funcDisplay(f) == w {
						underOnce = true
					}
				}
				if !initOnly[w] && !underOnce {
					ok = false
				}
			}
			c.ob(rule, key, v.Pos(), ok, fmt.Sprintf("logger written by %v outside package initialisation (and not under a sync.Once)", ws))
		default:
			c.ob(rule, key, v.Pos(), len(ws) == 0, fmt.Sprintf("package-level variable written at run time by %v: one call can influence the next", ws))
		}
	}
	// no function hands out a package-level pointer (other than the lock-protected cache, handled below, and the
	// logger): whoever receives it can write through it, which is shared mutable state by another name
	for _, v := range c.pkgVars() {
		if _, isPtr := types.Unalias(v.Type()).(*types.Pointer); !isPtr {
			continue
		}
		if isNamed(v.Type(), c.Types, "simpleCache") || v.Name() == "specLogger" {
			continue
		}
		var leaks []string
		for _, fd := range c.allFuncDecls() {
			if fd.Body == nil {
				continue
			}
			ast.Inspect(fd.Body, func(n ast.Node) bool {
				switch x := n.(type) {
				case *ast.ReturnStmt:
					for _, r := range x.Results {
						if id, ok := unparen(r).(*ast.Ident); ok && c.objOf(id) == v {
							leaks = append(leaks, c.funcName(fd)+"(returns it)")
						}
					}
				case *ast.AssignStmt:
					for _, r := range x.Rhs {
						if id, ok := unparen(r).(*ast.Ident); ok && c.objOf(id) == v {
							leaks = append(leaks, c.funcName(fd)+"(aliases it)")
						}
					}
				}
				return true
			})
		}
		sort.Strings(leaks)
		c.ob(rule, "handed-out("+v.Name()+")", v.Pos(), len(leaks) == 0,
			fmt.Sprintf("the package-level pointer %s is handed out by %v: its callers modify what they receive in place, so concurrent calls race on it and one call leaves its mark on the next", v.Name(), leaks))
	}
	// the package cache is only ever shallow-cloned
	var cacheVar *types.Var
	for _, v := range c.pkgVars() {
		if isNamed(v.Type(), c.Types, "simpleCache") {
			cacheVar = v
		}
	}
	if cacheVar == nil {
		c.ob(rule, "package-cache", token.NoPos, false, "package-level cache variable not found")
	} else {
		var badUses []string
		loads := 0
		for _, fd := range c.allFuncDecls() {
			if fd.Body == nil {
				continue
			}
			f, _ := c.Info.Defs[fd.Name].(*types.Func)
			if onceFns[f] {
				continue
			}
			// parent map for use classification
			parents := map[ast.Node]ast.Node{}
			var stack []ast.Node
			ast.Inspect(fd.Body, func(n ast.Node) bool {
				if n == nil {
					stack = stack[:len(stack)-1]
					return true
				}
				if len(stack) > 0 {
					parents[n] = stack[len(stack)-1]
				}
				stack = append(stack, n)
				return true
			})
			ast.Inspect(fd.Body, func(n ast.Node) bool {
				id, ok := n.(*ast.Ident)
				if !ok || c.objOf(id) != cacheVar {
					return true
				}
				if inOnceLit(id.Pos()) {
					return true // the one-time initialisation
				}
				loads++
				okUse := false
				if se, ok := parents[id].(*ast.SelectorExpr); ok && se.X == ast.Expr(id) {
					if call, ok := parents[se].(*ast.CallExpr); ok && call.Fun == ast.Expr(se) && se.Sel.Name == "ShallowClone" {
						okUse = true
					}
				}
				if !okUse {
					badUses = append(badUses, c.funcName(fd))
				}
				return true
			})
		}
		c.ob(rule, "package-cache:only-cloned", cacheVar.Pos(), len(badUses) == 0 && loads > 0,
			fmt.Sprintf("the package cache is used other than as the receiver of ShallowClone in %v: a caller or the expander could Set into it, so one call's documents leak into the next", badUses))
		// ShallowClone returns a fresh map
		if sc := c.decl(c.method("simpleCache", "ShallowClone")); sc != nil {
			c.saw(c.funcName(sc))
			fresh := false
			ast.Inspect(sc.Body, func(n ast.Node) bool {
				rs, ok := n.(*ast.ReturnStmt)
				if !ok || len(rs.Results) != 1 {
					return true
				}
				e := unparen(rs.Results[0])
				if id, isId := e.(*ast.Ident); isId {
					// a local built once from a literal
					if ds := c.localDefs(sc)[c.objOf(id)]; len(ds) == 1 && ds[0] != nil {
						e = unparen(ds[0])
					}
				}
				if u, ok := e.(*ast.UnaryExpr); ok && u.Op == token.AND {
					e = unparen(u.X)
				}
				lit, ok := e.(*ast.CompositeLit)
				if !ok {
					return true
				}
				for _, el := range lit.Elts {
					kv, ok := el.(*ast.KeyValueExpr)
					if !ok {
						continue
					}
					if c.freshMapExpr(sc, kv.Value, 0) {
						fresh = true
					}
				}
				return true
			})
			// ... or, with the construction moved into helpers: on the effect normal form every path returns a
			// value all of whose map-typed fields hold a map made during the call
			if !fresh {
				if paths, unsup := c.simulate(sc, nil); unsup == "" && len(paths) > 0 {
					all := true
					for _, p := range paths {
						if len(p.rets) != 1 {
							all = false
							continue
						}
						st, isStruct := p.rets[0].(svStruct)
						if !isStruct {
							all = false
							continue
						}
						nmaps := 0
						if ts, ok := derefType(st.t).Underlying().(*types.Struct); ok {
							for i := 0; i < ts.NumFields(); i++ {
								if _, isMap := ts.Field(i).Type().Underlying().(*types.Map); !isMap {
									continue
								}
								nmaps++
								if !isMadeSV(st.fields[ts.Field(i).Name()]) {
									all = false
								}
							}
						}
						if nmaps == 0 {
							all = false
						}
					}
					fresh = all
				}
			}
			c.ob(rule, "ShallowClone:fresh-map", sc.Pos(), fresh, "the clone must own a freshly made map, not share the base cache's")
		} else {
			c.undecided(rule, "ShallowClone", token.NoPos, "ShallowClone not found")
		}
	}
	// the default loader variable is read only where a resolver context is created
	var loaderVar *types.Var
	for _, v := range c.pkgVars() {
		if v.Name() == "PathLoader" {
			loaderVar = v
		}
	}
	if loaderVar != nil {
		readers := map[string]bool{}
		for _, fd := range c.allFuncDecls() {
			if fd.Body == nil {
				continue
			}
			ast.Inspect(fd.Body, func(n ast.Node) bool {
				if id, ok := n.(*ast.Ident); ok && c.objOf(id) == loaderVar {
					readers[c.funcName(fd)] = true
				}
				return true
			})
		}
		rs := sortedKeys(readers)
		// the functions that run as part of building a per-call resolver context: the builder, and what it calls
		during := map[string]bool{}
		for _, f := range c.pkgFuncs() {
			fd := c.decl(f)
			if fd == nil || !c.buildsResolverContext(c.funcName(fd)) {
				continue
			}
			during[c.funcName(fd)] = true
			seen := map[*types.Func]bool{}
			var walk func(g *types.Func)
			walk = func(g *types.Func) {
				if seen[g] {
					return
				}
				seen[g] = true
				if gd := c.decl(g); gd != nil && gd.Name.Name != "init" {
					during[c.funcName(gd)] = true
				}
				for _, h := range c.staticCallees(g) {
					walk(h)
				}
			}
			walk(f)
		}
		ok := len(rs) > 0
		for _, r := range rs {
			if !during[r] {
				ok = false
			}
		}
		c.ob(rule, "PathLoader:read-at-context-creation", loaderVar.Pos(), ok, fmt.Sprintf("the default loader is read in %v; it must be read only where a per-call resolver context is built (read at call time)", rs))
	} else {
		c.ob(rule, "PathLoader", token.NoPos, false, "exported default loader variable not found")
	}
}

func (c *Ctx) resolutionCacheIface() *types.Interface {
	n := c.namedType("ResolutionCache")
	if n == nil {
		return types.NewInterfaceType(nil, nil)
	}
	i, _ := n.Underlying().(*types.Interface)
	if i == nil {
		return types.NewInterfaceType(nil, nil)
	}
	return i
}

func (c *Ctx) buildsResolverContext(fn string) bool {
	for _, fd := range c.allFuncDecls() {
		if c.funcName(fd) != fn || fd.Body == nil {
			continue
		}
		found := false
		ast.Inspect(fd.Body, func(n ast.Node) bool {
			if lit, ok := n.(*ast.CompositeLit); ok && isNamed(c.typeOf(lit), c.Types, "resolverContext") {
				found = true
			}
			return true
		})
		return found
	}
	return false
}

// ---- ctx-private ----

func ruleCtxPrivate(c *Ctx) {
	const rule = "ctx-private"
	fam := c.family()
	if !fam.ok() {
		c.undecided(rule, "family", token.NoPos, "loader type not found by role")
		return
	}
	private := []string{"resolverContext", fam.loader.Obj().Name()}
	isPrivate := func(t types.Type) bool {
		if t == nil {
			return false
		}
		for _, p := range private {
			if isNamed(t, c.Types, p) {
				return true
			}
		}
		return false
	}
	// (a) no exported function or method hands one out
	var leaks []string
	for _, f := range c.pkgFuncs() {
		if !f.Exported() {
			continue
		}
		sig := f.Type().(*types.Signature)
		if sig.Recv() != nil {
			if n, ok := types.Unalias(derefType(sig.Recv().Type())).(*types.Named); ok && !n.Obj().Exported() {
				continue
			}
		}
		for i := 0; i < sig.Results().Len(); i++ {
			if isPrivate(sig.Results().At(i).Type()) {
				leaks = append(leaks, funcDisplay(f))
			}
		}
	}
	c.ob(rule, "not-returned-by-API", token.NoPos, len(leaks) == 0, fmt.Sprintf("exported %v return a resolver context or loader", leaks))
	// (b) no package-level variable can hold one
	var holders []string
	for _, v := range c.pkgVars() {
		if isPrivate(v.Type()) {
			holders = append(holders, v.Name())
		}
	}
	c.ob(rule, "no-global-holder", token.NoPos, len(holders) == 0, fmt.Sprintf("package variables %v can hold a resolver context or loader across calls", holders))
	// (c) never handed to a cache, never stored in a field of a type other than the loader
	var stored []string
	for _, fd := range c.allFuncDecls() {
		if fd.Body == nil {
			continue
		}
		ast.Inspect(fd.Body, func(n ast.Node) bool {
			switch x := n.(type) {
			case *ast.CallExpr:
				if _, name, _, isM := c.calleeMethod(x); isM && name == "Set" {
					for _, a := range x.Args {
						if isPrivate(c.typeOf(a)) {
							stored = append(stored, c.funcName(fd)+":cache.Set")
						}
					}
				}
			case *ast.AssignStmt:
				for i, l := range x.Lhs {
					if i >= len(x.Rhs) || !isPrivate(c.typeOf(x.Rhs[i])) {
						continue
					}
					if p, ok := c.apath(l); ok && len(p.Steps) > 0 && !isPrivate(p.Root.Type()) {
						stored = append(stored, c.funcName(fd)+":"+exprString(l))
					}
				}
			}
			return true
		})
	}
	c.ob(rule, "not-stored-in-shared-state", token.NoPos, len(stored) == 0, fmt.Sprintf("a resolver context or loader is stored into shared state at %v", stored))
	// (d) contexts are built in one constructor, with the circular-ref memo made there
	var builders []string
	memoMade := false
	for _, fd := range c.allFuncDecls() {
		if fd.Body == nil {
			continue
		}
		ast.Inspect(fd.Body, func(n ast.Node) bool {
			lit, ok := n.(*ast.CompositeLit)
			if !ok || !isNamed(c.typeOf(lit), c.Types, "resolverContext") {
				return true
			}
			builders = append(builders, c.funcName(fd))
			for _, el := range lit.Elts {
				if kv, ok := el.(*ast.KeyValueExpr); ok {
					if id, ok := kv.Key.(*ast.Ident); ok && id.Name == "circulars" {
						if call, ok := unparen(kv.Value).(*ast.CallExpr); ok && c.isBuiltin(call, "make") {
							memoMade = true
						}
					}
				}
			}
			return true
		})
	}
	c.ob(rule, "one-constructor", token.NoPos, len(builders) == 1 && memoMade, fmt.Sprintf("resolver contexts are built in %v; exactly one constructor must build them and make the circular-ref memo", builders))
	// (e) a fresh context is created when none is passed: constructor call guarded by `context == nil` in the loader factory
	guarded := false
	for _, fd := range c.allFuncDecls() {
		if fd.Body == nil {
			continue
		}
		ast.Inspect(fd.Body, func(n ast.Node) bool {
			call, ok := n.(*ast.CallExpr)
			if !ok || len(builders) != 1 {
				return true
			}
			if g, ok := c.callee(call).(*types.Func); ok && funcDisplay(g) == builders[0] {
				for _, cl := range c.literalsAt(fd, call) {
					if be, ok := unparen(cl.e).(*ast.BinaryExpr); ok && be.Op == token.EQL && !cl.neg && isNilIdent(c, be.Y) && isNamed(c.typeOf(be.X), c.Types, "resolverContext") {
						guarded = true
					}
				}
			}
			return true
		})
	}
	c.ob(rule, "fresh-when-absent", token.NoPos, guarded, "the loader factory must build a fresh context exactly when none is handed in")
}

func ruleNoGoroutines(c *Ctx) {
	n := 0
	for _, fd := range c.allFuncDecls() {
		if fd.Body == nil {
			continue
		}
		ast.Inspect(fd.Body, func(nd ast.Node) bool {
			if _, ok := nd.(*ast.GoStmt); ok {
				n++
			}
			return true
		})
	}
	c.ob("no-goroutines", "go-statements", token.NoPos, n == 0, fmt.Sprintf("%d go statements: the per-call privacy of resolver state no longer implies race freedom", n))
}

var _ = strings.HasPrefix

// benignGlobalMethod: pointer-receiver methods that do not make a package variable a channel between calls.
func benignGlobalMethod(f *types.Func) bool {
	if f.Pkg() == nil {
		return false
	}
	sig := f.Type().(*types.Signature)
	rt := typeNameOf(derefType(sig.Recv().Type()))
	switch f.Pkg().Path() + "." + rt {
	case "sync.Once", "sync.Mutex", "sync.RWMutex", "log.Logger":
		return true
	}
	// the package cache's own read-only clone
	return f.Name() == "ShallowClone"
}

// freshMapExpr: the expression evaluates to a map made in this call chain (make / literal), possibly handed back by a helper.
func (c *Ctx) freshMapExpr(fd *ast.FuncDecl, e ast.Expr, depth int) bool {
	if depth > 2 {
		return false
	}
	e = unparen(e)
	switch x := e.(type) {
	case *ast.CompositeLit:
		return true
	case *ast.CallExpr:
		if c.isBuiltin(x, "make") {
			return true
		}
		if g, ok := c.callee(x).(*types.Func); ok && g.Pkg() == c.Types {
			gfd := c.decl(g)
			if gfd == nil || gfd.Body == nil {
				return false
			}
			all, n := true, 0
			ast.Inspect(gfd.Body, func(nd ast.Node) bool {
				if rs, ok := nd.(*ast.ReturnStmt); ok && len(rs.Results) == 1 {
					n++
					if !c.freshMapExpr(gfd, rs.Results[0], depth+1) {
						all = false
					}
				}
				return true
			})
			return all && n > 0
		}
	case *ast.Ident:
		ds := c.localDefs(fd)[c.objOf(x)]
		if len(ds) == 0 {
			return false
		}
		for _, d := range ds {
			if d == nil || !c.freshMapExpr(fd, d, depth+1) {
				return false
			}
		}
		return true
	}
	return false
}

// onlyServesShallowClone: the function is ShallowClone itself or an unexported helper whose every package caller is.
func (c *Ctx) onlyServesShallowClone(fd *ast.FuncDecl) bool {
	if fd.Name.Name == "ShallowClone" {
		return true
	}
	self, _ := c.Info.Defs[fd.Name].(*types.Func)
	if self == nil || self.Exported() {
		return false
	}
	n := 0
	ok := true
	for _, g := range c.allFuncDecls() {
		f, _ := c.Info.Defs[g.Name].(*types.Func)
		if f == nil || f == self {
			continue
		}
		for _, h := range c.staticCallees(f) {
			if h == self {
				n++
				if g.Name.Name != "ShallowClone" {
					ok = false
				}
			}
		}
	}
	return ok && n > 0
}

const onceLiteralWriter = "<func literal run by sync.Once>"
