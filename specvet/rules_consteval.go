package main

import (
	"fmt"
	"go/ast"
	"go/constant"
	"go/token"
	"go/types"
)

// encoder-constants-decodable: every constant text an encoder of a type can
// emit must be accepted by that type's decoder. Decided by partially
// evaluating the decoder body on the constant input (lengths, bytes,
// comparisons, switches are folded; anything else is unknown) and asking
// whether it *definitely* reaches a return that constructs an error. This is
// constant folding over the source, not execution.

func init() {
	registerRule("encoder-constants-decodable", 4, "a decoder accepts every constant text its own encoder can emit (null, true, false, {}, ...)", ruleEncoderConstantsDecodable)
}

type cenv map[types.Object]constant.Value

func (e cenv) clone() cenv {
	o := cenv{}
	for k, v := range e {
		o[k] = v
	}
	return o
}

type constInterp struct {
	c    *Ctx
	data types.Object
	text string
	// field state: synthetic variables standing for <local or receiver>.<field>
	fobj map[string]types.Object
	// constant texts of the return statements reached (nil entry: a non-constant result)
	returns []*string
}

const (
	cvNil    = "\x00nil"
	cvNonNil = "\x00non-nil"
)

func (ci *constInterp) fieldVar(o types.Object, field string) types.Object {
	if ci.fobj == nil {
		ci.fobj = map[string]types.Object{}
	}
	k := fmt.Sprintf("%p.%s", o, field)
	if v, ok := ci.fobj[k]; ok {
		return v
	}
	v := types.NewVar(token.NoPos, nil, o.Name()+"."+field, types.Typ[types.Invalid])
	ci.fobj[k] = v
	return v
}

// fieldOf: e is x.F or (*x).F for a plain variable x: returns the synthetic variable of that field.
func (ci *constInterp) fieldOf(e ast.Expr) types.Object {
	se, ok := unparen(e).(*ast.SelectorExpr)
	if !ok {
		return nil
	}
	x := unparen(se.X)
	if st, ok := x.(*ast.StarExpr); ok {
		x = unparen(st.X)
	}
	id, ok := x.(*ast.Ident)
	if !ok {
		return nil
	}
	o := ci.c.objOf(id)
	if _, isVar := o.(*types.Var); !isVar {
		return nil
	}
	if sel := ci.c.Info.Selections[se]; sel == nil || sel.Kind() != types.FieldVal {
		return nil
	}
	return ci.fieldVar(o, se.Sel.Name)
}

func structOf(t types.Type) *types.Struct {
	if t == nil {
		return nil
	}
	st, _ := derefType(t).Underlying().(*types.Struct)
	return st
}

// zeroFields initialises the field state of a freshly declared struct variable.
func (ci *constInterp) zeroFields(o types.Object, env cenv) {
	st := structOf(o.Type())
	if st == nil {
		return
	}
	for i := 0; i < st.NumFields(); i++ {
		f := st.Field(i)
		fv := ci.fieldVar(o, f.Name())
		switch u := f.Type().Underlying().(type) {
		case *types.Basic:
			switch {
			case u.Info()&types.IsBoolean != 0:
				env[fv] = constant.MakeBool(false)
			case u.Info()&types.IsString != 0:
				env[fv] = constant.MakeString("")
			case u.Info()&types.IsNumeric != 0:
				env[fv] = constant.MakeInt64(0)
			}
		case *types.Pointer, *types.Slice, *types.Map, *types.Interface:
			env[fv] = constant.MakeString(cvNil)
		}
	}
}

func (ci *constInterp) forgetFields(o types.Object, env cenv) {
	st := structOf(o.Type())
	if st == nil {
		return
	}
	for i := 0; i < st.NumFields(); i++ {
		delete(env, ci.fieldVar(o, st.Field(i).Name()))
	}
}

func (ci *constInterp) copyFields(dst, src types.Object, env cenv) {
	st := structOf(src.Type())
	if st == nil {
		return
	}
	for i := 0; i < st.NumFields(); i++ {
		n := st.Field(i).Name()
		if v, ok := env[ci.fieldVar(src, n)]; ok {
			env[ci.fieldVar(dst, n)] = v
		} else {
			delete(env, ci.fieldVar(dst, n))
		}
	}
}

func (ci *constInterp) eval(e ast.Expr, env cenv) constant.Value {
	c := ci.c
	e = unparen(e)
	if tv, ok := c.Info.Types[e]; ok && tv.Value != nil {
		return tv.Value
	}
	switch x := e.(type) {
	case *ast.Ident:
		if v, ok := env[c.objOf(x)]; ok {
			return v
		}
	case *ast.SelectorExpr:
		if fo := ci.fieldOf(x); fo != nil {
			if v, ok := env[fo]; ok {
				return v
			}
		}
	case *ast.CallExpr:
		if c.isBuiltin(x, "len") && len(x.Args) == 1 {
			if id, ok := unparen(x.Args[0]).(*ast.Ident); ok && c.objOf(id) == ci.data {
				return constant.MakeInt64(int64(len(ci.text)))
			}
		}
		if c.isPkgFunc(x, "bytes", "Equal") && len(x.Args) == 2 {
			a, b := ci.bytesOf(x.Args[0], env), ci.bytesOf(x.Args[1], env)
			if a != nil && b != nil {
				return constant.MakeBool(*a == *b)
			}
		}
		if c.isConversion(x) && len(x.Args) == 1 {
			if s := ci.bytesOf(x, env); s != nil {
				if b, ok := c.typeOf(x).Underlying().(*types.Basic); ok && b.Kind() == types.String {
					return constant.MakeString(*s)
				}
			}
		}
	case *ast.IndexExpr:
		if id, ok := unparen(x.X).(*ast.Ident); ok && c.objOf(id) == ci.data {
			if iv := ci.eval(x.Index, env); iv != nil {
				if i, ok := constant.Int64Val(iv); ok && i >= 0 && int(i) < len(ci.text) {
					return constant.MakeInt64(int64(ci.text[i]))
				}
			}
		}
	case *ast.UnaryExpr:
		if x.Op == token.NOT {
			if v := ci.eval(x.X, env); v != nil && v.Kind() == constant.Bool {
				return constant.MakeBool(!constant.BoolVal(v))
			}
		}
	case *ast.BinaryExpr:
		// comparison of a tracked pointer-like field with nil
		if x.Op == token.EQL || x.Op == token.NEQ {
			for _, pr := range [][2]ast.Expr{{x.X, x.Y}, {x.Y, x.X}} {
				if isNilIdent(c, pr[1]) {
					if v := ci.eval(pr[0], env); v != nil && v.Kind() == constant.String {
						switch constant.StringVal(v) {
						case cvNil:
							return constant.MakeBool(x.Op == token.EQL)
						case cvNonNil:
							return constant.MakeBool(x.Op == token.NEQ)
						}
					}
					return nil
				}
			}
		}
		l, r := ci.eval(x.X, env), ci.eval(x.Y, env)
		switch x.Op {
		case token.LAND:
			if l != nil && l.Kind() == constant.Bool && !constant.BoolVal(l) || r != nil && r.Kind() == constant.Bool && !constant.BoolVal(r) {
				return constant.MakeBool(false)
			}
			if l != nil && r != nil && l.Kind() == constant.Bool && r.Kind() == constant.Bool {
				return constant.MakeBool(true)
			}
			return nil
		case token.LOR:
			if l != nil && l.Kind() == constant.Bool && constant.BoolVal(l) || r != nil && r.Kind() == constant.Bool && constant.BoolVal(r) {
				return constant.MakeBool(true)
			}
			if l != nil && r != nil && l.Kind() == constant.Bool && r.Kind() == constant.Bool {
				return constant.MakeBool(false)
			}
			return nil
		case token.EQL, token.NEQ, token.LSS, token.GTR, token.LEQ, token.GEQ:
			if l != nil && r != nil {
				lk, rk := l.Kind(), r.Kind()
				if lk == rk || (lk == constant.Int || lk == constant.Float) && (rk == constant.Int || rk == constant.Float) {
					return constant.MakeBool(constant.Compare(l, x.Op, r))
				}
			}
		}
	}
	return nil
}

// bytesOf folds an expression to a known byte string: the input itself or a conversion of a constant.
func (ci *constInterp) bytesOf(e ast.Expr, env cenv) *string {
	c := ci.c
	e = unparen(e)
	if id, ok := e.(*ast.Ident); ok {
		if c.objOf(id) == ci.data {
			s := ci.text
			return &s
		}
		// package-level constant byte tables
		if v, ok := c.objOf(id).(*types.Var); ok && v.Parent() == c.Types.Scope() {
			if s, ok := c.pkgVarBytes(v); ok {
				return &s
			}
		}
	}
	if call, ok := e.(*ast.CallExpr); ok && c.isConversion(call) && len(call.Args) == 1 {
		if s, ok := c.constString(call.Args[0]); ok {
			return &s
		}
		return ci.bytesOf(call.Args[0], env)
	}
	return nil
}

// pkgVarBytes: the constant text a package-level []byte table was initialised from.
func (c *Ctx) pkgVarBytes(v *types.Var) (string, bool) {
	for _, f := range c.Files {
		for _, d := range f.Decls {
			gd, ok := d.(*ast.GenDecl)
			if !ok {
				continue
			}
			for _, sp := range gd.Specs {
				vs, ok := sp.(*ast.ValueSpec)
				if !ok {
					continue
				}
				for i, nm := range vs.Names {
					if c.objOf(nm) == v && i < len(vs.Values) {
						if call, ok := unparen(vs.Values[i]).(*ast.CallExpr); ok && c.isConversion(call) && len(call.Args) == 1 {
							return c.constString(call.Args[0])
						}
					}
				}
			}
		}
	}
	return "", false
}

type outcome int

const (
	fallsThrough outcome = iota
	returnsMaybeOK
	returnsDefiniteError
)

// definiteErrorExpr: the returned error is constructed on the spot (fmt.Errorf, errors.New, a package error value).
func (ci *constInterp) definiteErrorExpr(e ast.Expr) bool {
	c := ci.c
	e = unparen(e)
	if isNilIdent(c, e) {
		return false
	}
	switch x := e.(type) {
	case *ast.CallExpr:
		return c.isPkgFunc(x, "fmt", "Errorf") || c.isPkgFunc(x, "errors", "New")
	case *ast.Ident:
		if v, ok := c.objOf(x).(*types.Var); ok && v.Parent() == c.Types.Scope() {
			return true
		}
	}
	return false
}

func (ci *constInterp) exec(list []ast.Stmt, env cenv) (outcome, cenv, token.Pos) {
	c := ci.c
	for _, s := range list {
		// anything whose address is handed to a call may be overwritten by it
		switch s.(type) {
		case *ast.IfStmt, *ast.BlockStmt, *ast.ForStmt, *ast.RangeStmt, *ast.SwitchStmt, *ast.TypeSwitchStmt:
		default:
			ast.Inspect(s, func(n ast.Node) bool {
				if call, ok := n.(*ast.CallExpr); ok {
					for _, a := range call.Args {
						if u, ok := unparen(a).(*ast.UnaryExpr); ok && u.Op == token.AND {
							if id, ok := unparen(u.X).(*ast.Ident); ok && c.objOf(id) != nil {
								delete(env, c.objOf(id))
								ci.forgetFields(c.objOf(id), env)
							}
							if fo := ci.fieldOf(u.X); fo != nil {
								delete(env, fo)
							}
						}
					}
				}
				return true
			})
		}
		switch st := s.(type) {
		case *ast.ReturnStmt:
			if len(st.Results) > 0 && ci.definiteErrorExpr(st.Results[len(st.Results)-1]) {
				return returnsDefiniteError, env, st.Pos()
			}
			if len(st.Results) > 0 {
				ci.returns = append(ci.returns, ci.bytesOf(st.Results[0], env))
			}
			return returnsMaybeOK, env, st.Pos()
		case *ast.DeclStmt:
			if gd, ok := st.Decl.(*ast.GenDecl); ok {
				for _, sp := range gd.Specs {
					if vs, ok := sp.(*ast.ValueSpec); ok {
						for i, nm := range vs.Names {
							o := c.objOf(nm)
							if i < len(vs.Values) {
								if v := ci.eval(vs.Values[i], env); v != nil {
									env[o] = v
								} else {
									delete(env, o)
								}
							} else if structOf(o.Type()) != nil && len(vs.Values) == 0 {
								if _, isPtr := types.Unalias(o.Type()).(*types.Pointer); !isPtr {
									ci.zeroFields(o, env)
								}
							} else if b, ok := o.Type().Underlying().(*types.Basic); ok && len(vs.Values) == 0 {
								switch {
								case b.Info()&types.IsInteger != 0:
									env[o] = constant.MakeInt64(0)
								case b.Info()&types.IsString != 0:
									env[o] = constant.MakeString("")
								case b.Info()&types.IsBoolean != 0:
									env[o] = constant.MakeBool(false)
								}
							}
						}
					}
				}
			}
		case *ast.AssignStmt:
			for i, l := range st.Lhs {
				// x.F = value
				if fo := ci.fieldOf(l); fo != nil {
					delete(env, fo)
					if len(st.Lhs) == len(st.Rhs) && st.Tok == token.ASSIGN {
						r := unparen(st.Rhs[i])
						switch {
						case isNilIdent(c, r):
							env[fo] = constant.MakeString(cvNil)
						default:
							if u, ok := r.(*ast.UnaryExpr); ok && u.Op == token.AND {
								env[fo] = constant.MakeString(cvNonNil)
							} else if v := ci.eval(r, env); v != nil {
								env[fo] = v
							}
						}
					}
					continue
				}
				// *p = local  /  v = local : the whole struct is copied
				if len(st.Lhs) == len(st.Rhs) {
					var dst types.Object
					if sx, ok := unparen(l).(*ast.StarExpr); ok {
						if did, ok := unparen(sx.X).(*ast.Ident); ok {
							dst = c.objOf(did)
						}
					}
					if dst != nil {
						if sid, ok := unparen(st.Rhs[i]).(*ast.Ident); ok && c.objOf(sid) != nil {
							ci.copyFields(dst, c.objOf(sid), env)
						} else if lit, ok := unparen(st.Rhs[i]).(*ast.CompositeLit); ok && len(lit.Elts) == 0 {
							ci.zeroFields(dst, env)
						} else {
							ci.forgetFields(dst, env)
						}
						continue
					}
				}
				id, ok := unparen(l).(*ast.Ident)
				if !ok {
					continue
				}
				o := c.objOf(id)
				if o == nil {
					continue
				}
				if len(st.Lhs) == len(st.Rhs) && (st.Tok == token.ASSIGN || st.Tok == token.DEFINE) {
					if v := ci.eval(st.Rhs[i], env); v != nil {
						env[o] = v
						continue
					}
				}
				delete(env, o)
			}
		case *ast.IfStmt:
			if st.Init != nil {
				if out, e2, p := ci.exec([]ast.Stmt{st.Init}, env); out != fallsThrough {
					return out, e2, p
				}
			}
			cv := ci.eval(st.Cond, env)
			var elseList []ast.Stmt
			switch e := st.Else.(type) {
			case *ast.BlockStmt:
				elseList = e.List
			case *ast.IfStmt:
				elseList = []ast.Stmt{e}
			}
			if cv != nil && cv.Kind() == constant.Bool {
				branch := elseList
				if constant.BoolVal(cv) {
					branch = st.Body.List
				}
				out, e2, p := ci.exec(branch, env)
				if out != fallsThrough {
					return out, e2, p
				}
				env = e2
				continue
			}
			o1, e1, p1 := ci.exec(st.Body.List, env.clone())
			o2, e2, _ := ci.exec(elseList, env.clone())
			if o1 == returnsDefiniteError && o2 == returnsDefiniteError {
				return returnsDefiniteError, env, p1
			}
			if o1 != fallsThrough && o2 != fallsThrough {
				return returnsMaybeOK, env, p1
			}
			// merge environments of the branches that fall through
			merged := cenv{}
			switch {
			case o1 == fallsThrough && o2 == fallsThrough:
				for k, v := range e1 {
					if w, ok := e2[k]; ok && constant.Compare(v, token.EQL, w) {
						merged[k] = v
					}
				}
			case o1 == fallsThrough:
				merged = e1
			default:
				merged = e2
			}
			env = merged
		case *ast.SwitchStmt:
			if st.Init != nil {
				ci.exec([]ast.Stmt{st.Init}, env)
			}
			var tag constant.Value
			if st.Tag != nil {
				tag = ci.eval(st.Tag, env)
				if tag == nil {
					// unknown tag: give up precision, forget assigned variables
					return ci.forget(st, env, list, s)
				}
			}
			var chosen, def *ast.CaseClause
			known := true
			for _, cl := range st.Body.List {
				cc := cl.(*ast.CaseClause)
				if len(cc.List) == 0 {
					def = cc
					continue
				}
				for _, e := range cc.List {
					var v constant.Value
					if st.Tag != nil {
						if cv := ci.eval(e, env); cv != nil {
							v = constant.MakeBool(constant.Compare(tag, token.EQL, cv))
						}
					} else {
						v = ci.eval(e, env)
					}
					if v == nil || v.Kind() != constant.Bool {
						known = false
					} else if constant.BoolVal(v) && chosen == nil && known {
						chosen = cc
					}
				}
				if chosen != nil {
					break
				}
			}
			if chosen == nil && !known {
				return ci.forget(st, env, list, s)
			}
			if chosen == nil {
				chosen = def
			}
			if chosen != nil {
				out, e2, p := ci.exec(chosen.Body, env)
				if out != fallsThrough {
					return out, e2, p
				}
				env = e2
			}
		case *ast.BlockStmt:
			out, e2, p := ci.exec(st.List, env)
			if out != fallsThrough {
				return out, e2, p
			}
			env = e2
		case *ast.ForStmt, *ast.RangeStmt, *ast.TypeSwitchStmt, *ast.SelectStmt:
			// loops and type switches: not folded; a return inside them is not "definite"
			ast.Inspect(st, func(n ast.Node) bool {
				if as, ok := n.(*ast.AssignStmt); ok {
					for _, l := range as.Lhs {
						if id, ok := unparen(l).(*ast.Ident); ok {
							delete(env, c.objOf(id))
						}
					}
				}
				return true
			})
			hasReturn := false
			ast.Inspect(st, func(n ast.Node) bool {
				if _, ok := n.(*ast.ReturnStmt); ok {
					hasReturn = true
				}
				return true
			})
			if hasReturn {
				// cannot tell whether we get past this statement with a definite verdict: stop with "maybe ok"
				return returnsMaybeOK, env, st.Pos()
			}
		}
	}
	return fallsThrough, env, token.NoPos
}

func (ci *constInterp) forget(st ast.Stmt, env cenv, list []ast.Stmt, cur ast.Stmt) (outcome, cenv, token.Pos) {
	return returnsMaybeOK, env, st.Pos()
}

// encoderConstants: constant texts returned by a MarshalJSON body.
func (c *Ctx) encoderConstants(fd *ast.FuncDecl) []string {
	var out []string
	seen := map[string]bool{}
	ast.Inspect(fd.Body, func(n ast.Node) bool {
		rs, ok := n.(*ast.ReturnStmt)
		if !ok || len(rs.Results) == 0 {
			return true
		}
		e := unparen(rs.Results[0])
		var s string
		found := false
		if call, ok := e.(*ast.CallExpr); ok && c.isConversion(call) && len(call.Args) == 1 {
			s, found = c.constString(call.Args[0])
		}
		if id, ok := e.(*ast.Ident); ok {
			if v, ok := c.objOf(id).(*types.Var); ok && v.Parent() == c.Types.Scope() {
				s, found = c.pkgVarBytes(v)
			}
		}
		if found && !seen[s] {
			seen[s] = true
			out = append(out, s)
		}
		return true
	})
	return out
}

func ruleEncoderConstantsDecodable(c *Ctx) {
	const rule = "encoder-constants-decodable"
	sc := c.Types.Scope()
	for _, n := range sc.Names() {
		tn, ok := sc.Lookup(n).(*types.TypeName)
		if !ok {
			continue
		}
		named, ok := tn.Type().(*types.Named)
		if !ok {
			continue
		}
		m, u := declaredMethod(named, "MarshalJSON"), declaredMethod(named, "UnmarshalJSON")
		if m == nil || u == nil {
			continue
		}
		mfd, ufd := c.decl(m), c.decl(u)
		if mfd == nil || ufd == nil {
			continue
		}
		consts := c.encoderConstants(mfd)
		if len(consts) == 0 {
			continue
		}
		c.saw(c.funcName(ufd))
		data := c.paramObj(ufd, 0)
		for _, k := range consts {
			ci := &constInterp{c: c, data: data, text: k}
			out, _, pos := ci.exec(ufd.Body.List, cenv{})
			p := ufd.Pos()
			if out == returnsDefiniteError {
				p = pos
			}
			c.ob(rule, fmt.Sprintf("%s:%s", n, k), p, out != returnsDefiniteError,
				fmt.Sprintf("%s.MarshalJSON can emit %s, but %s.UnmarshalJSON rejects exactly that text with an error: the encoded form of a decodable document can no longer be decoded", n, k, n))
			// round trip of the constant: fold the decoder on the text, carry the fields of the receiver that are
			// known afterwards over to the encoder, fold the encoder: if it definitely answers with another
			// constant, the text does not survive decode + encode
			if out == returnsDefiniteError {
				continue
			}
			ci2 := &constInterp{c: c, data: data, text: k}
			out2, env2, _ := ci2.exec(ufd.Body.List, cenv{})
			if out2 == returnsDefiniteError {
				continue
			}
			urecv, mrecv := c.recvObj(ufd), c.recvObj(mfd)
			st := structOf(named)
			if urecv == nil || mrecv == nil || st == nil {
				continue
			}
			enc := &constInterp{c: c}
			menv := cenv{}
			known := 0
			for i := 0; i < st.NumFields(); i++ {
				fname := st.Field(i).Name()
				if v, ok := env2[ci2.fieldVar(urecv, fname)]; ok {
					menv[enc.fieldVar(mrecv, fname)] = v
					known++
				}
			}
			if known == 0 {
				continue
			}
			enc.exec(mfd.Body.List, menv)
			if len(enc.returns) != 1 || enc.returns[0] == nil {
				continue // the encoder's answer is not a single known constant under what is known of the value
			}
			got := *enc.returns[0]
			c.ob(rule, fmt.Sprintf("%s:%s:round-trip", n, k), ufd.Pos(), got == k,
				fmt.Sprintf("%s.UnmarshalJSON turns the text %s, which %s.MarshalJSON itself emits, into a value that is encoded as %s: the constant does not survive a decode/encode round trip", n, k, n, got))
		}
	}
}
