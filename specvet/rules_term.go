package main

import (
	"fmt"
	"go/ast"
	"go/token"
	"go/types"
	"sort"
	"strings"
)

func init() {
	registerRule("cut-check", 20, "every recursion of the expander is structural descent or a followed $ref guarded by the cycle cut, with the parent stack extended by the same canonical ref", ruleCutCheck)
	registerRule("nilres", 12, "a nil expander result implies a non-nil error, and results are only dereferenced where non-nil is guaranteed", ruleNilRes)
	registerRule("no-panic-path", 55, "the panic-capable sites reachable from the expand/resolve entry points are exactly the audited ones", ruleNoPanicPath)
}

// sccs computes strongly connected components of the package's static call graph.
func (c *Ctx) sccs() [][]*types.Func {
	funcs := c.pkgFuncs()
	index := map[*types.Func]int{}
	low := map[*types.Func]int{}
	on := map[*types.Func]bool{}
	var stack []*types.Func
	var out [][]*types.Func
	n := 0
	var strong func(v *types.Func)
	strong = func(v *types.Func) {
		index[v], low[v] = n, n
		n++
		stack = append(stack, v)
		on[v] = true
		for _, w := range c.staticCallees(v) {
			if _, seen := index[w]; !seen {
				strong(w)
				if low[w] < low[v] {
					low[v] = low[w]
				}
			} else if on[w] && index[w] < low[v] {
				low[v] = index[w]
			}
		}
		if low[v] == index[v] {
			var comp []*types.Func
			for {
				w := stack[len(stack)-1]
				stack = stack[:len(stack)-1]
				on[w] = false
				comp = append(comp, w)
				if w == v {
					break
				}
			}
			out = append(out, comp)
		}
	}
	for _, f := range funcs {
		if _, seen := index[f]; !seen {
			strong(f)
		}
	}
	return out
}

func (c *Ctx) stringSliceParam(fd *ast.FuncDecl) types.Object {
	for i := 0; ; i++ {
		p := c.paramObj(fd, i)
		if p == nil {
			return nil
		}
		if sl, ok := p.Type().Underlying().(*types.Slice); ok {
			if b, ok := sl.Elem().Underlying().(*types.Basic); ok && b.Kind() == types.String {
				return p
			}
		}
	}
}

// argForParamType returns the call argument bound to the callee's first parameter satisfying pred.
func (c *Ctx) argFor(call *ast.CallExpr, pred func(t types.Type) bool) ast.Expr {
	f, ok := c.callee(call).(*types.Func)
	if !ok {
		return nil
	}
	sig := f.Type().(*types.Signature)
	for i := 0; i < sig.Params().Len() && i < len(call.Args); i++ {
		if pred(sig.Params().At(i).Type()) {
			return call.Args[i]
		}
	}
	return nil
}

func isStringSlice(t types.Type) bool {
	sl, ok := t.Underlying().(*types.Slice)
	if !ok {
		return false
	}
	b, ok := sl.Elem().Underlying().(*types.Basic)
	return ok && b.Kind() == types.String
}

func isStringType(t types.Type) bool {
	b, ok := t.Underlying().(*types.Basic)
	return ok && b.Kind() == types.String
}

func ruleCutCheck(c *Ctx) {
	const rule = "cut-check"
	fam := c.family()
	if !fam.ok() {
		c.undecided(rule, "family", token.NoPos, "expander family not found by role")
		return
	}
	loaderName := fam.loader.Obj().Name()
	isCircularCall := func(call *ast.CallExpr) bool { return c.isSpecMethod(call, loaderName, "isCircular") }
	follows := func(call *ast.CallExpr) bool {
		g, _ := c.callee(call).(*types.Func)
		if g == nil {
			return false
		}
		if g == fam.resolveRef {
			return true
		}
		// thin wrappers of resolveRef (Resolve)
		if fam.members[g] && !fam.withParents[g] {
			for _, h := range c.staticCallees(g) {
				if h == fam.resolveRef {
					return true
				}
			}
		}
		return c.isResolverWrapper(fam, g)
	}
	nRef, nDesc := 0, 0
	for _, comp := range c.sccs() {
		in := map[*types.Func]bool{}
		for _, f := range comp {
			in[f] = true
		}
		cyclic := len(comp) > 1
		if !cyclic {
			for _, g := range c.staticCallees(comp[0]) {
				if g == comp[0] {
					cyclic = true
				}
			}
		}
		if !cyclic {
			continue
		}
		var names []string
		for _, f := range comp {
			names = append(names, funcDisplay(f))
		}
		sort.Strings(names)
		sccName := strings.Join(names, "+")
		// edges that are not strict descent nor reference following
		same := map[*types.Func][]*types.Func{}
		for _, f := range comp {
			fd := c.decl(f)
			c.saw(c.funcName(fd))
			oc := c.newOriginCtx(fd)
			parents := c.stringSliceParam(fd)
			defs := c.localDefs(fd)
			elemParam := c.paramObj(fd, 0)
			ord := map[string]int{}
			ast.Inspect(fd.Body, func(n ast.Node) bool {
				call, ok := n.(*ast.CallExpr)
				if !ok {
					return true
				}
				g, ok := c.callee(call).(*types.Func)
				if !ok || !in[g] {
					return true
				}
				edge := funcDisplay(f) + "→" + funcDisplay(g)
				ord[edge]++
				key := fmt.Sprintf("%s#%d", edge, ord[edge])
				fCar, gCar := c.carrierOf(fam, f), c.carrierOf(fam, g)
				if !(fam.members[f] && parents != nil || fCar != nil) || !(fam.members[g] || gCar != nil) {
					c.ob(rule, key, call.Pos(), false, "recursion outside the expander family: no cycle cut is known for it")
					return true
				}
				if fCar != nil || gCar != nil {
					// an edge through a parameter object (a small struct carrying loader, base path and parent stack):
					// only structural descent is understood here; the stack must travel unchanged through the struct
					desc := false
					if len(call.Args) > 0 {
						for _, o := range oc.origins(call.Args[0], 0) {
							if o.root == elemParam && len(o.steps) > 0 {
								desc = true
							}
						}
					}
					// the stack handed on
					var handed ast.Expr
					if gCar != nil {
						if se, ok := unparen(call.Fun).(*ast.SelectorExpr); ok {
							handed = c.carrierFieldValue(fd, se.X, gCar.parents)
						}
					} else {
						handed = c.argFor(call, isStringSlice)
					}
					unchanged := false
					if handed != nil {
						if fCar != nil {
							if hs, ok := unparen(handed).(*ast.SelectorExpr); ok {
								if id, ok := unparen(hs.X).(*ast.Ident); ok && c.objOf(id) == c.recvObj(fd) && c.fieldOfSel(hs) == fCar.parents && !c.fieldAssignedIn(fd, fCar.parents) {
									unchanged = true
								}
							}
						} else if id, ok := unparen(handed).(*ast.Ident); ok && c.objOf(id) == parents {
							unchanged = true
							for _, d := range defs[parents] {
								if d != nil && d.Pos() < call.Pos() {
									unchanged = false
								}
							}
						}
					}
					nDesc++
					c.ob(rule, key+":stack-unchanged", call.Pos(), desc && unchanged,
						"a recursive call through a parameter object must descend into the schema and carry the parent-ref stack unchanged (field set once from the caller's stack, never re-assigned)")
					if !desc {
						same[f] = append(same[f], g)
					}
					return true
				}
				// classification
				class := "same"
				if len(call.Args) > 0 {
					for _, o := range oc.origins(call.Args[0], 0) {
						if o.root == elemParam && len(o.steps) > 0 {
							class = "desc"
						}
					}
				}
				// ... or, on the effect normal form (the call may sit in a closure or take a loop variable over a
				// list of positions), its first argument designates a position below the element
				if class != "desc" && c.simCallDescends(fam, fd, call, elemParam) {
					class = "desc"
				}
				if class != "desc" {
					// does a followed reference precede the call?
					followed := false
					ast.Inspect(fd.Body, func(m ast.Node) bool {
						if cc, ok := m.(*ast.CallExpr); ok && cc.End() <= call.Pos() && follows(cc) {
							followed = true
						}
						return true
					})
					if followed {
						class = "ref"
					}
				}
				parg := c.argFor(call, isStringSlice)
				pid, _ := unparen(parg).(*ast.Ident)
				switch class {
				case "desc", "same":
					nDesc++
					ok := pid != nil && c.objOf(pid) == parents
					if ok {
						for _, d := range defs[parents] {
							if d != nil && d.Pos() < call.Pos() {
								ok = false
							}
						}
					}
					c.ob(rule, key+":stack-unchanged", call.Pos(), ok, "structural descent must pass the parent-ref stack unchanged (not re-made, re-sliced or extended)")
					if class == "same" {
						same[f] = append(same[f], g)
					}
				case "ref":
					nRef++
					// (a) cut: !isCircular(k, base, parents...) holds here
					var k types.Object
					cut := false
					for _, cl := range c.literalsAt(fd, call) {
						cc, ok := unparen(cl.e).(*ast.CallExpr)
						if !ok || !isCircularCall(cc) || !cl.neg || len(cc.Args) < 3 {
							continue
						}
						a0 := unparen(cc.Args[0])
						if u, isAddr := a0.(*ast.UnaryExpr); isAddr && u.Op == token.AND {
							a0 = unparen(u.X) // the tested reference held by value: &k
						}
						if id, ok := a0.(*ast.Ident); ok {
							k = c.objOf(id)
						}
						last, _ := unparen(cc.Args[len(cc.Args)-1]).(*ast.Ident)
						if cc.Ellipsis.IsValid() && last != nil && c.objOf(last) == parents {
							cut = true
							// the stack must not have been modified before the test
							for _, d := range defs[parents] {
								if d != nil && d.Pos() < cc.Pos() {
									cut = false
								}
							}
						}
					}
					c.ob(rule, key+":cut", call.Pos(), cut && k != nil,
						"a followed $ref is expanded without the cycle test isCircular(ref, base, parentRefs...) having returned false on this path: a cyclic reference graph recurses without bound")
					// (b) stack extended with the same canonical ref
					ext := false
					if pid != nil && c.objOf(pid) == parents && k != nil {
						var lastDef ast.Expr
						for _, d := range defs[parents] {
							if d != nil && d.Pos() < call.Pos() && (lastDef == nil || d.Pos() > lastDef.Pos()) {
								lastDef = d
							}
						}
						if ap, ok := unparen(lastDef).(*ast.CallExpr); ok && lastDef != nil && c.isBuiltin(ap, "append") && len(ap.Args) == 2 {
							a0, _ := unparen(ap.Args[0]).(*ast.Ident)
							if sc, ok := unparen(ap.Args[1]).(*ast.CallExpr); ok && a0 != nil && c.objOf(a0) == parents {
								if se, ok := unparen(sc.Fun).(*ast.SelectorExpr); ok && se.Sel.Name == "String" {
									if kid, ok := unparen(se.X).(*ast.Ident); ok && c.objOf(kid) == k {
										ext = true
									}
								}
							}
						}
					}
					c.ob(rule, key+":push", call.Pos(), ext,
						"the recursive call must receive append(parentRefs, k.String()) for the very reference k that was tested by isCircular; otherwise the loop variant does not grow and the cut never fires")
					// k is a normalised ref
					if k != nil {
						norm := len(defs[k]) > 0
						for _, d := range defs[k] {
							cc, ok := unparen(d).(*ast.CallExpr)
							if !ok || !c.isSpecFunc(cc, "normalizeRef") {
								norm = false
							}
						}
						// ... or the inlined form of the normaliser (a reference parsed from normalizeURI's result)
						if !norm {
							norm = c.isNormalisedRef(fd, &ast.Ident{Name: k.Name(), NamePos: k.Pos()}, nil, 0) || c.normalisedObj(fd, k)
						}
						c.ob(rule, key+":canonical-key", call.Pos(), norm, "the reference tested and pushed must be the normalised (canonical absolute) form")
					}
				}
				return true
			})
		}
		// a cycle made only of pass-through edges never shrinks its argument
		bad := false
		var walk func(f *types.Func, seen map[*types.Func]bool) bool
		walk = func(f *types.Func, seen map[*types.Func]bool) bool {
			if seen[f] {
				return true
			}
			seen[f] = true
			for _, g := range same[f] {
				if walk(g, seen) {
					return true
				}
			}
			delete(seen, f)
			return false
		}
		for _, f := range comp {
			if walk(f, map[*types.Func]bool{}) {
				bad = true
			}
		}
		c.ob(rule, "scc("+sccName+"):progress", token.NoPos, !bad, "the recursion contains a cycle whose calls neither descend into the schema nor follow a guarded reference")
	}
	// reference-following LOOPS: a tail recursion written as `for { ...follow...; parents = append(parents, k) }`
	for _, f := range fam.order {
		fd := c.decl(f)
		parents := c.stringSliceParam(fd)
		if parents == nil {
			continue
		}
		defs := c.localDefs(fd)
		fn := c.funcName(fd)
		nloop := 0
		ast.Inspect(fd.Body, func(n ast.Node) bool {
			loop, ok := n.(*ast.ForStmt)
			if !ok {
				return true
			}
			var fcall *ast.CallExpr
			ast.Inspect(loop.Body, func(m ast.Node) bool {
				if cc, ok := m.(*ast.CallExpr); ok && follows(cc) && fcall == nil {
					fcall = cc
				}
				return true
			})
			if fcall == nil {
				return true
			}
			// a loop that can leave only by return (no condition): every iteration follows one reference
			nloop++
			nRef++
			c.saw(fn)
			key := fmt.Sprintf("%s:follow-loop#%d", fn, nloop)
			var k types.Object
			cut := false
			for _, cl := range c.literalsAt(fd, fcall) {
				cc, ok := unparen(cl.e).(*ast.CallExpr)
				if !ok || !isCircularCall(cc) || !cl.neg || len(cc.Args) < 3 {
					continue
				}
				if id, ok := unparen(cc.Args[0]).(*ast.Ident); ok {
					k = c.objOf(id)
				}
				last, _ := unparen(cc.Args[len(cc.Args)-1]).(*ast.Ident)
				if cc.Ellipsis.IsValid() && last != nil && c.objOf(last) == parents && cc.Pos() > loop.Body.Pos() {
					cut = true
				}
			}
			c.ob(rule, key+":cut", fcall.Pos(), cut && k != nil,
				"a $ref is followed inside a loop without the cycle test isCircular(ref, base, parentRefs...) having returned false in the same iteration: a cyclic reference chain loops without bound")
			ext := false
			if k != nil {
				ast.Inspect(loop.Body, func(m ast.Node) bool {
					as, ok := m.(*ast.AssignStmt)
					if !ok || as.Pos() < fcall.End() || len(as.Lhs) != 1 || len(as.Rhs) != 1 {
						return true
					}
					lid, ok := unparen(as.Lhs[0]).(*ast.Ident)
					if !ok || c.objOf(lid) != parents {
						return true
					}
					if ap, ok := unparen(as.Rhs[0]).(*ast.CallExpr); ok && c.isBuiltin(ap, "append") && len(ap.Args) == 2 {
						a0, _ := unparen(ap.Args[0]).(*ast.Ident)
						if sc, ok := unparen(ap.Args[1]).(*ast.CallExpr); ok && a0 != nil && c.objOf(a0) == parents {
							if se, ok := unparen(sc.Fun).(*ast.SelectorExpr); ok && se.Sel.Name == "String" {
								if kid, ok := unparen(se.X).(*ast.Ident); ok && c.objOf(kid) == k {
									ext = true
								}
							}
						}
					}
					return true
				})
			}
			c.ob(rule, key+":push", fcall.Pos(), ext,
				"every iteration must extend the parent stack with k.String() for the very reference k tested by isCircular; otherwise the cut never fires")
			if k != nil {
				norm := len(defs[k]) > 0
				for _, d := range defs[k] {
					cc, ok := unparen(d).(*ast.CallExpr)
					if !ok || !c.isSpecFunc(cc, "normalizeRef") {
						norm = false
					}
				}
				c.ob(rule, key+":canonical-key", fcall.Pos(), norm, "the reference tested and pushed must be the normalised (canonical absolute) form")
			}
			return true
		})
	}
	c.note("cut-check: %d reference-following and %d structural recursive call sites", nRef, nDesc)
	if nRef < 2 {
		c.ob(rule, "reference-following-sites", token.NoPos, false, fmt.Sprintf("expected the two reference-following recursions (schema $ref, chain dereference), found %d", nRef))
	}

	// isCircular: one key for lookup, comparison and memo
	if m := c.decl(c.method(loaderName, "isCircular")); m != nil {
		c.saw(c.funcName(m))
		keys := map[types.Object]int{}
		uses := 0
		ast.Inspect(m.Body, func(n ast.Node) bool {
			switch x := n.(type) {
			case *ast.IndexExpr:
				if p, ok := c.apath(x.X); ok && lastStep(p) == "circulars" {
					uses++
					if id, ok := unparen(x.Index).(*ast.Ident); ok {
						keys[c.objOf(id)]++
					} else {
						keys[nil]++
					}
				}
			case *ast.CallExpr:
				if c.isPkgFunc(x, "github.com/go-openapi/swag", "ContainsStrings") && len(x.Args) == 2 {
					uses++
					if id, ok := unparen(x.Args[1]).(*ast.Ident); ok {
						keys[c.objOf(id)]++
					} else {
						keys[nil]++
					}
				}
			}
			return true
		})
		okKey := len(keys) == 1 && uses >= 3
		var k types.Object
		for o := range keys {
			k = o
		}
		if okKey && k != nil {
			// the key is the normalised URI of the tested reference against the given base
			ds := c.localDefs(m)[k]
			okKey = len(ds) == 1
			if okKey {
				cc, ok := unparen(ds[0]).(*ast.CallExpr)
				okKey = ok && c.isSpecFunc(cc, "normalizeURI")
			}
		} else {
			okKey = false
		}
		c.ob(rule, "isCircular:one-key", m.Pos(), okKey, "the memo lookup, the comparison with the parent stack and the memo store must use one and the same normalised key")
		// memo store only when a cycle was found
		memoOK := false
		ast.Inspect(m.Body, func(n ast.Node) bool {
			as, ok := n.(*ast.AssignStmt)
			if !ok {
				return true
			}
			if ix, ok := unparen(as.Lhs[0]).(*ast.IndexExpr); ok {
				if p, ok := c.apath(ix.X); ok && lastStep(p) == "circulars" {
					memoOK = len(c.condsAt(m, as)) > 0
				}
			}
			return true
		})
		c.ob(rule, "isCircular:memo-guarded", m.Pos(), memoOK, "a reference may be memoised as circular only under the test that found it on the parent stack")
	} else {
		c.undecided(rule, "isCircular", token.NoPos, "isCircular not found")
	}
}

// ---- nilres ----

func returnsPtrSchemaErr(f *types.Func, pkg *types.Package) bool {
	sig := f.Type().(*types.Signature)
	if sig.Results().Len() != 2 {
		return false
	}
	_, isPtr := types.Unalias(sig.Results().At(0).Type()).(*types.Pointer)
	return isPtr && isNamed(sig.Results().At(0).Type(), pkg, "Schema") && isErrorType(sig.Results().At(1).Type())
}

func ruleNilRes(c *Ctx) {
	const rule = "nilres"
	fam := c.family()
	if !fam.ok() {
		c.undecided(rule, "family", token.NoPos, "expander family not found by role")
		return
	}
	producers := map[*types.Func]bool{}
	for _, f := range fam.order {
		if returnsPtrSchemaErr(f, c.Types) {
			producers[f] = true
		}
	}
	// I1: nil result only with a provably non-nil error
	for _, f := range fam.order {
		if !producers[f] {
			continue
		}
		fd := c.decl(f)
		fn := c.funcName(fd)
		c.saw(fn)
		n := 0
		ast.Inspect(fd.Body, func(nd ast.Node) bool {
			if _, isLit := nd.(*ast.FuncLit); isLit {
				return false
			}
			rs, ok := nd.(*ast.ReturnStmt)
			if !ok || len(rs.Results) != 2 || !isNilIdent(c, rs.Results[0]) {
				return true
			}
			n++
			key := fmt.Sprintf("%s:nil-return#%d", fn, n)
			eid, ok := unparen(rs.Results[1]).(*ast.Ident)
			if !ok || isNilIdent(c, rs.Results[1]) {
				// an unexported producer every caller of which tests the result against nil before using it may
				// say "nothing, and no error" (a continued failure)
				c.ob(rule, key, rs.Pos(), c.allCallersNilTest(f), "returns a nil schema with a nil (or non-variable) error: callers that check only the error dereference nil")
				return true
			}
			proven := false
			for _, cl := range c.literalsAt(fd, rs) {
				if k := c.errCheckKind(cl.e, c.objOf(eid)); (k == "nonnil" || k == "stop") && !cl.neg {
					proven = true
				}
			}
			c.ob(rule, key, rs.Pos(), proven, "returns a nil schema with an error that is not known to be non-nil on this path")
			return true
		})
	}
	// I2: dereferences of producer results
	for _, f := range c.pkgFuncs() {
		fd := c.decl(f)
		if fd == nil || fd.Body == nil {
			continue
		}
		fn := c.funcName(fd)
		ord := 0
		ast.Inspect(fd.Body, func(nd ast.Node) bool {
			as, ok := nd.(*ast.AssignStmt)
			if !ok || len(as.Rhs) != 1 || len(as.Lhs) != 2 {
				return true
			}
			call, ok := unparen(as.Rhs[0]).(*ast.CallExpr)
			if !ok {
				return true
			}
			g, ok := c.callee(call).(*types.Func)
			if !ok || !producers[g] {
				return true
			}
			rid, ok1 := as.Lhs[0].(*ast.Ident)
			eid, ok2 := as.Lhs[1].(*ast.Ident)
			if !ok1 || !ok2 || rid.Name == "_" {
				return true
			}
			c.saw(fn)
			res, errv := c.objOf(rid), c.objOf(eid)
			// how is the error checked right after the call?
			block, idx := c.enclosingBlock(fd, as)
			plain := false // `if err != nil { return }` : non-nil result guaranteed by I1 afterwards
			if block != nil && idx+1 < len(block) {
				if ifs, ok := block[idx+1].(*ast.IfStmt); ok && c.errCheckKind(ifs.Cond, errv) == "nonnil" && blockAlwaysLeaves(ifs.Body) {
					plain = true
				}
			}
			// every dereference of res up to its next redefinition
			end := fd.Body.End()
			ast.Inspect(fd.Body, func(m ast.Node) bool {
				if a2, ok := m.(*ast.AssignStmt); ok && a2.Pos() > as.End() && a2.Pos() < end {
					for _, l := range a2.Lhs {
						if id, ok := l.(*ast.Ident); ok && c.objOf(id) == res {
							end = a2.Pos()
						}
					}
				}
				return true
			})
			ast.Inspect(fd.Body, func(m ast.Node) bool {
				st, ok := m.(*ast.StarExpr)
				if !ok || st.Pos() < as.End() || st.Pos() >= end {
					return true
				}
				id, ok := unparen(st.X).(*ast.Ident)
				if !ok || c.objOf(id) != res {
					return true
				}
				ord++
				key := fmt.Sprintf("%s:deref(%s)#%d", fn, id.Name, ord)
				guarded := false
				for _, cl := range c.literalsAt(fd, st) {
					be, ok := unparen(cl.e).(*ast.BinaryExpr)
					if !ok {
						continue
					}
					if x, ok := unparen(be.X).(*ast.Ident); ok && c.objOf(x) == res && isNilIdent(c, be.Y) {
						if be.Op == token.NEQ && !cl.neg || be.Op == token.EQL && cl.neg {
							guarded = true
						}
					}
				}
				// the conditions in force say the error of that very call is nil (I1: a nil result comes only with
				// a non-nil error), whatever statement shape established it
				for _, cl := range c.literalsAt(fd, st) {
					if k := c.errCheckKind(cl.e, errv); (k == "nil" && !cl.neg || k == "nonnil" && cl.neg) && cl.e.Pos() > as.End() {
						guarded = true
					}
				}
				c.ob(rule, key, st.Pos(), guarded || plain,
					"result of the expander is dereferenced where it may be nil: after a stop-on-error test that lets a non-nil error through (ContinueOnError), only an explicit != nil guard makes this safe")
				return true
			})
			return true
		})
	}
}

// enclosingBlock finds the statement list directly containing stmt.
func (c *Ctx) enclosingBlock(fd *ast.FuncDecl, target ast.Stmt) ([]ast.Stmt, int) {
	var list []ast.Stmt
	idx := -1
	ast.Inspect(fd.Body, func(n ast.Node) bool {
		var l []ast.Stmt
		switch x := n.(type) {
		case *ast.BlockStmt:
			l = x.List
		case *ast.CaseClause:
			l = x.Body
		}
		for i, s := range l {
			if s == target {
				list, idx = l, i
			}
		}
		return idx < 0
	})
	return list, idx
}

// ---- no-panic-path ----

type panicSite struct {
	fn, kind, detail string
	pos              token.Pos
}

// panicSites lists constructs that can panic by construction in one function.
func (c *Ctx) panicSites(fd *ast.FuncDecl) []panicSite {
	var out []panicSite
	fn := c.funcName(fd)
	rangeKeys := map[types.Object]string{} // range key var -> ranged expr text
	ast.Inspect(fd.Body, func(n ast.Node) bool {
		if rs, ok := n.(*ast.RangeStmt); ok {
			if id, ok := rs.Key.(*ast.Ident); ok && id.Name != "_" {
				rangeKeys[c.objOf(id)] = exprString(rs.X)
			}
		}
		return true
	})
	inTypeSwitch := map[*ast.TypeAssertExpr]bool{}
	commaOK := map[*ast.TypeAssertExpr]bool{}
	ast.Inspect(fd.Body, func(n ast.Node) bool {
		switch x := n.(type) {
		case *ast.TypeSwitchStmt:
			ast.Inspect(x.Assign, func(m ast.Node) bool {
				if ta, ok := m.(*ast.TypeAssertExpr); ok {
					inTypeSwitch[ta] = true
				}
				return true
			})
		case *ast.AssignStmt:
			if len(x.Lhs) == 2 && len(x.Rhs) == 1 {
				if ta, ok := unparen(x.Rhs[0]).(*ast.TypeAssertExpr); ok {
					commaOK[ta] = true
				}
			}
		case *ast.ValueSpec:
			if len(x.Names) == 2 && len(x.Values) == 1 {
				if ta, ok := unparen(x.Values[0]).(*ast.TypeAssertExpr); ok {
					commaOK[ta] = true
				}
			}
		}
		return true
	})
	ast.Inspect(fd.Body, func(n ast.Node) bool {
		switch x := n.(type) {
		case *ast.CallExpr:
			if c.isBuiltin(x, "panic") {
				out = append(out, panicSite{fn, "panic", "", x.Pos()})
			}
			if f, ok := c.callee(x).(*types.Func); ok && strings.HasPrefix(f.Name(), "Must") {
				arg := ""
				if len(x.Args) > 0 {
					arg = exprString(x.Args[0])
					if f.Name() == "MustCreateRef" {
						// describe the argument by where it comes from, not by how it is spelled
						arg = c.refTextProvenance(fd, x.Args[0], 0)
					}
				}
				out = append(out, panicSite{fn, "must", f.Name() + "(" + arg + ")", x.Pos()})
			}
		case *ast.BinaryExpr:
			// == / != between two interface values panics when both hold the same uncomparable dynamic type (a
			// decoded JSON object is a map): safe only where both are known to hold pointers
			if (x.Op == token.EQL || x.Op == token.NEQ) && !isNilIdent(c, x.X) && !isNilIdent(c, x.Y) {
				tx, ty := c.typeOf(x.X), c.typeOf(x.Y)
				if tx != nil && ty != nil {
					ix, okx := tx.Underlying().(*types.Interface)
					iy, oky := ty.Underlying().(*types.Interface)
					if okx && oky && ix.Empty() && iy.Empty() && !c.bothKnownPointers(fd, x) {
						out = append(out, panicSite{fn, "iface-compare", exprString(x), x.Pos()})
					}
				}
			}
		case *ast.TypeAssertExpr:
			if x.Type != nil && !inTypeSwitch[x] && !commaOK[x] {
				out = append(out, panicSite{fn, "type-assert", exprString(x), x.Pos()})
			}
		case *ast.IndexExpr:
			t := c.typeOf(x.X)
			if t == nil {
				return true
			}
			switch t.Underlying().(type) {
			case *types.Slice, *types.Array, *types.Basic, *types.Pointer:
				if tv, ok := c.Info.Types[x.X]; ok && tv.IsType() {
					return true // generic instantiation
				}
				if id, ok := unparen(x.Index).(*ast.Ident); ok {
					if rangeKeys[c.objOf(id)] == exprString(x.X) {
						return true // index is the range key of the same container
					}
					// sort.Interface contract: Less/Swap receive indices in [0, Len())
					if (fd.Name.Name == "Less" || fd.Name.Name == "Swap") && fd.Recv != nil {
						if rid, ok := unparen(x.X).(*ast.Ident); ok && c.objOf(rid) == c.recvObj(fd) {
							for pi := 0; pi < 2; pi++ {
								if c.paramObj(fd, pi) == c.objOf(id) {
									return true
								}
							}
						}
					}
				}
				if id, ok := unparen(x.Index).(*ast.Ident); ok && c.sortIndexForwarded(fd, x.X, c.objOf(id)) {
					return true
				}
				if !c.indexGuarded(fd, x) && !c.lastOfNonEmpty(fd, x.X, x.Index) && !c.simIndexSafe(fd, x) {
					out = append(out, panicSite{fn, "index", exprString(x), x.Pos()})
				}
			}
		case *ast.SliceExpr:
			if x.Low == nil && x.High == nil {
				return true
			}
			if x.Low == nil && x.Max == nil && c.lastOfNonEmpty(fd, x.X, x.High) {
				return true
			}
			if !c.sliceGuarded(fd, x) {
				out = append(out, panicSite{fn, "slice", exprString(x), x.Pos()})
			}
		case *ast.AssignStmt:
			for _, l := range x.Lhs {
				ix, ok := unparen(l).(*ast.IndexExpr)
				if !ok {
					continue
				}
				if _, isMap := c.typeOf(ix.X).Underlying().(*types.Map); !isMap {
					continue
				}
				if !c.mapStoreSafe(fd, x, ix) && !c.simMapStoreSafe(fd, ix) {
					out = append(out, panicSite{fn, "nil-map-store", exprString(ix.X), x.Pos()})
				}
			}
		}
		return true
	})
	return out
}

// indexGuarded: data[k] with constant k under a condition len(data) > k' (k' >= k), or items[i] etc. inside
// a loop `for i := range items` (handled by the caller), or index into a fixed-size array with a constant.
func (c *Ctx) indexGuarded(fd *ast.FuncDecl, ix *ast.IndexExpr) bool {
	tv, ok := c.Info.Types[ix.Index]
	if !ok || tv.Value == nil {
		// an array indexed under uint(i) < K (or 0 <= i && i < K) with K not above its length
		if arr, isArr := c.typeOf(ix.X).Underlying().(*types.Array); isArr && c.indexBelow(fd, ix, ix.Index, int(arr.Len())) {
			return true
		}
		// non-constant index: loop counters of a classic for over len(x)
		return c.loopBounded(fd, ix)
	}
	k, isInt := constInt(tv.Value.String())
	if !isInt {
		return false
	}
	if arr, ok := c.typeOf(ix.X).Underlying().(*types.Array); ok && int64(k) < arr.Len() {
		return true
	}
	// a local slice made once with a constant length above the index, and never re-sliced or reassigned
	if id, ok := unparen(ix.X).(*ast.Ident); ok {
		if ds := c.localDefs(fd)[c.objOf(id)]; len(ds) == 1 && ds[0] != nil {
			if mk, ok := unparen(ds[0]).(*ast.CallExpr); ok && c.isBuiltin(mk, "make") && len(mk.Args) >= 2 {
				if tv, ok := c.Info.Types[mk.Args[1]]; ok && tv.Value != nil {
					if n, isInt := constInt(tv.Value.String()); isInt && k < n {
						return true
					}
				}
			}
		}
	}
	stripConv := func(e ast.Expr) string {
		e = unparen(e)
		if call, ok := e.(*ast.CallExpr); ok && c.isConversion(call) && len(call.Args) == 1 {
			e = unparen(call.Args[0])
		}
		return exprString(e)
	}
	base := stripConv(ix.X)
	for _, cl := range c.literalsAt(fd, ix) {
		be, ok := unparen(cl.e).(*ast.BinaryExpr)
		if !ok {
			continue
		}
		call, ok := unparen(be.X).(*ast.CallExpr)
		if !ok || !c.isBuiltin(call, "len") || len(call.Args) != 1 || stripConv(call.Args[0]) != base {
			continue
		}
		rv, ok := c.Info.Types[be.Y]
		if !ok || rv.Value == nil {
			continue
		}
		m, isInt := constInt(rv.Value.String())
		if !isInt {
			continue
		}
		// lower bound on len implied by the literal (with its polarity); -1: none
		lb := -1
		op := be.Op
		if cl.neg {
			switch op {
			case token.LSS:
				op = token.GEQ
			case token.LEQ:
				op = token.GTR
			case token.NEQ:
				op = token.EQL
			case token.EQL:
				op = token.NEQ
			default:
				continue
			}
		}
		switch op {
		case token.GTR:
			lb = m + 1
		case token.GEQ, token.EQL:
			lb = m
		case token.NEQ:
			if m == 0 {
				lb = 1
			}
		}
		if lb > k {
			return true
		}
	}
	return false
}

// lenLowerBound: the largest lower bound on len(<base>) that the conditions in force at node imply (-1: none).
func (c *Ctx) lenLowerBound(fd *ast.FuncDecl, node ast.Node, baseExpr ast.Expr) int {
	stripConv := func(e ast.Expr) string {
		e = unparen(e)
		if call, ok := e.(*ast.CallExpr); ok && c.isConversion(call) && len(call.Args) == 1 {
			e = unparen(call.Args[0])
		}
		return exprString(e)
	}
	best := -1
	base := stripConv(baseExpr)
	for _, cl := range c.literalsAt(fd, node) {
		be, ok := unparen(cl.e).(*ast.BinaryExpr)
		if !ok {
			continue
		}
		call, ok := unparen(be.X).(*ast.CallExpr)
		if !ok || !c.isBuiltin(call, "len") || len(call.Args) != 1 || stripConv(call.Args[0]) != base {
			continue
		}
		rv, ok := c.Info.Types[be.Y]
		if !ok || rv.Value == nil {
			continue
		}
		m, isInt := constInt(rv.Value.String())
		if !isInt {
			continue
		}
		// lower bound on len implied by the literal (with its polarity); -1: none
		lb := -1
		op := be.Op
		if cl.neg {
			switch op {
			case token.LSS:
				op = token.GEQ
			case token.LEQ:
				op = token.GTR
			case token.NEQ:
				op = token.EQL
			case token.EQL:
				op = token.NEQ
			default:
				continue
			}
		}
		switch op {
		case token.GTR:
			lb = m + 1
		case token.GEQ, token.EQL:
			lb = m
		case token.NEQ:
			if m == 0 {
				lb = 1
			}
		}
		if lb > best {
			best = lb
		}
	}
	return best
}

func constInt(s string) (int, bool) {
	n := 0
	if s == "" {
		return 0, false
	}
	for _, r := range s {
		if r < '0' || r > '9' {
			return 0, false
		}
		n = n*10 + int(r-'0')
	}
	return n, true
}

// loopBounded: x[i] inside `for i := 0; i < len(x); i++` or where i is bound by a range over x (checked by caller).
func (c *Ctx) loopBounded(fd *ast.FuncDecl, ix *ast.IndexExpr) bool {
	id, ok := unparen(ix.Index).(*ast.Ident)
	if !ok {
		return false
	}
	o := c.objOf(id)
	base := exprString(ix.X)
	bounded := false
	ast.Inspect(fd.Body, func(n ast.Node) bool {
		fs, ok := n.(*ast.ForStmt)
		if !ok || ix.Pos() < fs.Body.Pos() || ix.End() > fs.Body.End() || fs.Cond == nil {
			return true
		}
		be, ok := unparen(fs.Cond).(*ast.BinaryExpr)
		if !ok || be.Op != token.LSS {
			return true
		}
		l, ok := unparen(be.X).(*ast.Ident)
		if !ok || c.objOf(l) != o {
			return true
		}
		if call, ok := unparen(be.Y).(*ast.CallExpr); ok && c.isBuiltin(call, "len") && exprString(call.Args[0]) == base {
			bounded = true
		}
		// a constant bound not above what the conditions in force say about the length: len(x) == 3 ... i < 3
		if tv, isConst := c.Info.Types[be.Y]; isConst && tv.Value != nil {
			if n, isInt := constInt(tv.Value.String()); isInt && n <= c.lenLowerBound(fd, ix, ix.X) {
				bounded = true
			}
		}
		return true
	})
	// the key of a range over an array, used to index an array that is at least as long (both lengths are types)
	if arr, isArr := c.typeOf(ix.X).Underlying().(*types.Array); isArr && !bounded {
		ast.Inspect(fd.Body, func(n ast.Node) bool {
			rs, ok := n.(*ast.RangeStmt)
			if !ok || rs.Key == nil || ix.Pos() < rs.Body.Pos() || ix.End() > rs.Body.End() {
				return true
			}
			k, ok := rs.Key.(*ast.Ident)
			if !ok || c.objOf(k) != o {
				return true
			}
			if src, isArr := c.typeOf(rs.X).Underlying().(*types.Array); isArr && src.Len() <= arr.Len() {
				// the key must not be reassigned in the body
				written := false
				ast.Inspect(rs.Body, func(m ast.Node) bool {
					switch x := m.(type) {
					case *ast.AssignStmt:
						for _, l := range x.Lhs {
							if lid, ok := l.(*ast.Ident); ok && c.objOf(lid) == o {
								written = true
							}
						}
					case *ast.IncDecStmt:
						if lid, ok := x.X.(*ast.Ident); ok && c.objOf(lid) == o {
							written = true
						}
					}
					return true
				})
				if !written {
					bounded = true
				}
			}
			return true
		})
	}
	// the key of a range over P, used to index a local slice made with make(T, len(P) ...) that is afterwards only
	// appended to (it never gets shorter)
	// ... the same for a field of a local (raw.Security = make(T, len(P)); for i := range P { raw.Security[i] = .. })
	if xse, isSel := unparen(ix.X).(*ast.SelectorExpr); isSel && !bounded {
		if xp, okp := c.apath(xse); okp {
			if _, isParam := xp.Root.(*types.Var); isParam && c.paramIndex(fd, xp.Root) < 0 && xp.Root != c.recvObj(fd) {
				xtxt := exprString(xse)
				madeFor, okDefs, ndefs := "", true, 0
				ast.Inspect(fd.Body, func(n ast.Node) bool {
					as, isAs := n.(*ast.AssignStmt)
					if !isAs || len(as.Lhs) != len(as.Rhs) {
						return true
					}
					for li, l := range as.Lhs {
						if exprString(unparen(l)) != xtxt {
							continue
						}
						ndefs++
						call, isCall := unparen(as.Rhs[li]).(*ast.CallExpr)
						switch {
						case isCall && c.isBuiltin(call, "make") && len(call.Args) >= 2:
							if lc, isLen := unparen(call.Args[1]).(*ast.CallExpr); isLen && c.isBuiltin(lc, "len") && len(lc.Args) == 1 && madeFor == "" {
								madeFor = exprString(lc.Args[0])
							} else {
								okDefs = false
							}
						case isCall && c.isBuiltin(call, "append") && len(call.Args) >= 1 && exprString(unparen(call.Args[0])) == xtxt:
						default:
							okDefs = false
						}
					}
					return true
				})
				// the holder itself must not be re-assigned as a whole or have its address taken
				ast.Inspect(fd.Body, func(n ast.Node) bool {
					switch y := n.(type) {
					case *ast.AssignStmt:
						for _, l := range y.Lhs {
							if id, isId := unparen(l).(*ast.Ident); isId && c.objOf(id) == xp.Root && y.Tok != token.DEFINE {
								okDefs = false
							}
						}
					}
					return true
				})
				if okDefs && ndefs > 0 && madeFor != "" {
					ast.Inspect(fd.Body, func(n ast.Node) bool {
						rs, ok := n.(*ast.RangeStmt)
						if !ok || rs.Key == nil || ix.Pos() < rs.Body.Pos() || ix.End() > rs.Body.End() {
							return true
						}
						k, ok := rs.Key.(*ast.Ident)
						if !ok || c.objOf(k) != o || exprString(rs.X) != madeFor {
							return true
						}
						written := false
						ast.Inspect(rs.Body, func(m ast.Node) bool {
							switch x := m.(type) {
							case *ast.AssignStmt:
								for _, l := range x.Lhs {
									if lid, ok := l.(*ast.Ident); ok && c.objOf(lid) == o {
										written = true
									}
									if exprString(unparen(l)) == xtxt {
										written = true
									}
								}
							case *ast.IncDecStmt:
								if lid, ok := x.X.(*ast.Ident); ok && c.objOf(lid) == o {
									written = true
								}
							}
							return true
						})
						if _, isMap := c.typeOf(rs.X).Underlying().(*types.Map); !written && !isMap {
							bounded = true
						}
						return true
					})
				}
			}
		}
	}
	if xid, isId := unparen(ix.X).(*ast.Ident); isId && !bounded {
		madeFor := ""
		okDefs := true
		for _, d := range c.localDefs(fd)[c.objOf(xid)] {
			call, isCall := unparen(d).(*ast.CallExpr)
			switch {
			case d == nil:
				okDefs = false
			case isCall && c.isBuiltin(call, "make") && len(call.Args) >= 2:
				if lc, isLen := unparen(call.Args[1]).(*ast.CallExpr); isLen && c.isBuiltin(lc, "len") && len(lc.Args) == 1 && madeFor == "" {
					madeFor = exprString(lc.Args[0])
				} else {
					okDefs = false
				}
			case isCall && c.isBuiltin(call, "append") && len(call.Args) >= 1 && exprString(call.Args[0]) == xid.Name:
			default:
				okDefs = false
			}
		}
		if okDefs && madeFor != "" {
			ast.Inspect(fd.Body, func(n ast.Node) bool {
				rs, ok := n.(*ast.RangeStmt)
				if !ok || rs.Key == nil || ix.Pos() < rs.Body.Pos() || ix.End() > rs.Body.End() {
					return true
				}
				k, ok := rs.Key.(*ast.Ident)
				if !ok || c.objOf(k) != o || exprString(rs.X) != madeFor {
					return true
				}
				written := false
				ast.Inspect(rs.Body, func(m ast.Node) bool {
					switch x := m.(type) {
					case *ast.AssignStmt:
						for _, l := range x.Lhs {
							if lid, ok := l.(*ast.Ident); ok && (c.objOf(lid) == o || c.objOf(lid) == c.objOf(xid)) {
								written = true
							}
						}
					case *ast.IncDecStmt:
						if lid, ok := x.X.(*ast.Ident); ok && c.objOf(lid) == o {
							written = true
						}
					}
					return true
				})
				// (the collection ranged over is evaluated once: its length at that time is the length made)
				if _, isMap := c.typeOf(rs.X).Underlying().(*types.Map); !written && !isMap {
					bounded = true
				}
				return true
			})
		}
	}
	return bounded
}

// sliceGuarded: x[:i] / x[i+1:] where i is the range key of x or a loop counter bounded by len(x).
func (c *Ctx) sliceGuarded(fd *ast.FuncDecl, se *ast.SliceExpr) bool {
	base := exprString(se.X)
	okBound := func(e ast.Expr) bool {
		if e == nil {
			return true
		}
		e = unparen(e)
		if be, ok := e.(*ast.BinaryExpr); ok && be.Op == token.ADD {
			if tv, ok := c.Info.Types[be.Y]; ok && tv.Value != nil && tv.Value.String() == "1" {
				e = unparen(be.X)
			}
		}
		id, ok := e.(*ast.Ident)
		if !ok {
			return false
		}
		o := c.objOf(id)
		found := false
		ast.Inspect(fd.Body, func(n ast.Node) bool {
			if rs, ok := n.(*ast.RangeStmt); ok && se.Pos() >= rs.Body.Pos() && se.End() <= rs.Body.End() {
				if k, ok := rs.Key.(*ast.Ident); ok && c.objOf(k) == o && exprString(rs.X) == base {
					found = true
				}
			}
			return true
		})
		return found
	}
	if okBound(se.Low) && okBound(se.High) {
		return true
	}
	// constant bounds under a length test in force: s[:k] / s[k:] where len(s) >= k is known
	need := int64(-1)
	for _, b := range []ast.Expr{se.Low, se.High, se.Max} {
		if b == nil {
			continue
		}
		tv, ok := c.Info.Types[b]
		if !ok || tv.Value == nil {
			return false
		}
		k, isInt := constInt(tv.Value.String())
		if !isInt || k < 0 {
			return false
		}
		if int64(k) > need {
			need = int64(k)
		}
	}
	if need < 0 {
		return false
	}
	for _, cl := range c.literalsAt(fd, se) {
		be, ok := unparen(cl.e).(*ast.BinaryExpr)
		if !ok {
			continue
		}
		x, y, op := be.X, be.Y, be.Op
		// constant on the left: flip
		if tv, isC := c.Info.Types[x]; isC && tv.Value != nil {
			x, y = y, x
			switch op {
			case token.LSS:
				op = token.GTR
			case token.LEQ:
				op = token.GEQ
			case token.GTR:
				op = token.LSS
			case token.GEQ:
				op = token.LEQ
			}
		}
		call, isCall := unparen(x).(*ast.CallExpr)
		if !isCall || !c.isBuiltin(call, "len") || len(call.Args) != 1 || exprString(call.Args[0]) != base {
			continue
		}
		tv, isC := c.Info.Types[y]
		if !isC || tv.Value == nil {
			continue
		}
		k, isInt := constInt(tv.Value.String())
		if !isInt {
			continue
		}
		atLeast := int64(-1)
		switch {
		case op == token.GEQ && !cl.neg, op == token.LSS && cl.neg:
			atLeast = int64(k)
		case op == token.GTR && !cl.neg, op == token.LEQ && cl.neg:
			atLeast = int64(k) + 1
		case op == token.EQL && !cl.neg:
			atLeast = int64(k)
		}
		if atLeast >= need {
			return true
		}
	}
	return false
}

// mapStoreSafe: the map is a fresh local (made or literal) or the store is dominated by the nil-check-and-make idiom.
func (c *Ctx) mapStoreSafe(fd *ast.FuncDecl, as *ast.AssignStmt, ix *ast.IndexExpr) bool {
	return c.mapStoreSafeAt(fd, as, ix)
}

func (c *Ctx) mapStoreSafeAt(fd *ast.FuncDecl, as ast.Node, ix *ast.IndexExpr) bool {
	base := unparen(ix.X)
	// store into the very map being ranged over: the body runs only for a non-empty, hence non-nil, map
	inRange := false
	ast.Inspect(fd.Body, func(n ast.Node) bool {
		if rs, ok := n.(*ast.RangeStmt); ok && as.Pos() >= rs.Body.Pos() && as.End() <= rs.Body.End() && exprString(rs.X) == exprString(base) {
			inRange = true
		}
		return true
	})
	if inRange {
		return true
	}
	if id, ok := base.(*ast.Ident); ok {
		o := c.objOf(id)
		ds := c.localDefs(fd)[o]
		if len(ds) > 0 {
			all := true
			for _, d := range ds {
				if d == nil {
					all = false
					continue
				}
				switch x := unparen(d).(type) {
				case *ast.CompositeLit:
				case *ast.CallExpr:
					if !c.isBuiltin(x, "make") {
						all = false
					}
				default:
					all = false
				}
			}
			if all {
				return true
			}
		}
	}
	// store into the method's own receiver of map type: safe iff every package call site passes a map that is
	// made or nil-checked there (the obligation moves to the callers)
	if id, ok := base.(*ast.Ident); ok && c.recvObj(fd) != nil && c.objOf(id) == c.recvObj(fd) {
		if _, isMap := c.objOf(id).Type().Underlying().(*types.Map); isMap {
			self, _ := c.Info.Defs[fd.Name].(*types.Func)
			allSafe, sites := true, 0
			for _, g := range c.allFuncDecls() {
				if g.Body == nil {
					continue
				}
				ast.Inspect(g.Body, func(n ast.Node) bool {
					call, ok := n.(*ast.CallExpr)
					if !ok {
						return true
					}
					if f, ok := c.callee(call).(*types.Func); !ok || f != self {
						return true
					}
					sites++
					se, ok := unparen(call.Fun).(*ast.SelectorExpr)
					if !ok {
						allSafe = false
						return true
					}
					fake := &ast.IndexExpr{X: se.X}
					if !c.mapStoreSafeAt(g, call, fake) {
						allSafe = false
					}
					return true
				})
			}
			if sites > 0 && allSafe {
				return true
			}
		}
	}
	// field map: earlier sibling `if m == nil { m = make(..) }` in an enclosing block
	txt := exprString(base)
	safe := false
	ast.Inspect(fd.Body, func(n ast.Node) bool {
		ifs, ok := n.(*ast.IfStmt)
		if !ok || ifs.End() > as.Pos() {
			return true
		}
		be, ok := unparen(ifs.Cond).(*ast.BinaryExpr)
		if !ok || be.Op != token.EQL || !isNilIdent(c, be.Y) || exprString(be.X) != txt {
			return true
		}
		for _, s := range ifs.Body.List {
			if a2, ok := s.(*ast.AssignStmt); ok && len(a2.Lhs) == 1 && exprString(a2.Lhs[0]) == txt {
				switch x := unparen(a2.Rhs[0]).(type) {
				case *ast.CompositeLit:
					safe = true
				case *ast.CallExpr:
					if c.isBuiltin(x, "make") {
						safe = true
					}
				}
			}
		}
		return true
	})
	if safe {
		return true
	}
	// a map field that every construction of its struct type in the package initialises
	if f := c.fieldOfSel(base); f != nil && c.structMapFieldAlwaysMade(f) {
		return true
	}
	// a map that is a field of a value built in this function by a literal with that field set to make/literal
	if p, ok := c.apath(base); ok && len(p.Steps) > 0 {
		for _, d := range c.localDefs(fd)[p.Root] {
			if d == nil {
				continue
			}
			e := unparen(d)
			if u, ok := e.(*ast.UnaryExpr); ok && u.Op == token.AND {
				e = unparen(u.X)
			}
			if lit, ok := e.(*ast.CompositeLit); ok {
				for _, el := range lit.Elts {
					if kv, ok := el.(*ast.KeyValueExpr); ok {
						if id, ok := kv.Key.(*ast.Ident); ok && id.Name == lastStep(p) {
							return true
						}
					}
				}
			}
		}
	}
	return false
}

// auditedPanicSites: panic-capable constructs reachable from the expand/resolve entry points
// that were read and accepted, one reason each. Keyed by function/kind/detail, never by line.
var auditedPanicSites = map[string]string{
	"normalizeURI/must/MustCreateRef(<printed URL>)":                            "argument is the String() of a URL that url.Parse already accepted (or the repaired empty URL): re-parsing cannot fail",
	"normalizeRef/must/MustCreateRef(<normalizeURI result>)":                    "normalizeURI returns the String() of a parsed URL",
	"rebase/must/MustCreateRef(<printed URL>)":                                  "newBase is assembled from components of parsed URLs",
	"schemaLoader.transitiveResolver/must/MustCreateRef(<base path parameter>)": "basePath is a base location already normalised by normalizeBase (a printed URL)",
	"MustLoadJSONSchemaDraft04/panic/":                                          "embedded meta-schema; decoding a constant asset that the test-suite loads",
	"MustLoadSwagger20Schema/panic/":                                            "embedded meta-schema; decoding a constant asset that the test-suite loads",
	"defaultResolutionCache/must/MustLoadSwagger20Schema()":                     "see MustLoadSwagger20Schema",
	"defaultResolutionCache/must/MustLoadJSONSchemaDraft04()":                   "see MustLoadJSONSchemaDraft04",
	// GOOS=windows only (normalizer_windows.go), analysed in the thorough tier
	"fixWindowsURI/slice/drive[:1]": "dominated by len(drive) > 0",
	"fixWindowsURI/index/drive[i]":  "loop `i := len(drive)-1; for i >= 0 && ...drive[i]...; i--`: the index test i >= 0 is the left operand of the same && and i starts at len-1",
	"fixWindowsURI/slice/drive[:i]": "reached only when the volume name is a prefix of u.Path with an empty host, i.e. a UNC volume (\\\\host\\share, \\\\?\\C:), which contains a separator, so the scan stops at i >= 0; a drive-letter volume X: always takes the first branch because url.Parse yields the one-letter scheme x. Read, not executed: this sandbox cannot run GOOS=windows code",
}

func ruleNoPanicPath(c *Ctx) {
	const rule = "no-panic-path"
	var roots []*types.Func
	for _, f := range c.pkgFuncs() {
		sig := f.Type().(*types.Signature)
		if sig.Recv() == nil && f.Exported() && (strings.HasPrefix(f.Name(), "Expand") || strings.HasPrefix(f.Name(), "Resolve")) {
			roots = append(roots, f)
		}
	}
	c.ob(rule, "entry-points", token.NoPos, len(roots) >= 15, fmt.Sprintf("found %d exported Expand*/Resolve* entry points", len(roots)))
	reach := c.reachableSet(roots)
	// dynamic edge: sync.Once.Do(f)
	for f := range reach {
		fd := c.decl(f)
		ast.Inspect(fd.Body, func(n ast.Node) bool {
			if call, ok := n.(*ast.CallExpr); ok {
				if r, name, pkg, isM := c.calleeMethod(call); isM && pkg == "sync" && r == "Once" && name == "Do" && len(call.Args) == 1 {
					if id, ok := unparen(call.Args[0]).(*ast.Ident); ok {
						if g, ok := c.objOf(id).(*types.Func); ok {
							for h := range c.reachableSet([]*types.Func{g}) {
								reach[h] = true
							}
						}
					}
				}
			}
			return true
		})
	}
	var fs []*types.Func
	for f := range reach {
		fs = append(fs, f)
	}
	sort.Slice(fs, func(i, j int) bool { return fs[i].Pos() < fs[j].Pos() })
	for _, f := range fs {
		fd := c.decl(f)
		if strings.HasPrefix(f.Name(), "Must") && f.Type().(*types.Signature).Recv() == nil {
			// the panicking variants of the API themselves: their call sites are the obligations
			if f.Name() == "MustCreateRef" {
				continue
			}
		}
		c.saw(c.funcName(fd))
		sites := c.panicSites(fd)
		c.ob(rule, "scan:"+c.funcName(fd), fd.Pos(), true, "").Trivial = len(sites) == 0
		for _, s := range sites {
			key := s.fn + "/" + s.kind + "/" + s.detail
			_, audited := auditedPanicSites[key]
			// the reason these two are safe lies in where the text comes from, not in which function parses it
			if !audited && s.kind == "must" && (s.detail == "MustCreateRef(<normalizeURI result>)" || s.detail == "MustCreateRef(<printed URL>)" || s.detail == "MustCreateRef(<empty text>)") {
				// (the empty text is the empty relative reference: url.Parse accepts it by definition)
				audited = true
			}
			if !audited && s.kind == "panic" && c.ownedByMustAPI(f) {
				// the panic of the documented Must* API, moved into an unexported helper that only Must* functions call
				audited = true
			}
			c.ob(rule, key, s.pos, audited, "panic-capable construct reachable from an Expand*/Resolve* entry point that is not in the audited table")
		}
	}
}

// ownedByMustAPI: an unexported function whose every package caller is an exported Must* function.
func (c *Ctx) ownedByMustAPI(self *types.Func) bool {
	if self.Exported() {
		return strings.HasPrefix(self.Name(), "Must")
	}
	n, ok := 0, true
	for _, g := range c.pkgFuncs() {
		if g == self {
			continue
		}
		for _, h := range c.staticCallees(g) {
			if h == self {
				n++
				if !(g.Exported() && strings.HasPrefix(g.Name(), "Must")) {
					ok = false
				}
			}
		}
	}
	return ok && n > 0
}

// refTextProvenance classifies the text handed to MustCreateRef: the String() of a net/url URL, the result of
// normalizeURI, a base-path parameter of the expander family, or (otherwise) the expression as written.
func (c *Ctx) refTextProvenance(fd *ast.FuncDecl, e ast.Expr, depth int) string {
	e = unparen(e)
	if depth > 3 {
		return exprString(e)
	}
	if k, isConst := c.constString(e); isConst && k == "" {
		return "<empty text>"
	}
	switch x := e.(type) {
	case *ast.CallExpr:
		if c.isSpecFunc(x, "normalizeURI") {
			return "<normalizeURI result>"
		}
		if se, ok := unparen(x.Fun).(*ast.SelectorExpr); ok && se.Sel.Name == "String" && len(x.Args) == 0 {
			if t := c.typeOf(se.X); t != nil && strings.HasSuffix(types.TypeString(derefType(t), nil), "net/url.URL") {
				return "<printed URL>"
			}
		}
	case *ast.Ident:
		o := c.objOf(x)
		ds := c.localDefs(fd)[o]
		if len(ds) == 0 {
			if c.paramIndex(fd, o) >= 0 && isStringType(o.Type()) {
				return "<base path parameter>"
			}
			return exprString(e)
		}
		cls := ""
		for _, d := range ds {
			if d == nil {
				return exprString(e)
			}
			k := c.refTextProvenance(fd, d, depth+1)
			if cls != "" && cls != k {
				return exprString(e)
			}
			cls = k
		}
		return cls
	}
	return exprString(e)
}

// structMapFieldAlwaysMade: the map-typed field f of a package struct type T is non-nil in every value of T the
// package can build: every composite literal of T sets f to make(...) or a map literal, T is never obtained as a
// zero value (new(T), a variable, field, array or map element of type T by value), and every assignment to the
// field stores make(...) or a literal.
func (c *Ctx) structMapFieldAlwaysMade(f *types.Var) bool {
	if _, isMap := f.Type().Underlying().(*types.Map); !isMap {
		return false
	}
	var owner *types.Named
	idx := -1
	sc := c.Types.Scope()
	for _, n := range sc.Names() {
		tn, ok := sc.Lookup(n).(*types.TypeName)
		if !ok {
			continue
		}
		nt, ok := tn.Type().(*types.Named)
		if !ok {
			continue
		}
		if st, ok := nt.Underlying().(*types.Struct); ok {
			for i := 0; i < st.NumFields(); i++ {
				if st.Field(i) == f {
					owner, idx = nt, i
				}
			}
		}
	}
	if owner == nil || owner.Obj().Exported() {
		return false // an exported type can be built by anyone
	}
	isOwner := func(t types.Type) bool {
		return t != nil && types.Identical(types.Unalias(t), owner)
	}
	isMade := func(e ast.Expr) bool {
		switch x := unparen(e).(type) {
		case *ast.CompositeLit:
			return true
		case *ast.CallExpr:
			return c.isBuiltin(x, "make")
		}
		return false
	}
	ok, lits := true, 0
	// `var _ Iface = &T{}`: a compile-time assertion, the value is never used
	discarded := map[*ast.CompositeLit]bool{}
	for _, file := range c.Files {
		ast.Inspect(file, func(n ast.Node) bool {
			vs, isVS := n.(*ast.ValueSpec)
			if !isVS || len(vs.Names) != len(vs.Values) {
				return true
			}
			for i, nm := range vs.Names {
				if nm.Name != "_" {
					continue
				}
				e := unparen(vs.Values[i])
				if u, isAddr := e.(*ast.UnaryExpr); isAddr && u.Op == token.AND {
					e = unparen(u.X)
				}
				if lit, isLit := e.(*ast.CompositeLit); isLit {
					discarded[lit] = true
				}
			}
			return true
		})
	}
	for _, file := range c.Files {
		ast.Inspect(file, func(n ast.Node) bool {
			switch x := n.(type) {
			case *ast.CompositeLit:
				if !isOwner(c.typeOf(x)) || discarded[x] {
					return true
				}
				lits++
				set := false
				for i, el := range x.Elts {
					if kv, isKV := el.(*ast.KeyValueExpr); isKV {
						if id, isId := kv.Key.(*ast.Ident); isId && id.Name == f.Name() && isMade(kv.Value) {
							set = true
						}
					} else if i == idx && isMade(el) {
						set = true
					}
				}
				if !set {
					ok = false
				}
			case *ast.CallExpr:
				if c.isBuiltin(x, "new") && len(x.Args) == 1 && isOwner(c.typeOf(x.Args[0])) {
					ok = false
				}
			case *ast.ValueSpec:
				for i, nm := range x.Names {
					if i >= len(x.Values) && isOwner(c.typeOf(nm)) {
						ok = false // zero value
					}
				}
			case *ast.Field:
				if x.Type != nil && isOwner(c.typeOf(x.Type)) {
					ok = false // held by value somewhere (struct field, parameter, result): a zero value may exist
				}
			case *ast.ArrayType:
				if isOwner(c.typeOf(x.Elt)) {
					ok = false
				}
			case *ast.MapType:
				if isOwner(c.typeOf(x.Value)) {
					ok = false
				}
			case *ast.AssignStmt:
				for i, l := range x.Lhs {
					if c.fieldOfSel(l) == f {
						if len(x.Lhs) != len(x.Rhs) || !isMade(x.Rhs[i]) {
							ok = false
						}
					}
				}
			case *ast.StarExpr:
				// *p = T{} style whole-value overwrite is a CompositeLit and handled above
			}
			return true
		})
	}
	return ok && lits > 0
}

// carrier: an unexported struct type that carries the expander's travelling arguments - a loader, a base path and
// the parent-ref stack - and a method of it.
type carrierInfo struct {
	typ     *types.Named
	parents *types.Var
}

func (c *Ctx) carrierOf(fam *expFamily, f *types.Func) *carrierInfo {
	sig := f.Type().(*types.Signature)
	if sig.Recv() == nil {
		return nil
	}
	n, ok := types.Unalias(derefType(sig.Recv().Type())).(*types.Named)
	if !ok || n.Obj().Pkg() != c.Types || n.Obj().Exported() || n == fam.loader {
		return nil
	}
	st, ok := n.Underlying().(*types.Struct)
	if !ok {
		return nil
	}
	var parents *types.Var
	hasLoader, hasBase := false, false
	for i := 0; i < st.NumFields(); i++ {
		ft := st.Field(i).Type()
		switch {
		case isNamed(derefType(ft), c.Types, fam.loader.Obj().Name()):
			hasLoader = true
		case isStringType(ft):
			hasBase = true
		case isStringSlice(ft):
			parents = st.Field(i)
		}
	}
	if !hasLoader || !hasBase || parents == nil {
		return nil
	}
	return &carrierInfo{typ: n, parents: parents}
}

// carrierFieldValue: e is a local variable built once by a composite literal of a carrier type (or that literal):
// returns the expression its field f was given.
func (c *Ctx) carrierFieldValue(fd *ast.FuncDecl, e ast.Expr, f *types.Var) ast.Expr {
	e = unparen(e)
	if id, ok := e.(*ast.Ident); ok {
		ds := c.localDefs(fd)[c.objOf(id)]
		if len(ds) != 1 || ds[0] == nil {
			return nil
		}
		e = unparen(ds[0])
	}
	if u, ok := e.(*ast.UnaryExpr); ok && u.Op == token.AND {
		e = unparen(u.X)
	}
	lit, ok := e.(*ast.CompositeLit)
	if !ok {
		return nil
	}
	st, ok := derefType(c.typeOf(lit)).Underlying().(*types.Struct)
	if !ok {
		return nil
	}
	for i, el := range lit.Elts {
		if kv, isKV := el.(*ast.KeyValueExpr); isKV {
			if id, isId := kv.Key.(*ast.Ident); isId && id.Name == f.Name() {
				return kv.Value
			}
			continue
		}
		if i < st.NumFields() && st.Field(i) == f {
			return el
		}
	}
	return nil
}

// fieldAssignedIn: some statement of the function assigns the field (through any holder).
func (c *Ctx) fieldAssignedIn(fd *ast.FuncDecl, f *types.Var) bool {
	found := false
	ast.Inspect(fd.Body, func(n ast.Node) bool {
		if as, ok := n.(*ast.AssignStmt); ok {
			for _, l := range as.Lhs {
				if c.fieldOfSel(l) == f {
					found = true
				}
			}
		}
		return true
	})
	return found
}

// lastOfNonEmpty: idx is len(x)-1 (directly, or a local defined once as that) and x is the receiver or a
// parameter of an unexported function every call site of which passes a composite literal with at least one
// element: x[len(x)-1] and x[:len(x)-1] cannot fail.
func (c *Ctx) lastOfNonEmpty(fd *ast.FuncDecl, x, idx ast.Expr) bool {
	xid, ok := unparen(x).(*ast.Ident)
	if !ok || idx == nil {
		return false
	}
	xo := c.objOf(xid)
	isLenMinus1 := func(e ast.Expr) bool {
		be, ok := unparen(e).(*ast.BinaryExpr)
		if !ok || be.Op != token.SUB {
			return false
		}
		call, ok := unparen(be.X).(*ast.CallExpr)
		if !ok || !c.isBuiltin(call, "len") || len(call.Args) != 1 {
			return false
		}
		aid, ok := unparen(call.Args[0]).(*ast.Ident)
		if !ok || c.objOf(aid) != xo {
			return false
		}
		tv, ok := c.Info.Types[be.Y]
		return ok && tv.Value != nil && tv.Value.String() == "1"
	}
	e := unparen(idx)
	if id, ok := e.(*ast.Ident); ok {
		ds := c.localDefs(fd)[c.objOf(id)]
		if len(ds) != 1 || ds[0] == nil {
			return false
		}
		e = unparen(ds[0])
	}
	if !isLenMinus1(e) {
		return false
	}
	self, _ := c.Info.Defs[fd.Name].(*types.Func)
	if self == nil || self.Exported() {
		return false
	}
	isRecv := c.recvObj(fd) == xo
	pi := c.paramIndex(fd, xo)
	if !isRecv && pi < 0 {
		return false
	}
	sites, good := 0, true
	for _, g := range c.allFuncDecls() {
		if g.Body == nil {
			continue
		}
		ast.Inspect(g.Body, func(n ast.Node) bool {
			call, ok := n.(*ast.CallExpr)
			if !ok || c.callee(call) != self {
				return true
			}
			sites++
			var arg ast.Expr
			if isRecv {
				if se, ok := unparen(call.Fun).(*ast.SelectorExpr); ok {
					arg = se.X
				}
			} else if sig := self.Type().(*types.Signature); sig.Variadic() && pi == sig.Params().Len()-1 && call.Ellipsis == token.NoPos {
				// variadic parameter: the arguments given in place are its elements
				if len(call.Args) <= pi {
					good = false
				}
				return true
			} else if pi < len(call.Args) {
				arg = call.Args[pi]
			}
			lit, isLit := unparen(arg).(*ast.CompositeLit)
			if arg == nil || !isLit || len(lit.Elts) == 0 {
				good = false
			}
			return true
		})
	}
	return good && sites > 0
}

// sortIndexForwarded: fd is an unexported method whose receiver is indexed by one of its parameters, and every
// call of it in the package is made from the Less / Swap method of the same receiver, on that receiver, with one
// of Less / Swap's own index parameters: the sort.Interface contract (indices in [0, Len())) carries over.
func (c *Ctx) sortIndexForwarded(fd *ast.FuncDecl, base ast.Expr, idx types.Object) bool {
	self, _ := c.Info.Defs[fd.Name].(*types.Func)
	if self == nil || self.Exported() || fd.Recv == nil {
		return false
	}
	rid, ok := unparen(base).(*ast.Ident)
	if !ok || c.objOf(rid) != c.recvObj(fd) {
		return false
	}
	pi := c.paramIndex(fd, idx)
	if pi < 0 {
		return false
	}
	sites, good := 0, true
	for _, g := range c.allFuncDecls() {
		if g.Body == nil {
			continue
		}
		ast.Inspect(g.Body, func(n ast.Node) bool {
			call, ok := n.(*ast.CallExpr)
			if !ok || c.callee(call) != types.Object(self) {
				return true
			}
			sites++
			if (g.Name.Name != "Less" && g.Name.Name != "Swap") || g.Recv == nil || pi >= len(call.Args) {
				good = false
				return true
			}
			se, isSel := unparen(call.Fun).(*ast.SelectorExpr)
			if !isSel {
				good = false
				return true
			}
			if id, isId := unparen(se.X).(*ast.Ident); !isId || c.objOf(id) != c.recvObj(g) {
				good = false
				return true
			}
			aid, isId := unparen(call.Args[pi]).(*ast.Ident)
			if !isId || (c.objOf(aid) != c.paramObj(g, 0) && c.objOf(aid) != c.paramObj(g, 1)) {
				good = false
			}
			return true
		})
	}
	return good && sites > 0
}

// normalisedObj: every definition of the local is a normalised reference (see isNormalisedRef).
func (c *Ctx) normalisedObj(fd *ast.FuncDecl, o types.Object) bool {
	var id *ast.Ident
	ast.Inspect(fd.Body, func(n ast.Node) bool {
		if x, ok := n.(*ast.Ident); ok && id == nil && c.objOf(x) == o {
			id = x
		}
		return true
	})
	return id != nil && c.isNormalisedRef(fd, id, nil, 0)
}

// simCallDescends: on every happy path of fd on which the call is made, its first argument designates a
// position strictly below the element being expanded.
func (c *Ctx) simCallDescends(fam *expFamily, fd *ast.FuncDecl, call *ast.CallExpr, elem types.Object) bool {
	paths, ok := c.expanderHappyPaths(fam, fd)
	if !ok {
		return false
	}
	seen, all := 0, true
	for _, p := range paths {
		for _, e := range p.effs {
			if e.kind != "call" || e.call.call != call || len(e.call.args) == 0 {
				continue
			}
			seen++
			pos, ok := c.posBelow(fam, e.call.args[0], elem, 0)
			if !ok || len(pos) == 0 {
				all = false
			}
		}
	}
	if seen == 0 {
		// the callee is a wrapper that is looked through (a schema held by reference handed on to a schema
		// expander): the calls made from its inlined body stand for this one
		if g, isF := c.callee(call).(*types.Func); isF && c.isNestedSchemaWrapper(fam, g) {
			if gd := c.decl(g); gd != nil && gd.Body != nil {
				for _, p := range paths {
					for _, e := range p.effs {
						if e.kind != "call" || e.call.call == nil || len(e.call.args) == 0 || e.call.call.Pos() < gd.Body.Pos() || e.call.call.End() > gd.Body.End() {
							continue
						}
						if h, ok := e.call.callee.(*types.Func); !ok || !fam.schemaExp[h] {
							continue
						}
						seen++
						pos, ok := c.posBelow(fam, e.call.args[0], elem, 0)
						if !ok || len(pos) == 0 {
							all = false
						}
					}
				}
			}
		}
	}
	return seen > 0 && all
}

// isResolverWrapper: an unexported loader method (not a schema expander, no parent stack) that reaches the
// reference resolver without reaching any schema expander: a wrapper around "follow this $ref".
func (c *Ctx) isResolverWrapper(fam *expFamily, g *types.Func) bool {
	if g == nil || g.Pkg() != c.Types || fam.schemaExp[g] || fam.withParents[g] || c.decl(g) == nil {
		return false
	}
	sig := g.Type().(*types.Signature)
	hasLoader := sig.Recv() != nil && isNamed(sig.Recv().Type(), c.Types, fam.loader.Obj().Name())
	for i := 0; i < sig.Params().Len(); i++ {
		if isNamed(sig.Params().At(i).Type(), c.Types, fam.loader.Obj().Name()) {
			hasLoader = true
		}
	}
	if !hasLoader {
		return false
	}
	reachesResolve := c.reaches(g, func(h *types.Func) bool { return h == fam.resolveRef })
	reachesExpander := c.reaches(g, func(h *types.Func) bool { return h != g && fam.schemaExp[h] })
	return reachesResolve && !reachesExpander
}

// allCallersNilTest: f is unexported and at every package call `x, .. := f(..)` each dereference of x lies where
// x != nil is known.
func (c *Ctx) allCallersNilTest(f *types.Func) bool {
	if f.Exported() {
		return false
	}
	sites, good := 0, true
	for _, g := range c.allFuncDecls() {
		if g.Body == nil {
			continue
		}
		ast.Inspect(g.Body, func(n ast.Node) bool {
			as, ok := n.(*ast.AssignStmt)
			if !ok || len(as.Rhs) != 1 || len(as.Lhs) < 1 {
				return true
			}
			call, ok := unparen(as.Rhs[0]).(*ast.CallExpr)
			if !ok || c.callee(call) != types.Object(f) {
				return true
			}
			sites++
			xid, ok := as.Lhs[0].(*ast.Ident)
			if !ok || xid.Name == "_" {
				return true
			}
			x := c.objOf(xid)
			ast.Inspect(g.Body, func(m ast.Node) bool {
				var target ast.Expr
				switch d := m.(type) {
				case *ast.StarExpr:
					target = d.X
				case *ast.SelectorExpr:
					target = d.X
				default:
					return true
				}
				id, isId := unparen(target).(*ast.Ident)
				if !isId || c.objOf(id) != x || m.Pos() < as.End() {
					return true
				}
				guarded := false
				for _, cl := range c.literalsAt(g, m) {
					be, isB := unparen(cl.e).(*ast.BinaryExpr)
					if !isB {
						continue
					}
					if bid, ok := unparen(be.X).(*ast.Ident); ok && c.objOf(bid) == x && isNilIdent(c, be.Y) {
						if be.Op == token.NEQ && !cl.neg || be.Op == token.EQL && cl.neg {
							guarded = true
						}
					}
				}
				if !guarded {
					good = false
				}
				return true
			})
			return true
		})
	}
	return good && sites > 0
}

// bothKnownPointers: at the comparison, both operands are known to hold pointers: for each of them a condition in
// force says reflect.ValueOf(<operand>).Kind() == reflect.Ptr.
func (c *Ctx) bothKnownPointers(fd *ast.FuncDecl, be *ast.BinaryExpr) bool {
	known := func(op ast.Expr) bool {
		want := exprString(unparen(op))
		for _, cl := range c.literalsAt(fd, be) {
			cmp, ok := unparen(cl.e).(*ast.BinaryExpr)
			if !ok || !(cmp.Op == token.NEQ && cl.neg || cmp.Op == token.EQL && !cl.neg) {
				continue
			}
			for _, pr := range [][2]ast.Expr{{cmp.X, cmp.Y}, {cmp.Y, cmp.X}} {
				kc, isCall := unparen(pr[0]).(*ast.CallExpr)
				if !isCall || len(kc.Args) != 0 {
					continue
				}
				kse, isSel := unparen(kc.Fun).(*ast.SelectorExpr)
				if !isSel || kse.Sel.Name != "Kind" {
					continue
				}
				vc, isV := unparen(kse.X).(*ast.CallExpr)
				if !isV || !c.isPkgFunc(vc, "reflect", "ValueOf") || len(vc.Args) != 1 || exprString(unparen(vc.Args[0])) != want {
					continue
				}
				if id, isId := unparen(pr[1]).(*ast.SelectorExpr); isId && (id.Sel.Name == "Ptr" || id.Sel.Name == "Pointer") {
					return true
				}
			}
		}
		return false
	}
	return known(be.X) && known(be.Y)
}
