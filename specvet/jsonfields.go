package main

import (
	"go/types"
	"reflect"
	"sort"
	"strings"
	"unicode"
)

// jsonField is one member encoding/json will emit/accept for a struct type.
type jsonField struct {
	Name      string
	GoName    string
	Index     []int
	Typ       types.Type // field type with one unnamed pointer level removed (as in encoding/json)
	FieldTyp  types.Type // declared field type
	Tagged    bool
	OmitEmpty bool
	Quoted    bool
	Owner     *types.Struct // struct that declares the field
	OwnerName string        // named type declaring the field, if any
}

func isValidTag(s string) bool {
	if s == "" {
		return false
	}
	for _, c := range s {
		switch {
		case strings.ContainsRune("!#$%&()*+-./:;<=>?@[]^_{|}~ ", c):
		case !unicode.IsLetter(c) && !unicode.IsDigit(c):
			return false
		}
	}
	return true
}

func parseJSONTag(tag string) (name string, omitempty, quoted bool) {
	parts := strings.Split(tag, ",")
	name = parts[0]
	for _, o := range parts[1:] {
		switch o {
		case "omitempty":
			omitempty = true
		case "string":
			quoted = true
		}
	}
	return
}

func derefUnnamedPtr(t types.Type) types.Type {
	t = types.Unalias(t)
	if _, named := t.(*types.Named); named {
		return t
	}
	if p, ok := t.(*types.Pointer); ok {
		return types.Unalias(p.Elem())
	}
	return t
}

func isStruct(t types.Type) bool {
	_, ok := t.Underlying().(*types.Struct)
	return ok
}

func typeNameOf(t types.Type) string {
	if n, ok := types.Unalias(t).(*types.Named); ok {
		return n.Obj().Name()
	}
	return ""
}

// jsonFields is a port of encoding/json's typeFields over go/types: it
// returns the members the standard encoder emits for a struct type, in
// index order, applying Go's embedding dominance rules and the JSON tag
// promotion rule.
func jsonFields(root types.Type) []jsonField {
	type qf struct {
		typ   types.Type
		index []int
	}
	current := []qf{}
	next := []qf{{typ: root}}
	var count, nextCount map[types.Type]int
	visited := map[types.Type]bool{}
	var fields []jsonField

	for len(next) > 0 {
		current, next = next, current[:0]
		count, nextCount = nextCount, map[types.Type]int{}
		for _, f := range current {
			if visited[f.typ] {
				continue
			}
			visited[f.typ] = true
			st, ok := f.typ.Underlying().(*types.Struct)
			if !ok {
				continue
			}
			for i := 0; i < st.NumFields(); i++ {
				sf := st.Field(i)
				if sf.Anonymous() {
					t := types.Unalias(sf.Type())
					if p, ok := t.(*types.Pointer); ok {
						t = types.Unalias(p.Elem())
					}
					if !sf.Exported() && !isStruct(t) {
						continue
					}
				} else if !sf.Exported() {
					continue
				}
				tag := reflect.StructTag(st.Tag(i)).Get("json")
				if tag == "-" {
					continue
				}
				name, omit, quoted := parseJSONTag(tag)
				if !isValidTag(name) {
					name = ""
				}
				index := make([]int, len(f.index)+1)
				copy(index, f.index)
				index[len(f.index)] = i

				ft := derefUnnamedPtr(sf.Type())
				if name != "" || !sf.Anonymous() || !isStruct(ft) {
					tagged := name != ""
					if name == "" {
						name = sf.Name()
					}
					jf := jsonField{Name: name, GoName: sf.Name(), Index: index, Typ: ft, FieldTyp: sf.Type(),
						Tagged: tagged, OmitEmpty: omit, Quoted: quoted, Owner: st, OwnerName: typeNameOf(f.typ)}
					fields = append(fields, jf)
					if count[f.typ] > 1 {
						fields = append(fields, jf)
					}
					continue
				}
				nextCount[ft]++
				if nextCount[ft] == 1 {
					next = append(next, qf{typ: ft, index: index})
				}
			}
		}
	}

	sort.SliceStable(fields, func(i, j int) bool {
		x, y := fields[i], fields[j]
		if x.Name != y.Name {
			return x.Name < y.Name
		}
		if len(x.Index) != len(y.Index) {
			return len(x.Index) < len(y.Index)
		}
		if x.Tagged != y.Tagged {
			return x.Tagged
		}
		return indexLess(x.Index, y.Index)
	})

	out := fields[:0:0]
	for advance, i := 0, 0; i < len(fields); i += advance {
		fi := fields[i]
		name := fi.Name
		for advance = 1; i+advance < len(fields); advance++ {
			if fields[i+advance].Name != name {
				break
			}
		}
		if advance == 1 {
			out = append(out, fi)
			continue
		}
		group := fields[i : i+advance]
		if len(group) > 1 && len(group[0].Index) == len(group[1].Index) && group[0].Tagged == group[1].Tagged {
			continue // ambiguous: dropped
		}
		out = append(out, group[0])
	}
	sort.SliceStable(out, func(i, j int) bool { return indexLess(out[i].Index, out[j].Index) })
	return out
}

func indexLess(a, b []int) bool {
	for k := 0; k < len(a) && k < len(b); k++ {
		if a[k] != b[k] {
			return a[k] < b[k]
		}
	}
	return len(a) < len(b)
}

func jsonFieldNames(fs []jsonField) []string {
	var out []string
	for _, f := range fs {
		out = append(out, f.Name)
	}
	return out
}

func findJSONField(fs []jsonField, name string) *jsonField {
	for i := range fs {
		if fs[i].Name == name {
			return &fs[i]
		}
	}
	return nil
}

// hasMethod reports whether T or *T has the named method (declared or promoted).
func hasMethod(t types.Type, name string) *types.Func {
	for _, tt := range []types.Type{t, types.NewPointer(t)} {
		ms := types.NewMethodSet(tt)
		for i := 0; i < ms.Len(); i++ {
			if ms.At(i).Obj().Name() == name {
				return ms.At(i).Obj().(*types.Func)
			}
		}
	}
	return nil
}

// declaredMethod reports a method declared directly on the named type (not promoted).
func declaredMethod(n *types.Named, name string) *types.Func {
	if n == nil {
		return nil
	}
	for i := 0; i < n.NumMethods(); i++ {
		if n.Method(i).Name() == name {
			return n.Method(i)
		}
	}
	return nil
}
