package main

import (
	"go/ast"
	"go/token"
	"go/types"
	"sort"
	"strings"
)

// Rules added after the third round of independently seeded changes (DESIGN.md section 8).

func init() {
	registerRule("origin-compare", 1, "where two locations are compared component by component to decide 'same server' or 'same document', scheme and host are both compared, the host with its port (URL.Host, not Hostname())", ruleOriginCompare)
	registerRule("ok-before-compare", 1, "in a sort comparator a value obtained together with an ok flag is compared only where that flag is known to be true (the value of an absent key is a sentinel, not a rank)", ruleOkBeforeCompare)
}

// ---- origin-compare ----

func (c *Ctx) isURLType(t types.Type) bool {
	if t == nil {
		return false
	}
	n, ok := types.Unalias(derefType(t)).(*types.Named)
	return ok && n.Obj().Pkg() != nil && n.Obj().Pkg().Path() == "net/url" && n.Obj().Name() == "URL"
}

// urlComponent: e is X.Field or X.Method() on a url.URL value X; returns the text of X and the component name.
func (c *Ctx) urlComponent(e ast.Expr) (string, string, bool) {
	e = unparen(e)
	if call, ok := e.(*ast.CallExpr); ok && len(call.Args) == 0 {
		e = unparen(call.Fun)
	}
	se, ok := e.(*ast.SelectorExpr)
	if !ok || !c.isURLType(c.typeOf(se.X)) {
		return "", "", false
	}
	return exprString(unparen(se.X)), se.Sel.Name, true
}

func ruleOriginCompare(c *Ctx) {
	const rule = "origin-compare"
	for _, fd := range c.allFuncDecls() {
		if fd.Body == nil {
			continue
		}
		fn := c.funcName(fd)
		// pairs of URL values compared component-wise in this function -> components compared
		comps := map[string]map[string]bool{}
		pos := map[string]token.Pos{}
		note := func(a, b ast.Expr, p token.Pos) {
			xa, ca, oka := c.urlComponent(a)
			xb, cb, okb := c.urlComponent(b)
			if !oka || !okb || xa == xb || ca != cb {
				return
			}
			k := xa + " ~ " + xb
			if xb < xa {
				k = xb + " ~ " + xa
			}
			if comps[k] == nil {
				comps[k] = map[string]bool{}
				pos[k] = p
			}
			comps[k][ca] = true
		}
		ast.Inspect(fd.Body, func(n ast.Node) bool {
			switch x := n.(type) {
			case *ast.BinaryExpr:
				if x.Op == token.EQL || x.Op == token.NEQ {
					note(x.X, x.Y, x.Pos())
				}
			case *ast.CallExpr:
				if c.isPkgFunc(x, "strings", "EqualFold") && len(x.Args) == 2 {
					note(x.Args[0], x.Args[1], x.Pos())
				}
			}
			return true
		})
		var keys []string
		for k := range comps {
			keys = append(keys, k)
		}
		sort.Strings(keys)
		for _, k := range keys {
			c.saw(fn)
			cs := comps[k]
			var names []string
			for n := range cs {
				names = append(names, n)
			}
			sort.Strings(names)
			good, why := true, ""
			switch {
			case cs["Hostname"] && !cs["Port"] && !cs["Host"]:
				good, why = false, "the two locations are compared by Hostname() only: the port is ignored, so http://h:8080/... and http://h:9090/... count as the same server"
			case !cs["Host"] && !(cs["Hostname"] && cs["Port"]):
				good, why = false, "the two locations are compared on "+strings.Join(names, ", ")+" only, the host is not: documents with the same path on different servers count as the same"
			case !cs["Scheme"]:
				good, why = false, "the two locations are compared on "+strings.Join(names, ", ")+" only, the scheme is not"
			}
			c.ob(rule, fn+":"+k, pos[k], good, why)
		}
	}
}

// ---- ok-before-compare ----

func ruleOkBeforeCompare(c *Ctx) {
	const rule = "ok-before-compare"
	// comparators: Less methods of sort.Interface implementations and the package functions they call
	for _, fd := range c.reachableFrom("Less") {
		fn := c.funcName(fd)
		// values that come with an ok flag: v, ok := f(...) with f returning (T, bool)
		okOf := map[types.Object]types.Object{}
		ast.Inspect(fd.Body, func(n ast.Node) bool {
			as, isA := n.(*ast.AssignStmt)
			if !isA || len(as.Lhs) != 2 || len(as.Rhs) != 1 {
				return true
			}
			if _, isCall := unparen(as.Rhs[0]).(*ast.CallExpr); !isCall {
				return true
			}
			v, ok1 := as.Lhs[0].(*ast.Ident)
			o, ok2 := as.Lhs[1].(*ast.Ident)
			if !ok1 || !ok2 || v.Name == "_" || o.Name == "_" {
				return true
			}
			if b, isB := c.typeOf(o).Underlying().(*types.Basic); !isB || b.Kind() != types.Bool {
				return true
			}
			okOf[c.objOf(v)] = c.objOf(o)
			return true
		})
		if len(okOf) == 0 {
			continue
		}
		c.saw(fn)
		good, why := true, ""
		ast.Inspect(fd.Body, func(n ast.Node) bool {
			be, isB := n.(*ast.BinaryExpr)
			if !isB {
				return true
			}
			switch be.Op {
			case token.EQL, token.NEQ, token.LSS, token.LEQ, token.GTR, token.GEQ:
			default:
				return true
			}
			for _, side := range []ast.Expr{be.X, be.Y} {
				id, isId := unparen(side).(*ast.Ident)
				if !isId {
					continue
				}
				flag, has := okOf[c.objOf(id)]
				if !has {
					continue
				}
				known := c.entailsFlag(c.condsAt(fd, be), flag)
				if !known {
					good = false
					why = c.pos(be.Pos()) + ": " + id.Name + " is compared where " + flag.Name() + " is not known to be true: the placeholder returned for an absent key takes part in the order, which is then no strict weak order (the result of sorting depends on the initial, random, order)"
				}
			}
			return true
		})
		c.ob(rule, fn, fd.Pos(), good, why)
	}
}

// entailsFlag decides by truth table whether the conditions in force imply that the boolean variable flag is
// true. Boolean identifiers are the atoms; any other sub-expression is an opaque atom of its own.
func (c *Ctx) entailsFlag(conds []condLit, flag types.Object) bool {
	atomIdx := map[string]int{}
	var atomOf func(e ast.Expr) int
	atomOf = func(e ast.Expr) int {
		k := exprString(e)
		if id, ok := unparen(e).(*ast.Ident); ok && c.objOf(id) != nil {
			k = "obj:" + id.Name + "@" + c.pos(c.objOf(id).Pos())
		}
		if i, ok := atomIdx[k]; ok {
			return i
		}
		atomIdx[k] = len(atomIdx)
		return atomIdx[k]
	}
	type node struct {
		op   token.Token // LAND, LOR, NOT, or ILLEGAL for an atom
		a, b *node
		atom int
	}
	var build func(e ast.Expr) *node
	build = func(e ast.Expr) *node {
		e = unparen(e)
		switch x := e.(type) {
		case *ast.UnaryExpr:
			if x.Op == token.NOT {
				return &node{op: token.NOT, a: build(x.X)}
			}
		case *ast.BinaryExpr:
			if x.Op == token.LAND || x.Op == token.LOR {
				return &node{op: x.Op, a: build(x.X), b: build(x.Y)}
			}
		}
		return &node{atom: atomOf(e)}
	}
	var forms []*node
	for _, cl := range conds {
		n := build(cl.e)
		if cl.neg {
			n = &node{op: token.NOT, a: n}
		}
		forms = append(forms, n)
	}
	// the flag's atom
	want := -1
	for k, i := range atomIdx {
		if strings.HasPrefix(k, "obj:"+flag.Name()+"@"+c.pos(flag.Pos())) {
			want = i
		}
	}
	if want < 0 || len(atomIdx) > 10 {
		return false
	}
	var eval func(n *node, v uint) bool
	eval = func(n *node, v uint) bool {
		switch n.op {
		case token.NOT:
			return !eval(n.a, v)
		case token.LAND:
			return eval(n.a, v) && eval(n.b, v)
		case token.LOR:
			return eval(n.a, v) || eval(n.b, v)
		}
		return v&(1<<uint(n.atom)) != 0
	}
	for v := uint(0); v < 1<<uint(len(atomIdx)); v++ {
		all := true
		for _, f := range forms {
			if !eval(f, v) {
				all = false
				break
			}
		}
		if all && v&(1<<uint(want)) == 0 {
			return false
		}
	}
	return true
}
