package main

import (
	"go/ast"
	"go/token"
	"go/types"
	"sort"
	"strings"
)

// Rules added after the third round of independently seeded changes (DESIGN.md section 8).

func init() {
	registerRule("origin-compare", 1, "where two locations are compared component by component to decide 'same server' or 'same document', scheme and host are both compared, the host with its port (URL.Host, not Hostname())", ruleOriginCompare)
	registerRule("escaped-into-decoded", 1, "the decoded components of a url.URL (Path, Fragment) are never assigned an escaped text (EscapedPath, EscapedFragment, PathEscape, QueryEscape, String): printing the URL would escape it a second time", ruleEscapedIntoDecoded)
	registerRule("scheme-on-parsed", 1, "a function that parses a location never decides on the scheme by looking at the raw text it was given: url.Parse lower-cases the scheme, the text does not (FILE:/x and file:/x are the same location)", ruleSchemeOnParsed)
	registerRule("factory-keeps-options", 1, "the loader factory keeps the options value it was handed (its callers read the base path back from that very value); it replaces it only when it is nil", ruleFactoryKeepsOptions)
	registerRule("encode-nil-empty-alike", 20, "a JSON encoder never distinguishes a nil slice of its receiver from an empty one: gob transport (and omitempty) do not preserve that difference, so the same document would encode differently before and after", ruleEncodeNilEmptyAlike)
	registerRule("ok-before-compare", 1, "in a sort comparator a value obtained together with an ok flag is compared only where that flag is known to be true (the value of an absent key is a sentinel, not a rank)", ruleOkBeforeCompare)
}

// ---- origin-compare ----

func (c *Ctx) isURLType(t types.Type) bool {
	if t == nil {
		return false
	}
	n, ok := types.Unalias(derefType(t)).(*types.Named)
	return ok && n.Obj().Pkg() != nil && n.Obj().Pkg().Path() == "net/url" && n.Obj().Name() == "URL"
}

// urlComponent: e is X.Field or X.Method() on a url.URL value X; returns the text of X and the component name.
func (c *Ctx) urlComponent(e ast.Expr) (string, string, bool) {
	e = unparen(e)
	if call, ok := e.(*ast.CallExpr); ok && len(call.Args) == 0 {
		e = unparen(call.Fun)
	}
	se, ok := e.(*ast.SelectorExpr)
	if !ok || !c.isURLType(c.typeOf(se.X)) {
		return "", "", false
	}
	return exprString(unparen(se.X)), se.Sel.Name, true
}

func ruleOriginCompare(c *Ctx) {
	const rule = "origin-compare"
	for _, fd := range c.allFuncDecls() {
		if fd.Body == nil {
			continue
		}
		fn := c.funcName(fd)
		// pairs of URL values compared component-wise in this function -> components compared
		comps := map[string]map[string]bool{}
		pos := map[string]token.Pos{}
		note := func(a, b ast.Expr, p token.Pos) {
			xa, ca, oka := c.urlComponent(a)
			xb, cb, okb := c.urlComponent(b)
			if !oka || !okb || xa == xb || ca != cb {
				return
			}
			k := xa + " ~ " + xb
			if xb < xa {
				k = xb + " ~ " + xa
			}
			if comps[k] == nil {
				comps[k] = map[string]bool{}
				pos[k] = p
			}
			comps[k][ca] = true
		}
		ast.Inspect(fd.Body, func(n ast.Node) bool {
			switch x := n.(type) {
			case *ast.BinaryExpr:
				if x.Op == token.EQL || x.Op == token.NEQ {
					note(x.X, x.Y, x.Pos())
				}
			case *ast.CallExpr:
				if c.isPkgFunc(x, "strings", "EqualFold") && len(x.Args) == 2 {
					note(x.Args[0], x.Args[1], x.Pos())
				}
			}
			return true
		})
		var keys []string
		for k := range comps {
			keys = append(keys, k)
		}
		sort.Strings(keys)
		for _, k := range keys {
			c.saw(fn)
			cs := comps[k]
			var names []string
			for n := range cs {
				names = append(names, n)
			}
			sort.Strings(names)
			good, why := true, ""
			switch {
			case cs["Hostname"] && !cs["Port"] && !cs["Host"]:
				good, why = false, "the two locations are compared by Hostname() only: the port is ignored, so http://h:8080/... and http://h:9090/... count as the same server"
			case !cs["Host"] && !(cs["Hostname"] && cs["Port"]):
				good, why = false, "the two locations are compared on "+strings.Join(names, ", ")+" only, the host is not: documents with the same path on different servers count as the same"
			case !cs["Scheme"]:
				good, why = false, "the two locations are compared on "+strings.Join(names, ", ")+" only, the scheme is not"
			}
			c.ob(rule, fn+":"+k, pos[k], good, why)
		}
	}
}

// ---- ok-before-compare ----

func ruleOkBeforeCompare(c *Ctx) {
	const rule = "ok-before-compare"
	// comparators: Less methods of sort.Interface implementations and the package functions they call
	for _, fd := range c.reachableFrom("Less") {
		fn := c.funcName(fd)
		// values that come with an ok flag: v, ok := f(...) with f returning (T, bool)
		okOf := map[types.Object]types.Object{}
		ast.Inspect(fd.Body, func(n ast.Node) bool {
			as, isA := n.(*ast.AssignStmt)
			if !isA || len(as.Lhs) != 2 || len(as.Rhs) != 1 {
				return true
			}
			if _, isCall := unparen(as.Rhs[0]).(*ast.CallExpr); !isCall {
				return true
			}
			v, ok1 := as.Lhs[0].(*ast.Ident)
			o, ok2 := as.Lhs[1].(*ast.Ident)
			if !ok1 || !ok2 || v.Name == "_" || o.Name == "_" {
				return true
			}
			if b, isB := c.typeOf(o).Underlying().(*types.Basic); !isB || b.Kind() != types.Bool {
				return true
			}
			okOf[c.objOf(v)] = c.objOf(o)
			return true
		})
		// a producer's ok that is thrown away: the placeholder cannot be told from a real rank any more
		discarded := ""
		ast.Inspect(fd.Body, func(n ast.Node) bool {
			as, isA := n.(*ast.AssignStmt)
			if !isA || len(as.Lhs) != 2 || len(as.Rhs) != 1 {
				return true
			}
			call, isCall := unparen(as.Rhs[0]).(*ast.CallExpr)
			if !isCall {
				return true
			}
			tup, isTup := c.typeOf(call).(*types.Tuple)
			if !isTup || tup.Len() != 2 {
				return true
			}
			if b, isB := tup.At(1).Type().Underlying().(*types.Basic); !isB || b.Kind() != types.Bool {
				return true
			}
			if o, isId := as.Lhs[1].(*ast.Ident); isId && o.Name == "_" {
				if v, isV := as.Lhs[0].(*ast.Ident); isV && v.Name != "_" {
					discarded = c.pos(as.Pos()) + ": the ok result of " + exprString(call.Fun) + " is discarded and its value kept: the placeholder returned for an absent key is then ordered like a real rank (a legitimate rank equal to the placeholder sorts as if it were absent)"
				}
			}
			return true
		})
		if discarded != "" {
			c.saw(fn)
			c.ob(rule, fn+":ok-kept", fd.Pos(), false, discarded)
		}
		if len(okOf) == 0 {
			continue
		}
		c.saw(fn)
		good, why := true, ""
		if fd.Name.Name == "Less" {
			if w := c.lessMirror(fd); w != "" {
				good, why = false, w
			}
		}
		// ranks are compared, never subtracted: a difference of two int ranks overflows for ranks far apart and
		// the sign of the wrapped difference orders them the wrong way round (no strict weak order any more)
		ast.Inspect(fd.Body, func(n ast.Node) bool {
			be, isB := n.(*ast.BinaryExpr)
			if !isB || be.Op != token.SUB && be.Op != token.ADD && be.Op != token.MUL {
				return true
			}
			for _, side := range []ast.Expr{be.X, be.Y} {
				if id, isId := unparen(side).(*ast.Ident); isId {
					if _, has := okOf[c.objOf(id)]; has {
						good = false
						why = c.pos(be.Pos()) + ": the comparator computes " + exprString(be) + " on two ranks instead of comparing them: the result wraps around for ranks more than MaxInt apart and the order is no longer transitive"
					}
				}
			}
			return true
		})
		ast.Inspect(fd.Body, func(n ast.Node) bool {
			be, isB := n.(*ast.BinaryExpr)
			if !isB {
				return true
			}
			switch be.Op {
			case token.EQL, token.NEQ, token.LSS, token.LEQ, token.GTR, token.GEQ:
			default:
				return true
			}
			for _, side := range []ast.Expr{be.X, be.Y} {
				id, isId := unparen(side).(*ast.Ident)
				if !isId {
					continue
				}
				flag, has := okOf[c.objOf(id)]
				if !has {
					continue
				}
				known := c.entailsFlag(c.condsAt(fd, be), flag)
				if !known && (be.Op == token.EQL || be.Op == token.NEQ) {
					// v1 == v2 where both flags are known to be equal: when neither is set, both values are the
					// placeholder, which is one constant if every not-ok return of the producers says so
					ox, okx := unparen(be.X).(*ast.Ident)
					oy, oky := unparen(be.Y).(*ast.Ident)
					if okx && oky {
						fx, hx := okOf[c.objOf(ox)]
						fy, hy := okOf[c.objOf(oy)]
						if hx && hy {
							eq := &ast.BinaryExpr{X: &ast.Ident{Name: fx.Name(), NamePos: fx.Pos()}, Op: token.EQL, Y: &ast.Ident{Name: fy.Name(), NamePos: fy.Pos()}}
							if c.flagsKnownEqual(c.condsAt(fd, be), fx, fy) && c.constantPlaceholder(fd, c.objOf(ox)) && c.constantPlaceholder(fd, c.objOf(oy)) {
								known = true
							}
							_ = eq
						}
					}
				}
				if !known {
					good = false
					why = c.pos(be.Pos()) + ": " + id.Name + " is compared where " + flag.Name() + " is not known to be true: the placeholder returned for an absent key takes part in the order, which is then no strict weak order (the result of sorting depends on the initial, random, order)"
				}
			}
			return true
		})
		c.ob(rule, fn, fd.Pos(), good, why)
	}
}

// entailsFlag decides by truth table whether the conditions in force imply that the boolean variable flag is
// true.
func (c *Ctx) entailsFlag(conds []condLit, flag types.Object) bool {
	return c.propEntails(conds, &ast.Ident{Name: flag.Name(), NamePos: flag.Pos()}, false, flag)
}

// propEntails decides by truth table whether the conditions imply goal (negated when goalNeg). Atoms are the
// sub-expressions that are not built from !, &&, ||, or ==/!= between booleans; x != y shares its atom with
// x == y (operands in either order). goalObj, when set, makes an identifier goal denote that object.
func (c *Ctx) propEntails(conds []condLit, goal ast.Expr, goalNeg bool, goalObj types.Object) bool {
	atomIdx := map[string]int{}
	keyOf := func(e ast.Expr) string {
		e = unparen(e)
		if id, ok := e.(*ast.Ident); ok {
			if o := c.objOf(id); o != nil {
				return "obj:" + id.Name + "@" + c.pos(o.Pos())
			}
			if goalObj != nil && id.Name == goalObj.Name() && id.NamePos == goalObj.Pos() {
				return "obj:" + id.Name + "@" + c.pos(goalObj.Pos())
			}
			for _, so := range c.synthObjs {
				if id.Name == so.Name() && id.NamePos == so.Pos() {
					return "obj:" + id.Name + "@" + c.pos(so.Pos())
				}
			}
		}
		return exprString(e)
	}
	atomOf := func(k string) int {
		if i, ok := atomIdx[k]; ok {
			return i
		}
		atomIdx[k] = len(atomIdx)
		return atomIdx[k]
	}
	type node struct {
		op   token.Token // LAND, LOR, NOT, EQL (iff), or ILLEGAL for an atom
		a, b *node
		atom int
	}
	isBool := func(e ast.Expr) bool {
		t := c.typeOf(e)
		if t == nil {
			if id, ok := unparen(e).(*ast.Ident); ok {
				for _, so := range c.synthObjs {
					if id.Name == so.Name() && id.NamePos == so.Pos() {
						t = so.Type()
					}
				}
			}
		}
		if t == nil {
			return false
		}
		b, ok := t.Underlying().(*types.Basic)
		return ok && b.Info()&types.IsBoolean != 0
	}
	var build func(e ast.Expr) *node
	build = func(e ast.Expr) *node {
		e = unparen(e)
		switch x := e.(type) {
		case *ast.UnaryExpr:
			if x.Op == token.NOT {
				return &node{op: token.NOT, a: build(x.X)}
			}
		case *ast.BinaryExpr:
			switch x.Op {
			case token.LAND, token.LOR:
				return &node{op: x.Op, a: build(x.X), b: build(x.Y)}
			case token.EQL, token.NEQ:
				var n *node
				if isBool(x.X) && isBool(x.Y) {
					n = &node{op: token.EQL, a: build(x.X), b: build(x.Y)}
				} else {
					l, r := keyOf(x.X), keyOf(x.Y)
					if r < l {
						l, r = r, l
					}
					n = &node{atom: atomOf(l + " == " + r)}
				}
				if x.Op == token.NEQ {
					return &node{op: token.NOT, a: n}
				}
				return n
			}
		}
		return &node{atom: atomOf(keyOf(e))}
	}
	var forms []*node
	for _, cl := range conds {
		n := build(cl.e)
		if cl.neg {
			n = &node{op: token.NOT, a: n}
		}
		forms = append(forms, n)
	}
	g := build(goal)
	if goalNeg {
		g = &node{op: token.NOT, a: g}
	}
	if len(atomIdx) > 12 {
		return false
	}
	var eval func(n *node, v uint) bool
	eval = func(n *node, v uint) bool {
		switch n.op {
		case token.NOT:
			return !eval(n.a, v)
		case token.LAND:
			return eval(n.a, v) && eval(n.b, v)
		case token.LOR:
			return eval(n.a, v) || eval(n.b, v)
		case token.EQL:
			return eval(n.a, v) == eval(n.b, v)
		}
		return v&(1<<uint(n.atom)) != 0
	}
	for v := uint(0); v < 1<<uint(len(atomIdx)); v++ {
		all := true
		for _, f := range forms {
			if !eval(f, v) {
				all = false
				break
			}
		}
		if all && !eval(g, v) {
			return false
		}
	}
	return true
}

// ---- escaped-into-decoded ----

func ruleEscapedIntoDecoded(c *Ctx) {
	const rule = "escaped-into-decoded"
	isEscaper := func(e ast.Expr) string {
		found := ""
		ast.Inspect(e, func(n ast.Node) bool {
			call, ok := n.(*ast.CallExpr)
			if !ok {
				return true
			}
			if _, name, pkg, isM := c.calleeMethod(call); isM && pkg == "net/url" && (name == "EscapedPath" || name == "EscapedFragment") {
				found = name
			}
			if c.isPkgFunc(call, "net/url", "PathEscape") || c.isPkgFunc(call, "net/url", "QueryEscape") {
				found = "url escape function"
			}
			return true
		})
		return found
	}
	n := 0
	for _, fd := range c.allFuncDecls() {
		if fd.Body == nil {
			continue
		}
		fn := c.funcName(fd)
		defs := c.localDefs(fd)
		ast.Inspect(fd.Body, func(nd ast.Node) bool {
			check := func(field string, val ast.Expr, pos token.Pos, holder string) {
				n++
				c.saw(fn)
				why := isEscaper(val)
				if why == "" {
					if id, ok := unparen(val).(*ast.Ident); ok {
						for _, d := range defs[c.objOf(id)] {
							if d != nil && isEscaper(d) != "" {
								why = isEscaper(d)
							}
						}
					}
				}
				c.ob(rule, fn+":"+holder+"."+field, pos, why == "",
					"the decoded component "+field+" of a URL is given the result of "+why+": when the URL is printed the text is escaped again (%20 becomes %2520) and the reference no longer designates its target")
			}
			switch x := nd.(type) {
			case *ast.AssignStmt:
				if len(x.Lhs) != len(x.Rhs) {
					return true
				}
				for i, l := range x.Lhs {
					se, ok := unparen(l).(*ast.SelectorExpr)
					if !ok || !c.isURLType(c.typeOf(se.X)) || se.Sel.Name != "Fragment" && se.Sel.Name != "Path" {
						continue
					}
					check(se.Sel.Name, x.Rhs[i], x.Pos(), exprString(se.X))
				}
			case *ast.CompositeLit:
				if !c.isURLType(c.typeOf(x)) {
					return true
				}
				for _, el := range x.Elts {
					if kv, ok := el.(*ast.KeyValueExpr); ok {
						if id, ok := kv.Key.(*ast.Ident); ok && (id.Name == "Fragment" || id.Name == "Path") {
							check(id.Name, kv.Value, kv.Pos(), "url.URL{}")
						}
					}
				}
			}
			return true
		})
	}
}

// ---- scheme-on-parsed ----

func ruleSchemeOnParsed(c *Ctx) {
	const rule = "scheme-on-parsed"
	for _, fd := range c.allFuncDecls() {
		if fd.Body == nil {
			continue
		}
		fn := c.funcName(fd)
		// parameters handed directly to the URL parser
		parsed := map[types.Object]bool{}
		ast.Inspect(fd.Body, func(n ast.Node) bool {
			call, ok := n.(*ast.CallExpr)
			if !ok || len(call.Args) != 1 {
				return true
			}
			isParse := c.isPkgFunc(call, "net/url", "Parse")
			if g, _ := c.callee(call).(*types.Func); g != nil && g.Pkg() == c.Types && g.Name() == "parseURL" {
				isParse = true
			}
			if !isParse {
				return true
			}
			if id, ok := unparen(call.Args[0]).(*ast.Ident); ok && c.paramIndex(fd, c.objOf(id)) >= 0 {
				parsed[c.objOf(id)] = true
			}
			return true
		})
		if len(parsed) == 0 {
			continue
		}
		c.saw(fn)
		good, why := true, ""
		mentionsScheme := func(e ast.Expr) bool {
			found := false
			ast.Inspect(e, func(n ast.Node) bool {
				if ex, ok := n.(ast.Expr); ok {
					if s, isC := c.constString(ex); isC {
						ls := strings.ToLower(s)
						if strings.HasPrefix(ls, "file") || strings.HasPrefix(ls, "http") {
							found = true
						}
					}
				}
				return true
			})
			return found
		}
		isParsedParam := func(e ast.Expr) bool {
			id, ok := unparen(e).(*ast.Ident)
			return ok && parsed[c.objOf(id)]
		}
		ast.Inspect(fd.Body, func(n ast.Node) bool {
			switch x := n.(type) {
			case *ast.CallExpr:
				if (c.isPkgFunc(x, "strings", "HasPrefix") || c.isPkgFunc(x, "strings", "Contains") || c.isPkgFunc(x, "strings", "Index")) && len(x.Args) == 2 && isParsedParam(x.Args[0]) && mentionsScheme(x.Args[1]) {
					good, why = false, c.pos(x.Pos())+": "+exprString(x)+" looks for the scheme in the raw text although the text is parsed in the same function: the test is case-sensitive (FILE:/x), the parsed scheme is not, so equivalent spellings of one location are treated differently"
				}
			case *ast.BinaryExpr:
				if (x.Op == token.EQL || x.Op == token.NEQ) && (isParsedParam(x.X) && mentionsScheme(x.Y) || isParsedParam(x.Y) && mentionsScheme(x.X)) {
					good, why = false, c.pos(x.Pos())+": the raw text is compared with a scheme constant"
				}
			}
			return true
		})
		c.ob(rule, fn, fd.Pos(), good, why)
	}
}

// ---- factory-keeps-options ----

func ruleFactoryKeepsOptions(c *Ctx) {
	const rule = "factory-keeps-options"
	fam := c.family()
	if !fam.ok() {
		c.undecided(rule, "family", token.NoPos, "expander family not found by role")
		return
	}
	// the factory: a plain function with an *ExpandOptions parameter that returns a loader built by a literal
	for _, fd := range c.allFuncDecls() {
		if fd.Body == nil || fd.Recv != nil {
			continue
		}
		f, _ := c.Info.Defs[fd.Name].(*types.Func)
		if f == nil {
			continue
		}
		sig := f.Type().(*types.Signature)
		if sig.Results().Len() != 1 || !isNamed(derefType(sig.Results().At(0).Type()), c.Types, fam.loader.Obj().Name()) {
			continue
		}
		var optParam types.Object
		for i := 0; i < sig.Params().Len(); i++ {
			if isNamed(derefType(sig.Params().At(i).Type()), c.Types, "ExpandOptions") {
				if _, isPtr := types.Unalias(sig.Params().At(i).Type()).(*types.Pointer); isPtr {
					optParam = c.paramObj(fd, i)
				}
			}
		}
		if optParam == nil {
			continue
		}
		fn := c.funcName(fd)
		c.saw(fn)
		good, why := true, ""
		// the literal stores the parameter itself
		stores := false
		ast.Inspect(fd.Body, func(n ast.Node) bool {
			lit, ok := n.(*ast.CompositeLit)
			if !ok || !isNamed(derefType(c.typeOf(lit)), c.Types, fam.loader.Obj().Name()) {
				return true
			}
			for _, el := range lit.Elts {
				if kv, ok := el.(*ast.KeyValueExpr); ok && isNamed(derefType(c.typeOf(kv.Value)), c.Types, "ExpandOptions") {
					if id, ok := unparen(kv.Value).(*ast.Ident); ok && c.objOf(id) == optParam {
						stores = true
					} else {
						good, why = false, "the loader is built with "+exprString(kv.Value)+" instead of the options value it was handed"
					}
				}
			}
			return true
		})
		if !stores && good {
			good, why = false, "the loader literal does not carry the options parameter"
		}
		// the parameter is re-pointed only when it is nil
		ast.Inspect(fd.Body, func(n ast.Node) bool {
			as, ok := n.(*ast.AssignStmt)
			if !ok {
				return true
			}
			for _, l := range as.Lhs {
				id, ok := unparen(l).(*ast.Ident)
				if !ok || c.objOf(id) != optParam {
					continue
				}
				whenNil := false
				for _, cl := range c.literalsAt(fd, as) {
					if eq, isCmp := nilCmp(c, cl, optParam); isCmp && eq {
						whenNil = true
					}
				}
				if !whenNil {
					good, why = false, c.pos(as.Pos())+": the options parameter is re-pointed to another value although it is not nil: the entry points read the base path back from the value they passed in, which no longer is the one the loader works with (the pseudo-root base of a root-less call is lost)"
				}
			}
			return true
		})
		c.ob(rule, fn, fd.Pos(), good, why)
	}
}

// ---- encode-nil-empty-alike ----

func ruleEncodeNilEmptyAlike(c *Ctx) {
	const rule = "encode-nil-empty-alike"
	for _, fd := range c.allFuncDecls() {
		if fd.Recv == nil || fd.Body == nil || fd.Name.Name != "MarshalJSON" {
			continue
		}
		recv := c.recvObj(fd)
		if recv == nil {
			continue
		}
		fn := c.funcName(fd)
		c.saw(fn)
		good, why := true, ""
		// a type with its own gob codec transports the nil/empty difference explicitly (the security padding,
		// checked by gob-proxy-symmetry): it may encode the two differently
		if rt := c.recvTypeOf(fd); rt != nil && hasMethod(derefType(rt), "GobEncode") != nil {
			c.ob(rule, fn, fd.Pos(), true, "")
			continue
		}
		ast.Inspect(fd.Body, func(n ast.Node) bool {
			be, ok := n.(*ast.BinaryExpr)
			if !ok || be.Op != token.EQL && be.Op != token.NEQ {
				return true
			}
			for _, pr := range [][2]ast.Expr{{be.X, be.Y}, {be.Y, be.X}} {
				if !isNilIdent(c, pr[1]) {
					continue
				}
				p, ok := c.apath(pr[0])
				if !ok || p.Root != recv {
					continue
				}
				if _, isSlice := c.typeOf(pr[0]).Underlying().(*types.Slice); isSlice {
					good = false
					why = c.pos(be.Pos()) + ": the encoding depends on " + exprString(be) + ": a nil and an empty list are encoded differently, but a gob copy of the document has turned the empty list into a nil one (and JSON decoding of [] yields an empty, non-nil one)"
				}
			}
			return true
		})
		c.ob(rule, fn, fd.Pos(), good, why)
	}
}

// flagsKnownEqual: the conditions in force imply f1 == f2 (both flags set, or neither).
func (c *Ctx) flagsKnownEqual(conds []condLit, f1, f2 types.Object) bool {
	// (f1 && f2) || (!f1 && !f2), as a truth-table goal over the two flag atoms
	id := func(o types.Object) ast.Expr { return &ast.Ident{Name: o.Name(), NamePos: o.Pos()} }
	not := func(e ast.Expr) ast.Expr { return &ast.UnaryExpr{Op: token.NOT, X: e} }
	goal := &ast.BinaryExpr{
		X:  &ast.BinaryExpr{X: id(f1), Op: token.LAND, Y: id(f2)},
		Op: token.LOR,
		Y:  &ast.BinaryExpr{X: not(id(f1)), Op: token.LAND, Y: not(id(f2))},
	}
	return c.propEntailsObjs(conds, goal, []types.Object{f1, f2})
}

// propEntailsObjs is propEntails for a synthetic goal whose identifiers denote the given objects.
func (c *Ctx) propEntailsObjs(conds []condLit, goal ast.Expr, objs []types.Object) bool {
	// identifiers of the synthetic goal are resolved by (name, position) against objs
	saved := c.synthObjs
	c.synthObjs = objs
	defer func() { c.synthObjs = saved }()
	return c.propEntails(conds, goal, false, nil)
}

// constantPlaceholder: v is the first result of `v, ok := f(...)` where every return of f (a package function
// with a body) whose ok result is the constant false yields one and the same constant as its value.
func (c *Ctx) constantPlaceholder(fd *ast.FuncDecl, v types.Object) bool {
	var call *ast.CallExpr
	ast.Inspect(fd.Body, func(n ast.Node) bool {
		as, ok := n.(*ast.AssignStmt)
		if !ok || len(as.Lhs) != 2 || len(as.Rhs) != 1 {
			return true
		}
		if id, ok := as.Lhs[0].(*ast.Ident); ok && c.objOf(id) == v {
			call, _ = unparen(as.Rhs[0]).(*ast.CallExpr)
		}
		return true
	})
	for depth := 0; call != nil && depth < 3; depth++ {
		g, _ := c.callee(call).(*types.Func)
		gfd := c.decl(g)
		if gfd == nil || gfd.Body == nil {
			return false
		}
		var consts []string
		var forward *ast.CallExpr
		okAll := true
		n := 0
		ast.Inspect(gfd.Body, func(m ast.Node) bool {
			if _, isLit := m.(*ast.FuncLit); isLit {
				return false
			}
			rs, ok := m.(*ast.ReturnStmt)
			if !ok {
				return true
			}
			n++
			if len(rs.Results) == 1 {
				// return f(...): the producer forwards another producer
				if fc, isCall := unparen(rs.Results[0]).(*ast.CallExpr); isCall {
					forward = fc
					return true
				}
				okAll = false
				return true
			}
			if len(rs.Results) != 2 {
				okAll = false
				return true
			}
			tv, isConst := c.Info.Types[rs.Results[1]]
			if !isConst || tv.Value == nil {
				okAll = false
				return true
			}
			if tv.Value.String() == "false" {
				vv, isC := c.Info.Types[rs.Results[0]]
				if !isC || vv.Value == nil {
					okAll = false
					return true
				}
				consts = append(consts, vv.Value.ExactString())
			}
			return true
		})
		if !okAll || n == 0 {
			return false
		}
		if forward != nil && n == 1 {
			call = forward
			continue
		}
		if forward != nil {
			return false
		}
		for _, k := range consts {
			if k != consts[0] {
				return false
			}
		}
		return len(consts) > 0
	}
	return false
}

// lessMirror: on the effect normal form of a Less method that orders by (rank, has-rank) pairs, a constant answer
// for "left has a rank, right has none" must be mirrored by the opposite constant for "left has none, right has
// one": otherwise Less(a, b) and Less(b, a) can both hold (or the order depends on where sorting started).
func (c *Ctx) lessMirror(fd *ast.FuncDecl) string {
	// (value, ok) producers are kept as opaque calls: their ok results are the flags
	paths, unsup := c.simulate(fd, func(f *types.Func) bool {
		res := f.Type().(*types.Signature).Results()
		if res.Len() == 2 {
			if b, isB := res.At(1).Type().Underlying().(*types.Basic); isB && b.Kind() == types.Bool {
				return false
			}
		}
		return true
	})
	if unsup != "" || len(paths) == 0 {
		return ""
	}
	// the two producers: the first two distinct calls whose second result is used as a flag in conditions
	flagOf := func(v sval) (int, bool) {
		sc, ok := v.(svCall)
		if !ok || sc.idx != 1 || sc.id == 0 {
			return 0, false
		}
		if tup, ok := c.typeOf(sc.call).(*types.Tuple); ok && tup.Len() == 2 {
			if b, isB := tup.At(1).Type().Underlying().(*types.Basic); isB && b.Kind() == types.Bool {
				return sc.id, true
			}
		}
		return 0, false
	}
	type row struct {
		f    map[int]int // call id -> 1 / -1
		ret  int         // 1 true, -1 false, 0 not constant
		rel  int         // the two flags are known equal (1) / different (-1)
		npos int
	}
	var rows []row
	ids := map[int]bool{}
	for _, p := range paths {
		r := row{f: map[int]int{}}
		for _, cd := range p.conds {
			if id, ok := flagOf(cd.v); ok && !cd.loop {
				ids[id] = true
				if cd.neg {
					r.f[id] = -1
				} else {
					r.f[id] = 1
				}
			}
			// flagA != flagB (equality is written as its negation in the normal form)
			if bn, isBin := cd.v.(svBin); isBin && bn.op == token.NEQ && !cd.loop {
				ia, oka := flagOf(bn.x)
				ib, okb := flagOf(bn.y)
				if oka && okb {
					ids[ia], ids[ib] = true, true
					if cd.neg {
						r.rel = 1
					} else {
						r.rel = -1
					}
				}
			}
		}
		if len(p.rets) == 1 {
			if b, ok := constBool(p.rets[0]); ok {
				if b {
					r.ret = 1
				} else {
					r.ret = -1
				}
			}
		}
		rows = append(rows, r)
	}
	if len(ids) != 2 {
		return ""
	}
	var a, b int
	for id := range ids {
		if a == 0 || id < a {
			a, b = id, a
		} else {
			b = id
		}
	}
	if b == 0 {
		return ""
	}
	answer := func(fa, fb int) (int, bool) {
		// the answers of every path on which the flags are (fa, fb); ok when they are all one constant
		ans, n := 0, 0
		for _, r := range rows {
			if r.f[a] != 0 && r.f[a] != fa || r.f[b] != 0 && r.f[b] != fb {
				continue
			}
			if r.rel == 1 && fa != fb || r.rel == -1 && fa == fb {
				continue
			}
			n++
			if r.ret == 0 || (ans != 0 && ans != r.ret) {
				return 0, false
			}
			ans = r.ret
		}
		return ans, n > 0
	}
	lr, okLR := answer(1, -1)
	rl, okRL := answer(-1, 1)
	switch {
	case okLR && !okRL:
		return "the comparator gives a constant answer when only the left item has a rank, but not when only the right one has: Less(a, b) and Less(b, a) are no longer opposite, so there is no strict weak order and the output depends on the initial (random) order"
	case !okLR && okRL:
		return "the comparator gives a constant answer when only the right item has a rank, but not when only the left one has: Less(a, b) and Less(b, a) are no longer opposite, so there is no strict weak order and the output depends on the initial (random) order"
	case okLR && okRL && lr == rl:
		return "the comparator answers the same constant whichever of the two items has a rank: Less(a, b) and Less(b, a) both hold"
	}
	return ""
}
