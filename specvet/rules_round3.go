package main

import (
	"go/ast"
	"go/token"
	"go/types"
	"sort"
	"strings"
)

// Rules added after the third round of independently seeded changes (DESIGN.md section 8).

func init() {
	registerRule("origin-compare", 1, "where two locations are compared component by component to decide 'same server' or 'same document', scheme and host are both compared, the host with its port (URL.Host, not Hostname())", ruleOriginCompare)
	registerRule("escaped-into-decoded", 1, "the decoded components of a url.URL (Path, Fragment) are never assigned an escaped text (EscapedPath, EscapedFragment, PathEscape, QueryEscape, String): printing the URL would escape it a second time", ruleEscapedIntoDecoded)
	registerRule("scheme-on-parsed", 1, "a function that parses a location never decides on the scheme by looking at the raw text it was given: url.Parse lower-cases the scheme, the text does not (FILE:/x and file:/x are the same location)", ruleSchemeOnParsed)
	registerRule("factory-keeps-options", 1, "the loader factory keeps the options value it was handed (its callers read the base path back from that very value); it replaces it only when it is nil", ruleFactoryKeepsOptions)
	registerRule("encode-nil-empty-alike", 20, "a JSON encoder never distinguishes a nil slice of its receiver from an empty one: gob transport (and omitempty) do not preserve that difference, so the same document would encode differently before and after", ruleEncodeNilEmptyAlike)
	registerRule("ok-before-compare", 1, "in a sort comparator a value obtained together with an ok flag is compared only where that flag is known to be true (the value of an absent key is a sentinel, not a rank)", ruleOkBeforeCompare)
}

// ---- origin-compare ----

func (c *Ctx) isURLType(t types.Type) bool {
	if t == nil {
		return false
	}
	n, ok := types.Unalias(derefType(t)).(*types.Named)
	return ok && n.Obj().Pkg() != nil && n.Obj().Pkg().Path() == "net/url" && n.Obj().Name() == "URL"
}

// urlComponent: e is X.Field or X.Method() on a url.URL value X; returns the text of X and the component name.
func (c *Ctx) urlComponent(e ast.Expr) (string, string, bool) {
	e = unparen(e)
	if call, ok := e.(*ast.CallExpr); ok && len(call.Args) == 0 {
		e = unparen(call.Fun)
	}
	se, ok := e.(*ast.SelectorExpr)
	if !ok || !c.isURLType(c.typeOf(se.X)) {
		return "", "", false
	}
	return exprString(unparen(se.X)), se.Sel.Name, true
}

func ruleOriginCompare(c *Ctx) {
	const rule = "origin-compare"
	for _, fd := range c.allFuncDecls() {
		if fd.Body == nil {
			continue
		}
		fn := c.funcName(fd)
		// pairs of URL values compared component-wise in this function -> components compared
		comps := map[string]map[string]bool{}
		pos := map[string]token.Pos{}
		note := func(a, b ast.Expr, p token.Pos) {
			xa, ca, oka := c.urlComponent(a)
			xb, cb, okb := c.urlComponent(b)
			if !oka || !okb || xa == xb || ca != cb {
				return
			}
			k := xa + " ~ " + xb
			if xb < xa {
				k = xb + " ~ " + xa
			}
			if comps[k] == nil {
				comps[k] = map[string]bool{}
				pos[k] = p
			}
			comps[k][ca] = true
		}
		ast.Inspect(fd.Body, func(n ast.Node) bool {
			switch x := n.(type) {
			case *ast.BinaryExpr:
				if x.Op == token.EQL || x.Op == token.NEQ {
					note(x.X, x.Y, x.Pos())
				}
			case *ast.CallExpr:
				if c.isPkgFunc(x, "strings", "EqualFold") && len(x.Args) == 2 {
					note(x.Args[0], x.Args[1], x.Pos())
				}
			}
			return true
		})
		var keys []string
		for k := range comps {
			keys = append(keys, k)
		}
		sort.Strings(keys)
		for _, k := range keys {
			c.saw(fn)
			cs := comps[k]
			var names []string
			for n := range cs {
				names = append(names, n)
			}
			sort.Strings(names)
			good, why := true, ""
			switch {
			case cs["Hostname"] && !cs["Port"] && !cs["Host"]:
				good, why = false, "the two locations are compared by Hostname() only: the port is ignored, so http://h:8080/... and http://h:9090/... count as the same server"
			case !cs["Host"] && !(cs["Hostname"] && cs["Port"]):
				good, why = false, "the two locations are compared on "+strings.Join(names, ", ")+" only, the host is not: documents with the same path on different servers count as the same"
			case !cs["Scheme"]:
				good, why = false, "the two locations are compared on "+strings.Join(names, ", ")+" only, the scheme is not"
			}
			c.ob(rule, fn+":"+k, pos[k], good, why)
		}
	}
}

// ---- ok-before-compare ----

func ruleOkBeforeCompare(c *Ctx) {
	const rule = "ok-before-compare"
	// comparators: Less methods of sort.Interface implementations and the package functions they call
	for _, fd := range c.reachableFrom("Less") {
		fn := c.funcName(fd)
		// values that come with an ok flag: v, ok := f(...) with f returning (T, bool)
		okOf := map[types.Object]types.Object{}
		ast.Inspect(fd.Body, func(n ast.Node) bool {
			as, isA := n.(*ast.AssignStmt)
			if !isA || len(as.Lhs) != 2 || len(as.Rhs) != 1 {
				return true
			}
			if _, isCall := unparen(as.Rhs[0]).(*ast.CallExpr); !isCall {
				return true
			}
			v, ok1 := as.Lhs[0].(*ast.Ident)
			o, ok2 := as.Lhs[1].(*ast.Ident)
			if !ok1 || !ok2 || v.Name == "_" || o.Name == "_" {
				return true
			}
			if b, isB := c.typeOf(o).Underlying().(*types.Basic); !isB || b.Kind() != types.Bool {
				return true
			}
			okOf[c.objOf(v)] = c.objOf(o)
			return true
		})
		if len(okOf) == 0 {
			continue
		}
		c.saw(fn)
		good, why := true, ""
		// ranks are compared, never subtracted: a difference of two int ranks overflows for ranks far apart and
		// the sign of the wrapped difference orders them the wrong way round (no strict weak order any more)
		ast.Inspect(fd.Body, func(n ast.Node) bool {
			be, isB := n.(*ast.BinaryExpr)
			if !isB || be.Op != token.SUB && be.Op != token.ADD && be.Op != token.MUL {
				return true
			}
			for _, side := range []ast.Expr{be.X, be.Y} {
				if id, isId := unparen(side).(*ast.Ident); isId {
					if _, has := okOf[c.objOf(id)]; has {
						good = false
						why = c.pos(be.Pos()) + ": the comparator computes " + exprString(be) + " on two ranks instead of comparing them: the result wraps around for ranks more than MaxInt apart and the order is no longer transitive"
					}
				}
			}
			return true
		})
		ast.Inspect(fd.Body, func(n ast.Node) bool {
			be, isB := n.(*ast.BinaryExpr)
			if !isB {
				return true
			}
			switch be.Op {
			case token.EQL, token.NEQ, token.LSS, token.LEQ, token.GTR, token.GEQ:
			default:
				return true
			}
			for _, side := range []ast.Expr{be.X, be.Y} {
				id, isId := unparen(side).(*ast.Ident)
				if !isId {
					continue
				}
				flag, has := okOf[c.objOf(id)]
				if !has {
					continue
				}
				known := c.entailsFlag(c.condsAt(fd, be), flag)
				if !known {
					good = false
					why = c.pos(be.Pos()) + ": " + id.Name + " is compared where " + flag.Name() + " is not known to be true: the placeholder returned for an absent key takes part in the order, which is then no strict weak order (the result of sorting depends on the initial, random, order)"
				}
			}
			return true
		})
		c.ob(rule, fn, fd.Pos(), good, why)
	}
}

// entailsFlag decides by truth table whether the conditions in force imply that the boolean variable flag is
// true. Boolean identifiers are the atoms; any other sub-expression is an opaque atom of its own.
func (c *Ctx) entailsFlag(conds []condLit, flag types.Object) bool {
	atomIdx := map[string]int{}
	var atomOf func(e ast.Expr) int
	atomOf = func(e ast.Expr) int {
		k := exprString(e)
		if id, ok := unparen(e).(*ast.Ident); ok && c.objOf(id) != nil {
			k = "obj:" + id.Name + "@" + c.pos(c.objOf(id).Pos())
		}
		if i, ok := atomIdx[k]; ok {
			return i
		}
		atomIdx[k] = len(atomIdx)
		return atomIdx[k]
	}
	type node struct {
		op   token.Token // LAND, LOR, NOT, or ILLEGAL for an atom
		a, b *node
		atom int
	}
	var build func(e ast.Expr) *node
	build = func(e ast.Expr) *node {
		e = unparen(e)
		switch x := e.(type) {
		case *ast.UnaryExpr:
			if x.Op == token.NOT {
				return &node{op: token.NOT, a: build(x.X)}
			}
		case *ast.BinaryExpr:
			if x.Op == token.LAND || x.Op == token.LOR {
				return &node{op: x.Op, a: build(x.X), b: build(x.Y)}
			}
		}
		return &node{atom: atomOf(e)}
	}
	var forms []*node
	for _, cl := range conds {
		n := build(cl.e)
		if cl.neg {
			n = &node{op: token.NOT, a: n}
		}
		forms = append(forms, n)
	}
	// the flag's atom
	want := -1
	for k, i := range atomIdx {
		if strings.HasPrefix(k, "obj:"+flag.Name()+"@"+c.pos(flag.Pos())) {
			want = i
		}
	}
	if want < 0 || len(atomIdx) > 10 {
		return false
	}
	var eval func(n *node, v uint) bool
	eval = func(n *node, v uint) bool {
		switch n.op {
		case token.NOT:
			return !eval(n.a, v)
		case token.LAND:
			return eval(n.a, v) && eval(n.b, v)
		case token.LOR:
			return eval(n.a, v) || eval(n.b, v)
		}
		return v&(1<<uint(n.atom)) != 0
	}
	for v := uint(0); v < 1<<uint(len(atomIdx)); v++ {
		all := true
		for _, f := range forms {
			if !eval(f, v) {
				all = false
				break
			}
		}
		if all && v&(1<<uint(want)) == 0 {
			return false
		}
	}
	return true
}

// ---- escaped-into-decoded ----

func ruleEscapedIntoDecoded(c *Ctx) {
	const rule = "escaped-into-decoded"
	isEscaper := func(e ast.Expr) string {
		found := ""
		ast.Inspect(e, func(n ast.Node) bool {
			call, ok := n.(*ast.CallExpr)
			if !ok {
				return true
			}
			if _, name, pkg, isM := c.calleeMethod(call); isM && pkg == "net/url" && (name == "EscapedPath" || name == "EscapedFragment") {
				found = name
			}
			if c.isPkgFunc(call, "net/url", "PathEscape") || c.isPkgFunc(call, "net/url", "QueryEscape") {
				found = "url escape function"
			}
			return true
		})
		return found
	}
	n := 0
	for _, fd := range c.allFuncDecls() {
		if fd.Body == nil {
			continue
		}
		fn := c.funcName(fd)
		defs := c.localDefs(fd)
		ast.Inspect(fd.Body, func(nd ast.Node) bool {
			check := func(field string, val ast.Expr, pos token.Pos, holder string) {
				n++
				c.saw(fn)
				why := isEscaper(val)
				if why == "" {
					if id, ok := unparen(val).(*ast.Ident); ok {
						for _, d := range defs[c.objOf(id)] {
							if d != nil && isEscaper(d) != "" {
								why = isEscaper(d)
							}
						}
					}
				}
				c.ob(rule, fn+":"+holder+"."+field, pos, why == "",
					"the decoded component "+field+" of a URL is given the result of "+why+": when the URL is printed the text is escaped again (%20 becomes %2520) and the reference no longer designates its target")
			}
			switch x := nd.(type) {
			case *ast.AssignStmt:
				if len(x.Lhs) != len(x.Rhs) {
					return true
				}
				for i, l := range x.Lhs {
					se, ok := unparen(l).(*ast.SelectorExpr)
					if !ok || !c.isURLType(c.typeOf(se.X)) || se.Sel.Name != "Fragment" && se.Sel.Name != "Path" {
						continue
					}
					check(se.Sel.Name, x.Rhs[i], x.Pos(), exprString(se.X))
				}
			case *ast.CompositeLit:
				if !c.isURLType(c.typeOf(x)) {
					return true
				}
				for _, el := range x.Elts {
					if kv, ok := el.(*ast.KeyValueExpr); ok {
						if id, ok := kv.Key.(*ast.Ident); ok && (id.Name == "Fragment" || id.Name == "Path") {
							check(id.Name, kv.Value, kv.Pos(), "url.URL{}")
						}
					}
				}
			}
			return true
		})
	}
}

// ---- scheme-on-parsed ----

func ruleSchemeOnParsed(c *Ctx) {
	const rule = "scheme-on-parsed"
	for _, fd := range c.allFuncDecls() {
		if fd.Body == nil {
			continue
		}
		fn := c.funcName(fd)
		// parameters handed directly to the URL parser
		parsed := map[types.Object]bool{}
		ast.Inspect(fd.Body, func(n ast.Node) bool {
			call, ok := n.(*ast.CallExpr)
			if !ok || len(call.Args) != 1 {
				return true
			}
			isParse := c.isPkgFunc(call, "net/url", "Parse")
			if g, _ := c.callee(call).(*types.Func); g != nil && g.Pkg() == c.Types && g.Name() == "parseURL" {
				isParse = true
			}
			if !isParse {
				return true
			}
			if id, ok := unparen(call.Args[0]).(*ast.Ident); ok && c.paramIndex(fd, c.objOf(id)) >= 0 {
				parsed[c.objOf(id)] = true
			}
			return true
		})
		if len(parsed) == 0 {
			continue
		}
		c.saw(fn)
		good, why := true, ""
		mentionsScheme := func(e ast.Expr) bool {
			found := false
			ast.Inspect(e, func(n ast.Node) bool {
				if ex, ok := n.(ast.Expr); ok {
					if s, isC := c.constString(ex); isC {
						ls := strings.ToLower(s)
						if strings.HasPrefix(ls, "file") || strings.HasPrefix(ls, "http") {
							found = true
						}
					}
				}
				return true
			})
			return found
		}
		isParsedParam := func(e ast.Expr) bool {
			id, ok := unparen(e).(*ast.Ident)
			return ok && parsed[c.objOf(id)]
		}
		ast.Inspect(fd.Body, func(n ast.Node) bool {
			switch x := n.(type) {
			case *ast.CallExpr:
				if (c.isPkgFunc(x, "strings", "HasPrefix") || c.isPkgFunc(x, "strings", "Contains") || c.isPkgFunc(x, "strings", "Index")) && len(x.Args) == 2 && isParsedParam(x.Args[0]) && mentionsScheme(x.Args[1]) {
					good, why = false, c.pos(x.Pos())+": "+exprString(x)+" looks for the scheme in the raw text although the text is parsed in the same function: the test is case-sensitive (FILE:/x), the parsed scheme is not, so equivalent spellings of one location are treated differently"
				}
			case *ast.BinaryExpr:
				if (x.Op == token.EQL || x.Op == token.NEQ) && (isParsedParam(x.X) && mentionsScheme(x.Y) || isParsedParam(x.Y) && mentionsScheme(x.X)) {
					good, why = false, c.pos(x.Pos())+": the raw text is compared with a scheme constant"
				}
			}
			return true
		})
		c.ob(rule, fn, fd.Pos(), good, why)
	}
}

// ---- factory-keeps-options ----

func ruleFactoryKeepsOptions(c *Ctx) {
	const rule = "factory-keeps-options"
	fam := c.family()
	if !fam.ok() {
		c.undecided(rule, "family", token.NoPos, "expander family not found by role")
		return
	}
	// the factory: a plain function with an *ExpandOptions parameter that returns a loader built by a literal
	for _, fd := range c.allFuncDecls() {
		if fd.Body == nil || fd.Recv != nil {
			continue
		}
		f, _ := c.Info.Defs[fd.Name].(*types.Func)
		if f == nil {
			continue
		}
		sig := f.Type().(*types.Signature)
		if sig.Results().Len() != 1 || !isNamed(derefType(sig.Results().At(0).Type()), c.Types, fam.loader.Obj().Name()) {
			continue
		}
		var optParam types.Object
		for i := 0; i < sig.Params().Len(); i++ {
			if isNamed(derefType(sig.Params().At(i).Type()), c.Types, "ExpandOptions") {
				if _, isPtr := types.Unalias(sig.Params().At(i).Type()).(*types.Pointer); isPtr {
					optParam = c.paramObj(fd, i)
				}
			}
		}
		if optParam == nil {
			continue
		}
		fn := c.funcName(fd)
		c.saw(fn)
		good, why := true, ""
		// the literal stores the parameter itself
		stores := false
		ast.Inspect(fd.Body, func(n ast.Node) bool {
			lit, ok := n.(*ast.CompositeLit)
			if !ok || !isNamed(derefType(c.typeOf(lit)), c.Types, fam.loader.Obj().Name()) {
				return true
			}
			for _, el := range lit.Elts {
				if kv, ok := el.(*ast.KeyValueExpr); ok && isNamed(derefType(c.typeOf(kv.Value)), c.Types, "ExpandOptions") {
					if id, ok := unparen(kv.Value).(*ast.Ident); ok && c.objOf(id) == optParam {
						stores = true
					} else {
						good, why = false, "the loader is built with "+exprString(kv.Value)+" instead of the options value it was handed"
					}
				}
			}
			return true
		})
		if !stores && good {
			good, why = false, "the loader literal does not carry the options parameter"
		}
		// the parameter is re-pointed only when it is nil
		ast.Inspect(fd.Body, func(n ast.Node) bool {
			as, ok := n.(*ast.AssignStmt)
			if !ok {
				return true
			}
			for _, l := range as.Lhs {
				id, ok := unparen(l).(*ast.Ident)
				if !ok || c.objOf(id) != optParam {
					continue
				}
				whenNil := false
				for _, cl := range c.literalsAt(fd, as) {
					if eq, isCmp := nilCmp(c, cl, optParam); isCmp && eq {
						whenNil = true
					}
				}
				if !whenNil {
					good, why = false, c.pos(as.Pos())+": the options parameter is re-pointed to another value although it is not nil: the entry points read the base path back from the value they passed in, which no longer is the one the loader works with (the pseudo-root base of a root-less call is lost)"
				}
			}
			return true
		})
		c.ob(rule, fn, fd.Pos(), good, why)
	}
}

// ---- encode-nil-empty-alike ----

func ruleEncodeNilEmptyAlike(c *Ctx) {
	const rule = "encode-nil-empty-alike"
	for _, fd := range c.allFuncDecls() {
		if fd.Recv == nil || fd.Body == nil || fd.Name.Name != "MarshalJSON" {
			continue
		}
		recv := c.recvObj(fd)
		if recv == nil {
			continue
		}
		fn := c.funcName(fd)
		c.saw(fn)
		good, why := true, ""
		// a type with its own gob codec transports the nil/empty difference explicitly (the security padding,
		// checked by gob-proxy-symmetry): it may encode the two differently
		if rt := c.recvTypeOf(fd); rt != nil && hasMethod(derefType(rt), "GobEncode") != nil {
			c.ob(rule, fn, fd.Pos(), true, "")
			continue
		}
		ast.Inspect(fd.Body, func(n ast.Node) bool {
			be, ok := n.(*ast.BinaryExpr)
			if !ok || be.Op != token.EQL && be.Op != token.NEQ {
				return true
			}
			for _, pr := range [][2]ast.Expr{{be.X, be.Y}, {be.Y, be.X}} {
				if !isNilIdent(c, pr[1]) {
					continue
				}
				p, ok := c.apath(pr[0])
				if !ok || p.Root != recv {
					continue
				}
				if _, isSlice := c.typeOf(pr[0]).Underlying().(*types.Slice); isSlice {
					good = false
					why = c.pos(be.Pos()) + ": the encoding depends on " + exprString(be) + ": a nil and an empty list are encoded differently, but a gob copy of the document has turned the empty list into a nil one (and JSON decoding of [] yields an empty, non-nil one)"
				}
			}
			return true
		})
		c.ob(rule, fn, fd.Pos(), good, why)
	}
}
