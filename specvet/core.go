package main

import (
	"encoding/json"
	"fmt"
	"go/ast"
	"go/token"
	"go/types"
	"os"
	"path/filepath"
	"sort"
	"strings"

	"golang.org/x/tools/go/packages"
)

const specPkgPath = "github.com/go-openapi/spec"

// Ctx is one loaded build configuration of /repo plus the obligations
// accumulated by the rules run on it.
type Ctx struct {
	Repo   string
	Config string // GOOS/GOARCH
	Pkg    *packages.Package
	Fset   *token.FileSet
	Info   *types.Info
	Types  *types.Package
	Files  []*ast.File
	// fieldBufBad caches fieldBufferBad (escape rule)
	fieldBufBad map[*types.Var]string
	// simIdx caches, per function, which index expressions the effect normal form proves in range
	idOnceSimDecided bool // id-once was decided on the normal form (which includes "registered under the returned base")
	scopeHelperMemo  map[*types.Func]bool
	happyMemo        map[*ast.FuncDecl][]spath
	happyOK          map[*ast.FuncDecl]bool
	synthObjs        []types.Object // objects the identifiers of a synthetic goal expression denote (propEntails)
	simIdx           map[*ast.FuncDecl]map[*ast.IndexExpr]bool
	simMapStore      map[*ast.FuncDecl]map[*ast.IndexExpr]bool
	Meta             *metaSchemas

	decls    map[*types.Func]*ast.FuncDecl
	obs      []*Obligation
	notes    []string
	analysed map[string]bool // functions a rule looked at
	curRule  string
}

// Obligation is one rule instance with a stable key.
type Obligation struct {
	Rule    string `json:"rule"`
	Key     string `json:"key"`
	Pos     string `json:"pos"`
	Verdict string `json:"verdict"` // discharged | violated | undecided
	Why     string `json:"why,omitempty"`
	Config  string `json:"config,omitempty"`
	Trivial bool   `json:"-"`
}

func (o *Obligation) FullKey() string { return o.Rule + ":" + o.Key }

func goEnv(goos, goarch string) []string {
	env := []string{}
	for _, e := range os.Environ() {
		if strings.HasPrefix(e, "GOWORK=") || strings.HasPrefix(e, "GOOS=") || strings.HasPrefix(e, "GOARCH=") ||
			strings.HasPrefix(e, "GOFLAGS=") || strings.HasPrefix(e, "GOPROXY=") || strings.HasPrefix(e, "GOSUMDB=") ||
			strings.HasPrefix(e, "GOTOOLCHAIN=") || strings.HasPrefix(e, "CGO_ENABLED=") {
			continue
		}
		env = append(env, e)
	}
	env = append(env, "GOWORK=off", "GOFLAGS=-mod=mod", "GOPROXY=off", "GOSUMDB=off", "GOTOOLCHAIN=local",
		"GOOS="+goos, "GOARCH="+goarch, "CGO_ENABLED=0")
	return env
}

// load type-checks /repo for one configuration and builds SSA. Any failure
// is a checker error (exit 2), never a silent pass.
func load(repo, goos, goarch string) (*Ctx, error) {
	cfg := &packages.Config{
		Mode:  packages.LoadAllSyntax,
		Dir:   repo,
		Env:   goEnv(goos, goarch),
		Tests: false,
	}
	pkgs, err := packages.Load(cfg, ".")
	if err != nil {
		return nil, fmt.Errorf("go/packages: %w", err)
	}
	if len(pkgs) != 1 {
		return nil, fmt.Errorf("expected exactly 1 root package, got %d", len(pkgs))
	}
	p := pkgs[0]
	if p.PkgPath != specPkgPath {
		return nil, fmt.Errorf("root package is %q, want %q", p.PkgPath, specPkgPath)
	}
	var errs []string
	packages.Visit(pkgs, nil, func(q *packages.Package) {
		for _, e := range q.Errors {
			errs = append(errs, e.Error())
		}
	})
	if len(errs) > 0 {
		return nil, fmt.Errorf("type/load errors: %s", strings.Join(errs, "; "))
	}
	if len(p.Syntax) == 0 {
		return nil, fmt.Errorf("no files in package")
	}
	c := &Ctx{
		Repo: repo, Config: goos + "/" + goarch, Pkg: p, Fset: p.Fset, Info: p.TypesInfo, Types: p.Types,
		Files: p.Syntax,
		decls: map[*types.Func]*ast.FuncDecl{}, analysed: map[string]bool{},
	}
	for _, f := range c.Files {
		for _, d := range f.Decls {
			if fd, ok := d.(*ast.FuncDecl); ok {
				if fn, ok := c.Info.Defs[fd.Name].(*types.Func); ok {
					c.decls[fn] = fd
				}
			}
		}
	}
	c.Meta, err = loadMeta(repo)
	if err != nil {
		return nil, fmt.Errorf("meta-schemas: %w", err)
	}
	return c, nil
}

func (c *Ctx) pos(p token.Pos) string {
	if !p.IsValid() {
		return "-"
	}
	pp := c.Fset.Position(p)
	return fmt.Sprintf("%s:%d", filepath.Base(pp.Filename), pp.Line)
}

func (c *Ctx) add(rule, key string, p token.Pos, verdict, why string) *Obligation {
	o := &Obligation{Rule: rule, Key: key, Pos: c.pos(p), Verdict: verdict, Why: why, Config: c.Config}
	c.obs = append(c.obs, o)
	return o
}

// ob records a decided obligation.
func (c *Ctx) ob(rule, key string, p token.Pos, ok bool, why string) *Obligation {
	v := "discharged"
	if !ok {
		v = "violated"
	} else {
		why = ""
	}
	// one obligation per (rule, key): a second sighting only matters if it is worse
	for _, o := range c.obs {
		if o.Rule == rule && o.Key == key {
			if o.Verdict == "discharged" && v != "discharged" {
				o.Verdict, o.Why, o.Pos = v, why, c.pos(p)
			}
			return o
		}
	}
	return c.add(rule, key, p, v, why)
}

func (c *Ctx) undecided(rule, key string, p token.Pos, why string) *Obligation {
	return c.add(rule, key, p, "undecided", why)
}

func (c *Ctx) note(format string, a ...interface{}) {
	c.notes = append(c.notes, fmt.Sprintf(format, a...))
}

func (c *Ctx) saw(fn string) { c.analysed[fn] = true }

// ---- lookup helpers (anchors by exported/API name or by role) ----

func (c *Ctx) namedType(name string) *types.Named {
	o := c.Types.Scope().Lookup(name)
	if o == nil {
		return nil
	}
	tn, ok := o.(*types.TypeName)
	if !ok {
		return nil
	}
	n, _ := types.Unalias(tn.Type()).(*types.Named)
	return n
}

func (c *Ctx) structOf(name string) *types.Struct {
	n := c.namedType(name)
	if n == nil {
		return nil
	}
	s, _ := n.Underlying().(*types.Struct)
	return s
}

func (c *Ctx) funcObj(name string) *types.Func {
	o := c.Types.Scope().Lookup(name)
	f, _ := o.(*types.Func)
	return f
}

// method finds a declared method (pointer or value receiver) of a package type.
func (c *Ctx) method(typeName, meth string) *types.Func {
	n := c.namedType(typeName)
	if n == nil {
		return nil
	}
	for i := 0; i < n.NumMethods(); i++ {
		if n.Method(i).Name() == meth {
			return n.Method(i)
		}
	}
	return nil
}

func (c *Ctx) decl(f *types.Func) *ast.FuncDecl {
	if f == nil {
		return nil
	}
	return c.decls[f]
}

// allFuncDecls returns every function declaration of the package, sorted by position.
func (c *Ctx) allFuncDecls() []*ast.FuncDecl {
	var out []*ast.FuncDecl
	for _, fd := range c.decls {
		out = append(out, fd)
	}
	sort.Slice(out, func(i, j int) bool { return out[i].Pos() < out[j].Pos() })
	return out
}

func (c *Ctx) funcName(fd *ast.FuncDecl) string {
	if fd.Recv != nil && len(fd.Recv.List) == 1 {
		t := fd.Recv.List[0].Type
		if s, ok := t.(*ast.StarExpr); ok {
			t = s.X
		}
		if id, ok := t.(*ast.Ident); ok {
			return id.Name + "." + fd.Name.Name
		}
	}
	return fd.Name.Name
}

func (c *Ctx) fileOf(p token.Pos) string {
	return filepath.Base(c.Fset.Position(p).Filename)
}

func isTestFile(name string) bool { return strings.HasSuffix(name, "_test.go") }

// ---- meta-schemas ----

type metaDef struct {
	Name       string
	Properties map[string]map[string]interface{}
	Required   []string
	Pattern    []string
	Closed     bool
	Raw        map[string]interface{}
}

type metaSchemas struct {
	V2     map[string]interface{}
	Draft4 map[string]interface{}
	Defs   map[string]*metaDef // v2 definitions + "" for the v2 root + "draft4" for the draft-4 root
}

func mkDef(name string, raw map[string]interface{}) *metaDef {
	d := &metaDef{Name: name, Raw: raw, Properties: map[string]map[string]interface{}{}}
	if ps, ok := raw["properties"].(map[string]interface{}); ok {
		for k, v := range ps {
			m, _ := v.(map[string]interface{})
			d.Properties[k] = m
		}
	}
	if rs, ok := raw["required"].([]interface{}); ok {
		for _, r := range rs {
			if s, ok := r.(string); ok {
				d.Required = append(d.Required, s)
			}
		}
	}
	if pp, ok := raw["patternProperties"].(map[string]interface{}); ok {
		for k := range pp {
			d.Pattern = append(d.Pattern, k)
		}
		sort.Strings(d.Pattern)
	}
	if ap, ok := raw["additionalProperties"].(bool); ok && !ap {
		d.Closed = true
	}
	return d
}

func loadMeta(repo string) (*metaSchemas, error) {
	m := &metaSchemas{Defs: map[string]*metaDef{}}
	b, err := os.ReadFile(filepath.Join(repo, "schemas", "v2", "schema.json"))
	if err != nil {
		return nil, err
	}
	if err := json.Unmarshal(b, &m.V2); err != nil {
		return nil, err
	}
	b, err = os.ReadFile(filepath.Join(repo, "schemas", "jsonschema-draft-04.json"))
	if err != nil {
		return nil, err
	}
	if err := json.Unmarshal(b, &m.Draft4); err != nil {
		return nil, err
	}
	m.Defs[""] = mkDef("(root)", m.V2)
	m.Defs["draft4"] = mkDef("draft4", m.Draft4)
	defs, _ := m.V2["definitions"].(map[string]interface{})
	if len(defs) == 0 {
		return nil, fmt.Errorf("v2 schema has no definitions")
	}
	for k, v := range defs {
		if raw, ok := v.(map[string]interface{}); ok {
			m.Defs[k] = mkDef(k, raw)
		}
	}
	return m, nil
}

// resolveMetaRef follows a local "$ref": "#/definitions/x" inside the v2 meta-schema.
func (m *metaSchemas) resolveMetaRef(node map[string]interface{}) map[string]interface{} {
	for i := 0; i < 8 && node != nil; i++ {
		r, ok := node["$ref"].(string)
		if !ok {
			return node
		}
		const pfx = "#/definitions/"
		if !strings.HasPrefix(r, pfx) {
			return node
		}
		d := m.Defs[strings.TrimPrefix(r, pfx)]
		if d == nil {
			return node
		}
		node = d.Raw
	}
	return node
}

// kindMeta is the one frozen table: Go kind -> meta-schema definition(s).
// Reason per line: the definition's use site in schemas/v2/schema.json.
var kindMeta = map[string][]string{
	"Swagger":               {""},                                                                                                                                                           // the document root
	"Info":                  {"info"},                                                                                                                                                       // root.properties.info
	"ContactInfo":           {"contact"},                                                                                                                                                    // info.properties.contact
	"License":               {"license"},                                                                                                                                                    // info.properties.license
	"Tag":                   {"tag"},                                                                                                                                                        // root.properties.tags.items
	"ExternalDocumentation": {"externalDocs"},                                                                                                                                               // root/operation/schema/tag .externalDocs
	"XMLObject":             {"xml"},                                                                                                                                                        // schema.properties.xml
	"Operation":             {"operation"},                                                                                                                                                  // pathItem.properties.get...
	"PathItem":              {"pathItem"},                                                                                                                                                   // paths.patternProperties["^/"]
	"Paths":                 {"paths"},                                                                                                                                                      // root.properties.paths
	"Responses":             {"responses"},                                                                                                                                                  // operation.properties.responses
	"Response":              {"response"},                                                                                                                                                   // responseValue.oneOf[0]
	"Header":                {"header"},                                                                                                                                                     // headers.additionalProperties
	"Items":                 {"primitivesItems"},                                                                                                                                            // header/nonBody.items
	"Parameter":             {"bodyParameter", "headerParameterSubSchema", "queryParameterSubSchema", "formDataParameterSubSchema", "pathParameterSubSchema"},                               // parameter.oneOf
	"SecurityScheme":        {"basicAuthenticationSecurity", "apiKeySecurity", "oauth2ImplicitSecurity", "oauth2PasswordSecurity", "oauth2ApplicationSecurity", "oauth2AccessCodeSecurity"}, // securityDefinitions.additionalProperties.oneOf
	"Schema":                {"schema", "draft4"},                                                                                                                                           // definitions.additionalProperties + JSON-Schema draft-4 root
}

func sortedKeys[V any](m map[string]V) []string {
	ks := make([]string, 0, len(m))
	for k := range m {
		ks = append(ks, k)
	}
	sort.Strings(ks)
	return ks
}
