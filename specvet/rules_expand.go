package main

import (
	"fmt"
	"go/ast"
	"go/token"
	"go/types"
	"os"
	"sort"
	"strings"

	"golang.org/x/tools/go/cfg"
)

func init() {
	registerRule("visit", 12, "every sub-schema position of Schema is passed to the schema expander and the result stored back", ruleVisit)
	registerRule("containers", 12, "every holder of refable elements is passed to the matching expander and by-value copies are written back", ruleContainers)
	registerRule("ref-clear", 7, "after a completed dereference every nil-error return has cleared the holder's $ref", ruleRefClear)
	registerRule("ref-store", 6, "every $ref kept in the output is rewritten against the root frame and is control-dependent on a cycle, skip-schemas or the empty-root guard", ruleRefStore)
}

// typePositions enumerates access paths from a struct type to nested values of
// the stop types, through embedded structs, pointers, slices, maps and the
// package's own struct types.
func (c *Ctx) typePositions(root types.Type, stop map[string]bool) map[string]string {
	out := map[string]string{}
	var rec func(t types.Type, steps []string, onPath map[string]bool)
	rec = func(t types.Type, steps []string, onPath map[string]bool) {
		t = types.Unalias(t)
		if n, ok := t.(*types.Named); ok {
			if n.Obj().Pkg() != c.Types {
				return
			}
			if len(steps) > 0 && stop[n.Obj().Name()] {
				out[joinSteps(steps)] = n.Obj().Name()
				return
			}
			if onPath[n.Obj().Name()] {
				return
			}
			onPath = copySet(onPath)
			onPath[n.Obj().Name()] = true
		}
		switch u := t.Underlying().(type) {
		case *types.Struct:
			for i := 0; i < u.NumFields(); i++ {
				f := u.Field(i)
				if !f.Exported() {
					continue
				}
				rec(f.Type(), append(append([]string{}, steps...), f.Name()), onPath)
			}
		case *types.Pointer:
			rec(u.Elem(), steps, onPath)
		case *types.Slice:
			rec(u.Elem(), append(append([]string{}, steps...), "[]"), onPath)
		case *types.Array:
			rec(u.Elem(), append(append([]string{}, steps...), "[]"), onPath)
		case *types.Map:
			rec(u.Elem(), append(append([]string{}, steps...), "[]"), onPath)
		}
	}
	rec(root, nil, map[string]bool{})
	return out
}

func copySet(m map[string]bool) map[string]bool {
	o := map[string]bool{}
	for k, v := range m {
		o[k] = v
	}
	return o
}

// resultVarOfCall finds the first LHS variable of the assignment whose RHS is the call.
func (c *Ctx) resultVarOfCall(fd *ast.FuncDecl, call *ast.CallExpr) types.Object {
	var out types.Object
	ast.Inspect(fd.Body, func(n ast.Node) bool {
		if as, ok := n.(*ast.AssignStmt); ok && len(as.Rhs) == 1 && unparen(as.Rhs[0]) == call {
			if id, ok := as.Lhs[0].(*ast.Ident); ok && id.Name != "_" {
				out = c.objOf(id)
			}
		}
		return true
	})
	return out
}

type visitInfo struct {
	call   *ast.CallExpr
	stored bool
	// onlyWhen: on the effect normal form, every visit of the position is made under a test of the value of a
	// sibling field of the object that holds it ("" otherwise)
	onlyWhen string
}

// schemaVisits computes, for one schema expander, the positions below its
// Schema parameter that are expanded and stored back. Whole-target
// delegation to another schema expander, and helpers that receive a slice,
// map or pointer below the target and expand its elements in place, are
// followed (bound 3).
func (c *Ctx) schemaVisits(fam *expFamily, f *types.Func, depth int) map[string]*visitInfo {
	fd := c.decl(f)
	if fd == nil {
		return map[string]*visitInfo{}
	}
	return c.schemaVisitsFrom(fam, fd, c.paramObj(fd, 0), depth)
}

func containsSchema(t types.Type, pkg *types.Package, depth int) bool {
	if depth > 4 || t == nil {
		return false
	}
	t = types.Unalias(t)
	if isNamed(t, pkg, "Schema") {
		return true
	}
	switch u := t.Underlying().(type) {
	case *types.Pointer:
		return containsSchema(u.Elem(), pkg, depth+1)
	case *types.Slice:
		return containsSchema(u.Elem(), pkg, depth+1)
	case *types.Map:
		return containsSchema(u.Elem(), pkg, depth+1)
	case *types.Struct:
		for i := 0; i < u.NumFields(); i++ {
			if containsSchema(u.Field(i).Type(), pkg, depth+1) {
				return true
			}
		}
	}
	return false
}

func (c *Ctx) schemaVisitsFrom(fam *expFamily, fd *ast.FuncDecl, target types.Object, depth int) map[string]*visitInfo {
	out := map[string]*visitInfo{}
	if fd == nil || fd.Body == nil || depth > 3 || target == nil {
		return out
	}
	c.saw(c.funcName(fd))
	oc := c.newOriginCtx(fd)
	ast.Inspect(fd.Body, func(n ast.Node) bool {
		call, ok := n.(*ast.CallExpr)
		if !ok {
			return true
		}
		g, ok := c.callee(call).(*types.Func)
		if !ok || g.Pkg() != c.Types || c.decl(g) == nil {
			return true
		}
		gsig := g.Type().(*types.Signature)
		for ai, arg := range call.Args {
			if ai >= gsig.Params().Len() {
				break
			}
			var pos []origin
			for _, o := range oc.origins(arg, 0) {
				if o.root == target {
					pos = append(pos, o)
				}
			}
			if len(pos) == 0 {
				continue
			}
			pt := gsig.Params().At(ai).Type()
			if fam.schemaExp[g] && ai == 0 {
				res := c.resultVarOfCall(fd, call)
				for _, o := range pos {
					if len(o.steps) == 0 {
						if res != nil && c.storedBack(fd, oc, call, target, nil, res) {
							for p, vi := range c.schemaVisits(fam, g, depth+1) {
								if _, dup := out[p]; !dup {
									out[p] = vi
								}
							}
							// the storage the target designates is itself expanded and overwritten with the outcome
							// (meaningful to a caller that handed a reference to one of its own positions)
							if !o.copy {
								out[""] = &visitInfo{call: call, stored: true}
							}
						}
						continue
					}
					vi := &visitInfo{call: call}
					if res != nil {
						vi.stored = c.storedBack(fd, oc, call, target, o.steps, res)
					}
					if prev, dup := out[o.sub()]; !dup || (!prev.stored && vi.stored) {
						out[o.sub()] = vi
					}
				}
				continue
			}
			// a helper that receives a reference to storage below the target and expands it in place
			if !isRefType(pt) || !containsSchema(pt, c.Types, 0) {
				continue
			}
			gfd := c.decl(g)
			sub := c.schemaVisitsFrom(fam, gfd, c.paramObj(gfd, ai), depth+1)
			for _, o := range pos {
				if o.copy {
					continue
				}
				for p, vi := range sub {
					key := joinPath(o.sub(), p)
					if prev, dup := out[key]; !dup || (!prev.stored && vi.stored) {
						out[key] = &visitInfo{call: call, stored: vi.stored}
					}
				}
			}
		}
		return true
	})
	// the same facts read off the effect normal form (closures, generic iteration helpers and lists of
	// positions are inlined there); they are added to what the syntactic pass found
	for p, vi := range c.schemaVisitsSim(fam, fd, target, depth) {
		if prev, dup := out[p]; dup && vi.onlyWhen != "" {
			prev.onlyWhen = vi.onlyWhen
		}
		if prev, dup := out[p]; !dup || (!prev.stored && vi.stored) {
			out[p] = vi
		}
	}
	return out
}

// expanderHappyPaths normalises an expander on the paths where nothing goes wrong: family members stay opaque,
// the stop predicate answers false, errors are nil, results of family calls are non-nil.
func (c *Ctx) expanderHappyPaths(fam *expFamily, fd *ast.FuncDecl) ([]spath, bool) {
	if c.happyMemo == nil {
		c.happyMemo = map[*ast.FuncDecl][]spath{}
		c.happyOK = map[*ast.FuncDecl]bool{}
	}
	if ps, done := c.happyMemo[fd]; done {
		return ps, c.happyOK[fd]
	}
	ps, ok := c.expanderHappyPathsUncached(fam, fd)
	c.happyMemo[fd], c.happyOK[fd] = ps, ok
	return ps, ok
}

func (c *Ctx) expanderHappyPathsUncached(fam *expFamily, fd *ast.FuncDecl) ([]spath, bool) {
	isFamResult := func(v sval) bool {
		sc, ok := v.(svCall)
		if !ok {
			return false
		}
		f, isF := sc.callee.(*types.Func)
		return isF && fam.members[f]
	}
	var mentionsErr func(v sval) bool
	mentionsErr = func(v sval) bool {
		switch x := v.(type) {
		case svCall:
			if tup, ok := c.typeOf(x.call).(*types.Tuple); ok && x.idx == tup.Len()-1 && isErrorType(tup.At(x.idx).Type()) {
				return true
			}
			if t := c.typeOf(x.call); t != nil && isErrorType(t) {
				return true
			}
		}
		return false
	}
	force := func(v sval) (bool, bool) {
		switch x := v.(type) {
		case svCall:
			// a predicate over an error (the stop predicate, whatever it is called through): not stopping
			if len(x.args) == 1 && mentionsErr(x.args[0]) {
				return false, true
			}
			if f, ok := x.callee.(*types.Func); ok && c.isStopPredicateFunc(f) {
				return false, true
			}
		case svBin:
			if x.op == token.NEQ {
				if _, isNil := x.y.(svNil); isNil {
					// a local that still holds the zero value of an interface / pointer type is nil
					if z, isZero := x.x.(svZero); isZero && z.t != nil {
						switch z.t.Underlying().(type) {
						case *types.Interface, *types.Pointer:
							return false, true
						}
					}
					if isFamResult(x.x) && !mentionsErr(x.x) {
						return true, true
					}
					if mentionsErr(x.x) {
						return false, true
					}
					// a part of the value being expanded is there
					if q, isPath := x.x.(svPath); isPath && len(q.steps) > 0 {
						if r := c.recvObj(fd); q.root == c.paramObj(fd, 0) || r != nil && q.root == r {
							return true, true
						}
						if v, isVar := q.root.(*types.Var); isVar && isElementOrSchema(c, v.Type()) {
							return true, true
						}
					}
					if _, isSel := x.x.(svSel); isSel {
						return true, true
					}
				}
			}
		}
		return false, false
	}
	paths, unsup := c.simulateForced(fd, func(f *types.Func) bool {
		if c.isStopPredicateFunc(f) {
			return false
		}
		if fam.members[f] {
			// a member that merely hands a schema it holds by reference to a schema expander (and stores the
			// result back) is looked through: the positions it visits are those of its caller
			return c.isNestedSchemaWrapper(fam, f)
		}
		// only what lies between this expander and the family matters: functions that reach a member, and
		// helpers that are handed function values
		sig := f.Type().(*types.Signature)
		for i := 0; i < sig.Params().Len(); i++ {
			if _, isFunc := sig.Params().At(i).Type().Underlying().(*types.Signature); isFunc {
				return true
			}
		}
		// (and leaf accessors: x.schemaOrNil() stands for the position it selects)
		if len(c.staticCallees(f)) == 0 && sig.Results().Len() == 1 {
			return true
		}
		// (and predicates over the element: isLeaf(&target) stands for the tests it makes)
		if sig.Results().Len() == 1 && sig.Recv() == nil {
			if b, isB := sig.Results().At(0).Type().Underlying().(*types.Basic); isB && b.Kind() == types.Bool {
				for i := 0; i < sig.Params().Len(); i++ {
					if isElementOrSchema(c, sig.Params().At(i).Type()) {
						return true
					}
				}
			}
		}
		return c.reaches(f, func(h *types.Func) bool { return h != f && fam.members[h] })
	}, false, force)
	if os.Getenv("SIMDEBUG") != "" {
		fmt.Fprintf(os.Stderr, "happy paths of %s: %d paths, unsupported=%q\n", c.funcName(fd), len(paths), unsup)
		if len(paths) > 0 {
			for _, e := range paths[0].effs {
				if e.kind == "call" {
					fmt.Fprintf(os.Stderr, "   call %s\n", svString(*e.call))
				} else if e.kind == "write" {
					fmt.Fprintf(os.Stderr, "   write %s := %s\n", svString(e.dst), svString(e.val))
				}
			}
		}
	}
	return paths, unsup == "" && len(paths) > 0
}

// isNestedSchemaWrapper: a family member that is not a schema expander itself, takes a *Schema, and calls a schema
// expander directly with what that pointer designates.
func (c *Ctx) isNestedSchemaWrapper(fam *expFamily, f *types.Func) bool {
	if fam.schemaExp[f] {
		return false
	}
	fd := c.decl(f)
	if fd == nil || fd.Body == nil {
		return false
	}
	sig := f.Type().(*types.Signature)
	var ptr types.Object
	for i := 0; i < sig.Params().Len(); i++ {
		if p, isPtr := sig.Params().At(i).Type().(*types.Pointer); isPtr && isNamed(p.Elem(), c.Types, "Schema") {
			ptr = c.paramObj(fd, i)
		}
	}
	if ptr == nil {
		return false
	}
	found := false
	ast.Inspect(fd.Body, func(n ast.Node) bool {
		call, ok := n.(*ast.CallExpr)
		if !ok || len(call.Args) == 0 {
			return true
		}
		if g, isF := c.callee(call).(*types.Func); isF && fam.schemaExp[g] {
			if st, isStar := unparen(call.Args[0]).(*ast.StarExpr); isStar {
				if id, isId := unparen(st.X).(*ast.Ident); isId && c.objOf(id) == ptr {
					found = true
				}
			}
		}
		return true
	})
	return found
}

// isStopPredicateFunc: a package method taking one error and returning bool (the stop-on-error predicate).
func (c *Ctx) isStopPredicateFunc(f *types.Func) bool {
	if f == nil || f.Pkg() != c.Types {
		return false
	}
	sig := f.Type().(*types.Signature)
	if sig.Recv() == nil || sig.Params().Len() != 1 || sig.Results().Len() != 1 {
		return false
	}
	b, ok := sig.Results().At(0).Type().Underlying().(*types.Basic)
	return ok && b.Kind() == types.Bool && isErrorType(sig.Params().At(0).Type())
}

// posBelow: the position below target that a normal-form value designates ("" for target itself), looking
// through the results of schema expanders (an expanded X stands where X stood), copies and element selection.
func (c *Ctx) posBelow(fam *expFamily, v sval, target types.Object, depth int) ([]string, bool) {
	if depth > 8 {
		return nil, false
	}
	switch x := v.(type) {
	case svPath:
		if x.root == target {
			return x.steps, true
		}
	case svAddr:
		if x.p.root == target {
			return x.p.steps, true
		}
	case svIndex:
		if b, ok := c.posBelow(fam, x.x, target, depth+1); ok {
			return append(append([]string{}, b...), "[]"), true
		}
	case svElem:
		if b, ok := c.posBelow(fam, x.of, target, depth+1); ok {
			return append(append([]string{}, b...), "[]"), true
		}
	case svSel:
		if b, ok := c.posBelow(fam, x.x, target, depth+1); ok {
			return append(append([]string{}, b...), strings.Split(x.steps, ".")...), true
		}
	case svCall:
		if f, ok := x.callee.(*types.Func); ok && fam.schemaExp[f] && x.idx == 0 && len(x.args) > 0 {
			return c.posBelow(fam, x.args[0], target, depth+1)
		}
	case svStruct:
		if base, ok := x.fields[""]; ok {
			return c.posBelow(fam, base, target, depth+1)
		}
	}
	return nil, false
}

// dstPosBelow: the position below target that a store destination designates.
func (c *Ctx) dstPosBelow(fam *expFamily, dst svPath, target types.Object) ([]string, bool) {
	var steps []string
	for _, s := range dst.steps {
		if s != "*" {
			steps = append(steps, s)
		}
	}
	if dst.root == target {
		return steps, true
	}
	if dst.root == nil && dst.via != nil {
		if b, ok := c.posBelow(fam, dst.via, target, 0); ok {
			return append(append([]string{}, b...), steps...), true
		}
	}
	return nil, false
}

func (c *Ctx) schemaVisitsSim(fam *expFamily, fd *ast.FuncDecl, target types.Object, depth int) map[string]*visitInfo {
	out := map[string]*visitInfo{}
	if depth > 3 {
		return out
	}
	paths, ok := c.expanderHappyPaths(fam, fd)
	if !ok {
		return out
	}
	nVisits, nCond, condOf := map[string]int{}, map[string]int{}, map[string]string{}
	for _, p := range paths {
		for i, e := range p.effs {
			if e.kind != "call" || len(e.call.args) == 0 {
				continue
			}
			g, isF := e.call.callee.(*types.Func)
			if !isF || !fam.schemaExp[g] {
				continue
			}
			pos, ok := c.posBelow(fam, e.call.args[0], target, 0)
			if !ok {
				continue
			}
			// stored back: a later store of this call's first result at the same position
			stored := false
			for _, w := range p.effs[i+1:] {
				if w.kind != "write" {
					continue
				}
				wpos, okw := c.dstPosBelow(fam, w.dst, target)
				if !okw || joinSteps(wpos) != joinSteps(pos) {
					continue
				}
				val := w.val
				if st, isSt := val.(svStruct); isSt {
					if base, has := st.fields[""]; has {
						val = base
					}
				}
				if sc, isCall := val.(svCall); isCall && sc.id == e.call.id && sc.idx == 0 {
					stored = true
				}
			}
			if len(pos) == 0 {
				// the whole target is handed on: what that expander visits is visited, when its result replaces the target
				if fv, has := p.final[target]; has {
					if sc, isCall := fv.(svCall); isCall && sc.idx == 0 {
						if f2, ok := sc.callee.(*types.Func); ok && fam.schemaExp[f2] {
							for q, vi := range c.schemaVisits(fam, g, depth+1) {
								if _, dup := out[q]; !dup {
									out[q] = vi
								}
							}
						}
					}
				}
				continue
			}
			key := joinSteps(pos)
			sib := c.siblingValueTest(fam, p, e.ncond, pos, target)
			nVisits[key]++
			if sib != "" {
				nCond[key]++
				condOf[key] = sib
			}
			if prev, dup := out[key]; !dup || (!prev.stored && stored) {
				out[key] = &visitInfo{call: e.call.call, stored: stored}
			}
		}
	}
	for key, vi := range out {
		if nVisits[key] > 0 && nCond[key] == nVisits[key] {
			vi.onlyWhen = condOf[key]
		}
	}
	return out
}

// siblingValueTest: among the conditions in force at a visit of position pos (below target), one that tests the
// value of another field of the object holding the position (held through a pointer, or an element of a
// collection): the sub-schema is then expanded only for some values of that field. Nil tests of the position and
// of what lies above it are decided by the happy-path hook and never appear here.
func (c *Ctx) siblingValueTest(fam *expFamily, p spath, ncond int, pos []string, target types.Object) string {
	if len(pos) < 2 {
		return ""
	}
	parent := pos[:len(pos)-1]
	// the holder must be a sub-object of its own (a pointer field or an element), not the embedded props of the root
	if pt := c.simTypeAtPath(svPath{root: target, steps: parent}); pt == nil {
		return ""
	} else if _, isPtr := pt.(*types.Pointer); !isPtr && !strings.HasPrefix(parent[len(parent)-1], "[") {
		return ""
	}
	if ncond > len(p.conds) {
		ncond = len(p.conds)
	}
	for _, cd := range p.conds[:ncond] {
		if cd.loop {
			continue
		}
		for _, v := range condAtoms(cd.v) {
			q, ok := c.posBelow(fam, v, target, 0)
			if !ok || len(q) != len(pos) || q[len(q)-1] == pos[len(pos)-1] {
				continue
			}
			same := true
			for i := range parent {
				if q[i] != parent[i] {
					same = false
				}
			}
			if same {
				t := svString(cd.v)
				if cd.neg {
					t = "!(" + t + ")"
				}
				return t
			}
		}
	}
	return ""
}

// storedBack: after the call, an assignment stores *res (or res) to the position (root, steps).
func (c *Ctx) storedBack(fd *ast.FuncDecl, oc *originCtx, call *ast.CallExpr, root types.Object, steps []string, res types.Object, alt ...types.Object) bool {
	found := false
	want := joinSteps(steps)
	ast.Inspect(fd.Body, func(n ast.Node) bool {
		as, ok := n.(*ast.AssignStmt)
		if !ok || as.Pos() < call.End() || len(as.Lhs) != len(as.Rhs) {
			return true
		}
		for i, l := range as.Lhs {
			r := unparen(as.Rhs[i])
			if st, ok := r.(*ast.StarExpr); ok {
				r = unparen(st.X)
			}
			id, ok := r.(*ast.Ident)
			if !ok {
				continue
			}
			ro := c.objOf(id)
			okSrc := ro == res
			for _, a := range alt {
				if ro == a {
					okSrc = true
				}
			}
			if !okSrc {
				continue
			}
			// the LHS itself, not a copy of it
			if lid, ok := unparen(l).(*ast.Ident); ok && c.objOf(lid) == root && want == "" {
				found = true
				continue
			}
			for _, o := range oc.lhsOrigins(l) {
				if o.root == root && o.sub() == want {
					found = true
				}
			}
		}
		return true
	})
	return found
}

// lhsOrigins resolves an assignment target to (root, path) positions it writes through.
func (oc *originCtx) lhsOrigins(l ast.Expr) []origin {
	l = unparen(l)
	switch x := l.(type) {
	case *ast.Ident:
		return nil
	case *ast.StarExpr:
		var out []origin
		for _, o := range oc.origins(x.X, 0) {
			if !o.copy {
				out = append(out, o)
			}
		}
		return out
	case *ast.SelectorExpr, *ast.IndexExpr:
		var out []origin
		for _, o := range oc.origins(l, 0) {
			if !o.copy {
				out = append(out, o)
			}
		}
		return out
	}
	return nil
}

func ruleVisit(c *Ctx) {
	const rule = "visit"
	fam := c.family()
	if !fam.ok() {
		c.undecided(rule, "family", token.NoPos, "expander family not found by role")
		return
	}
	schema := c.namedType("Schema")
	if schema == nil {
		c.undecided(rule, "Schema", token.NoPos, "type Schema not found")
		return
	}
	positions := c.typePositions(schema, map[string]bool{"Schema": true})
	// root schema expander: the one the exported ExpandSchemaWithBasePath calls
	var root *types.Func
	if ep := c.funcObj("ExpandSchemaWithBasePath"); ep != nil {
		for _, g := range c.staticCallees(ep) {
			if fam.schemaExp[g] {
				root = g
			}
		}
	}
	if root == nil {
		c.undecided(rule, "root-expander", token.NoPos, "cannot find the schema expander called by ExpandSchemaWithBasePath")
		return
	}
	visits := c.schemaVisits(fam, root, 0)
	for _, p := range sortedKeys(positions) {
		vi := visits[p]
		switch {
		case vi == nil:
			c.ob(rule, "Schema."+p, token.NoPos, false, "sub-schema position is never passed to the schema expander: a $ref below it is left in the output (or a cycle through it is not seen)")
		case !vi.stored:
			c.ob(rule, "Schema."+p, vi.call.Pos(), false, "sub-schema is expanded but the result is not stored back at the same position")
		case vi.onlyWhen != "":
			c.ob(rule, "Schema."+p, vi.call.Pos(), false, "the sub-schema at this position is handed to the schema expander only where "+vi.onlyWhen+" holds: for the other values of that field a $ref below it is left in the output")
		default:
			c.ob(rule, "Schema."+p, vi.call.Pos(), true, "")
		}
	}
	// ... and on every happy path: a path of the root schema expander that returns with success visits every
	// position, unless it hands the whole schema on to another member of the family or was taken because the
	// schema is itself a $ref (whose siblings are skipped by definition). A fast path that returns early on some
	// other test (a primitive type, say) leaves the $refs below the positions it did not look at.
	c.visitOnEveryPath(rule, fam, root, positions)
}

func (c *Ctx) visitOnEveryPath(rule string, fam *expFamily, root *types.Func, positions map[string]string) {
	fd := c.decl(root)
	if fd == nil {
		return
	}
	paths, ok := c.expanderHappyPaths(fam, fd)
	if !ok {
		return // outside the fragment: the per-position obligations above stand alone
	}
	target := c.paramObj(fd, 0)
	why := ""
	pos := fd.Pos()
	for _, p := range paths {
		if len(p.rets) == 0 || why != "" {
			continue
		}
		// delegation of the whole schema
		if sc, isCall := p.rets[0].(svCall); isCall {
			if g, isF := sc.callee.(*types.Func); isF && fam.members[g] {
				continue
			}
		}
		// the schema is a $ref (or the root reference): positive test of its own Ref
		viaRef := false
		for _, cd := range p.conds {
			if cd.neg || cd.loop {
				continue
			}
			svWalk(cd.v, func(x sval) {
				sc, ok := x.(svCall)
				if !ok || sc.recv == nil {
					return
				}
				var q svPath
				switch r := sc.recv.(type) {
				case svPath:
					q = r
				case svAddr:
					q = r.p
				default:
					return
				}
				if q.root != target {
					return
				}
				for _, stp := range q.steps {
					if stp == "Ref" {
						viaRef = true
					}
				}
			})
		}
		if viaRef {
			continue
		}
		visited := map[string]bool{}
		for _, e := range p.effs {
			if e.kind != "call" || len(e.call.args) == 0 {
				continue
			}
			g, isF := e.call.callee.(*types.Func)
			if isF && !fam.schemaExp[g] && g.Pkg() == c.Types && c.decl(g) != nil {
				// a helper that receives a reference to storage below the schema and expands it in place
				gsig := g.Type().(*types.Signature)
				for ai, a := range e.call.args {
					if ai >= gsig.Params().Len() {
						break
					}
					pt := gsig.Params().At(ai).Type()
					if !isRefType(pt) || !containsSchema(pt, c.Types, 0) {
						continue
					}
					q, okq := c.posBelow(fam, a, target, 0)
					if !okq || len(q) == 0 {
						continue
					}
					gfd := c.decl(g)
					for sp := range c.schemaVisitsFrom(fam, gfd, c.paramObj(gfd, ai), 1) {
						visited[joinPath(joinSteps(q), sp)] = true
					}
				}
				continue
			}
			if !isF || !fam.schemaExp[g] {
				continue
			}
			q, okq := c.posBelow(fam, e.call.args[0], target, 0)
			if !okq {
				continue
			}
			if len(q) == 0 {
				for k := range c.schemaVisits(fam, g, 1) {
					visited[k] = true
				}
				continue
			}
			visited[joinSteps(q)] = true
		}
		// a position that the path knows to be empty (its holder is nil, its collection has no element) has
		// nothing to visit
		emptyKnown := func(key string) bool {
			isPrefix := func(q svPath) bool {
				if q.root != target {
					return false
				}
				var steps []string
				for _, stp := range q.steps {
					if stp != "*" {
						steps = append(steps, stp)
					}
				}
				j := joinSteps(steps)
				return j != "" && (key == j || strings.HasPrefix(key, j+"."))
			}
			for _, cd := range p.conds {
				if cd.loop {
					if q, isP := cd.v.(svPath); isP && cd.neg && isPrefix(q) {
						return true
					}
					continue
				}
				b, isB := cd.v.(svBin)
				if !isB || !cd.neg {
					continue
				}
				switch b.op {
				case token.NEQ, token.GTR:
				default:
					continue
				}
				if q, isP := b.x.(svPath); isP && b.op == token.NEQ {
					if _, isNil := b.y.(svNil); isNil && isPrefix(q) {
						return true
					}
				}
				if lc, isCall := b.x.(svCall); isCall && lc.callee == nil && len(lc.args) == 1 && lc.call != nil && c.isBuiltin(lc.call, "len") {
					if k, isK := b.y.(svConst); isK && k.v.String() == "0" {
						if q, isP := lc.args[0].(svPath); isP && isPrefix(q) {
							return true
						}
					}
				}
			}
			return false
		}
		var missing []string
		for _, k := range sortedKeys(positions) {
			if !visited[k] && !emptyKnown(k) {
				missing = append(missing, k)
			}
		}
		if len(missing) > 0 {
			var tests []string
			for _, cd := range p.conds {
				if cd.loop {
					continue
				}
				t := svString(cd.v)
				if cd.neg {
					t = "!(" + t + ")"
				}
				if len(t) < 120 {
					tests = append(tests, t)
				}
			}
			if len(tests) > 6 {
				tests = tests[len(tests)-6:]
			}
			why = fmt.Sprintf("a path of the schema expander returns with success without handing %s to a schema expander (last tests taken: %s): $refs below those positions stay in the output whenever that path is taken", strings.Join(missing, ", "), strings.Join(tests, "; "))
			if len(p.effs) > 0 {
				pos = p.effs[len(p.effs)-1].pos
			}
		}
	}
	c.ob(rule, "Schema:every-successful-path", pos, why == "", why)
}

// ---- containers ----

var elementTypes = map[string]bool{"Schema": true, "Parameter": true, "Response": true, "PathItem": true, "Operation": true}

func (c *Ctx) paramOfType(fd *ast.FuncDecl, typeName string) types.Object {
	for i := 0; ; i++ {
		p := c.paramObj(fd, i)
		if p == nil {
			return nil
		}
		if _, isPtr := types.Unalias(p.Type()).(*types.Pointer); isPtr && isNamed(p.Type(), c.Types, typeName) {
			return p
		}
	}
}

// callCoverage: the positions below the holder parameter hp that one call expands: directly (its element
// argument comes from below hp) or through a helper that receives the whole holder (followed, bound 2).
// The value is "" when the position is expanded in place or written back, otherwise the reason it is not.
func (c *Ctx) callCoverage(fam *expFamily, fd *ast.FuncDecl, oc *originCtx, hp types.Object, typ string, call *ast.CallExpr, depth int) map[string]string {
	out := map[string]string{}
	g, ok := c.callee(call).(*types.Func)
	if !ok || g.Pkg() != c.Types {
		return out
	}
	// whole-holder delegation
	for ai, a := range call.Args {
		for _, o := range oc.origins(a, 0) {
			if o.root == hp && len(o.steps) == 0 && !o.copy && depth < 2 {
				gfd := c.decl(g)
				if gfd == nil || gfd.Body == nil {
					continue
				}
				gp := c.paramObj(gfd, ai)
				if gp == nil || typ != "" && !isNamed(gp.Type(), c.Types, typ) {
					continue
				}
				c.saw(c.funcName(gfd))
				for p, w := range c.holderCoverage(fam, gfd, gp, typ, depth+1) {
					if prev, had := out[p]; !had || (prev != "" && w == "") {
						out[p] = w
					}
				}
			}
		}
	}
	// delegation through a parameter object: the holder is packed into a field of a small unexported struct and
	// the work is done by that struct's methods; what a method covers below recv.<field> is covered below the holder
	if se, isSel := unparen(call.Fun).(*ast.SelectorExpr); isSel && depth < 2 {
		if sel := c.Info.Selections[se]; sel != nil && sel.Kind() == types.MethodVal {
			if nt, isNT := types.Unalias(derefType(c.typeOf(se.X))).(*types.Named); isNT && nt.Obj().Pkg() == c.Types && !nt.Obj().Exported() {
				if st, isSt := nt.Underlying().(*types.Struct); isSt {
					if gfd := c.decl(g); gfd != nil && gfd.Body != nil && c.recvObj(gfd) != nil {
						for k := 0; k < st.NumFields(); k++ {
							fv := c.carrierFieldValue(fd, se.X, st.Field(k))
							if fv == nil {
								continue
							}
							whole := false
							for _, o := range oc.origins(fv, 0) {
								if o.root == hp && len(o.steps) == 0 && !o.copy {
									whole = true
								}
							}
							if !whole {
								continue
							}
							c.saw(c.funcName(gfd))
							fname := st.Field(k).Name()
							for p, w := range c.holderCoverage(fam, gfd, c.recvObj(gfd), "", depth+1) {
								if !hasPathPrefix(p, fname) || p == fname {
									continue
								}
								key := trimPathPrefix(p, fname)
								if prev, had := out[key]; !had || (prev != "" && w == "") {
									out[key] = w
								}
							}
						}
					}
				}
			}
		}
	}
	// delegation of a part of the holder (a pointer, map or slice below it) to a function that is not an element
	// expander: what that function covers below its parameter is covered below that part
	for ai, a := range call.Args {
		for _, o := range oc.origins(a, 0) {
			if o.root != hp || len(o.steps) == 0 || o.copy || depth >= 2 {
				continue
			}
			gfd := c.decl(g)
			if gfd == nil || gfd.Body == nil {
				continue
			}
			gp := c.paramObj(gfd, ai)
			if gp == nil || !isRefType(gp.Type()) {
				continue
			}
			if c.isElementParam(gp.Type()) {
				continue // an element: handled below
			}
			c.saw(c.funcName(gfd))
			for p, w := range c.holderCoverage(fam, gfd, gp, "", depth+1) {
				key := joinPath(o.sub(), p)
				if prev, had := out[key]; !had || (prev != "" && w == "") {
					out[key] = w
				}
			}
		}
	}
	if !fam.members[g] {
		return out
	}
	if gfd := c.decl(g); gfd != nil {
		if gp := c.paramObj(gfd, 0); gp != nil {
			if !c.isElementParam(gp.Type()) {
				return out // a family member that works on a container, not on one element
			}
		}
	}
	if len(call.Args) == 0 {
		return out
	}
	res := c.resultVarOfCall(fd, call)
	for _, o := range oc.origins(call.Args[0], 0) {
		if o.root != hp || len(o.steps) == 0 {
			continue
		}
		p := o.sub()
		if w := c.foreignGuard(fd, call, hp, o.steps); w != "" {
			if _, had := out[p]; !had {
				out[p] = w
			}
			continue
		}
		if !o.copy {
			out[p] = ""
			continue
		}
		var copyVar types.Object
		a := unparen(call.Args[0])
		if u, ok := a.(*ast.UnaryExpr); ok && u.Op == token.AND {
			a = unparen(u.X)
		}
		if id, ok := a.(*ast.Ident); ok {
			copyVar = c.objOf(id)
		}
		good := false
		if res != nil && c.storedBack(fd, oc, call, hp, o.steps, res) {
			good = true
		}
		if !good && copyVar != nil && c.storedBack(fd, oc, call, hp, o.steps, copyVar) {
			if u, isAddr := unparen(call.Args[0]).(*ast.UnaryExpr); isAddr && u.Op == token.AND {
				good = true
			}
		}
		if good {
			out[p] = ""
		} else if _, had := out[p]; !had {
			out[p] = "element is copied out of its container and expanded, but the expanded copy is never written back"
		}
	}
	return out
}

// holderCoverage unions callCoverage over every call of the function.
func (c *Ctx) holderCoverage(fam *expFamily, fd *ast.FuncDecl, hp types.Object, typ string, depth int) map[string]string {
	covered := map[string]string{}
	if fd == nil || fd.Body == nil || hp == nil {
		return covered
	}
	oc := c.newOriginCtx(fd)
	ast.Inspect(fd.Body, func(n ast.Node) bool {
		call, ok := n.(*ast.CallExpr)
		if !ok {
			return true
		}
		for p, w := range c.callCoverage(fam, fd, oc, hp, typ, call, depth) {
			if prev, had := covered[p]; !had || (prev != "" && w == "") {
				covered[p] = w
			}
		}
		return true
	})
	return covered
}

func ruleContainers(c *Ctx) {
	const rule = "containers"
	fam := c.family()
	if !fam.ok() {
		c.undecided(rule, "family", token.NoPos, "expander family not found by role")
		return
	}
	// holder functions: ExpandSpec (exported API) for *Swagger; family members with a *PathItem / *Operation parameter
	type holder struct {
		typ string
		fd  *ast.FuncDecl
	}
	var holders []holder
	if fd := c.decl(c.funcObj("ExpandSpec")); fd != nil {
		holders = append(holders, holder{"Swagger", fd})
	} else {
		c.undecided(rule, "ExpandSpec", token.NoPos, "ExpandSpec not found")
	}
	for _, f := range fam.order {
		fd := c.decl(f)
		for _, t := range []string{"PathItem", "Operation"} {
			if c.paramOfType(fd, t) != nil {
				holders = append(holders, holder{t, fd})
			}
		}
	}
	seenHolder := map[string]bool{}
	for _, h := range holders {
		seenHolder[h.typ] = true
	}
	for _, h := range holders {
		n := c.namedType(h.typ)
		if n == nil {
			continue
		}
		c.saw(c.funcName(h.fd))
		hp := c.paramOfType(h.fd, h.typ)
		positions := c.typePositions(n, elementTypes)
		// an element type without an expander of its own (its expander was inlined into the holder's): the holder
		// is then answerable for the positions below that element
		for _, et := range []string{"Operation", "PathItem"} {
			if seenHolder[et] || et == h.typ {
				continue
			}
			en := c.namedType(et)
			if en == nil {
				continue
			}
			sub := c.typePositions(en, elementTypes)
			for p, t := range positions {
				if t != et {
					continue
				}
				delete(positions, p)
				for sp, st := range sub {
					positions[joinPath(p, sp)] = st
				}
			}
		}
		covered := c.holderCoverage(fam, h.fd, hp, h.typ, 0)
		// positions the syntactic pass does not see are looked for on the effect normal form (elements handed
		// to their expander from inside closures or generic iteration helpers)
		missing := false
		for p := range positions {
			if _, has := covered[p]; !has {
				missing = true
			}
		}
		simCov := c.holderCoverageSim(fam, h.fd, hp)
		if missing {
			for p, why := range simCov {
				if _, has := covered[p]; !has {
					covered[p] = why
				}
			}
		}
		// what the normal form knows about the conditions a visit is made under overrides a syntactic "covered"
		for p, why := range simCov {
			if strings.HasPrefix(why, "the element is handed to its expander only where") {
				covered[p] = why
			}
		}
		for _, p := range sortedKeys(positions) {
			why, has := covered[p]
			key := h.typ + "." + p
			switch {
			case !has:
				c.ob(rule, key, h.fd.Pos(), false, fmt.Sprintf("%s at this position is never handed to an expander by %s: its $refs stay in the output", positions[p], c.funcName(h.fd)))
			case why != "":
				c.ob(rule, key, h.fd.Pos(), false, why)
			default:
				c.ob(rule, key, h.fd.Pos(), true, "")
			}
		}
	}
	for _, t := range []string{"Swagger", "PathItem", "Operation"} {
		if !seenHolder[t] {
			// acceptable when the holder above it covers the positions below this type itself (checked above)
			above := map[string]string{"Operation": "PathItem", "PathItem": "Swagger"}[t]
			c.ob(rule, t+":<holder-function>", token.NoPos, above != "" && seenHolder[above], "no expander takes a *"+t)
		}
	}

	// Parameter / Response -> Schema, through the ref-and-schema accessor (found by role)
	var accessor *ast.FuncDecl
	for _, f := range c.pkgFuncs() {
		sig := f.Type().(*types.Signature)
		if sig.Recv() == nil && sig.Results().Len() == 3 && isNamed(sig.Results().At(0).Type(), c.Types, "Ref") && isNamed(sig.Results().At(1).Type(), c.Types, "Schema") && isErrorType(sig.Results().At(2).Type()) {
			accessor = c.decl(f)
		}
	}
	if accessor == nil {
		c.undecided(rule, "ref-and-schema-accessor", token.NoPos, "cannot find the function returning (*Ref, *Schema, error) for a refable element")
		return
	}
	c.saw(c.funcName(accessor))
	// which case types yield which schema position
	caseSchema := map[string]string{}
	caseRef := map[string]bool{}
	ast.Inspect(accessor.Body, func(n ast.Node) bool {
		ts, ok := n.(*ast.TypeSwitchStmt)
		if !ok {
			return true
		}
		for _, cl := range ts.Body.List {
			cc := cl.(*ast.CaseClause)
			bound := c.Info.Implicits[cc]
			if bound == nil || len(cc.List) != 1 {
				continue
			}
			tn := typeNameOf(derefType(bound.Type()))
			// direct form: return &bound.Ref, bound.Schema, nil
			for _, s := range cc.Body {
				rs, ok := s.(*ast.ReturnStmt)
				if !ok || len(rs.Results) != 3 || !isNilIdent(c, rs.Results[2]) {
					continue
				}
				if p, ok := c.apath(rs.Results[1]); ok && p.Root == bound {
					caseSchema[tn] = p.Sub()
				}
				if u, isAddr := unparen(rs.Results[0]).(*ast.UnaryExpr); isAddr && u.Op == token.AND {
					if p, ok := c.apath(u.X); ok && p.Root == bound && lastStep(p) == "Ref" {
						caseRef[tn] = true
					}
				}
			}
			for _, s := range cc.Body {
				as, ok := s.(*ast.AssignStmt)
				if !ok || len(as.Lhs) != 1 {
					continue
				}
				lid, ok := as.Lhs[0].(*ast.Ident)
				if !ok {
					continue
				}
				if p, ok := c.apath(as.Rhs[0]); ok && p.Root == bound {
					lt := c.objOf(lid).Type()
					switch {
					case isNamed(lt, c.Types, "Schema"):
						caseSchema[tn] = p.Sub()
					case isNamed(lt, c.Types, "Ref"):
						if u, isAddr := unparen(as.Rhs[0]).(*ast.UnaryExpr); isAddr && u.Op == token.AND && lastStep(p) == "Ref" {
							caseRef[tn] = true
						}
					}
				}
			}
		}
		return true
	})
	// in the callers: the schema result is expanded and written back through the pointer
	expandedBack := false
	for _, f := range fam.order {
		fd := c.decl(f)
		var schVar types.Object
		ast.Inspect(fd.Body, func(n ast.Node) bool {
			if as, ok := n.(*ast.AssignStmt); ok && len(as.Rhs) == 1 && len(as.Lhs) == 3 {
				if call, ok := unparen(as.Rhs[0]).(*ast.CallExpr); ok {
					if g, ok := c.callee(call).(*types.Func); ok && c.decl(g) == accessor {
						if id, ok := as.Lhs[1].(*ast.Ident); ok && id.Name != "_" {
							schVar = c.objOf(id)
						}
					}
				}
			}
			return true
		})
		if schVar == nil {
			continue
		}
		c.saw(c.funcName(fd))
		for _, call := range c.familyCalls(fam, fd) {
			g := c.callee(call).(*types.Func)
			if !fam.schemaExp[g] || len(call.Args) == 0 {
				continue
			}
			a := unparen(call.Args[0])
			st, ok := a.(*ast.StarExpr)
			if !ok {
				continue
			}
			id, ok := unparen(st.X).(*ast.Ident)
			if !ok || c.objOf(id) != schVar {
				continue
			}
			res := c.resultVarOfCall(fd, call)
			// *sch = *s after the call
			ast.Inspect(fd.Body, func(n ast.Node) bool {
				as, ok := n.(*ast.AssignStmt)
				if !ok || as.Pos() < call.End() || len(as.Lhs) != 1 {
					return true
				}
				ls, ok1 := unparen(as.Lhs[0]).(*ast.StarExpr)
				rs, ok2 := unparen(as.Rhs[0]).(*ast.StarExpr)
				if ok1 && ok2 {
					li, ok3 := unparen(ls.X).(*ast.Ident)
					ri, ok4 := unparen(rs.X).(*ast.Ident)
					if ok3 && ok4 && c.objOf(li) == schVar && res != nil && c.objOf(ri) == res {
						expandedBack = true
					}
				}
				return true
			})
		}
	}
	for _, t := range []string{"Parameter", "Response"} {
		n := c.namedType(t)
		if n == nil {
			continue
		}
		for p, et := range c.typePositions(n, map[string]bool{"Schema": true}) {
			_ = et
			key := t + "." + p
			switch {
			case caseSchema[t] != p:
				c.ob(rule, key, accessor.Pos(), false, fmt.Sprintf("the accessor does not hand out the schema at this position for *%s (it yields %q)", t, caseSchema[t]))
			case !caseRef[t]:
				c.ob(rule, key, accessor.Pos(), false, "the accessor does not hand out the address of the element's own Ref")
			case !expandedBack:
				c.ob(rule, key, accessor.Pos(), false, "the schema obtained from the accessor is not expanded and written back through its pointer")
			default:
				c.ob(rule, key, accessor.Pos(), true, "")
			}
		}
	}
}

// ---- must-analysis on go/cfg ----

type factBits uint32

// mustForward runs a forward must-analysis (meet = AND) over the CFG of a
// function body and calls visit(node, facts-before-node) for every node of
// every reachable block.
func mustForward(g *cfg.CFG, transfer func(n ast.Node, in factBits) factBits, visit func(n ast.Node, in factBits)) {
	flowForward(g, 0, transfer, visit)
}

// flowForward: bits in mayMask meet by OR (some path), all other bits by AND (every path).
func flowForward(g *cfg.CFG, mayMask factBits, transfer func(n ast.Node, in factBits) factBits, visit func(n ast.Node, in factBits)) {
	top := ^factBits(0) &^ mayMask
	in := make([]factBits, len(g.Blocks))
	out := make([]factBits, len(g.Blocks))
	reach := make([]bool, len(g.Blocks))
	for i := range in {
		in[i], out[i] = top, top
	}
	if len(g.Blocks) == 0 {
		return
	}
	preds := make([][]int32, len(g.Blocks))
	for _, b := range g.Blocks {
		for _, s := range b.Succs {
			preds[s.Index] = append(preds[s.Index], b.Index)
		}
	}
	var mark func(b *cfg.Block)
	mark = func(b *cfg.Block) {
		if reach[b.Index] {
			return
		}
		reach[b.Index] = true
		for _, s := range b.Succs {
			mark(s)
		}
	}
	mark(g.Blocks[0])
	for changed := true; changed; {
		changed = false
		for _, b := range g.Blocks {
			if !reach[b.Index] {
				continue
			}
			var v factBits
			if b.Index == 0 {
				v = 0
			} else {
				must, may := ^factBits(0), factBits(0)
				for _, p := range preds[b.Index] {
					if reach[p] {
						must &= out[p]
						may |= out[p]
					}
				}
				v = must&^mayMask | may&mayMask
			}
			in[b.Index] = v
			for _, n := range b.Nodes {
				v = transfer(n, v)
			}
			if v != out[b.Index] {
				out[b.Index] = v
				changed = true
			}
		}
	}
	for _, b := range g.Blocks {
		if !reach[b.Index] {
			continue
		}
		v := in[b.Index]
		for _, n := range b.Nodes {
			visit(n, v)
			v = transfer(n, v)
		}
	}
}

func (c *Ctx) cfgOf(fd *ast.FuncDecl) *cfg.CFG {
	return cfg.New(fd.Body, func(call *ast.CallExpr) bool {
		if id, ok := call.Fun.(*ast.Ident); ok && id.Name == "panic" {
			return false
		}
		return true
	})
}

// containsCallTo reports whether node n (a CFG node: statement or expression) contains a call satisfying pred.
func containsCall(n ast.Node, pred func(*ast.CallExpr) bool) bool {
	found := false
	ast.Inspect(n, func(m ast.Node) bool {
		if _, ok := m.(*ast.FuncLit); ok {
			return false
		}
		if call, ok := m.(*ast.CallExpr); ok && pred(call) {
			found = true
		}
		return true
	})
	return found
}

// isZeroRefLit: the expression is the empty composite literal Ref{}.
func (c *Ctx) isZeroRefLit(e ast.Expr) bool {
	lit, ok := unparen(e).(*ast.CompositeLit)
	return ok && len(lit.Elts) == 0 && isNamed(c.typeOf(lit), c.Types, "Ref")
}

func (c *Ctx) isRefTyped(e ast.Expr) bool {
	t := c.typeOf(e)
	if t == nil {
		return false
	}
	_, isPtr := types.Unalias(t).(*types.Pointer)
	return !isPtr && isNamed(t, c.Types, "Ref")
}

func ruleRefClear(c *Ctx) {
	const rule = "ref-clear"
	fam := c.family()
	if !fam.ok() {
		c.undecided(rule, "family", token.NoPos, "expander family not found by role")
		return
	}
	// the chain-dereference method: loader method with a []string parameter that calls resolveRef
	var deref *types.Func
	for f := range fam.withParents {
		sig := f.Type().(*types.Signature)
		if sig.Recv() != nil && !fam.schemaExp[f] {
			for _, g := range c.staticCallees(f) {
				if g == fam.resolveRef {
					deref = f
				}
			}
		}
	}
	if deref == nil {
		c.undecided(rule, "deref", token.NoPos, "chain-dereference method not found by role")
		return
	}
	for _, f := range fam.order {
		fd := c.decl(f)
		callsDeref := false
		for _, g := range c.staticCallees(f) {
			if g == deref && f != deref {
				callsDeref = true
			}
		}
		if !callsDeref {
			continue
		}
		fn := c.funcName(fd)
		c.saw(fn)
		const derefDone, cleared factBits = 1, 2
		// nil-guarded clear idiom: `if p != nil { *p = Ref{} }` establishes "cleared" on both branches
		guardedClear := map[ast.Expr]bool{}
		ast.Inspect(fd.Body, func(n ast.Node) bool {
			ifs, ok := n.(*ast.IfStmt)
			if !ok || ifs.Else != nil || len(ifs.Body.List) != 1 {
				return true
			}
			as, ok := ifs.Body.List[0].(*ast.AssignStmt)
			if !ok || len(as.Lhs) != 1 || !c.isZeroRefLit(as.Rhs[0]) {
				return true
			}
			be, ok := unparen(ifs.Cond).(*ast.BinaryExpr)
			if !ok || be.Op != token.NEQ || !isNilIdent(c, be.Y) {
				return true
			}
			if st, ok := unparen(as.Lhs[0]).(*ast.StarExpr); ok && exprString(st.X) == exprString(be.X) {
				guardedClear[ifs.Cond] = true
			}
			return true
		})
		isClearStore := func(n ast.Node) bool {
			as, ok := n.(*ast.AssignStmt)
			if !ok || len(as.Lhs) != 1 || len(as.Rhs) != 1 {
				return false
			}
			return c.isRefTyped(as.Lhs[0]) && c.isZeroRefLit(as.Rhs[0])
		}
		transfer := func(n ast.Node, in factBits) factBits {
			if containsCall(n, func(call *ast.CallExpr) bool { g, _ := c.callee(call).(*types.Func); return g == deref }) {
				in |= derefDone
				in &^= cleared
			}
			if isClearStore(n) {
				in |= cleared
			}
			if e, ok := n.(ast.Expr); ok && guardedClear[e] {
				in |= cleared
			}
			if containsCall(n, func(call *ast.CallExpr) bool { return c.isRefClearHelper(call) }) {
				in |= cleared
			}
			return in
		}
		g := c.cfgOf(fd)
		nret := 0
		flowForward(g, derefDone, transfer, func(n ast.Node, in factBits) {
			rs, ok := n.(*ast.ReturnStmt)
			if !ok || in&derefDone == 0 {
				return
			}
			nret++
			key := fmt.Sprintf("%s:return#%d", fn, nret)
			// error returns are exempt: the result is discarded by the caller
			if len(rs.Results) > 0 {
				last := unparen(rs.Results[len(rs.Results)-1])
				if id, ok := last.(*ast.Ident); ok && !isNilIdent(c, last) {
					// returned variable under its own non-nil / stop check
					for _, cl := range c.literalsAt(fd, rs) {
						if k := c.errCheckKind(cl.e, c.objOf(id)); (k == "nonnil" || k == "stop") && !cl.neg {
							c.ob(rule, key, rs.Pos(), true, "")
							return
						}
					}
				}
			}
			c.ob(rule, key, rs.Pos(), in&cleared != 0,
				"a path from the completed dereference reaches this successful return without storing the zero Ref into the holder: the output carries both $ref and the dereferenced content")
		})
	}
}

// ---- ref-store ----

type argBinding struct {
	fd   *ast.FuncDecl
	expr ast.Expr
}

type refAlt struct {
	class string // clear | denorm | abs | other
	lits  []condLit
	why   string
}

// isNormalisedRef: the expression denotes a normalised reference: the result of normalizeRef, or of
// NewRef(normalizeURI(..)), possibly through a parameter bound at the call site.
func (c *Ctx) isNormalisedRef(fd *ast.FuncDecl, e ast.Expr, env map[types.Object]argBinding, depth int) bool {
	if depth > 3 {
		return false
	}
	e = unparen(e)
	if u, ok := e.(*ast.UnaryExpr); ok && u.Op == token.AND {
		e = unparen(u.X)
	}
	if st, ok := e.(*ast.StarExpr); ok {
		e = unparen(st.X)
	}
	// the normaliser called in place: *normalizeRef(&x.Ref, base)
	if call, isCall := e.(*ast.CallExpr); isCall && c.isSpecFunc(call, "normalizeRef") {
		return true
	}
	id, ok := e.(*ast.Ident)
	if !ok {
		return false
	}
	o := c.objOf(id)
	if b, bound := env[o]; bound {
		return c.isNormalisedRef(b.fd, b.expr, nil, depth+1)
	}
	ds := c.localDefs(fd)[o]
	if len(ds) == 0 {
		return false
	}
	for _, d := range ds {
		call, ok := unparen(d).(*ast.CallExpr)
		if !ok {
			return false
		}
		switch {
		case c.isSpecFunc(call, "normalizeRef"):
		case (c.isSpecFunc(call, "NewRef") || c.isSpecFunc(call, "MustCreateRef")) && len(call.Args) == 1:
			arg := unparen(call.Args[0])
			// the normalised text may sit in a local first: key := normalizeURI(..); ref := MustCreateRef(key)
			if aid, isId := arg.(*ast.Ident); isId {
				if ads := c.localDefs(fd)[c.objOf(aid)]; len(ads) == 1 && ads[0] != nil {
					arg = unparen(ads[0])
				}
			}
			inner, ok := arg.(*ast.CallExpr)
			if !ok || !c.isSpecFunc(inner, "normalizeURI") {
				return false
			}
		default:
			return false
		}
	}
	return true
}

// refAlternatives abstracts an expression of type Ref to the alternatives it can evaluate to, following
// package helpers that return a Ref (bound 2).
func (c *Ctx) refAlternatives(fam *expFamily, fd *ast.FuncDecl, e ast.Expr, env map[types.Object]argBinding, depth int) []refAlt {
	e = unparen(e)
	if c.isZeroRefLit(e) {
		return []refAlt{{class: "clear"}}
	}
	// a local that holds the result of a helper call
	if id, ok := e.(*ast.Ident); ok && depth < 2 {
		if ds := c.localDefs(fd)[c.objOf(id)]; len(ds) == 1 && ds[0] != nil {
			if dc, isCall := unparen(ds[0]).(*ast.CallExpr); isCall {
				if g, isF := c.callee(dc).(*types.Func); isF && g.Pkg() == c.Types && c.decl(g) != nil && !c.isSpecFunc(dc, "denormalizeRef") {
					if sig := g.Type().(*types.Signature); sig.Results().Len() >= 1 && isNamed(sig.Results().At(0).Type(), c.Types, "Ref") && !c.isNormalisedRef(fd, e, env, 0) {
						return c.refAlternatives(fam, fd, dc, env, depth)
					}
				}
			}
		}
	}
	if call, ok := e.(*ast.CallExpr); ok {
		if c.isSpecFunc(call, "denormalizeRef") && len(call.Args) == 3 {
			p1, ok1 := c.apathVia(fd, call.Args[1])
			p2, ok2 := c.apathVia(fd, call.Args[2])
			frameOK := ok1 && ok2 && len(p1.Steps) == 2 && len(p2.Steps) == 2 && p1.Steps[0] == "context" && p2.Steps[0] == "context" &&
				p1.Steps[1] == "basePath" && p2.Steps[1] == "rootID" && isNamed(p1.Root.Type(), c.Types, fam.loader.Obj().Name())
			if !frameOK {
				return []refAlt{{class: "other", why: fmt.Sprintf("kept $ref is rewritten against (%s, %s) instead of the root context's (basePath, rootID): it no longer resolves from the root document", exprString(call.Args[1]), exprString(call.Args[2]))}}
			}
			if !c.isNormalisedRef(fd, call.Args[0], env, 0) {
				return []refAlt{{class: "other", why: "the reference handed to denormalizeRef is not a normalised (absolute) reference"}}
			}
			return []refAlt{{class: "denorm"}}
		}
		if g, ok := c.callee(call).(*types.Func); ok && g.Pkg() == c.Types && depth < 2 {
			gfd := c.decl(g)
			gsig := g.Type().(*types.Signature)
			if gfd != nil && gfd.Body != nil && gsig.Results().Len() >= 1 && isNamed(gsig.Results().At(0).Type(), c.Types, "Ref") {
				c.saw(c.funcName(gfd))
				genv := map[types.Object]argBinding{}
				for i, a := range call.Args {
					if p := c.paramObj(gfd, i); p != nil {
						genv[p] = argBinding{fd, a}
					}
				}
				var out []refAlt
				ast.Inspect(gfd.Body, func(n ast.Node) bool {
					if _, isLit := n.(*ast.FuncLit); isLit {
						return false
					}
					rs, ok := n.(*ast.ReturnStmt)
					if !ok || len(rs.Results) != gsig.Results().Len() {
						return true
					}
					// a helper that also returns flags: only the returns whose flags agree with the flags known to be
					// set at the store are alternatives (v, isX, err := helper(..); if isX { holder.Ref = v })
					for k := 1; k < len(rs.Results); k++ {
						tv, isConst := c.Info.Types[rs.Results[k]]
						if !isConst || tv.Value == nil || tv.Value.String() != "false" {
							continue
						}
						if c.tupleFlagKnownTrue(fd, call, k) {
							return true
						}
					}
					for _, alt := range c.refAlternatives(fam, gfd, rs.Results[0], genv, depth+1) {
						alt.lits = append(alt.lits, c.literalsAt(gfd, rs)...)
						out = append(out, alt)
					}
					return true
				})
				if len(out) > 0 {
					return out
				}
			}
		}
	}
	if c.isNormalisedRef(fd, e, env, 0) {
		return []refAlt{{class: "abs"}}
	}
	return []refAlt{{class: "other", why: "store into a schema's Ref that is neither a clear nor a rewrite of a normalised reference: " + exprString(e)}}
}

func ruleRefStore(c *Ctx) {
	const rule = "ref-store"
	fam := c.family()
	if !fam.ok() {
		c.undecided(rule, "family", token.NoPos, "expander family not found by role")
		return
	}
	// The chain dereference hands its callers the value it filled; what it leaves in that value's Ref is
	// transient as long as every caller is a family member (those clear it on every successful path: ref-clear).
	chain := c.chainDeref(fam)
	chainCallersClear := chain != nil
	if chain != nil {
		for _, g := range c.pkgFuncs() {
			if g == chain {
				continue
			}
			for _, h := range c.staticCallees(g) {
				if h == chain && !fam.members[g] {
					chainCallersClear = false
				}
			}
		}
	}
	for _, f := range fam.order {
		fd := c.decl(f)
		fn := c.funcName(fd)
		ord := 0
		ast.Inspect(fd.Body, func(n ast.Node) bool {
			as, ok := n.(*ast.AssignStmt)
			if !ok || len(as.Lhs) != 1 || len(as.Rhs) != 1 || as.Tok != token.ASSIGN {
				return true
			}
			l := as.Lhs[0]
			if !c.isRefTyped(l) {
				return true
			}
			if _, isId := unparen(l).(*ast.Ident); isId {
				return true
			}
			c.saw(fn)
			ord++
			site := c.literalsAt(fd, as)
			alts := c.refAlternatives(fam, fd, as.Rhs[0], nil, 0)
			if len(alts) == 1 && alts[0].class == "clear" {
				c.ob(rule, fmt.Sprintf("%s:clear#%d", fn, ord), as.Pos(), true, "")
				return true
			}
			key := fmt.Sprintf("%s:keep#%d", fn, ord)
			good, why := true, ""
			for _, alt := range alts {
				lits := c.derivedLits(append(append([]condLit{}, site...), alt.lits...))
				hasLit := func(pred func(e ast.Expr) bool, wantNeg bool) bool {
					for _, cl := range lits {
						if cl.neg == wantNeg && pred(cl.e) {
							return true
						}
					}
					return false
				}
				circular := hasLit(func(e ast.Expr) bool {
					call, ok := unparen(e).(*ast.CallExpr)
					return ok && c.isSpecMethod(call, fam.loader.Obj().Name(), "isCircular")
				}, false)
				optionLit := func(field string, neg bool) bool {
					return hasLit(func(e ast.Expr) bool {
						p, ok := c.apath(e)
						return ok && lastStep(p) == field
					}, neg)
				}
				emptyRoot := hasLit(func(e ast.Expr) bool {
					call, ok := unparen(e).(*ast.CallExpr)
					if !ok {
						return false
					}
					_, name, _, isM := c.calleeMethod(call)
					return isM && name == "IsRoot"
				}, false)
				switch alt.class {
				case "clear":
				case "other":
					good, why = false, alt.why
				case "denorm":
					switch {
					case circular && optionLit("AbsoluteCircularRef", true), optionLit("SkipSchemas", false):
					case circular:
						good, why = false, "relative form is stored although AbsoluteCircularRef is not known to be false here (wrong polarity)"
					default:
						good, why = false, "a rewritten $ref is kept although neither a detected cycle nor skip-schemas mode guards the store"
					}
				case "abs":
					switch {
					case f == chain && chainCallersClear:
						// absolute form left for the callers of the chain dereference, which clear it (ref-clear)
					case emptyRoot:
					case circular && optionLit("AbsoluteCircularRef", false):
					case circular:
						good, why = false, "absolute form is stored although AbsoluteCircularRef is not known to be true here (wrong polarity)"
					default:
						good, why = false, "an absolute $ref is kept although no detected cycle guards the store"
					}
				}
			}
			c.ob(rule, key, as.Pos(), good, why)
			return true
		})
	}
}

var _ = sort.Strings
var _ = strings.HasPrefix

// isElementParam: the parameter type designates one expandable element (a Schema, Parameter, Response, PathItem
// or Operation, by value or pointer, or an interface holding one of them).
func (c *Ctx) isElementParam(t types.Type) bool {
	if _, isIface := types.Unalias(t).Underlying().(*types.Interface); isIface {
		return true
	}
	nt, ok := types.Unalias(derefType(t)).(*types.Named)
	return ok && nt.Obj().Pkg() == c.Types && elementTypes[nt.Obj().Name()]
}

// isRefClearHelper: a call of a package function that does nothing to its *Ref parameter but store the zero Ref
// through it, unconditionally or under a nil guard (`if p == nil { return }; *p = Ref{}` or `if p != nil { *p = Ref{} }`).
func (c *Ctx) isRefClearHelper(call *ast.CallExpr) bool {
	g, _ := c.callee(call).(*types.Func)
	if g == nil || g.Pkg() != c.Types {
		return false
	}
	gfd := c.decl(g)
	if gfd == nil || gfd.Body == nil || len(call.Args) == 0 {
		return false
	}
	var p types.Object
	for i := range call.Args {
		po := c.paramObj(gfd, i)
		if po == nil {
			continue
		}
		if pt, ok := types.Unalias(po.Type()).(*types.Pointer); ok && isNamed(pt.Elem(), c.Types, "Ref") {
			p = po
		}
	}
	if p == nil {
		return false
	}
	clears, other := 0, false
	ast.Inspect(gfd.Body, func(n ast.Node) bool {
		switch x := n.(type) {
		case *ast.AssignStmt:
			if len(x.Lhs) == 1 && len(x.Rhs) == 1 {
				if st, ok := unparen(x.Lhs[0]).(*ast.StarExpr); ok {
					if id, ok := unparen(st.X).(*ast.Ident); ok && c.objOf(id) == p && c.isZeroRefLit(x.Rhs[0]) {
						// only a nil test of p may guard it
						for _, cl := range c.literalsAt(gfd, x) {
							if _, isNil := nilCmp(c, cl, p); !isNil {
								other = true
							}
						}
						clears++
						return true
					}
				}
			}
			other = true
		case *ast.CallExpr, *ast.ForStmt, *ast.RangeStmt, *ast.GoStmt, *ast.DeferStmt:
			other = true
		}
		return true
	})
	return clears > 0 && !other
}

// foreignGuard: the call that expands the element at (hp, steps) is reached only under a condition on ANOTHER
// part of the same holder (neither an ancestor nor a descendant of the element's position): then the element
// is skipped for holders whose other part happens to be absent. Returns the reason, or "".
func (c *Ctx) foreignGuard(fd *ast.FuncDecl, call *ast.CallExpr, hp types.Object, steps []string) string {
	related := func(a, b []string) bool {
		n := len(a)
		if len(b) < n {
			n = len(b)
		}
		for i := 0; i < n; i++ {
			if a[i] != b[i] && a[i] != "[]" && b[i] != "[]" {
				return false
			}
		}
		return true
	}
	oc := c.newOriginCtx(fd)
	for _, cl := range c.literalsAt(fd, call) {
		bad := ""
		ast.Inspect(cl.e, func(n ast.Node) bool {
			e, ok := n.(ast.Expr)
			if !ok {
				return true
			}
			if _, isSel := e.(*ast.SelectorExpr); !isSel {
				return true
			}
			for _, o := range oc.origins(e, 0) {
				if o.root == hp && len(o.steps) > 0 && !related(o.steps, steps) {
					bad = exprString(cl.e)
				}
			}
			return false
		})
		if bad != "" {
			return "the element is handed to its expander only when " + bad + " lets the function get that far: a holder without that other part keeps the $refs of this one"
		}
	}
	return ""
}

// tupleFlagKnownTrue: the call is the right-hand side of `v, f1, .. := call` in fd, and every use of v as a
// stored value happens where the k-th left-hand variable (a bool) is known to be true.
func (c *Ctx) tupleFlagKnownTrue(fd *ast.FuncDecl, call *ast.CallExpr, k int) bool {
	var flag, val types.Object
	ast.Inspect(fd.Body, func(n ast.Node) bool {
		as, ok := n.(*ast.AssignStmt)
		if !ok || len(as.Rhs) != 1 || unparen(as.Rhs[0]) != ast.Expr(call) || k >= len(as.Lhs) {
			return true
		}
		if id, ok := as.Lhs[k].(*ast.Ident); ok && id.Name != "_" {
			flag = c.objOf(id)
		}
		if id, ok := as.Lhs[0].(*ast.Ident); ok && id.Name != "_" {
			val = c.objOf(id)
		}
		return true
	})
	if flag == nil || val == nil {
		return false
	}
	if b, ok := flag.Type().Underlying().(*types.Basic); !ok || b.Kind() != types.Bool {
		return false
	}
	uses, guarded := 0, 0
	ast.Inspect(fd.Body, func(n ast.Node) bool {
		as, ok := n.(*ast.AssignStmt)
		if !ok || len(as.Lhs) != len(as.Rhs) {
			return true
		}
		for i, r := range as.Rhs {
			id, isId := unparen(r).(*ast.Ident)
			if !isId || c.objOf(id) != val {
				continue
			}
			if _, lhsIdent := unparen(as.Lhs[i]).(*ast.Ident); lhsIdent {
				continue
			}
			uses++
			if c.entailsFlag(c.condsAt(fd, as), flag) {
				guarded++
			}
		}
		return true
	})
	return uses > 0 && uses == guarded
}

// isElementOrSchema: the type is one of the expandable element kinds (by value or pointer).
func isElementOrSchema(c *Ctx, t types.Type) bool {
	nt, ok := types.Unalias(derefType(t)).(*types.Named)
	return ok && nt.Obj().Pkg() == c.Types && (elementTypes[nt.Obj().Name()] || nt.Obj().Name() == "Schema" || nt.Obj().Name() == "Swagger")
}

// holderCoverageSim: on the happy paths of a holder function, the positions below the holder whose element is
// handed to a family member - directly, by address, or as a local copy that is stored back afterwards.
func (c *Ctx) holderCoverageSim(fam *expFamily, fd *ast.FuncDecl, hp types.Object) map[string]string {
	out := map[string]string{}
	if hp == nil {
		return out
	}
	paths, ok := c.expanderHappyPaths(fam, fd)
	if !ok {
		return out
	}
	self, _ := c.Info.Defs[fd.Name].(*types.Func)
	nVisits, nCond, condOf := map[string]int{}, map[string]int{}, map[string]string{}
	skipWhy := map[string]string{}
	defer func() {
		// an element that is handed to its expander only under a test of the value of one of its own plain
		// members (in != "body") is not expanded for the other values
		for key, why := range out {
			if why == "" && nVisits[key] > 0 && nCond[key] == nVisits[key] {
				out[key] = "the element is handed to its expander only where " + condOf[key] + " holds: for other values of that member its $refs stay in the output (and a $ref that cannot be resolved goes unreported)"
			}
			if why == "" && skipWhy[key] != "" {
				out[key] = "the element is handed to its expander only where " + skipWhy[key] + " does not hold (a path walks the collection and skips the element under that test of one of its own plain members): its $refs then stay in the output, and a $ref that cannot be resolved goes unreported"
			}
		}
	}()
	valueTestOf := func(p spath, ncond int, pos []string) string {
		if ncond > len(p.conds) {
			ncond = len(p.conds)
		}
		for _, cd := range p.conds[:ncond] {
			if cd.loop {
				continue
			}
			for _, v := range condAtoms(cd.v) {
				q, ok := c.posBelow(fam, v, hp, 0)
				if !ok || len(q) <= len(pos) {
					continue
				}
				same := true
				for i := range pos {
					if q[i] != pos[i] {
						same = false
					}
				}
				if !same {
					continue
				}
				t := c.simTypeAtPath(svPath{root: hp, steps: q})
				if t == nil {
					continue
				}
				if _, isBasic := t.Underlying().(*types.Basic); !isBasic {
					continue
				}
				txt := svString(cd.v)
				if cd.neg {
					txt = "!(" + txt + ")"
				}
				return txt
			}
		}
		return ""
	}
	for _, p := range paths {
		visitedHere := map[string]bool{}
		defer func(p spath, visitedHere map[string]bool) {
			// collections this path walks without handing their element on
			for _, cd := range p.conds {
				if !cd.loop || cd.neg {
					continue
				}
				cpos, ok := c.posBelow(fam, cd.v, hp, 0)
				if !ok {
					continue
				}
				epos := append(append([]string{}, cpos...), "[]")
				key := joinSteps(epos)
				if visitedHere[key] {
					continue
				}
				if vt := valueTestOf(p, len(p.conds), epos); vt != "" {
					skipWhy[key] = vt
				}
			}
		}(p, visitedHere)
		for i, e := range p.effs {
			if e.kind != "call" {
				continue
			}
			g, isF := e.call.callee.(*types.Func)
			if !isF || !fam.members[g] || g == self {
				continue
			}
			args := e.call.args
			for ai, a := range args {
				pos, ok := c.posBelow(fam, a, hp, 0)
				viaCopy := false
				var held sval
				if !ok {
					// the address of a local copy of the element: what the local held when the call was made
					if ai < len(e.call.held) && e.call.held[ai] != nil {
						held = e.call.held[ai]
						pos, ok = c.posBelow(fam, held, hp, 0)
						viaCopy = ok
					}
				}
				if !ok || len(pos) == 0 {
					continue
				}
				key := joinSteps(pos)
				why := ""
				nVisits[key]++
				visitedHere[key] = true
				if os.Getenv("SIMDEBUG") == "2" {
					fmt.Fprintf(os.Stderr, "visit %s in %s ncond=%d\n", key, c.funcName(fd), e.ncond)
					for ci, cd := range p.conds {
						if ci < e.ncond {
							fmt.Fprintf(os.Stderr, "    cond neg=%v loop=%v %s\n", cd.neg, cd.loop, svString(cd.v))
						}
					}
				}
				if vt := valueTestOf(p, e.ncond, pos); vt != "" {
					nCond[key]++
					condOf[key] = vt
				}
				if viaCopy {
					stored := false
					for _, w := range p.effs[i+1:] {
						if w.kind != "write" {
							continue
						}
						if wpos, okw := c.dstPosBelow(fam, w.dst, hp); okw && joinSteps(wpos) == key && svEqual(w.val, held) {
							stored = true
						}
					}
					if !stored {
						why = "a copy of the element is expanded but never stored back at its position"
					}
				}
				if prev, dup := out[key]; !dup || (prev != "" && why == "") {
					out[key] = why
				}
			}
		}
	}
	return out
}

// condAtoms flattens a condition into the values it compares: operands of && / || / !, with comparisons against
// constants reduced to the other operand.
func condAtoms(v sval) []sval {
	switch x := v.(type) {
	case svNot:
		return condAtoms(x.x)
	case svBin:
		if x.op == token.LAND || x.op == token.LOR {
			return append(condAtoms(x.x), condAtoms(x.y)...)
		}
		if _, isK := x.y.(svConst); isK {
			return condAtoms(x.x)
		}
		if _, isK := x.x.(svConst); isK {
			return condAtoms(x.y)
		}
	}
	return []sval{v}
}
