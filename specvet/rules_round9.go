package main

import (
	"fmt"
	"go/ast"
	"go/token"
	"go/types"
)

func init() {
	registerRule("scan-flag-accumulates", 8, "a yes/no flag a gob codec computes by scanning nested lists is not overwritten by a later outer element", ruleScanFlagAccumulates)
}

// ruleScanFlagAccumulates: the gob codecs decide "is there an element that needs the padded form" by scanning lists of
// lists (requirements, each a map of schemes). A flag declared before the outer loop that is plainly assigned
// (flag = test(elem)) in the inner loop, left through an unlabelled break of the inner loop only, never looked at
// again in the outer loop, and read after the outer loop, holds the answer for the LAST outer element only: an earlier
// element that needed the careful path is forgotten, and the codec keeps the lossy copy (empty scope lists come back
// null). Accepted forms: labelled break / return out of the nest, flag = flag || test, a test of the flag in the
// outer body, a flag only ever set to a constant true under a condition.
func ruleScanFlagAccumulates(c *Ctx) {
	const rule = "scan-flag-accumulates"
	for _, fd := range c.allFuncDecls() {
		if fd.Body == nil || fd.Recv == nil || (fd.Name.Name != "GobEncode" && fd.Name.Name != "GobDecode") {
			continue
		}
		fn := c.funcName(fd)
		c.saw(fn)
		bad := 0
		ast.Inspect(fd.Body, func(n ast.Node) bool {
			outerBody := loopBody(n)
			if outerBody == nil {
				return true
			}
			outer := n
			ast.Inspect(outerBody, func(m ast.Node) bool {
				if _, ok := m.(*ast.FuncLit); ok {
					return false
				}
				innerBody := loopBody(m)
				if innerBody == nil {
					return true
				}
				inner := m
				for _, v := range c.plainFlagAssigns(innerBody, outer.Pos()) {
					if !c.brokenOnlyInner(innerBody, v) {
						continue
					}
					if c.mentionsOutside(outerBody, inner, v) {
						continue
					}
					if !c.mentionedAfter(fd.Body, outer.End(), v) {
						continue
					}
					bad++
					c.ob(rule, fn+":"+v.Name(), inner.Pos(), false, fmt.Sprintf("%s is assigned afresh for every element of the inner loop, the break that follows leaves only the inner loop, and the outer loop never looks at it: after the nest it tells about the last outer element only, so an earlier element that needed the careful path is forgotten", v.Name()))
				}
				return true
			})
			return true
		})
		if bad == 0 {
			c.ob(rule, fn+":flags", fd.Pos(), true, "")
		}
	}
}

func loopBody(n ast.Node) *ast.BlockStmt {
	switch l := n.(type) {
	case *ast.ForStmt:
		return l.Body
	case *ast.RangeStmt:
		return l.Body
	}
	return nil
}

// plainFlagAssigns: bool variables declared before pos that body assigns with `=` from an expression that does not
// mention them and is not a constant.
func (c *Ctx) plainFlagAssigns(body *ast.BlockStmt, before token.Pos) []*types.Var {
	var out []*types.Var
	seen := map[*types.Var]bool{}
	ast.Inspect(body, func(n ast.Node) bool {
		if _, ok := n.(*ast.FuncLit); ok {
			return false
		}
		as, ok := n.(*ast.AssignStmt)
		if !ok || as.Tok != token.ASSIGN || len(as.Lhs) != 1 || len(as.Rhs) != 1 {
			return true
		}
		id, ok := as.Lhs[0].(*ast.Ident)
		if !ok {
			return true
		}
		v, ok := c.objOf(id).(*types.Var)
		if !ok || v.Pos() >= before || seen[v] {
			return true
		}
		if b, ok := v.Type().Underlying().(*types.Basic); !ok || b.Info()&types.IsBoolean == 0 {
			return true
		}
		if tv, ok := c.Info.Types[as.Rhs[0]]; ok && tv.Value != nil {
			return true // flag = true under a condition accumulates
		}
		if c.mentions(as.Rhs[0], v) {
			return true
		}
		seen[v] = true
		out = append(out, v)
		return true
	})
	return out
}

func (c *Ctx) mentions(n ast.Node, v *types.Var) bool {
	found := false
	ast.Inspect(n, func(x ast.Node) bool {
		if id, ok := x.(*ast.Ident); ok && c.objOf(id) == v {
			found = true
		}
		return !found
	})
	return found
}

// brokenOnlyInner: the loop body leaves through an unlabelled break under a test of v, and nowhere through a
// labelled branch, a return or a goto.
func (c *Ctx) brokenOnlyInner(body *ast.BlockStmt, v *types.Var) bool {
	leavesNest, breaksOnFlag := false, false
	var walk func(n ast.Node, underFlag, breakCaptured bool)
	walk = func(n ast.Node, underFlag, breakCaptured bool) {
		ast.Inspect(n, func(x ast.Node) bool {
			if x == n {
				return true
			}
			switch s := x.(type) {
			case *ast.FuncLit:
				return false
			case *ast.ReturnStmt:
				leavesNest = true
			case *ast.BranchStmt:
				if s.Label != nil || s.Tok == token.GOTO {
					leavesNest = true
				} else if s.Tok == token.BREAK && underFlag && !breakCaptured {
					breaksOnFlag = true
				}
			case *ast.IfStmt:
				if s.Init != nil {
					walk(s.Init, underFlag, breakCaptured)
				}
				walk(s.Body, underFlag || c.mentions(s.Cond, v), breakCaptured)
				if s.Else != nil {
					walk(s.Else, underFlag, breakCaptured)
				}
				return false
			case *ast.ForStmt, *ast.RangeStmt, *ast.SwitchStmt, *ast.TypeSwitchStmt, *ast.SelectStmt:
				walk(s, underFlag, true)
				return false
			}
			return true
		})
	}
	walk(body, false, false)
	return breaksOnFlag && !leavesNest
}

// mentionsOutside: v occurs in the outer body outside the inner loop.
func (c *Ctx) mentionsOutside(outerBody *ast.BlockStmt, inner ast.Node, v *types.Var) bool {
	found := false
	ast.Inspect(outerBody, func(x ast.Node) bool {
		if x == inner {
			return false
		}
		if id, ok := x.(*ast.Ident); ok && c.objOf(id) == v {
			found = true
		}
		return !found
	})
	return found
}

func (c *Ctx) mentionedAfter(body *ast.BlockStmt, after token.Pos, v *types.Var) bool {
	found := false
	ast.Inspect(body, func(x ast.Node) bool {
		if id, ok := x.(*ast.Ident); ok && id.Pos() >= after && c.objOf(id) == v {
			found = true
		}
		return !found
	})
	return found
}

func init() {
	registerRule("pointer-consumed-whole", 0, "a shortcut that answers a JSON pointer from its first tokens has bounded the number of tokens from above", rulePointerConsumedWhole)
}

// rulePointerConsumedWhole: a function that takes the decoded tokens of a JSON pointer, reads tokens at constant
// positions and answers from them has consumed the whole pointer only if the number of tokens is bounded from above
// (len(tokens) == n, != n, > n, <= n, a switch on len(tokens)) - or the rest is visibly dealt with (tokens ranged over,
// re-sliced or handed on). A function that tests len(tokens) only from below (len(tokens) < 2) answers
// #/definitions/a/properties/b with the definition a: the deeper part of the pointer is ignored and the $ref resolves
// to the wrong node. The unchanged tree has no such shortcut (all lookups go through jsonpointer.Get); the rule is
// fail-open (silent where the shape is not recognised) and exists for shortcuts added later.
func rulePointerConsumedWhole(c *Ctx) {
	const rule = "pointer-consumed-whole"
	for _, fd := range c.allFuncDecls() {
		if fd.Body == nil {
			continue
		}
		// locals initialised from (jsonpointer.Pointer).DecodedTokens()
		var toks []*types.Var
		ast.Inspect(fd.Body, func(n ast.Node) bool {
			as, ok := n.(*ast.AssignStmt)
			if !ok || len(as.Lhs) != 1 || len(as.Rhs) != 1 {
				return true
			}
			call, ok := as.Rhs[0].(*ast.CallExpr)
			if !ok {
				return true
			}
			f, ok := c.callee(call).(*types.Func)
			if !ok || f.Name() != "DecodedTokens" || f.Pkg() == nil || f.Pkg().Name() != "jsonpointer" {
				return true
			}
			if id, ok := as.Lhs[0].(*ast.Ident); ok {
				if v, ok := c.objOf(id).(*types.Var); ok {
					toks = append(toks, v)
				}
			}
			return true
		})
		for _, v := range toks {
			fn := c.funcName(fd)
			c.saw(fn)
			constIndexed, lower, upper, other := false, false, false, false
			isV := func(e ast.Expr) bool {
				id, ok := ast.Unparen(e).(*ast.Ident)
				return ok && c.objOf(id) == v
			}
			isLen := func(e ast.Expr) bool {
				call, ok := ast.Unparen(e).(*ast.CallExpr)
				if !ok || len(call.Args) != 1 || !isV(call.Args[0]) {
					return false
				}
				id, ok := call.Fun.(*ast.Ident)
				return ok && id.Name == "len" && c.objOf(id) == types.Universe.Lookup("len")
			}
			accounted := map[*ast.Ident]bool{} // occurrences of v inside a recognised construct
			mark := func(e ast.Node) {
				ast.Inspect(e, func(x ast.Node) bool {
					if id, ok := x.(*ast.Ident); ok && c.objOf(id) == v {
						accounted[id] = true
					}
					return true
				})
			}
			ast.Inspect(fd.Body, func(n ast.Node) bool {
				switch x := n.(type) {
				case *ast.IndexExpr:
					if isV(x.X) {
						mark(x.X)
						if tv, ok := c.Info.Types[x.Index]; ok && tv.Value != nil {
							constIndexed = true
						} else {
							other = true
						}
					}
				case *ast.BinaryExpr:
					l, r := isLen(x.X), isLen(x.Y)
					if !l && !r {
						return true
					}
					if l {
						mark(x.X)
					} else {
						mark(x.Y)
					}
					op := x.Op
					if r { // n OP len(v)  ==  len(v) OP' n
						switch op {
						case token.LSS:
							op = token.GTR
						case token.GTR:
							op = token.LSS
						case token.LEQ:
							op = token.GEQ
						case token.GEQ:
							op = token.LEQ
						}
					}
					switch op {
					case token.EQL, token.NEQ, token.GTR, token.LEQ:
						upper = true
					case token.LSS, token.GEQ:
						lower = true
					default:
						other = true
					}
				case *ast.SwitchStmt:
					if x.Tag != nil && isLen(x.Tag) {
						mark(x.Tag)
						upper = true
					}
				}
				return true
			})
			// any other occurrence of v (ranged over, re-sliced, handed on, returned, len() stored): the rest may be dealt with
			ast.Inspect(fd.Body, func(n ast.Node) bool {
				if id, ok := n.(*ast.Ident); ok && c.objOf(id) == v && !accounted[id] && id.Pos() != v.Pos() {
					other = true
				}
				return true
			})
			if !constIndexed || other {
				continue // shape not recognised: no verdict (fail-open, see above)
			}
			key := fn + ":" + v.Name()
			if upper {
				c.ob(rule, key, fd.Pos(), true, "")
			} else if lower {
				c.ob(rule, key, fd.Pos(), false, fmt.Sprintf("%s holds the decoded tokens of a JSON pointer; the function reads them at constant positions and tests len(%s) only from below, so a pointer with more tokens is answered from its first tokens and the rest is ignored (#/definitions/a/properties/b yields the definition a)", v.Name(), v.Name()))
			}
		}
	}
}
