package main

import (
	"fmt"
	"go/ast"
	"go/token"
	"go/types"
)

func init() {
	registerRule("scan-flag-accumulates", 8, "a yes/no flag a gob codec computes by scanning nested lists is not overwritten by a later outer element", ruleScanFlagAccumulates)
}

// ruleScanFlagAccumulates: the gob codecs decide "is there an element that needs the padded form" by scanning lists of
// lists (requirements, each a map of schemes). A flag declared before the outer loop that is plainly assigned
// (flag = test(elem)) in the inner loop, left through an unlabelled break of the inner loop only, never looked at
// again in the outer loop, and read after the outer loop, holds the answer for the LAST outer element only: an earlier
// element that needed the careful path is forgotten, and the codec keeps the lossy copy (empty scope lists come back
// null). Accepted forms: labelled break / return out of the nest, flag = flag || test, a test of the flag in the
// outer body, a flag only ever set to a constant true under a condition.
func ruleScanFlagAccumulates(c *Ctx) {
	const rule = "scan-flag-accumulates"
	for _, fd := range c.allFuncDecls() {
		if fd.Body == nil || fd.Recv == nil || (fd.Name.Name != "GobEncode" && fd.Name.Name != "GobDecode") {
			continue
		}
		fn := c.funcName(fd)
		c.saw(fn)
		bad := 0
		ast.Inspect(fd.Body, func(n ast.Node) bool {
			outerBody := loopBody(n)
			if outerBody == nil {
				return true
			}
			outer := n
			ast.Inspect(outerBody, func(m ast.Node) bool {
				if _, ok := m.(*ast.FuncLit); ok {
					return false
				}
				innerBody := loopBody(m)
				if innerBody == nil {
					return true
				}
				inner := m
				for _, v := range c.plainFlagAssigns(innerBody, outer.Pos()) {
					if !c.brokenOnlyInner(innerBody, v) {
						continue
					}
					if c.mentionsOutside(outerBody, inner, v) {
						continue
					}
					if !c.mentionedAfter(fd.Body, outer.End(), v) {
						continue
					}
					bad++
					c.ob(rule, fn+":"+v.Name(), inner.Pos(), false, fmt.Sprintf("%s is assigned afresh for every element of the inner loop, the break that follows leaves only the inner loop, and the outer loop never looks at it: after the nest it tells about the last outer element only, so an earlier element that needed the careful path is forgotten", v.Name()))
				}
				return true
			})
			return true
		})
		if bad == 0 {
			c.ob(rule, fn+":flags", fd.Pos(), true, "")
		}
	}
}

func loopBody(n ast.Node) *ast.BlockStmt {
	switch l := n.(type) {
	case *ast.ForStmt:
		return l.Body
	case *ast.RangeStmt:
		return l.Body
	}
	return nil
}

// plainFlagAssigns: bool variables declared before pos that body assigns with `=` from an expression that does not
// mention them and is not a constant.
func (c *Ctx) plainFlagAssigns(body *ast.BlockStmt, before token.Pos) []*types.Var {
	var out []*types.Var
	seen := map[*types.Var]bool{}
	ast.Inspect(body, func(n ast.Node) bool {
		if _, ok := n.(*ast.FuncLit); ok {
			return false
		}
		as, ok := n.(*ast.AssignStmt)
		if !ok || as.Tok != token.ASSIGN || len(as.Lhs) != 1 || len(as.Rhs) != 1 {
			return true
		}
		id, ok := as.Lhs[0].(*ast.Ident)
		if !ok {
			return true
		}
		v, ok := c.objOf(id).(*types.Var)
		if !ok || v.Pos() >= before || seen[v] {
			return true
		}
		if b, ok := v.Type().Underlying().(*types.Basic); !ok || b.Info()&types.IsBoolean == 0 {
			return true
		}
		if tv, ok := c.Info.Types[as.Rhs[0]]; ok && tv.Value != nil {
			return true // flag = true under a condition accumulates
		}
		if c.mentions(as.Rhs[0], v) {
			return true
		}
		seen[v] = true
		out = append(out, v)
		return true
	})
	return out
}

func (c *Ctx) mentions(n ast.Node, v *types.Var) bool {
	found := false
	ast.Inspect(n, func(x ast.Node) bool {
		if id, ok := x.(*ast.Ident); ok && c.objOf(id) == v {
			found = true
		}
		return !found
	})
	return found
}

// brokenOnlyInner: the loop body leaves through an unlabelled break under a test of v, and nowhere through a
// labelled branch, a return or a goto.
func (c *Ctx) brokenOnlyInner(body *ast.BlockStmt, v *types.Var) bool {
	leavesNest, breaksOnFlag := false, false
	var walk func(n ast.Node, underFlag, breakCaptured bool)
	walk = func(n ast.Node, underFlag, breakCaptured bool) {
		ast.Inspect(n, func(x ast.Node) bool {
			if x == n {
				return true
			}
			switch s := x.(type) {
			case *ast.FuncLit:
				return false
			case *ast.ReturnStmt:
				leavesNest = true
			case *ast.BranchStmt:
				if s.Label != nil || s.Tok == token.GOTO {
					leavesNest = true
				} else if s.Tok == token.BREAK && underFlag && !breakCaptured {
					breaksOnFlag = true
				}
			case *ast.IfStmt:
				if s.Init != nil {
					walk(s.Init, underFlag, breakCaptured)
				}
				walk(s.Body, underFlag || c.mentions(s.Cond, v), breakCaptured)
				if s.Else != nil {
					walk(s.Else, underFlag, breakCaptured)
				}
				return false
			case *ast.ForStmt, *ast.RangeStmt, *ast.SwitchStmt, *ast.TypeSwitchStmt, *ast.SelectStmt:
				walk(s, underFlag, true)
				return false
			}
			return true
		})
	}
	walk(body, false, false)
	return breaksOnFlag && !leavesNest
}

// mentionsOutside: v occurs in the outer body outside the inner loop.
func (c *Ctx) mentionsOutside(outerBody *ast.BlockStmt, inner ast.Node, v *types.Var) bool {
	found := false
	ast.Inspect(outerBody, func(x ast.Node) bool {
		if x == inner {
			return false
		}
		if id, ok := x.(*ast.Ident); ok && c.objOf(id) == v {
			found = true
		}
		return !found
	})
	return found
}

func (c *Ctx) mentionedAfter(body *ast.BlockStmt, after token.Pos, v *types.Var) bool {
	found := false
	ast.Inspect(body, func(x ast.Node) bool {
		if id, ok := x.(*ast.Ident); ok && id.Pos() >= after && c.objOf(id) == v {
			found = true
		}
		return !found
	})
	return found
}
