package main

import (
	"fmt"
	"go/ast"
	"go/token"
	"go/types"
	"sort"
	"strings"
)

// Rules added after the first round of independently seeded changes (DESIGN.md section 8).

func init() {
	registerRule("name-verbatim", 4, "decoders store, and encoders emit, user-chosen member names exactly as they are (no case folding or other rewriting on the way into or out of the model)", ruleNameVerbatim)
	registerRule("opts-copy-complete", 1, "an ExpandOptions value derived from another one carries every option", ruleOptsCopyComplete)
	registerRule("resolve-strict", 8, "on the Resolve* side an error is never filtered through the continue-on-error predicate", ruleResolveStrict)
	registerRule("continue-honoured", 4, "inside the expander every error of following a $ref passes through the stop predicate, so ContinueOnError is honoured at every position", ruleContinueHonoured)
	registerRule("ptr-fill-guard", 1, "a pointer filled by resolution is dereferenced only where it is known to be non-nil", rulePtrFillGuard)
	registerRule("root-registered", 2, "the pseudo-root helper registers every non-nil root it is given", ruleRootRegistered)
}

// ---- name-verbatim ----

// keyUses classifies how a decoded member-name variable is used inside a function:
// as a map index, inside a condition/Atoi, or handed to another package function.
func (c *Ctx) keyStoredVerbatim(fd *ast.FuncDecl, key types.Object, depth int) (ok bool, why string) {
	if depth > 2 {
		return false, "member name is passed through too many helpers to follow"
	}
	ok = true
	defs := c.localDefs(fd)
	// variables derived from the key by a string transformation
	derived := map[types.Object]string{}
	for o, ds := range defs {
		for _, d := range ds {
			call, isC := unparen(d).(*ast.CallExpr)
			if !isC {
				continue
			}
			f, _ := c.callee(call).(*types.Func)
			if f == nil || f.Pkg() == nil || f.Pkg().Path() != "strings" {
				continue
			}
			for _, a := range call.Args {
				if id, isId := unparen(a).(*ast.Ident); isId && c.objOf(id) == key {
					derived[o] = "strings." + f.Name()
				}
			}
		}
	}
	ast.Inspect(fd.Body, func(n ast.Node) bool {
		switch x := n.(type) {
		case *ast.AssignStmt:
			for _, l := range x.Lhs {
				ix, isIx := unparen(l).(*ast.IndexExpr)
				if !isIx {
					continue
				}
				if _, isMap := c.typeOf(ix.X).Underlying().(*types.Map); !isMap {
					continue
				}
				if id, isId := unparen(ix.Index).(*ast.Ident); isId {
					if how, bad := derived[c.objOf(id)]; bad {
						ok, why = false, fmt.Sprintf("%s stores the member under %s(name) instead of the name itself: the exact spelling (e.g. upper-case letters) is lost", c.funcName(fd), how)
					}
				}
			}
		case *ast.CallExpr:
			g, _ := c.callee(x).(*types.Func)
			if g == nil || g.Pkg() != c.Types {
				return true
			}
			gfd := c.decl(g)
			if gfd == nil || gfd.Body == nil {
				return true
			}
			for i, a := range x.Args {
				id, isId := unparen(a).(*ast.Ident)
				if !isId || c.objOf(id) != key {
					continue
				}
				if p := c.paramObj(gfd, i); p != nil {
					if good, w := c.keyStoredVerbatim(gfd, p, depth+1); !good {
						ok, why = false, w
					}
				}
			}
		}
		return true
	})
	return
}

func ruleNameVerbatim(c *Ctx) {
	const rule = "name-verbatim"
	for _, fd := range c.allFuncDecls() {
		if fd.Recv == nil || fd.Body == nil || (fd.Name.Name != "UnmarshalJSON" && fd.Name.Name != "MarshalJSON") {
			continue
		}
		fn := c.funcName(fd)
		// range loops over a map decoded from the input (or, in an encoder, over a map of the model):
		// the key variable is a user-chosen member name
		ast.Inspect(fd.Body, func(n ast.Node) bool {
			rs, ok := n.(*ast.RangeStmt)
			if !ok {
				return true
			}
			mt, isMap := c.typeOf(rs.X).Underlying().(*types.Map)
			if !isMap || !isStringType(mt.Key()) {
				return true
			}
			kid, ok := rs.Key.(*ast.Ident)
			if !ok || kid.Name == "_" {
				return true
			}
			c.saw(fn)
			good, why := c.keyStoredVerbatim(fd, c.objOf(kid), 0)
			c.ob(rule, fn+":range("+exprString(rs.X)+")", rs.Pos(), good, why)
			return true
		})
	}
}

// ---- opts-copy-complete ----

func ruleOptsCopyComplete(c *Ctx) {
	const rule = "opts-copy-complete"
	opt := c.structOf("ExpandOptions")
	if opt == nil {
		c.undecided(rule, "ExpandOptions", token.NoPos, "type not found")
		return
	}
	n := 0
	for _, fd := range c.allFuncDecls() {
		if fd.Body == nil {
			continue
		}
		fn := c.funcName(fd)
		// (a) struct literals that copy at least one field from another ExpandOptions
		ast.Inspect(fd.Body, func(nd ast.Node) bool {
			lit, ok := nd.(*ast.CompositeLit)
			if !ok || !isNamed(c.typeOf(lit), c.Types, "ExpandOptions") {
				return true
			}
			set := map[string]bool{}
			copies := false
			for _, el := range lit.Elts {
				kv, ok := el.(*ast.KeyValueExpr)
				if !ok {
					continue
				}
				k, _ := kv.Key.(*ast.Ident)
				if k == nil {
					continue
				}
				set[k.Name] = true
				if se, ok := unparen(kv.Value).(*ast.SelectorExpr); ok {
					if sel := c.Info.Selections[se]; sel != nil && sel.Kind() == types.FieldVal && isNamed(sel.Recv(), c.Types, "ExpandOptions") {
						copies = true
					}
				}
			}
			if !copies {
				return true
			}
			n++
			c.saw(fn)
			var missing []string
			for i := 0; i < opt.NumFields(); i++ {
				if !set[opt.Field(i).Name()] {
					missing = append(missing, opt.Field(i).Name())
				}
			}
			sort.Strings(missing)
			c.ob(rule, fmt.Sprintf("%s:literal#%d", fn, n), lit.Pos(), len(missing) == 0,
				fmt.Sprintf("options derived from the current ones drop %v: the option silently reverts to its zero value for everything expanded through this copy (e.g. in documents other than the root)", missing))
			return true
		})
	}
	// (b) how the transitive resolver derives its options: recorded so that the rule never passes vacuously
	derivation := "none"
	for _, fd := range c.allFuncDecls() {
		if fd.Body == nil || fd.Name.Name != "transitiveResolver" {
			continue
		}
		c.saw(c.funcName(fd))
		ast.Inspect(fd.Body, func(nd ast.Node) bool {
			as, ok := nd.(*ast.AssignStmt)
			if !ok || len(as.Lhs) != 1 || len(as.Rhs) != 1 {
				return true
			}
			if isNamed(c.typeOf(as.Rhs[0]), c.Types, "ExpandOptions") {
				switch r := unparen(as.Rhs[0]).(type) {
				case *ast.SelectorExpr:
					derivation = "shares the parent's options value"
				case *ast.StarExpr:
					derivation = "by-value copy of the parent's options"
					_ = r
				case *ast.UnaryExpr, *ast.CompositeLit:
					derivation = "field-by-field literal"
				}
			}
			return true
		})
		c.ob(rule, c.funcName(fd)+":derivation", fd.Pos(), derivation != "none", "cannot see how the transitive resolver derives its options")
		c.note("opts-copy-complete: transitive resolver %s", derivation)
	}
}

// ---- resolve-strict ----

func ruleResolveStrict(c *Ctx) {
	const rule = "resolve-strict"
	var roots []*types.Func
	for _, f := range c.entryPoints() {
		if strings.HasPrefix(f.Name(), "Resolve") {
			roots = append(roots, f)
		}
	}
	reach := c.reachableSet(roots)
	var fs []*types.Func
	for f := range reach {
		fs = append(fs, f)
	}
	sort.Slice(fs, func(i, j int) bool { return fs[i].Pos() < fs[j].Pos() })
	for _, f := range fs {
		fd := c.decl(f)
		var bad []string
		hasErr := false
		ast.Inspect(fd.Body, func(n ast.Node) bool {
			if call, ok := n.(*ast.CallExpr); ok {
				if c.callReturnsError(call) {
					hasErr = true
				}
				if c.isStopPredicate(call) {
					bad = append(bad, exprString(call))
				}
			}
			return true
		})
		if !hasErr && len(bad) == 0 {
			continue
		}
		c.saw(c.funcName(fd))
		c.ob(rule, c.funcName(fd), fd.Pos(), len(bad) == 0,
			fmt.Sprintf("a function on the Resolve* path filters an error through %v: with ContinueOnError set, a reference that designates nothing yields a zero value and a nil error", bad))
	}
}

// ---- continue-honoured ----

func ruleContinueHonoured(c *Ctx) {
	const rule = "continue-honoured"
	fam := c.family()
	if !fam.ok() {
		c.undecided(rule, "family", token.NoPos, "expander family not found by role")
		return
	}
	isFollow := func(g *types.Func) bool {
		if g == nil {
			return false
		}
		if g == fam.resolveRef {
			return true
		}
		sig := g.Type().(*types.Signature)
		if sig.Recv() == nil || fam.schemaExp[g] {
			return false
		}
		for _, h := range c.staticCallees(g) {
			if h == fam.resolveRef {
				return true
			}
		}
		return false
	}
	resolveReach := map[*types.Func]bool{}
	var rroots []*types.Func
	for _, f := range c.entryPoints() {
		if strings.HasPrefix(f.Name(), "Resolve") {
			rroots = append(rroots, f)
		}
	}
	resolveReach = c.reachableSet(rroots)
	for _, f := range fam.order {
		if resolveReach[f] {
			continue // shared with the Resolve* side: strict there (resolve-strict)
		}
		fd := c.decl(f)
		fn := c.funcName(fd)
		ord := map[string]int{}
		for _, s := range c.errorSites(fd) {
			g, _ := c.callee(s.call).(*types.Func)
			if !isFollow(g) {
				continue
			}
			c.saw(fn)
			ord[s.calleeName]++
			key := fmt.Sprintf("%s:%s#%d", fn, s.calleeName, ord[s.calleeName])
			kind := ""
			switch s.form {
			case "returned":
				kind = "returned"
			case "if-init":
				kind = c.errCheckKind(s.ifStmt.Cond, s.errObj)
			case "assigned":
				if s.idx+1 < len(s.block) {
					if ifs, ok := s.block[s.idx+1].(*ast.IfStmt); ok {
						kind = c.errCheckKind(ifs.Cond, s.errObj)
					}
				}
			}
			c.ob(rule, key, s.call.Pos(), kind == "stop" || kind == "returned",
				"the error of following a $ref is tested with a plain err != nil inside the expander: under ContinueOnError it escapes to callers that stop on any error (tuple items, ExpandSchemaWithBasePath), so expansion aborts or skips siblings instead of leaving the bad $ref in place")
		}
		// once the stop predicate has let an error through (we are continuing), that error is not handed back
		// to the caller any more: some callers stop on any non-nil error
		nret := 0
		ast.Inspect(fd.Body, func(n ast.Node) bool {
			if _, isLit := n.(*ast.FuncLit); isLit {
				return false
			}
			rs, ok := n.(*ast.ReturnStmt)
			if !ok || len(rs.Results) == 0 {
				return true
			}
			eid, ok := unparen(rs.Results[len(rs.Results)-1]).(*ast.Ident)
			if !ok || isNilIdent(c, eid) || !isErrorType(c.typeOf(eid)) {
				return true
			}
			eo := c.objOf(eid)
			continuing := false
			for _, cl := range c.literalsAt(fd, rs) {
				if c.errCheckKind(cl.e, eo) == "stop" && cl.neg {
					// the variable must still hold the error that was tested
					reassigned := false
					ast.Inspect(fd.Body, func(m ast.Node) bool {
						as, isA := m.(*ast.AssignStmt)
						if !isA || as.Pos() < cl.e.End() || as.Pos() >= rs.Pos() {
							return true
						}
						for _, l := range as.Lhs {
							if lid, isId := unparen(l).(*ast.Ident); isId && c.objOf(lid) == eo {
								reassigned = true
							}
						}
						return true
					})
					if !reassigned {
						continuing = true
					}
				}
			}
			if !continuing {
				return true
			}
			nret++
			c.saw(fn)
			c.ob(rule, fmt.Sprintf("%s:continuing-return#%d", fn, nret), rs.Pos(), false,
				"the function returns the very error the stop predicate has just let through: under ContinueOnError the error reaches callers that stop on any non-nil error (tuple items, ExpandSchemaWithBasePath), so siblings of the bad $ref stay unexpanded or the entry point fails")
			return true
		})
	}
}

// ---- ptr-fill-guard ----

func rulePtrFillGuard(c *Ctx) {
	const rule = "ptr-fill-guard"
	fam := c.family()
	if !fam.ok() {
		c.undecided(rule, "family", token.NoPos, "expander family not found by role")
		return
	}
	// a resolver wrapper hands the pointer it had filled back only where the filling call is known to have
	// succeeded (under ContinueOnError a failed decode leaves an allocated, empty value behind)
	for _, g := range c.pkgFuncs() {
		if !c.returnsFilledPointer(fam, g) {
			continue
		}
		gfd := c.decl(g)
		gn := c.funcName(gfd)
		c.saw(gn)
		// the error variable of the filling call
		var errObj types.Object
		ast.Inspect(gfd.Body, func(n ast.Node) bool {
			as, ok := n.(*ast.AssignStmt)
			if !ok || len(as.Rhs) != 1 {
				return true
			}
			call, ok := unparen(as.Rhs[0]).(*ast.CallExpr)
			if !ok {
				return true
			}
			if h, isF := c.callee(call).(*types.Func); !isF || !(fam.members[h] || h == fam.resolveRef) {
				return true
			}
			if eid, isId := as.Lhs[len(as.Lhs)-1].(*ast.Ident); isId && eid.Name != "_" && isErrorType(c.typeOf(eid)) {
				errObj = c.objOf(eid)
			}
			return true
		})
		nret := 0
		ast.Inspect(gfd.Body, func(n ast.Node) bool {
			rs, ok := n.(*ast.ReturnStmt)
			if !ok || len(rs.Results) < 1 || isNilIdent(c, rs.Results[0]) {
				return true
			}
			if _, isId := unparen(rs.Results[0]).(*ast.Ident); !isId {
				return true
			}
			nret++
			succeeded := false
			if errObj != nil {
				for _, cl := range c.literalsAt(gfd, rs) {
					if k := c.errCheckKind(cl.e, errObj); k == "nil" && !cl.neg || k == "nonnil" && cl.neg {
						succeeded = true
					}
				}
			}
			c.ob(rule, fmt.Sprintf("%s:returns-filled#%d", gn, nret), rs.Pos(), succeeded,
				"the value filled by resolving the $ref is handed back where the error of that resolution is not known to be nil: under ContinueOnError a target of the wrong JSON type leaves a half-decoded empty value, which the caller takes for the resolved schema")
			return true
		})
	}
	for _, f := range fam.order {
		fd := c.decl(f)
		fn := c.funcName(fd)
		// local pointer variables whose address is handed to a family call (filled by resolution)
		filled := map[types.Object]*ast.CallExpr{}
		for _, call := range c.familyCalls(fam, fd) {
			for _, a := range call.Args {
				u, ok := unparen(a).(*ast.UnaryExpr)
				if !ok || u.Op != token.AND {
					continue
				}
				id, ok := unparen(u.X).(*ast.Ident)
				if !ok {
					continue
				}
				if _, isPtr := types.Unalias(c.objOf(id).Type()).(*types.Pointer); isPtr {
					filled[c.objOf(id)] = call
				}
			}
		}
		// a pointer filled inside a resolver wrapper and handed back: the caller's variable receiving it is the
		// filled pointer, and the wrapper call is the resolution whose error must be known nil
		for _, call := range c.familyCalls(fam, fd) {
			g, _ := c.callee(call).(*types.Func)
			if g == nil || !c.returnsFilledPointer(fam, g) {
				continue
			}
			ast.Inspect(fd.Body, func(nd ast.Node) bool {
				as, ok := nd.(*ast.AssignStmt)
				if !ok || len(as.Rhs) != 1 || unparen(as.Rhs[0]) != ast.Expr(call) || len(as.Lhs) < 1 {
					return true
				}
				if id, ok := as.Lhs[0].(*ast.Ident); ok && id.Name != "_" {
					if _, isPtr := types.Unalias(c.objOf(id).Type()).(*types.Pointer); isPtr {
						filled[c.objOf(id)] = call
					}
				}
				return true
			})
		}
		n := 0
		for v, call := range filled {
			ast.Inspect(fd.Body, func(nd ast.Node) bool {
				st, ok := nd.(*ast.StarExpr)
				if !ok || st.Pos() < call.End() {
					return true
				}
				id, ok := unparen(st.X).(*ast.Ident)
				if !ok || c.objOf(id) != v {
					return true
				}
				n++
				c.saw(fn)
				guarded := false
				for _, cl := range c.literalsAt(fd, st) {
					be, ok := unparen(cl.e).(*ast.BinaryExpr)
					if !ok {
						continue
					}
					if x, ok := unparen(be.X).(*ast.Ident); ok && c.objOf(x) == v && isNilIdent(c, be.Y) {
						if be.Op == token.NEQ && !cl.neg || be.Op == token.EQL && cl.neg {
							guarded = true
						}
					}
				}
				c.ob(rule, fmt.Sprintf("%s:deref(%s)#%d", fn, v.Name(), n), st.Pos(), guarded,
					"the pointer filled by resolving the $ref is dereferenced without a nil test: a target that decodes to nothing (JSON null, or a failed resolve under ContinueOnError) leaves it nil with a nil error, and expansion panics")
				// ... and only where the resolution is known to have succeeded: a decoding that fails half way
				// (an ill-typed target) leaves an allocated, empty value behind together with its error
				var errObj types.Object
				ast.Inspect(fd.Body, func(m ast.Node) bool {
					as, isA := m.(*ast.AssignStmt)
					if !isA || len(as.Rhs) != 1 || unparen(as.Rhs[0]) != ast.Expr(call) {
						return true
					}
					if eid, isId := as.Lhs[len(as.Lhs)-1].(*ast.Ident); isId && eid.Name != "_" && isErrorType(c.typeOf(eid)) {
						errObj = c.objOf(eid)
					}
					return true
				})
				succeeded := false
				if errObj != nil {
					for _, cl := range c.literalsAt(fd, st) {
						if k := c.errCheckKind(cl.e, errObj); k == "nil" && !cl.neg || k == "nonnil" && cl.neg {
							succeeded = true
						}
					}
				}
				// ... whatever the statement shape: on the effect normal form, no path hands the filled value to an
				// expander unless the error of the filling call is known to be nil there
				if !succeeded && c.filledUsedOnlyOnSuccess(fam, fd, call) {
					succeeded = true
				}
				c.ob(rule, fmt.Sprintf("%s:deref(%s)#%d:resolved", fn, v.Name(), n), st.Pos(), succeeded,
					"the pointer filled by resolving the $ref is used where the error of that resolution is not known to be nil: under ContinueOnError a target of the wrong JSON type leaves a half-decoded empty value, which then replaces the $ref instead of the $ref staying in place")
				return true
			})
		}
	}
}

// ---- root-registered ----

func ruleRootRegistered(c *Ctx) {
	const rule = "root-registered"
	helper := c.pseudoRootHelper()
	if helper == nil {
		c.undecided(rule, "helper", token.NoPos, "pseudo-root helper not found by role")
		return
	}
	fd := c.decl(helper)
	fn := c.funcName(fd)
	c.saw(fn)
	root := c.paramObj(fd, 0)
	var setCall *ast.CallExpr
	ast.Inspect(fd.Body, func(n ast.Node) bool {
		if call, ok := n.(*ast.CallExpr); ok && c.isCacheCall(call, "Set") && len(call.Args) == 2 {
			if id, ok := unparen(call.Args[1]).(*ast.Ident); ok && c.objOf(id) == root {
				setCall = call
			}
		}
		return true
	})
	c.ob(rule, fn+":stores-root", fd.Pos(), setCall != nil, "the root document is never stored in the cache under the pseudo location")
	if setCall == nil {
		return
	}
	// on the effect normal form: every path stores the root, or knows it to be nil, or knows that the cache already
	// holds this very root under the pseudo location (the entry it has just read is identical to the root)
	simAllOK := false
	if paths, unsup := c.simulate(fd, nil); unsup == "" && len(paths) > 0 {
		simAllOK = true
		for _, p := range paths {
			ok := false
			for _, e := range p.effs {
				if e.kind == "call" && e.call.call != nil && c.isCacheCall(e.call.call, "Set") && len(e.call.args) == 2 && isBareParam(e.call.args[1], root) {
					ok = true
				}
			}
			for _, cd := range p.conds {
				b, isB := cd.v.(svBin)
				if !isB || !cd.neg || cd.loop || b.op != token.NEQ {
					continue
				}
				for _, pr := range [][2]sval{{b.x, b.y}, {b.y, b.x}} {
					if !isBareParam(pr[0], root) {
						continue
					}
					if _, isNil := pr[1].(svNil); isNil {
						ok = true
					}
					if sc, isCall := pr[1].(svCall); isCall && sc.idx == 0 && sc.call != nil && c.isCacheCall(sc.call, "Get") {
						ok = true
					}
				}
			}
			if !ok {
				simAllOK = false
			}
		}
	}
	// every return that does not pass through the store must be under root == nil
	const stored factBits = 1
	n := 0
	flowForward(c.cfgOf(fd), 0, func(nd ast.Node, in factBits) factBits {
		if containsCall(nd, func(cc *ast.CallExpr) bool { return cc == setCall }) {
			in |= stored
		}
		return in
	}, func(nd ast.Node, in factBits) {
		rs, ok := nd.(*ast.ReturnStmt)
		if !ok {
			return
		}
		n++
		if in&stored != 0 {
			c.ob(rule, fmt.Sprintf("%s:return#%d", fn, n), rs.Pos(), true, "")
			return
		}
		underNil := false
		for _, cl := range c.literalsAt(fd, rs) {
			if be, ok := unparen(cl.e).(*ast.BinaryExpr); ok && (be.Op == token.EQL && !cl.neg || be.Op == token.NEQ && cl.neg) && isNilIdent(c, be.Y) {
				if id, ok := unparen(be.X).(*ast.Ident); ok && c.objOf(id) == root {
					underNil = true
				}
			}
		}
		c.ob(rule, fmt.Sprintf("%s:return#%d", fn, n), rs.Pos(), underNil || simAllOK,
			"the helper can return without registering a non-nil root (e.g. because some root is already cached): with a reused cache, the element is then expanded against the previous call's root")
	})
}

// filledUsedOnlyOnSuccess: on every structural path of fd (family members and the stop predicate opaque), a value
// that the call `fill` stored through a pointer argument reaches another family call only where the error result
// of `fill` is known to be nil.
func (c *Ctx) filledUsedOnlyOnSuccess(fam *expFamily, fd *ast.FuncDecl, fill *ast.CallExpr) bool {
	s := &effsim{c: c, outValues: true, inline: func(f *types.Func) bool {
		if fam.members[f] || c.isStopPredicateFunc(f) {
			return false
		}
		return c.reaches(f, func(h *types.Func) bool { return h != f && fam.members[h] })
	}}
	st := &sstate{vars: map[types.Object]sval{}, heap: map[string]sval{}, hkeys: map[string]svPath{}}
	if r := c.recvObj(fd); r != nil {
		st.vars[r] = svPath{root: r}
	}
	for i := 0; ; i++ {
		p := c.paramObj(fd, i)
		if p == nil {
			break
		}
		st.vars[p] = svPath{root: p}
	}
	if f, ok := c.Info.Defs[fd.Name].(*types.Func); ok {
		s.stack = append(s.stack, f)
	}
	var paths []spath
	s.callBody(fd.Type, fd.Body, st, func(st *sstate, rets []sval) {
		paths = append(paths, spath{conds: st.conds, effs: st.effs, rets: rets})
		s.npaths++
		if s.npaths > effsimMaxPaths {
			s.fail("too many paths")
		}
	})
	if s.unsupported != "" || len(paths) == 0 {
		return false
	}
	uses := 0
	for _, p := range paths {
		for _, e := range p.effs {
			if e.kind != "call" || e.call.call == fill {
				continue
			}
			g, isF := e.call.callee.(*types.Func)
			if !isF || !fam.members[g] {
				continue
			}
			for _, a := range e.call.args {
				usesFilled := false
				var fillID int
				svWalk(a, func(x sval) {
					if sc, ok := x.(svCall); ok && sc.call == fill && sc.idx >= 100 {
						usesFilled, fillID = true, sc.id
					}
				})
				if !usesFilled {
					continue
				}
				uses++
				// the error result of the fill: its last result
				errIdx := 0
				if tup, ok := c.typeOf(fill).(*types.Tuple); ok {
					errIdx = tup.Len() - 1
				}
				known := false
				for _, cd := range p.conds {
					if b, ok := cd.v.(svBin); ok && b.op == token.NEQ && cd.neg {
						if sc, ok := b.x.(svCall); ok && sc.id == fillID && sc.idx == errIdx {
							if _, isNil := b.y.(svNil); isNil {
								known = true
							}
						}
					}
				}
				if !known {
					return false
				}
			}
		}
	}
	return uses > 0
}

// returnsFilledPointer: g is a resolver wrapper that declares a local pointer, hands its address to a family
// call (which fills it) and returns it as its first result.
func (c *Ctx) returnsFilledPointer(fam *expFamily, g *types.Func) bool {
	if !c.isResolverWrapper(fam, g) {
		return false
	}
	gfd := c.decl(g)
	if gfd == nil || gfd.Body == nil {
		return false
	}
	filled := map[types.Object]bool{}
	ast.Inspect(gfd.Body, func(n ast.Node) bool {
		call, ok := n.(*ast.CallExpr)
		if !ok {
			return true
		}
		if h, isF := c.callee(call).(*types.Func); !isF || !(fam.members[h] || h == fam.resolveRef) {
			return true
		}
		for _, a := range call.Args {
			if u, ok := unparen(a).(*ast.UnaryExpr); ok && u.Op == token.AND {
				if id, ok := unparen(u.X).(*ast.Ident); ok {
					if _, isPtr := types.Unalias(c.objOf(id).Type()).(*types.Pointer); isPtr {
						filled[c.objOf(id)] = true
					}
				}
			}
		}
		return true
	})
	ret := false
	ast.Inspect(gfd.Body, func(n ast.Node) bool {
		if rs, ok := n.(*ast.ReturnStmt); ok && len(rs.Results) >= 1 {
			if id, ok := unparen(rs.Results[0]).(*ast.Ident); ok && filled[c.objOf(id)] {
				ret = true
			}
		}
		return true
	})
	return ret
}
