package main

import (
	"fmt"
	"go/ast"
	"go/token"
	"go/types"
)

// Rules added after the second round of independently seeded changes (DESIGN.md section 8).

func init() {
	registerRule("make-append", 2, "in the gob codecs a slice that is filled by append starts empty: make([]T, n) followed by append leaves n zero elements in front of the data", func(c *Ctx) {
		ruleMakeAppend(c, "make-append", c.reachableFrom("GobEncode", "GobDecode"))
	})
	registerRule("make-append-json", 1, "in the JSON codecs a slice that is filled by append starts empty", func(c *Ctx) {
		ruleMakeAppend(c, "make-append-json", c.reachableFrom("MarshalJSON", "UnmarshalJSON", "MarshalEasyJSON", "UnmarshalEasyJSON", "MarshalNextJSON"))
	})
	registerRule("cwd-at-call-time", 1, "the process working directory is read when a location is normalised, never captured at package initialisation or under sync.Once", ruleCwdAtCallTime)
	registerRule("dispatch-admits-shortest", 1, "a decoder that looks at the first input byte to choose a form does so for every input of two bytes or more, so that the shortest object {} and the shortest array [] are dispatched like any other", ruleDispatchAdmitsShortest)
	registerRule("absence-is-nil", 20, "a decoder gives up early (leaving the receiver as it is) only on a decoding error or a nil test, never because the decoded value equals a zero constant such as \"\": a present zero is not an absent member", ruleAbsenceIsNil)
	registerRule("err-before-use", 2, "in the codecs a pointer result that comes with an error is dereferenced only where that error is known to be nil (or the pointer was repaired on the error path)", func(c *Ctx) {
		ruleErrBeforeUse(c, "err-before-use", true)
	})
	registerRule("err-before-use-expand", 10, "outside the codecs a pointer result that comes with an error is dereferenced only where that error is known to be nil (or the pointer was repaired on the error path)", func(c *Ctx) {
		ruleErrBeforeUse(c, "err-before-use-expand", false)
	})
}

// mentions reports whether the expression text lhs occurs (as an expression) inside n.
func mentions(n ast.Node, lhs string) bool {
	found := false
	ast.Inspect(n, func(m ast.Node) bool {
		if e, ok := m.(ast.Expr); ok && exprString(e) == lhs {
			found = true
		}
		return !found
	})
	return found
}

// firstUseIsAppend looks for the first statement of list (from index i) that mentions lhs and decides whether
// it appends to lhs. Loops, ifs and blocks are entered: the first mention inside them decides.
func firstUseIsAppend(c *Ctx, list []ast.Stmt, lhs string) (decided, isAppend bool) {
	for _, st := range list {
		if !mentions(st, lhs) {
			continue
		}
		switch s := st.(type) {
		case *ast.AssignStmt:
			if len(s.Lhs) == 1 && len(s.Rhs) == 1 && exprString(s.Lhs[0]) == lhs {
				if call, ok := unparen(s.Rhs[0]).(*ast.CallExpr); ok && c.isBuiltin(call, "append") && len(call.Args) > 1 && exprString(call.Args[0]) == lhs {
					return true, true
				}
			}
			return true, false
		case *ast.ForStmt:
			if s.Init != nil && mentions(s.Init, lhs) || s.Cond != nil && mentions(s.Cond, lhs) || s.Post != nil && mentions(s.Post, lhs) {
				return true, false
			}
			return firstUseIsAppend(c, s.Body.List, lhs)
		case *ast.RangeStmt:
			if mentions(s.X, lhs) {
				return true, false
			}
			return firstUseIsAppend(c, s.Body.List, lhs)
		case *ast.BlockStmt:
			return firstUseIsAppend(c, s.List, lhs)
		case *ast.IfStmt:
			if s.Init != nil && mentions(s.Init, lhs) || mentions(s.Cond, lhs) {
				return true, false
			}
			if d, a := firstUseIsAppend(c, s.Body.List, lhs); d {
				return d, a
			}
			return true, false
		default:
			return true, false
		}
	}
	return false, false
}

func ruleMakeAppend(c *Ctx, rule string, fds []*ast.FuncDecl) {
	for _, fd := range fds {
		fn := c.funcName(fd)
		n := 0
		var walk func(list []ast.Stmt)
		walk = func(list []ast.Stmt) {
			for i, st := range list {
				// nested statement lists
				switch s := st.(type) {
				case *ast.BlockStmt:
					walk(s.List)
				case *ast.IfStmt:
					walk(s.Body.List)
					if eb, ok := s.Else.(*ast.BlockStmt); ok {
						walk(eb.List)
					} else if ei, ok := s.Else.(*ast.IfStmt); ok {
						walk([]ast.Stmt{ei})
					}
				case *ast.ForStmt:
					walk(s.Body.List)
				case *ast.RangeStmt:
					walk(s.Body.List)
				case *ast.SwitchStmt:
					for _, cl := range s.Body.List {
						walk(cl.(*ast.CaseClause).Body)
					}
				case *ast.TypeSwitchStmt:
					for _, cl := range s.Body.List {
						walk(cl.(*ast.CaseClause).Body)
					}
				}
				as, ok := st.(*ast.AssignStmt)
				if !ok || len(as.Lhs) != len(as.Rhs) {
					continue
				}
				for j, r := range as.Rhs {
					call, ok := unparen(r).(*ast.CallExpr)
					if !ok || !c.isBuiltin(call, "make") || len(call.Args) < 2 {
						continue
					}
					if _, isSlice := c.typeOf(call).Underlying().(*types.Slice); !isSlice {
						continue
					}
					n++
					c.saw(fn)
					lhs := exprString(as.Lhs[j])
					key := fn + ":make(" + lhs + ")"
					if tv, ok := c.Info.Types[call.Args[1]]; ok && tv.Value != nil && tv.Value.String() == "0" {
						c.ob(rule, key, call.Pos(), true, "")
						continue
					}
					_, isApp := firstUseIsAppend(c, list[i+1:], lhs)
					c.ob(rule, key, call.Pos(), !isApp,
						"slice "+lhs+" is made with a non-zero length and then filled by append: the data follows that many zero elements")
				}
			}
		}
		walk(fd.Body.List)
		ast.Inspect(fd.Body, func(nd ast.Node) bool {
			if fl, ok := nd.(*ast.FuncLit); ok {
				walk(fl.Body.List)
			}
			// append(make([]T, n, ..), xs...): the made slice is appended to on the spot
			if ap, ok := nd.(*ast.CallExpr); ok && c.isBuiltin(ap, "append") && len(ap.Args) > 0 {
				if mk, ok := unparen(ap.Args[0]).(*ast.CallExpr); ok && c.isBuiltin(mk, "make") && len(mk.Args) >= 2 {
					if _, isSlice := c.typeOf(mk).Underlying().(*types.Slice); isSlice {
						n++
						c.saw(fn)
						tv, ok := c.Info.Types[mk.Args[1]]
						zero := ok && tv.Value != nil && tv.Value.String() == "0"
						c.ob(rule, fmt.Sprintf("%s:append(make)#%d", fn, n), mk.Pos(), zero,
							"a slice made with a non-zero length is appended to on the spot: the data follows that many zero elements")
					}
				}
			}
			return true
		})
		_ = n
	}
}

// ---- err-before-use ----

// ruleErrBeforeUse: for every `p, err := f(...)` in the package where p is a pointer, every dereference of p
// (field selection, method call, *p) is at a point where the conditions in force imply err == nil or p != nil,
// or p was re-assigned on the error path.
func ruleErrBeforeUse(c *Ctx, rule string, codecs bool) {
	inCodec := map[*ast.FuncDecl]bool{}
	for _, fd := range c.reachableFrom(codecRootNames...) {
		inCodec[fd] = true
	}
	for _, fd := range c.allFuncDecls() {
		if fd.Body == nil || inCodec[fd] != codecs {
			continue
		}
		fn := c.funcName(fd)
		ast.Inspect(fd.Body, func(n ast.Node) bool {
			as, ok := n.(*ast.AssignStmt)
			if !ok || len(as.Rhs) != 1 || len(as.Lhs) < 2 {
				return true
			}
			call, ok := unparen(as.Rhs[0]).(*ast.CallExpr)
			if !ok {
				return true
			}
			eid, ok := as.Lhs[len(as.Lhs)-1].(*ast.Ident)
			if !ok || eid.Name == "_" || !isErrorType(c.typeOf(eid)) {
				return true
			}
			pid, ok := as.Lhs[0].(*ast.Ident)
			if !ok || pid.Name == "_" {
				return true
			}
			if _, isPtr := c.typeOf(pid).Underlying().(*types.Pointer); !isPtr {
				return true
			}
			p, e := c.objOf(pid), c.objOf(eid)
			if p == nil || e == nil {
				return true
			}
			c.saw(fn)
			key := fn + ":" + pid.Name + "<-" + exprString(call.Fun)
			good, why := c.derefsGuarded(fd, as, p, e)
			c.ob(rule, key, as.Pos(), good, why)
			return true
		})
	}
}

func (c *Ctx) derefsGuarded(fd *ast.FuncDecl, def *ast.AssignStmt, p, e types.Object) (bool, string) {
	// the region of interest ends at the next assignment to p or to e (other than def itself)
	end := fd.Body.End()
	repaired := false
	ast.Inspect(fd.Body, func(n ast.Node) bool {
		as, ok := n.(*ast.AssignStmt)
		if !ok || as == def || as.Pos() < def.End() {
			return true
		}
		for _, l := range as.Lhs {
			if id, ok := l.(*ast.Ident); ok {
				if c.objOf(id) == p {
					// an assignment on the error path is a repair, any other one ends the region
					onErr := false
					for _, cl := range c.literalsAt(fd, as) {
						if isErrNonNil(c, cl, e) {
							onErr = true
						}
					}
					if onErr {
						repaired = true
					} else if as.Pos() < end {
						end = as.Pos()
					}
				} else if c.objOf(id) == e && as.Pos() < end {
					// err re-assigned: later tests speak about another call. Uses after this point are only
					// acceptable if they were already covered by a test of the first error.
					_ = id
				}
			}
		}
		return true
	})
	ok, why := true, ""
	ast.Inspect(fd.Body, func(n ast.Node) bool {
		var base ast.Expr
		switch x := n.(type) {
		case *ast.SelectorExpr:
			base = x.X
		case *ast.StarExpr:
			base = x.X
		default:
			return true
		}
		id, isId := unparen(base).(*ast.Ident)
		if !isId || c.objOf(id) != p || id.Pos() < def.End() || id.Pos() >= end {
			return true
		}
		if repaired {
			return true
		}
		for _, cl := range c.literalsAt(fd, n) {
			if isErrNil(c, cl, e) || isPtrNonNil(c, cl, p) {
				return true
			}
		}
		ok = false
		why = c.pos(n.Pos()) + ": " + id.Name + " is dereferenced where its error has not been tested: on failure this is a nil dereference (a panic instead of an error)"
		return true
	})
	return ok, why
}

func nilCmp(c *Ctx, cl condLit, o types.Object) (eq, ok bool) {
	be, isB := unparen(cl.e).(*ast.BinaryExpr)
	if !isB || be.Op != token.EQL && be.Op != token.NEQ {
		return false, false
	}
	var other ast.Expr
	if id, isId := unparen(be.X).(*ast.Ident); isId && c.objOf(id) == o {
		other = be.Y
	} else if id, isId := unparen(be.Y).(*ast.Ident); isId && c.objOf(id) == o {
		other = be.X
	} else {
		return false, false
	}
	if !isNilIdent(c, other) {
		return false, false
	}
	eq = be.Op == token.EQL
	if cl.neg {
		eq = !eq
	}
	return eq, true
}

func isErrNil(c *Ctx, cl condLit, e types.Object) bool {
	eq, ok := nilCmp(c, cl, e)
	return ok && eq
}

func isErrNonNil(c *Ctx, cl condLit, e types.Object) bool {
	eq, ok := nilCmp(c, cl, e)
	return ok && !eq
}

func isPtrNonNil(c *Ctx, cl condLit, p types.Object) bool {
	eq, ok := nilCmp(c, cl, p)
	return ok && !eq
}

// ---- cwd-at-call-time ----

// ruleCwdAtCallTime: relative root locations are taken against the working directory of the process at the time
// of the call (C11), and one call never sees state left by an earlier moment of the process (C16). The only
// readers of the working directory (os.Getwd, filepath.Abs) are therefore ordinary functions: not package-level
// initialisers, not init(), not functions that only run under sync.Once.
func ruleCwdAtCallTime(c *Ctx) {
	const rule = "cwd-at-call-time"
	isCwdRead := func(call *ast.CallExpr) string {
		switch {
		case c.isPkgFunc(call, "os", "Getwd"):
			return "os.Getwd"
		case c.isPkgFunc(call, "path/filepath", "Abs"):
			return "filepath.Abs"
		}
		return ""
	}
	// package-level initialisers
	for _, f := range c.Files {
		for _, d := range f.Decls {
			gd, ok := d.(*ast.GenDecl)
			if !ok || gd.Tok != token.VAR {
				continue
			}
			for _, sp := range gd.Specs {
				vs := sp.(*ast.ValueSpec)
				for _, v := range vs.Values {
					ast.Inspect(v, func(n ast.Node) bool {
						if call, ok := n.(*ast.CallExpr); ok {
							if what := isCwdRead(call); what != "" {
								c.ob(rule, "init("+vs.Names[0].Name+"):"+what, call.Pos(), false,
									"the working directory is captured once, when the package is initialised: a relative root location is no longer taken against the directory the process is in at the time of the call")
							}
						}
						return true
					})
				}
			}
		}
	}
	once := c.onceInitFuncs()
	initOnly := c.initOnlyFuncs()
	for _, fd := range c.allFuncDecls() {
		if fd.Body == nil {
			continue
		}
		fn := c.funcName(fd)
		f, _ := c.Info.Defs[fd.Name].(*types.Func)
		ast.Inspect(fd.Body, func(n ast.Node) bool {
			call, ok := n.(*ast.CallExpr)
			if !ok {
				return true
			}
			what := isCwdRead(call)
			if what == "" {
				return true
			}
			c.saw(fn)
			good := !(once[f] || fd.Recv == nil && initOnly[fd.Name.Name])
			c.ob(rule, fn+":"+what, call.Pos(), good,
				"the working directory is read by a function that only runs once per process (init or sync.Once): later calls keep using the directory the process was in then")
			return true
		})
	}
}

// ---- dispatch-admits-shortest ----

func ruleDispatchAdmitsShortest(c *Ctx) {
	const rule = "dispatch-admits-shortest"
	for _, fd := range c.reachableFrom("UnmarshalJSON") {
		fn := c.funcName(fd)
		ast.Inspect(fd.Body, func(n ast.Node) bool {
			ix, ok := n.(*ast.IndexExpr)
			if !ok {
				return true
			}
			sl, ok := c.typeOf(ix.X).Underlying().(*types.Slice)
			if !ok {
				return true
			}
			if b, ok := sl.Elem().Underlying().(*types.Basic); !ok || b.Kind() != types.Byte {
				return true
			}
			if tv, ok := c.Info.Types[ix.Index]; !ok || tv.Value == nil || tv.Value.String() != "0" {
				return true
			}
			c.saw(fn)
			base := exprString(unparen(ix.X))
			good, why := true, ""
			for _, cl := range c.literalsAt(fd, ix) {
				be, ok := unparen(cl.e).(*ast.BinaryExpr)
				if !ok {
					continue
				}
				call, ok := unparen(be.X).(*ast.CallExpr)
				if !ok || !c.isBuiltin(call, "len") || len(call.Args) != 1 || exprString(unparen(call.Args[0])) != base {
					continue
				}
				rv, ok := c.Info.Types[be.Y]
				if !ok || rv.Value == nil {
					continue
				}
				k, isInt := constInt(rv.Value.String())
				if !isInt {
					continue
				}
				op := be.Op
				if cl.neg {
					switch op {
					case token.GTR:
						op = token.LEQ
					case token.GEQ:
						op = token.LSS
					case token.LSS:
						op = token.GEQ
					case token.LEQ:
						op = token.GTR
					case token.EQL:
						op = token.NEQ
					case token.NEQ:
						op = token.EQL
					}
				}
				admits2 := true
				switch op {
				case token.GTR:
					admits2 = 2 > k
				case token.GEQ:
					admits2 = 2 >= k
				case token.LSS:
					admits2 = 2 < k
				case token.LEQ:
					admits2 = 2 <= k
				case token.EQL:
					admits2 = k == 2
				case token.NEQ:
					admits2 = k != 2
				}
				if !admits2 {
					good = false
					why = "the first byte is only looked at when " + exprString(cl.e) + ", which excludes the two-byte texts {} and []: an empty object or array is decoded as if nothing were there"
				}
			}
			c.ob(rule, fn+":"+exprString(ix), ix.Pos(), good, why)
			return true
		})
	}
}

// ---- absence-is-nil ----

func ruleAbsenceIsNil(c *Ctx) {
	const rule = "absence-is-nil"
	for _, fd := range c.allFuncDecls() {
		if fd.Recv == nil || fd.Body == nil || fd.Name.Name != "UnmarshalJSON" {
			continue
		}
		fn := c.funcName(fd)
		c.saw(fn)
		// locals filled by json.Unmarshal(_, &x)
		decoded := map[types.Object]bool{}
		ast.Inspect(fd.Body, func(n ast.Node) bool {
			call, ok := n.(*ast.CallExpr)
			if !ok || len(call.Args) != 2 {
				return true
			}
			if !c.isPkgFunc(call, "encoding/json", "Unmarshal") {
				return true
			}
			if u, ok := unparen(call.Args[1]).(*ast.UnaryExpr); ok && u.Op == token.AND {
				if id, ok := unparen(u.X).(*ast.Ident); ok {
					decoded[c.objOf(id)] = true
				}
			}
			return true
		})
		// variables bound by a type switch on a decoded value are decoded values too
		ast.Inspect(fd.Body, func(n ast.Node) bool {
			ts, ok := n.(*ast.TypeSwitchStmt)
			if !ok {
				return true
			}
			as, ok := ts.Assign.(*ast.AssignStmt)
			if !ok || len(as.Rhs) != 1 {
				return true
			}
			ta, ok := unparen(as.Rhs[0]).(*ast.TypeAssertExpr)
			if !ok {
				return true
			}
			if id, ok := unparen(ta.X).(*ast.Ident); ok && decoded[c.objOf(id)] {
				for _, cl := range ts.Body.List {
					if o := c.Info.Implicits[cl]; o != nil {
						decoded[o] = true
					}
				}
			}
			return true
		})
		// values picked out of a decoded value (m[k], v.(T), v.f) are decoded values too
		for changed := true; changed; {
			changed = false
			ast.Inspect(fd.Body, func(n ast.Node) bool {
				as, ok := n.(*ast.AssignStmt)
				if !ok || len(as.Rhs) != 1 {
					return true
				}
				src := unparen(as.Rhs[0])
				for {
					switch v := src.(type) {
					case *ast.IndexExpr:
						src = unparen(v.X)
						continue
					case *ast.TypeAssertExpr:
						src = unparen(v.X)
						continue
					case *ast.SelectorExpr:
						src = unparen(v.X)
						continue
					}
					break
				}
				rid, ok := src.(*ast.Ident)
				if !ok || !decoded[c.objOf(rid)] || src == unparen(as.Rhs[0]) {
					return true
				}
				if lid, ok := as.Lhs[0].(*ast.Ident); ok && lid.Name != "_" && c.objOf(lid) != nil && !decoded[c.objOf(lid)] {
					decoded[c.objOf(lid)] = true
					changed = true
				}
				return true
			})
		}
		isDecodedSubject := func(x ast.Expr) bool {
			for {
				switch v := unparen(x).(type) {
				case *ast.Ident:
					return decoded[c.objOf(v)]
				case *ast.SelectorExpr:
					x = v.X
				default:
					return false
				}
			}
		}
		good, why := true, ""
		recv := c.recvObj(fd)
		// (b) the receiver is filled only when the decoded value differs from a zero constant
		ast.Inspect(fd.Body, func(n ast.Node) bool {
			as, ok := n.(*ast.AssignStmt)
			if !ok {
				return true
			}
			writesRecv := false
			for _, l := range as.Lhs {
				if p, ok := c.apath(l); ok && p.Root == recv {
					writesRecv = true
				}
				if st, ok := unparen(l).(*ast.StarExpr); ok {
					if id, ok := unparen(st.X).(*ast.Ident); ok && c.objOf(id) == recv {
						writesRecv = true
					}
				}
			}
			if !writesRecv {
				return true
			}
			for _, cl := range c.literalsAt(fd, as) {
				be, ok := unparen(cl.e).(*ast.BinaryExpr)
				if !ok || !(be.Op == token.NEQ && !cl.neg || be.Op == token.EQL && cl.neg) {
					continue
				}
				x, y := unparen(be.X), unparen(be.Y)
				if tvx, isC := c.Info.Types[x]; isC && tvx.Value != nil {
					x, y = y, x
				}
				tv, ok := c.Info.Types[y]
				if !ok || tv.Value == nil || !isDecodedSubject(x) {
					continue
				}
				if zero := tv.Value.String(); zero == `""` || zero == "0" || zero == "false" {
					good = false
					why = c.pos(as.Pos()) + ": the receiver is only filled when " + exprString(cl.e) + ": a member that is present with the value " + zero + " is decoded as if it were absent"
				}
			}
			return true
		})
		ast.Inspect(fd.Body, func(n ast.Node) bool {
			rs, ok := n.(*ast.ReturnStmt)
			if !ok || len(rs.Results) != 1 || !isNilIdent(c, rs.Results[0]) {
				return true
			}
			var lits []condLit
			for _, cl := range c.literalsAt(fd, rs) {
				lits = append(lits, splitDisj(cl)...)
			}
			for _, cl := range lits {
				be, ok := unparen(cl.e).(*ast.BinaryExpr)
				if !ok || !(be.Op == token.EQL && !cl.neg || be.Op == token.NEQ && cl.neg) {
					continue
				}
				x, y := unparen(be.X), unparen(be.Y)
				if _, isConst := c.Info.Types[x]; isConst && c.Info.Types[x].Value != nil {
					x, y = y, x
				}
				tv, ok := c.Info.Types[y]
				if !ok || tv.Value == nil {
					continue
				}
				// len(v) == 0 counts like v == ""
				if call, ok := x.(*ast.CallExpr); ok && c.isBuiltin(call, "len") && len(call.Args) == 1 {
					x = unparen(call.Args[0])
				}
				if !isDecodedSubject(x) {
					continue
				}
				zero := tv.Value.String()
				if zero == `""` || zero == "0" || zero == "false" {
					good = false
					why = c.pos(rs.Pos()) + ": returns without storing anything when " + exprString(cl.e) + ": a member that is present with the value " + zero + " is decoded as if it were absent"
				}
			}
			return true
		})
		c.ob(rule, fn, fd.Pos(), good, why)
	}
}

// splitDisj lists the alternatives of a condition that holds as a disjunction: the target is reached when any
// one of them holds.
func splitDisj(cl condLit) []condLit {
	e := unparen(cl.e)
	if u, ok := e.(*ast.UnaryExpr); ok && u.Op == token.NOT {
		return splitDisj(condLit{e: u.X, neg: !cl.neg, recv: cl.recv})
	}
	if b, ok := e.(*ast.BinaryExpr); ok {
		if b.Op == token.LOR && !cl.neg || b.Op == token.LAND && cl.neg {
			return append(splitDisj(condLit{e: b.X, neg: cl.neg, recv: cl.recv}), splitDisj(condLit{e: b.Y, neg: cl.neg, recv: cl.recv})...)
		}
	}
	return []condLit{{e: e, neg: cl.neg, recv: cl.recv}}
}
