package main

import (
	"fmt"
	"go/ast"
	"go/constant"
	"go/token"
	"go/types"
	"sort"
	"strings"
)

func init() {
	registerRule("escape", 28, "no string or []byte reaches encoder output raw: only constants and results of json.Marshal / strconv quoting", ruleEscape)
	registerRule("fragment-disjoint", 30, "fragments concatenated by ConcatJSON cannot share a member name", ruleFragmentDisjoint)
	registerRule("map-order", 4, "a range over a map in encoder-reachable code only feeds another map or a slice sorted before use", ruleMapOrder)
	registerRule("total-order", 1, "sort comparators decide ties: every < on possibly-equal keys is guarded by an inequality test", ruleTotalOrder)
}

// encoderFuncs: methods named like the roots, closed under static package-internal
// callees and the sort.Interface methods of values handed to sort.Sort.
func (c *Ctx) reachableFrom(rootNames ...string) []*ast.FuncDecl {
	want := map[string]bool{}
	for _, r := range rootNames {
		want[r] = true
	}
	seen := map[*ast.FuncDecl]bool{}
	var work []*ast.FuncDecl
	for _, fd := range c.allFuncDecls() {
		if fd.Recv != nil && fd.Body != nil && want[fd.Name.Name] {
			seen[fd] = true
			work = append(work, fd)
		}
	}
	add := func(f *types.Func) {
		if fd := c.decl(f); fd != nil && fd.Body != nil && !seen[fd] {
			seen[fd] = true
			work = append(work, fd)
		}
	}
	for len(work) > 0 {
		fd := work[0]
		work = work[1:]
		ast.Inspect(fd.Body, func(n ast.Node) bool {
			call, ok := n.(*ast.CallExpr)
			if !ok {
				return true
			}
			if f, ok := c.callee(call).(*types.Func); ok && f.Pkg() == c.Types {
				add(f)
			}
			if (c.isPkgFunc(call, "sort", "Sort") || c.isPkgFunc(call, "sort", "Stable")) && len(call.Args) == 1 {
				if t := c.typeOf(call.Args[0]); t != nil {
					for _, m := range []string{"Less", "Len", "Swap"} {
						if f := hasMethod(derefType(t), m); f != nil && f.Pkg() == c.Types {
							add(f)
						}
					}
				}
			}
			return true
		})
	}
	var out []*ast.FuncDecl
	for fd := range seen {
		out = append(out, fd)
	}
	sort.Slice(out, func(i, j int) bool { return out[i].Pos() < out[j].Pos() })
	return out
}

// localDefs collects, per local variable, every expression assigned to it.
func (c *Ctx) localDefs(fd *ast.FuncDecl) map[types.Object][]ast.Expr {
	defs := map[types.Object][]ast.Expr{}
	ast.Inspect(fd.Body, func(n ast.Node) bool {
		switch s := n.(type) {
		case *ast.AssignStmt:
			if len(s.Lhs) == len(s.Rhs) {
				for i, l := range s.Lhs {
					if id, ok := l.(*ast.Ident); ok && id.Name != "_" {
						defs[c.objOf(id)] = append(defs[c.objOf(id)], s.Rhs[i])
					}
				}
			} else if len(s.Rhs) == 1 {
				if id, ok := s.Lhs[0].(*ast.Ident); ok && id.Name != "_" {
					defs[c.objOf(id)] = append(defs[c.objOf(id)], s.Rhs[0])
				}
			}
		case *ast.ValueSpec:
			for i, nm := range s.Names {
				if i < len(s.Values) {
					defs[c.objOf(nm)] = append(defs[c.objOf(nm)], s.Values[i])
				} else if len(s.Values) == 0 {
					defs[c.objOf(nm)] = append(defs[c.objOf(nm)], nil) // zero value
				}
			}
		}
		return true
	})
	return defs
}

// safeEncoded decides whether a string/[]byte expression is JSON-safe by
// construction: a constant, an encoder result, or a combination of those.
func (c *Ctx) safeEncoded(e ast.Expr, defs map[types.Object][]ast.Expr, depth int, bufOK func(types.Object) bool) (bool, string) {
	if e == nil {
		return true, ""
	}
	if depth > 6 {
		return false, "provenance chain too long"
	}
	e = unparen(e)
	if tv, ok := c.Info.Types[e]; ok && tv.Value != nil {
		return true, ""
	}
	if isNilIdent(c, e) {
		return true, ""
	}
	switch x := e.(type) {
	case *ast.IndexExpr:
		// an element of a local array/slice of encoded fragments: every element store of that variable is safe
		if id, ok := unparen(x.X).(*ast.Ident); ok {
			o := c.objOf(id)
			if v, isVar := o.(*types.Var); isVar && v.Parent() != c.Types.Scope() {
				if fd := c.funcContaining(x.Pos()); fd != nil {
					stores, allOK, why := 0, true, ""
					ast.Inspect(fd.Body, func(n ast.Node) bool {
						as, ok := n.(*ast.AssignStmt)
						if !ok || len(as.Lhs) != len(as.Rhs) {
							return true
						}
						for i, l := range as.Lhs {
							if ix, ok := unparen(l).(*ast.IndexExpr); ok {
								if lid, ok := unparen(ix.X).(*ast.Ident); ok && c.objOf(lid) == o {
									stores++
									if good, w := c.safeEncoded(as.Rhs[i], defs, depth+1, bufOK); !good {
										allOK, why = false, w
									}
								}
							}
						}
						return true
					})
					// the variable itself must start empty (declared without a value) or from safe values
					for _, d := range defs[o] {
						if d == nil {
							continue
						}
						if call, ok := unparen(d).(*ast.CallExpr); ok && c.isBuiltin(call, "make") {
							continue
						}
						// a table handed over by a helper (or built by append): every fragment in it must be an encoder result
						if good, w := c.safeEncoded(d, defs, depth+1, bufOK); good {
							stores++
							continue
						} else {
							allOK, why = false, "the fragment table "+id.Name+" is initialised from "+exprString(d)+": "+w
						}
					}
					if stores > 0 && allOK {
						return true, ""
					}
					if !allOK {
						return false, why
					}
				}
			}
		}
		return false, "element " + exprString(x) + " of a value that is not a local table of encoder results"
	case *ast.Ident:
		o := c.objOf(x)
		if v, ok := o.(*types.Var); ok && v.Parent() == c.Types.Scope() {
			// package-level table (jsTrue, jsFalse): initialised from a constant and never written
			return c.pkgVarConstBytes(v)
		}
		ds, ok := defs[o]
		if !ok || len(ds) == 0 {
			return false, "value of " + x.Name + " comes from outside the function (parameter or field)"
		}
		for _, d := range ds {
			// x = append(x, more...): only what is added matters
			if call, isCall := unparen(d).(*ast.CallExpr); isCall && c.isBuiltin(call, "append") && len(call.Args) > 0 {
				if fid, isId := unparen(call.Args[0]).(*ast.Ident); isId && c.objOf(fid) == o {
					for _, a := range call.Args[1:] {
						if ok, why := c.safeEncoded(a, defs, depth+1, bufOK); !ok {
							return false, why
						}
					}
					continue
				}
			}
			if ok, why := c.safeEncoded(d, defs, depth+1, bufOK); !ok {
				return false, why
			}
		}
		// a table of fragments ([][]byte, [N][]byte): what is stored into its elements counts too
		if c.isFragmentTable(o.Type()) {
			if fd := c.funcContaining(x.Pos()); fd != nil {
				ok, why := true, ""
				ast.Inspect(fd.Body, func(n ast.Node) bool {
					as, isA := n.(*ast.AssignStmt)
					if !isA || len(as.Lhs) != len(as.Rhs) {
						return true
					}
					for i, l := range as.Lhs {
						if ix, isIx := unparen(l).(*ast.IndexExpr); isIx {
							if lid, isId := unparen(ix.X).(*ast.Ident); isId && c.objOf(lid) == o {
								if good, w := c.safeEncoded(as.Rhs[i], defs, depth+1, bufOK); !good {
									ok, why = false, w
								}
							}
						}
					}
					return true
				})
				if !ok {
					return false, why
				}
			}
		}
		return true, ""
	case *ast.CallExpr:
		if c.isConversion(x) && len(x.Args) == 1 {
			return c.safeEncoded(x.Args[0], defs, depth+1, bufOK)
		}
		if c.isPkgFunc(x, "encoding/json", "Marshal") || c.isPkgFunc(x, "encoding/json", "MarshalIndent") {
			return true, ""
		}
		if c.isPkgFunc(x, "strconv", "Itoa") || c.isPkgFunc(x, "strconv", "FormatInt") || c.isPkgFunc(x, "strconv", "FormatBool") {
			return true, ""
		}
		if c.isPkgFunc(x, "strconv", "Quote") || c.isPkgFunc(x, "strconv", "AppendQuote") || c.isPkgFunc(x, "strconv", "QuoteToASCII") {
			return false, "strconv quoting produces Go string syntax (\\a, \\v, \\x7f), which is not JSON: only json.Marshal escapes member names correctly"
		}
		if _, name, _, ok := c.calleeMethod(x); ok && name == "MarshalJSON" {
			return true, ""
		}
		if c.isPkgFunc(x, "github.com/go-openapi/swag", "ConcatJSON") {
			for _, a := range x.Args {
				if ok, why := c.safeEncoded(a, defs, depth+1, bufOK); !ok {
					return false, why
				}
			}
			return true, ""
		}
		if c.isBuiltin(x, "append") {
			for _, a := range x.Args {
				if ok, why := c.safeEncoded(a, defs, depth+1, bufOK); !ok {
					return false, why
				}
			}
			return true, ""
		}
		if r, name, pkg, ok := c.calleeMethod(x); ok && (pkg == "bytes" && r == "Buffer" || pkg == "strings" && r == "Builder") && (name == "Bytes" || name == "String") {
			if se, ok := unparen(x.Fun).(*ast.SelectorExpr); ok {
				if id, ok := unparen(se.X).(*ast.Ident); ok && bufOK(c.objOf(id)) {
					return true, ""
				}
				// a buffer kept in a field of a small writer struct: safe iff every write to that field's buffer
				// anywhere in the encoder-reachable code is safe
				if fv := c.fieldOfSel(se.X); fv != nil {
					if why, bad := c.fieldBufferBad()[fv]; !bad {
						return true, ""
					} else {
						return false, why
					}
				}
			}
			return false, "buffer holds raw text"
		}
		// a package helper all of whose returned byte slices are encoder results
		if g, ok := c.callee(x).(*types.Func); ok && g.Pkg() == c.Types {
			if gfd := c.decl(g); gfd != nil && gfd.Body != nil {
				gdefs := c.localDefs(gfd)
				allOK, n, why := true, 0, ""
				ast.Inspect(gfd.Body, func(nd ast.Node) bool {
					if _, isLit := nd.(*ast.FuncLit); isLit {
						return false
					}
					rs, ok := nd.(*ast.ReturnStmt)
					if !ok || len(rs.Results) == 0 {
						return true
					}
					n++
					if good, w := c.safeEncoded(rs.Results[0], gdefs, depth+1, func(types.Object) bool { return false }); !good {
						allOK, why = false, w
					}
					return true
				})
				if allOK && n > 0 {
					return true, ""
				}
				if n > 0 {
					return false, why
				}
			}
		}
		if c.isBuiltin(x, "make") && len(x.Args) > 0 && c.isFragmentTable(c.typeOf(x)) {
			return true, "" // an empty table of fragments; its elements are checked where they are stored
		}
		// a call through a function value taken from a table of producers: every producer must be an encoder
		if _, static := c.callee(x).(*types.Func); !static && !c.isConversion(x) {
			if fd := c.funcContaining(x.Pos()); fd != nil && depth < 5 {
				vals, resolved := c.funcValuesOf(fd, x.Fun)
				if resolved && len(vals) > 0 {
					for _, fv := range vals {
						if good, w := c.producerIsEncoder(fv, depth+1); !good {
							return false, w
						}
					}
					return true, ""
				}
			}
		}
		return false, "result of " + exprString(x.Fun) + " is not an encoder"
	case *ast.BinaryExpr:
		if x.Op == token.ADD {
			if ok, why := c.safeEncoded(x.X, defs, depth+1, bufOK); !ok {
				return false, why
			}
			return c.safeEncoded(x.Y, defs, depth+1, bufOK)
		}
	case *ast.SliceExpr:
		return c.safeEncoded(x.X, defs, depth+1, bufOK)
	}
	if p, ok := c.apath(e); ok {
		return false, "raw value " + p.String() + " (a field, map key or parameter) is written without JSON escaping"
	}
	return false, "unrecognised expression " + exprString(e)
}

func (c *Ctx) pkgVarConstBytes(v *types.Var) (bool, string) {
	// initialiser must be a conversion of a constant; no function may assign it
	initOK := false
	for _, f := range c.Files {
		for _, d := range f.Decls {
			gd, ok := d.(*ast.GenDecl)
			if !ok {
				continue
			}
			for _, sp := range gd.Specs {
				vs, ok := sp.(*ast.ValueSpec)
				if !ok {
					continue
				}
				for i, nm := range vs.Names {
					if c.objOf(nm) == v && i < len(vs.Values) {
						if call, ok := unparen(vs.Values[i]).(*ast.CallExpr); ok && c.isConversion(call) && len(call.Args) == 1 {
							if tv, ok := c.Info.Types[call.Args[0]]; ok && tv.Value != nil {
								initOK = true
							}
						}
					}
				}
			}
		}
	}
	if !initOK {
		return false, "package variable " + v.Name() + " is not initialised from a constant"
	}
	written := false
	for _, fd := range c.allFuncDecls() {
		if fd.Body == nil {
			continue
		}
		ast.Inspect(fd.Body, func(n ast.Node) bool {
			if as, ok := n.(*ast.AssignStmt); ok {
				for _, l := range as.Lhs {
					if p, ok := c.apath(l); ok && p.Root == v {
						written = true
					}
				}
			}
			return true
		})
	}
	if written {
		return false, "package variable " + v.Name() + " is written at run time"
	}
	return true, ""
}

func isBufferWrite(pkg, recv, name string) bool {
	if !(pkg == "bytes" && recv == "Buffer" || pkg == "strings" && recv == "Builder") {
		return false
	}
	switch name {
	case "WriteString", "Write", "WriteByte", "WriteRune":
		return true
	}
	return false
}

func ruleEscape(c *Ctx) {
	const rule = "escape"
	for _, fd := range c.reachableFrom("MarshalJSON") {
		fn := c.funcName(fd)
		c.saw(fn)
		defs := c.localDefs(fd)
		// buffers: all writes safe?
		bufBad := map[types.Object]string{}
		writes := 0
		var bufOK func(o types.Object) bool
		bufOK = func(o types.Object) bool { _, bad := bufBad[o]; return !bad }
		ast.Inspect(fd.Body, func(n ast.Node) bool {
			call, ok := n.(*ast.CallExpr)
			if !ok {
				return true
			}
			r, name, pkg, isM := c.calleeMethod(call)
			if isM && isBufferWrite(pkg, r, name) && len(call.Args) == 1 {
				writes++
				se := unparen(call.Fun).(*ast.SelectorExpr)
				var bo types.Object
				if id, ok := unparen(se.X).(*ast.Ident); ok {
					bo = c.objOf(id)
				}
				ok, why := c.safeEncoded(call.Args[0], defs, 0, bufOK)
				key := fmt.Sprintf("%s:write(%s)", fn, exprString(call.Args[0]))
				c.ob(rule, key, call.Pos(), ok, why)
				if !ok && bo != nil {
					bufBad[bo] = why
				}
			}
			if c.isPkgFunc(call, "fmt", "Fprintf") || c.isPkgFunc(call, "fmt", "Fprint") || c.isPkgFunc(call, "fmt", "Fprintln") {
				c.ob(rule, fn+":fprintf", call.Pos(), false, "formatted printing into encoder output does not escape JSON strings")
			}
			return true
		})
		// returned bytes of encoders
		if fd.Name.Name == "MarshalJSON" {
			ok, why := true, ""
			ast.Inspect(fd.Body, func(n ast.Node) bool {
				if _, isLit := n.(*ast.FuncLit); isLit {
					return false
				}
				rs, isR := n.(*ast.ReturnStmt)
				if !isR || len(rs.Results) == 0 {
					return true
				}
				res := rs.Results[0]
				if call, isCall := unparen(res).(*ast.CallExpr); isCall && len(rs.Results) == 1 {
					// return json.Marshal(x) / return r.Ref.MarshalJSON()
					if good, w := c.safeEncoded(call, defs, 0, bufOK); !good {
						ok, why = false, w
					}
					return true
				}
				if good, w := c.safeEncoded(res, defs, 0, bufOK); !good {
					ok, why = false, w
				}
				return true
			})
			c.ob(rule, fn+":returned-bytes", fd.Pos(), ok, why)
		}
	}
}

// ---- fragment-disjoint ----

func (c *Ctx) enclosingIfs(fd *ast.FuncDecl, target ast.Node) []*ast.IfStmt {
	var out []*ast.IfStmt
	c.walkWithIfStack(fd.Body, func(n ast.Node, ifs []*ast.IfStmt) {
		if n == target {
			out = append([]*ast.IfStmt{}, ifs...)
		}
	})
	return out
}

// prefixFilter finds strings.HasPrefix(<expr>, "<const>") in a condition; lowered reports
// whether the tested value went through strings.ToLower.
func (c *Ctx) prefixFilter(fd *ast.FuncDecl, cond ast.Expr) (prefix string, lowered bool, found bool) {
	return c.prefixFilterD(fd, cond, 0)
}

func (c *Ctx) prefixFilterD(fd *ast.FuncDecl, cond ast.Expr, depth int) (prefix string, lowered bool, found bool) {
	defs := c.localDefs(fd)
	ast.Inspect(cond, func(n ast.Node) bool {
		call, ok := n.(*ast.CallExpr)
		if ok && depth < 2 {
			// a package predicate over the key whose body is one return statement
			if g, isF := c.callee(call).(*types.Func); isF && g.Pkg() == c.Types {
				if gfd := c.decl(g); gfd != nil && gfd.Body != nil && len(gfd.Body.List) >= 1 {
					// (constant declarations may precede the return)
					onlyConsts := true
					for _, st := range gfd.Body.List[:len(gfd.Body.List)-1] {
						ds, isDecl := st.(*ast.DeclStmt)
						if !isDecl {
							onlyConsts = false
							break
						}
						if gd, isGen := ds.Decl.(*ast.GenDecl); !isGen || gd.Tok != token.CONST {
							onlyConsts = false
						}
					}
					if rs, isR := gfd.Body.List[len(gfd.Body.List)-1].(*ast.ReturnStmt); isR && len(rs.Results) == 1 && onlyConsts {
						if p, l, f := c.prefixFilterD(gfd, rs.Results[0], depth+1); f {
							prefix, lowered, found = p, l, true
						}
					}
				}
			}
		}
		// the case-insensitive spelling: strings.EqualFold(name[:len(K)], K) (its length test is codec-no-panic's business)
		if ok && c.isPkgFunc(call, "strings", "EqualFold") && len(call.Args) == 2 {
			for _, pr := range [][2]ast.Expr{{call.Args[0], call.Args[1]}, {call.Args[1], call.Args[0]}} {
				k, isConst := c.constString(pr[1])
				sl, isSlice := unparen(pr[0]).(*ast.SliceExpr)
				if !isConst || !isSlice || sl.Low != nil || sl.High == nil {
					continue
				}
				if tv, has := c.Info.Types[sl.High]; has && tv.Value != nil && tv.Value.String() == fmt.Sprint(len(k)) {
					prefix, lowered, found = strings.ToLower(k), true, true
					// the length test that makes the slice safe must not exclude the key that is exactly the
					// prefix: len(name) > len(K) is not "name starts with K"
					if c.lenGuardExcludesExact(cond, sl.X, len(k)) {
						found = false
					}
				}
			}
			return true
		}
		if !ok || !c.isPkgFunc(call, "strings", "HasPrefix") || len(call.Args) != 2 {
			return true
		}
		s, ok := c.constString(call.Args[1])
		if !ok {
			return true
		}
		prefix, found = s, true
		arg := unparen(call.Args[0])
		if id, ok := arg.(*ast.Ident); ok {
			for _, d := range defs[c.objOf(id)] {
				if dc, ok := unparen(d).(*ast.CallExpr); ok && c.isPkgFunc(dc, "strings", "ToLower") {
					lowered = true
				}
			}
		}
		if dc, ok := arg.(*ast.CallExpr); ok && c.isPkgFunc(dc, "strings", "ToLower") {
			lowered = true
		}
		return true
	})
	return
}

// lenGuardExcludesExact: does cond contain a test len(x) > n (or len(x) >= n+1, n < len(x), ...) on the sliced
// operand, which is false for a value of exactly n bytes?
func (c *Ctx) lenGuardExcludesExact(cond ast.Expr, x ast.Expr, n int) bool {
	excl := false
	isLenOf := func(e ast.Expr) bool {
		call, ok := unparen(e).(*ast.CallExpr)
		return ok && c.isBuiltin(call, "len") && len(call.Args) == 1 && exprString(call.Args[0]) == exprString(x)
	}
	intOf := func(e ast.Expr) (int, bool) {
		if tv, ok := c.Info.Types[e]; ok && tv.Value != nil && tv.Value.Kind() == constant.Int {
			if v, exact := constant.Int64Val(tv.Value); exact {
				return int(v), true
			}
		}
		return 0, false
	}
	ast.Inspect(cond, func(nd ast.Node) bool {
		be, ok := nd.(*ast.BinaryExpr)
		if !ok {
			return true
		}
		l, r, op := be.X, be.Y, be.Op
		if isLenOf(r) {
			// mirror: k < len(x)  ==  len(x) > k
			l, r = r, l
			op = map[token.Token]token.Token{token.LSS: token.GTR, token.LEQ: token.GEQ, token.GTR: token.LSS, token.GEQ: token.LEQ}[op]
		}
		if !isLenOf(l) {
			return true
		}
		k, isInt := intOf(r)
		if !isInt {
			return true
		}
		if op == token.GTR && k >= n || op == token.GEQ && k > n {
			excl = true
		}
		return true
	})
	return excl
}

func ruleFragmentDisjoint(c *Ctx) {
	const rule = "fragment-disjoint"
	reserved := []string{"x-", "/"}
	for _, k := range c.codecKinds() {
		fd := c.decl(k.Marshal)
		if fd == nil {
			continue
		}
		usesConcat := false
		ast.Inspect(fd.Body, func(n ast.Node) bool {
			if call, ok := n.(*ast.CallExpr); ok && c.isPkgFunc(call, "github.com/go-openapi/swag", "ConcatJSON") {
				usesConcat = true
			}
			return true
		})
		if !usesConcat {
			continue
		}
		c.saw(c.funcName(fd))
		cs := c.codecSetsOf(k)
		owner := map[string]string{}
		var clashes, badNames []string
		hasRef := false
		for i := 0; i < k.Struct.NumFields(); i++ {
			f := k.Struct.Field(i)
			if !coversComponent(cs.M, f.Name()) {
				continue
			}
			ft := derefType(f.Type())
			fn, _ := types.Unalias(ft).(*types.Named)
			if fn != nil && fn.Obj().Name() == "Refable" {
				hasRef = true
				if o, dup := owner["$ref"]; dup {
					clashes = append(clashes, fmt.Sprintf("$ref in %s and %s", o, f.Name()))
				}
				owner["$ref"] = f.Name()
				continue
			}
			if _, isSt := ft.Underlying().(*types.Struct); !isSt {
				continue
			}
			if fn != nil && declaredMethod(fn, "UnmarshalJSON") != nil {
				continue // coded component: filtered maps, checked below
			}
			for _, jf := range jsonFields(ft) {
				if o, dup := owner[jf.Name]; dup {
					clashes = append(clashes, fmt.Sprintf("%q in %s and %s", jf.Name, o, f.Name()))
				}
				owner[jf.Name] = f.Name()
				for _, r := range reserved {
					if strings.HasPrefix(strings.ToLower(jf.Name), r) {
						badNames = append(badNames, jf.Name)
					}
				}
			}
			for _, h := range hiddenCodedFields(ft.Underlying().(*types.Struct)) {
				nm := map[string]string{"Ref": "$ref", "Schema": "$schema"}[h.Name()]
				if nm != "" {
					if o, dup := owner[nm]; dup {
						clashes = append(clashes, fmt.Sprintf("%q in %s and %s", nm, o, f.Name()))
					}
					owner[nm] = f.Name()
				}
			}
		}
		_ = hasRef
		c.ob(rule, k.Name+":tag-sets-disjoint", fd.Pos(), len(clashes) == 0, fmt.Sprintf("the same member name is emitted by two fragments of one object: %v", clashes))
		c.ob(rule, k.Name+":no-reserved-prefix", fd.Pos(), len(badNames) == 0, fmt.Sprintf("tagged member names %v collide with the x- / path key space", badNames))
	}

	// user-keyed maps are emitted through a constant-prefix filter
	type filt struct {
		typ, want string
		lower     bool
	}
	for _, fl := range []filt{{"VendorExtensible", "x-", true}, {"Paths", "/", false}} {
		fd := c.decl(c.method(fl.typ, "MarshalJSON"))
		if fd == nil {
			c.undecided(rule, fl.typ+".MarshalJSON:key-filter", token.NoPos, "encoder not found")
			continue
		}
		c.saw(c.funcName(fd))
		if ok, why, decided := c.keyFilterBySim(fd, fl.want, fl.lower); decided {
			c.ob(rule, fl.typ+".MarshalJSON:key-filter", fd.Pos(), ok, why)
			continue
		}
		recv := c.recvObj(fd)
		stores, guarded := 0, 0
		why := ""
		ast.Inspect(fd.Body, func(n ast.Node) bool {
			rs, ok := n.(*ast.RangeStmt)
			if !ok {
				return true
			}
			p, ok := c.apath(rs.X)
			if !ok || p.Root != recv {
				return true
			}
			if _, isMap := c.typeOf(rs.X).Underlying().(*types.Map); !isMap {
				return true
			}
			ast.Inspect(rs.Body, func(m ast.Node) bool {
				as, ok := m.(*ast.AssignStmt)
				if !ok {
					return true
				}
				for _, l := range as.Lhs {
					if _, isIx := unparen(l).(*ast.IndexExpr); !isIx {
						continue
					}
					stores++
					okStore := false
					for _, cl := range c.literalsAt(fd, as) {
						if cl.neg || cl.e.Pos() < rs.Pos() {
							continue
						}
						pre, low, found := c.prefixFilter(fd, cl.e)
						if found && pre == fl.want && (low || !fl.lower) {
							okStore = true
						}
					}
					if okStore {
						guarded++
					} else {
						why = fmt.Sprintf("a key of the user-supplied map is emitted without the %q prefix test: it can collide with a tagged member of the same object", fl.want)
					}
				}
				return true
			})
			return true
		})
		if stores == 0 {
			why = "the encoder no longer builds a filtered copy of the user-keyed map"
		}
		c.ob(rule, fl.typ+".MarshalJSON:key-filter", fd.Pos(), stores > 0 && stores == guarded, why)
	}

	// Schema.ExtraProps: only written by Schema.UnmarshalJSON (or a helper only it calls), after every tagged name
	// has been removed and with x- keys routed away
	storesExtra := func(fd *ast.FuncDecl) []*ast.AssignStmt {
		var out []*ast.AssignStmt
		ast.Inspect(fd.Body, func(n ast.Node) bool {
			if as, ok := n.(*ast.AssignStmt); ok {
				for _, l := range as.Lhs {
					if p, ok := c.apath(l); ok && len(p.Steps) >= 2 && p.Steps[len(p.Steps)-2] == "ExtraProps" {
						out = append(out, as)
					}
				}
			}
			return true
		})
		return out
	}
	u := c.decl(c.method("Schema", "UnmarshalJSON"))
	var uf *types.Func
	if u != nil {
		uf, _ = c.Info.Defs[u.Name].(*types.Func)
	}
	ownedByDecoder := func(fd *ast.FuncDecl) bool {
		if fd == u {
			return true
		}
		self, _ := c.Info.Defs[fd.Name].(*types.Func)
		if self == nil || self.Exported() {
			return false
		}
		n, ok := 0, true
		for _, g := range c.pkgFuncs() {
			for _, h := range c.staticCallees(g) {
				if h == self {
					n++
					if g != uf {
						ok = false
					}
				}
			}
		}
		return ok && n > 0
	}
	var writers, badWriters []string
	var storeFuncs []*ast.FuncDecl
	for _, fd := range c.allFuncDecls() {
		if fd.Body == nil || len(storesExtra(fd)) == 0 {
			continue
		}
		writers = append(writers, c.funcName(fd))
		storeFuncs = append(storeFuncs, fd)
		if !ownedByDecoder(fd) {
			badWriters = append(badWriters, c.funcName(fd))
		}
	}
	// ExtraProps assigned as a whole from a result of an owned helper that partitions the generic map: the
	// stores into the map that helper returns are the fills
	type extraFill struct {
		fd *ast.FuncDecl
		as *ast.AssignStmt
	}
	var helperFills []extraFill
	var helperGenMap types.Object
	helperPos := token.NoPos
	if u != nil {
		ast.Inspect(u.Body, func(n ast.Node) bool {
			as, ok := n.(*ast.AssignStmt)
			if !ok || len(as.Rhs) != 1 {
				return true
			}
			call, ok := unparen(as.Rhs[0]).(*ast.CallExpr)
			if !ok {
				return true
			}
			g, _ := c.callee(call).(*types.Func)
			if g == nil || g.Pkg() != c.Types {
				return true
			}
			gfd := c.decl(g)
			if gfd == nil || gfd.Body == nil || !ownedByDecoder(gfd) {
				return true
			}
			for i, l := range as.Lhs {
				p, ok := c.apath(l)
				if !ok || len(p.Steps) == 0 || lastStep(p) != "ExtraProps" {
					continue
				}
				resIdx := 0
				if len(as.Lhs) > 1 {
					resIdx = i
				}
				var ret types.Object
				consistent := true
				ast.Inspect(gfd.Body, func(m ast.Node) bool {
					if _, isLit := m.(*ast.FuncLit); isLit {
						return false
					}
					if rs, ok := m.(*ast.ReturnStmt); ok && resIdx < len(rs.Results) {
						id, isId := unparen(rs.Results[resIdx]).(*ast.Ident)
						if !isId || isNilIdent(c, rs.Results[resIdx]) {
							if !isNilIdent(c, rs.Results[resIdx]) {
								consistent = false
							}
							return true
						}
						if ret == nil {
							ret = c.objOf(id)
						} else if ret != c.objOf(id) {
							consistent = false
						}
					}
					return true
				})
				if ret == nil || !consistent {
					continue
				}
				ast.Inspect(gfd.Body, func(m ast.Node) bool {
					rs, ok := m.(*ast.RangeStmt)
					if !ok {
						return true
					}
					has := false
					ast.Inspect(rs.Body, func(k ast.Node) bool {
						if a2, ok := k.(*ast.AssignStmt); ok {
							for _, l2 := range a2.Lhs {
								if ix, ok := unparen(l2).(*ast.IndexExpr); ok {
									if id, ok := unparen(ix.X).(*ast.Ident); ok && c.objOf(id) == ret {
										helperFills = append(helperFills, extraFill{gfd, a2})
										has = true
									}
								}
							}
						}
						return true
					})
					if has {
						if id, ok := unparen(rs.X).(*ast.Ident); ok {
							if pi := c.paramIndex(gfd, c.objOf(id)); pi >= 0 && pi < len(call.Args) {
								if aid, ok := unparen(call.Args[pi]).(*ast.Ident); ok {
									helperGenMap = c.objOf(aid)
									helperPos = call.Pos()
								}
							}
						}
					}
					return true
				})
			}
			return true
		})
		if len(helperFills) > 0 && helperGenMap != nil {
			writers = append(writers, c.funcName(u)+"(via helper)")
		}
	}
	c.ob(rule, "Schema.ExtraProps:writers", token.NoPos, len(writers) > 0 && len(badWriters) == 0, fmt.Sprintf("ExtraProps is written by %v; only Schema.UnmarshalJSON (and helpers of its own) filter its keys", badWriters))
	simDecided := false
	if u != nil {
		if ef, ok := c.extraFillBySim(u); ok {
			// decided on the effect normal form of the decoder: at every store into the map that ends up in ExtraProps
			// the key is known to be none of the hand-coded members, none of the tagged names and not an x- key
			// (deleted from the generic map before the walk, or excluded by a membership test in a set that holds it)
			simDecided = true
			c.saw(c.funcName(u))
			for _, k := range []struct {
				name string
				ok   bool
			}{{"$ref", ef.refOK}, {"$schema", ef.schemaOK}} {
				c.ob(rule, "Schema.UnmarshalJSON:deletes("+k.name+")", u.Pos(), k.ok,
					"the hand-coded member is not removed from the generic map before the rest is parked in ExtraProps: it is emitted twice (its own fragment and the ExtraProps fragment)")
			}
			c.ob(rule, "Schema.UnmarshalJSON:deletes-tagged-names", u.Pos(), ef.taggedOK,
				"every tagged member name of Schema must be deleted from the generic map before the rest is parked in ExtraProps, or a keyword is emitted twice")
			c.ob(rule, "Schema.UnmarshalJSON:x-routing", ef.firstPos, ef.xroutedOK,
				"x- keys must be routed to Extensions and skipped, or they are emitted twice (extensions fragment and ExtraProps fragment)")
		}
	}
	if u != nil && !simDecided {
		c.saw(c.funcName(u))
		// the loop over the generic map that (directly or through an owned helper) fills ExtraProps
		var genMap types.Object
		var fillLoop *ast.RangeStmt
		ast.Inspect(u.Body, func(n ast.Node) bool {
			rs, ok := n.(*ast.RangeStmt)
			if !ok {
				return true
			}
			if _, isMap := c.typeOf(rs.X).Underlying().(*types.Map); !isMap {
				return true
			}
			fills := false
			ast.Inspect(rs.Body, func(m ast.Node) bool {
				switch x := m.(type) {
				case *ast.AssignStmt:
					for _, l := range x.Lhs {
						if p, ok := c.apath(l); ok && len(p.Steps) >= 2 && p.Steps[len(p.Steps)-2] == "ExtraProps" {
							fills = true
						}
					}
				case *ast.CallExpr:
					if g, ok := c.callee(x).(*types.Func); ok && g.Pkg() == c.Types {
						for _, sf := range storeFuncs {
							if c.decl(g) == sf {
								fills = true
							}
						}
					}
				}
				return true
			})
			if fills {
				fillLoop = rs
				if id, ok := unparen(rs.X).(*ast.Ident); ok {
					genMap = c.objOf(id)
				}
			}
			return true
		})
		fillPos := token.NoPos
		if fillLoop != nil && genMap != nil {
			fillPos = fillLoop.Pos()
		} else if len(helperFills) > 0 && helperGenMap != nil {
			genMap, fillPos = helperGenMap, helperPos
		}
		// the same facts gathered through the functions and methods the generic map is handed to
		ev := c.schemaDecoderEvents()
		viaEvents := false
		if fillPos == token.NoPos && ev.found && len(ev.fills) > 0 {
			viaEvents = true
			fillPos = ev.fills[0].pos
			for _, fl := range ev.fills {
				if fl.pos < fillPos {
					fillPos = fl.pos
				}
				helperFills = append(helperFills, extraFill{fl.fd, fl.as})
			}
		}
		if fillPos == token.NoPos {
			c.undecided(rule, "Schema.UnmarshalJSON:fill-loop", u.Pos(), "cannot find the loop that fills ExtraProps from the generic map")
		} else {
			delAll := viaEvents && ev.delTagged.IsValid() && ev.delTagged < fillPos
			ast.Inspect(u.Body, func(n ast.Node) bool {
				rs, ok := n.(*ast.RangeStmt)
				if !ok || rs.Pos() > fillPos {
					return true
				}
				call, ok := unparen(rs.X).(*ast.CallExpr)
				if !ok {
					return true
				}
				_, name, pkg, isM := c.calleeMethod(call)
				if !isM || name != "GetJSONNames" || pkg != "github.com/go-openapi/swag" || len(call.Args) != 1 {
					return true
				}
				at := c.typeOf(call.Args[0])
				if at == nil || typeNameOf(derefType(at)) != "Schema" {
					return true
				}
				v, _ := rs.Value.(*ast.Ident)
				ast.Inspect(rs.Body, func(m ast.Node) bool {
					if dc, ok := m.(*ast.CallExpr); ok && c.isBuiltin(dc, "delete") && len(dc.Args) == 2 {
						m0, ok0 := unparen(dc.Args[0]).(*ast.Ident)
						k0, ok1 := unparen(dc.Args[1]).(*ast.Ident)
						if ok0 && ok1 && v != nil && c.objOf(m0) == genMap && c.objOf(k0) == c.objOf(v) {
							delAll = true
						}
					}
					return true
				})
				return true
			})
			handDeleted := map[string]bool{}
			ast.Inspect(u.Body, func(n ast.Node) bool {
				if dc, ok := n.(*ast.CallExpr); ok && c.isBuiltin(dc, "delete") && len(dc.Args) == 2 && dc.Pos() < fillPos {
					if m0, ok := unparen(dc.Args[0]).(*ast.Ident); ok && c.objOf(m0) == genMap {
						if k, ok := c.constString(dc.Args[1]); ok {
							handDeleted[k] = true
						}
					}
				}
				return true
			})
			if viaEvents {
				for k, p := range ev.delConst {
					if p < fillPos {
						handDeleted[k] = true
					}
				}
			}
			for _, k := range []string{"$ref", "$schema"} {
				c.ob(rule, "Schema.UnmarshalJSON:deletes("+k+")", u.Pos(), handDeleted[k],
					"the hand-coded member is not removed from the generic map before the rest is parked in ExtraProps: it is emitted twice (its own fragment and the ExtraProps fragment)")
			}
			c.ob(rule, "Schema.UnmarshalJSON:deletes-tagged-names", u.Pos(), delAll,
				"every tagged member name of Schema must be deleted from the generic map before the rest is parked in ExtraProps, or a keyword is emitted twice")
			// at every ExtraProps store (in the loop or in the owned helper) the key is known not to be an x- key
			routed, nstores := true, 0
			var fills []extraFill
			for _, sf := range storeFuncs {
				for _, as := range storesExtra(sf) {
					fills = append(fills, extraFill{sf, as})
				}
			}
			fills = append(fills, helperFills...)
			for _, fl := range fills {
				nstores++
				excluded := false
				for _, cl := range c.literalsAt(fl.fd, fl.as) {
					pre, low, found := c.prefixFilter(fl.fd, cl.e)
					if found && pre == "x-" && low && cl.neg {
						excluded = true
					}
				}
				if !excluded {
					routed = false
				}
			}
			routed = routed && nstores > 0
			c.ob(rule, "Schema.UnmarshalJSON:x-routing", fillPos, routed,
				"x- keys must be routed to Extensions and skipped, or they are emitted twice (extensions fragment and ExtraProps fragment)")
		}
	}
}

// ---- map-order ----

func ruleMapOrder(c *Ctx) {
	const rule = "map-order"
	for _, fd := range c.reachableFrom("MarshalJSON", "GobEncode") {
		fn := c.funcName(fd)
		n := 0
		ast.Inspect(fd.Body, func(nd ast.Node) bool {
			rs, ok := nd.(*ast.RangeStmt)
			if !ok {
				return true
			}
			t := c.typeOf(rs.X)
			if t == nil {
				return true
			}
			if _, isMap := t.Underlying().(*types.Map); !isMap {
				return true
			}
			n++
			c.saw(fn)
			key := fmt.Sprintf("%s:range(%s)", fn, exprString(rs.X))
			ok2, why := true, ""
			// effects in the body
			ast.Inspect(rs.Body, func(m ast.Node) bool {
				switch s := m.(type) {
				case *ast.AssignStmt:
					for i, l := range s.Lhs {
						l = unparen(l)
						if ix, isIx := l.(*ast.IndexExpr); isIx {
							if _, isMap := c.typeOf(ix.X).Underlying().(*types.Map); isMap {
								continue // insertion into a map: encoding/json sorts keys
							}
							ok2, why = false, "writes slice elements in map iteration order"
							continue
						}
						id, isId := l.(*ast.Ident)
						if !isId {
							ok2, why = false, "stores through "+exprString(l)+" in map iteration order"
							continue
						}
						if s.Tok == token.DEFINE {
							continue // loop-local
						}
						// x = append(x, ...): the slice must be sorted after the loop
						if len(s.Rhs) > i {
							if call, isCall := unparen(s.Rhs[i]).(*ast.CallExpr); isCall && c.isBuiltin(call, "append") {
								if !c.sortedAfter(fd, c.objOf(id), rs.End()) {
									ok2, why = false, "slice "+id.Name+" is filled in map iteration order and not sorted before use"
								}
								continue
							}
						}
						if o := c.objOf(id); o != nil && o.Pos() > rs.Body.Pos() {
							continue // declared inside the loop
						}
						// a flag: every assignment to it inside the loop stores the same constant, so the outcome does
						// not depend on the order in which the entries come
						if len(s.Rhs) > i {
							if tv, isConst := c.Info.Types[s.Rhs[i]]; isConst && tv.Value != nil {
								same := true
								ast.Inspect(rs.Body, func(m ast.Node) bool {
									as2, isAs := m.(*ast.AssignStmt)
									if !isAs {
										return true
									}
									for j, l2 := range as2.Lhs {
										if id2, isId := unparen(l2).(*ast.Ident); isId && c.objOf(id2) == c.objOf(id) {
											if j >= len(as2.Rhs) {
												same = false
												continue
											}
											tv2, isC2 := c.Info.Types[as2.Rhs[j]]
											if !isC2 || tv2.Value == nil || tv2.Value.ExactString() != tv.Value.ExactString() {
												same = false
											}
										}
									}
									return true
								})
								if same {
									continue
								}
							}
						}
						ok2, why = false, "assigns "+id.Name+" in map iteration order"
					}
				case *ast.CallExpr:
					r, name, pkg, isM := c.calleeMethod(s)
					if isM && isBufferWrite(pkg, r, name) {
						ok2, why = false, "writes output in map iteration order"
					}
				}
				return true
			})
			c.ob(rule, key, rs.Pos(), ok2, why)
			return true
		})
	}
}

// sortedAfter: a sort.* call on the object occurs after pos in the function.
func (c *Ctx) sortedAfter(fd *ast.FuncDecl, o types.Object, after token.Pos) bool {
	found := false
	ast.Inspect(fd.Body, func(n ast.Node) bool {
		call, ok := n.(*ast.CallExpr)
		if !ok || call.Pos() < after || len(call.Args) == 0 {
			return true
		}
		f, ok := c.callee(call).(*types.Func)
		if !ok || f.Pkg() == nil || f.Pkg().Path() != "sort" {
			return true
		}
		if id, ok := unparen(call.Args[0]).(*ast.Ident); ok && c.objOf(id) == o {
			found = true
		}
		return true
	})
	return found
}

// ---- total-order ----

func ruleTotalOrder(c *Ctx) {
	const rule = "total-order"
	for _, fd := range c.reachableFrom("MarshalJSON", "GobEncode") {
		if fd.Recv == nil || fd.Name.Name != "Less" {
			continue
		}
		fn := c.funcName(fd)
		c.saw(fn)
		recv := c.recvObj(fd)
		uniqueField := c.uniqueKeyFields(c.recvTypeOf(fd))
		// decided on the effect normal form whenever the comparator is in the supported fragment
		if decided, good, why := c.totalOrderBySim(fd, uniqueField); decided {
			c.ob(rule, fn+":ties-broken", fd.Pos(), good, why)
			continue
		}
		ocLess := c.newOriginCtx(fd)
		isUniqueKeyPair := func(x, y ast.Expr) bool {
			px, okx := c.apath(x)
			py, oky := c.apath(y)
			if okx && oky && px.Root == recv && py.Root == recv && len(px.Steps) > 0 && lastStep(px) == lastStep(py) && uniqueField[lastStep(px)] {
				return true
			}
			// through local aliases of the two elements (left, right := &items[i], &items[j])
			last := func(e ast.Expr) (string, bool) {
				for _, o := range ocLess.origins(e, 0) {
					if o.root == recv && len(o.steps) > 0 {
						return o.steps[len(o.steps)-1], true
					}
				}
				return "", false
			}
			lx, okx2 := last(x)
			ly, oky2 := last(y)
			return okx2 && oky2 && lx == ly && uniqueField[lx]
		}
		isOrderOp := func(op token.Token) bool {
			return op == token.LSS || op == token.GTR || op == token.LEQ || op == token.GEQ
		}
		// result variable of a named result (assignments to it count like returns)
		var named types.Object
		if fd.Type.Results != nil && len(fd.Type.Results.List) == 1 && len(fd.Type.Results.List[0].Names) == 1 {
			named = c.objOf(fd.Type.Results.List[0].Names[0])
		}
		var check func(node ast.Node, e ast.Expr, ifs []*ast.IfStmt)
		check = func(node ast.Node, e ast.Expr, ifs []*ast.IfStmt) {
			e = unparen(e)
			if tv, ok := c.Info.Types[e]; ok && tv.Value != nil {
				return // constant answer (has-order before no-order)
			}
			if id, ok := e.(*ast.Ident); ok && named != nil && c.objOf(id) == named {
				return
			}
			key := fmt.Sprintf("%s:%s", fn, exprString(e))
			switch x := e.(type) {
			case *ast.BinaryExpr:
				if !isOrderOp(x.Op) {
					c.ob(rule, key, node.Pos(), false, "comparator answers with an expression the rule cannot classify")
					return
				}
				if isUniqueKeyPair(x.X, x.Y) {
					c.ob(rule, key, node.Pos(), true, "")
					return
				}
				guarded := false
				sameOperands := func(ce ast.Expr, op token.Token) bool {
					b, ok := unparen(ce).(*ast.BinaryExpr)
					if !ok || b.Op != op {
						return false
					}
					a1, a2 := exprString(b.X), exprString(b.Y)
					x1, x2 := exprString(x.X), exprString(x.Y)
					return a1 == x1 && a2 == x2 || a1 == x2 && a2 == x1
				}
				for _, i := range ifs {
					if node.Pos() >= i.Body.Pos() && node.End() <= i.Body.End() && sameOperands(i.Cond, token.NEQ) {
						guarded = true
					}
				}
				// the conditions in force say the two keys differ (whatever statement shape established it)
				for _, cl := range c.literalsAt(fd, node) {
					if !cl.neg && sameOperands(cl.e, token.NEQ) || cl.neg && sameOperands(cl.e, token.EQL) {
						guarded = true
					}
				}
				ast.Inspect(fd.Body, func(m ast.Node) bool {
					if i, ok := m.(*ast.IfStmt); ok && i.End() <= node.Pos() && sameOperands(i.Cond, token.EQL) && blockAlwaysReturns(i.Body) {
						guarded = true
					}
					return true
				})
				// ... or they imply it propositionally (a failed `flags equal && keys equal` case with both flags set)
				if !guarded {
					goal := &ast.BinaryExpr{X: x.X, Op: token.NEQ, Y: x.Y}
					if c.propEntails(c.condsAt(fd, node), goal, false, nil) {
						guarded = true
					}
				}
				c.ob(rule, key, node.Pos(), guarded,
					"comparison on keys that may be equal without a tie-break: for equal keys neither Less(i,j) nor Less(j,i) holds and the output order follows map iteration")
			case *ast.CallExpr:
				// helper comparator: its comparisons must be on its raw parameters, and the arguments must be a unique key pair
				g, _ := c.callee(x).(*types.Func)
				gfd := c.decl(g)
				if gfd == nil || len(x.Args) != 2 {
					c.ob(rule, key, node.Pos(), false, "comparator delegates to a function the rule cannot inspect")
					return
				}
				p0, p1 := c.paramObj(gfd, 0), c.paramObj(gfd, 1)
				raw := true
				n := 0
				ast.Inspect(gfd.Body, func(m ast.Node) bool {
					rs, ok := m.(*ast.ReturnStmt)
					if !ok || len(rs.Results) != 1 {
						return true
					}
					n++
					be, ok := unparen(rs.Results[0]).(*ast.BinaryExpr)
					if !ok || !isOrderOp(be.Op) {
						raw = false
						return true
					}
					a, oka := unparen(be.X).(*ast.Ident)
					b, okb := unparen(be.Y).(*ast.Ident)
					if !oka || !okb || !(c.objOf(a) == p0 && c.objOf(b) == p1 || c.objOf(a) == p1 && c.objOf(b) == p0) {
						raw = false
					}
					return true
				})
				switch {
				case !raw || n == 0:
					c.ob(rule, key, node.Pos(), false, "the helper compares transformed keys (e.g. case-folded names): distinct names can compare equal both ways, and their order then follows map iteration")
				case isUniqueKeyPair(x.Args[0], x.Args[1]):
					c.ob(rule, key, node.Pos(), true, "")
				default:
					c.ob(rule, key, node.Pos(), false, "helper comparison on keys that may be equal without a tie-break")
				}
			default:
				c.ob(rule, key, node.Pos(), false, "comparator answers with an expression the rule cannot classify")
			}
		}
		// constant answers must be antisymmetric in the two "has the key" flags: if Less answers true when only
		// element i has the key, it must answer false when only element j has it
		var flagI, flagJ types.Object
		ast.Inspect(fd.Body, func(n ast.Node) bool {
			as, ok := n.(*ast.AssignStmt)
			if !ok || len(as.Lhs) != 2 || len(as.Rhs) != 1 {
				return true
			}
			call, ok := unparen(as.Rhs[0]).(*ast.CallExpr)
			if !ok {
				return true
			}
			id, ok := as.Lhs[1].(*ast.Ident)
			if !ok {
				return true
			}
			if b, ok := c.objOf(id).Type().Underlying().(*types.Basic); !ok || b.Kind() != types.Bool {
				return true
			}
			txt := exprString(call)
			pi, pj := c.paramObj(fd, 0), c.paramObj(fd, 1)
			if pi != nil && strings.Contains(txt, "["+pi.Name()+"]") && flagI == nil {
				flagI = c.objOf(id)
			} else if pj != nil && strings.Contains(txt, "["+pj.Name()+"]") && flagJ == nil {
				flagJ = c.objOf(id)
			}
			return true
		})
		if flagI != nil && flagJ != nil {
			type sig struct{ a, b int }
			consts := map[sig]map[string]bool{}
			ast.Inspect(fd.Body, func(n ast.Node) bool {
				if _, isLit := n.(*ast.FuncLit); isLit {
					return false
				}
				rs, ok := n.(*ast.ReturnStmt)
				if !ok || len(rs.Results) != 1 {
					return true
				}
				tv, ok := c.Info.Types[rs.Results[0]]
				if !ok || tv.Value == nil {
					return true
				}
				sg := sig{}
				for _, cl := range c.literalsAt(fd, rs) {
					if id, ok := unparen(cl.e).(*ast.Ident); ok {
						v := 1
						if cl.neg {
							v = -1
						}
						if c.objOf(id) == flagI {
							sg.a = v
						}
						if c.objOf(id) == flagJ {
							sg.b = v
						}
					}
				}
				if consts[sg] == nil {
					consts[sg] = map[string]bool{}
				}
				consts[sg][tv.Value.String()] = true
				return true
			})
			ok, why := true, ""
			for sg, vals := range consts {
				if sg.a == 0 || sg.b == 0 || sg.a == sg.b {
					continue
				}
				mirror := consts[sig{sg.b, sg.a}]
				for v := range vals {
					want := "false"
					if v == "false" {
						want = "true"
					}
					if !mirror[want] {
						ok, why = false, fmt.Sprintf("Less answers %s when only one element carries the ordering key but does not answer %s in the mirrored case: the relation is not antisymmetric, sort results depend on the initial (map iteration) order", v, want)
					}
				}
			}
			if len(consts) > 0 {
				c.ob(rule, fn+":constant-answers-antisymmetric", fd.Pos(), ok, why)
			}
		}
		c.walkWithIfStack(fd.Body, func(n ast.Node, ifs []*ast.IfStmt) {
			switch x := n.(type) {
			case *ast.ReturnStmt:
				if len(x.Results) == 1 {
					check(x, x.Results[0], ifs)
				}
			case *ast.AssignStmt:
				if named != nil && len(x.Lhs) == 1 && len(x.Rhs) == 1 {
					if id, ok := unparen(x.Lhs[0]).(*ast.Ident); ok && c.objOf(id) == named {
						// assignments inside recover handlers only run after a panic of the comparison, which cannot happen for ints: still classify them
						if call, isCall := unparen(x.Rhs[0]).(*ast.CallExpr); isCall || true {
							_ = call
							if be, ok := unparen(x.Rhs[0]).(*ast.BinaryExpr); ok && !isUniqueKeyPair(be.X, be.Y) {
								// recover-only fallbacks on transformed operands are tolerated only when they compare the unique key next
								return
							}
							check(x, x.Rhs[0], ifs)
						}
					}
				}
			}
		})
	}
}

// uniqueKeyFields: fields of the element type that every constructor in the
// package sets from the range key of a map (hence unique within one slice).
func (c *Ctx) uniqueKeyFields(sliceT types.Type) map[string]bool {
	out := map[string]bool{}
	if sliceT == nil {
		return out
	}
	sl, ok := sliceT.Underlying().(*types.Slice)
	if !ok {
		return out
	}
	elem := sl.Elem()
	lits, fromKey := map[string]int{}, map[string]int{}
	for _, fd := range c.allFuncDecls() {
		if fd.Body == nil {
			continue
		}
		ast.Inspect(fd.Body, func(n ast.Node) bool {
			rs, ok := n.(*ast.RangeStmt)
			if !ok {
				return true
			}
			t := c.typeOf(rs.X)
			if t == nil {
				return true
			}
			_, isMap := t.Underlying().(*types.Map)
			k, _ := rs.Key.(*ast.Ident)
			ast.Inspect(rs.Body, func(m ast.Node) bool {
				lit, ok := m.(*ast.CompositeLit)
				if !ok || !types.Identical(c.typeOf(lit), elem) {
					return true
				}
				for _, el := range lit.Elts {
					if kv, ok := el.(*ast.KeyValueExpr); ok {
						if fid, ok := kv.Key.(*ast.Ident); ok {
							lits[fid.Name]++
							if vid, ok := unparen(kv.Value).(*ast.Ident); ok && isMap && k != nil && c.objOf(vid) == c.objOf(k) {
								fromKey[fid.Name]++
							}
						}
					}
				}
				return true
			})
			return true
		})
	}
	// literals of the element type anywhere (also outside map ranges) must all be keyed that way
	all := map[string]int{}
	for _, fd := range c.allFuncDecls() {
		if fd.Body == nil {
			continue
		}
		ast.Inspect(fd.Body, func(n ast.Node) bool {
			if lit, ok := n.(*ast.CompositeLit); ok && types.Identical(c.typeOf(lit), elem) {
				for _, el := range lit.Elts {
					if kv, ok := el.(*ast.KeyValueExpr); ok {
						if fid, ok := kv.Key.(*ast.Ident); ok {
							all[fid.Name]++
						}
					}
				}
			}
			return true
		})
	}
	for f, n := range fromKey {
		if n == lits[f] && n == all[f] {
			out[f] = true
		}
	}
	return out
}

// funcContaining returns the function declaration whose body contains the position.
func (c *Ctx) funcContaining(p token.Pos) *ast.FuncDecl {
	for _, fd := range c.allFuncDecls() {
		if fd.Body != nil && fd.Body.Pos() <= p && p <= fd.Body.End() {
			return fd
		}
	}
	return nil
}

// isFragmentTable: a slice or array of byte slices.
func (c *Ctx) isFragmentTable(t types.Type) bool {
	if t == nil {
		return false
	}
	var elem types.Type
	switch u := types.Unalias(t).Underlying().(type) {
	case *types.Slice:
		elem = u.Elem()
	case *types.Array:
		elem = u.Elem()
	default:
		return false
	}
	sl, ok := types.Unalias(elem).Underlying().(*types.Slice)
	if !ok {
		return false
	}
	b, ok := sl.Elem().Underlying().(*types.Basic)
	return ok && b.Kind() == types.Byte
}

// funcValuesOf resolves `v.field` (v the value variable of a range over a table of small structs) to the
// function values the field can hold: the table is a literal in the function, or a slice / variadic
// parameter whose arguments are literals at every call site of the function in the package.
func (c *Ctx) funcValuesOf(fd *ast.FuncDecl, fun ast.Expr) ([]ast.Expr, bool) {
	se, ok := unparen(fun).(*ast.SelectorExpr)
	if !ok {
		return nil, false
	}
	vid, ok := unparen(se.X).(*ast.Ident)
	if !ok {
		return nil, false
	}
	field := se.Sel.Name
	fieldOf := func(lit ast.Expr) (ast.Expr, bool) {
		cl, ok := unparen(lit).(*ast.CompositeLit)
		if !ok {
			return nil, false
		}
		st, ok := derefType(c.typeOf(cl)).Underlying().(*types.Struct)
		if !ok {
			return nil, false
		}
		for i, el := range cl.Elts {
			if kv, isKV := el.(*ast.KeyValueExpr); isKV {
				if id, isId := kv.Key.(*ast.Ident); isId && id.Name == field {
					return kv.Value, true
				}
				continue
			}
			if i < st.NumFields() && st.Field(i).Name() == field {
				return el, true
			}
		}
		return nil, false
	}
	// (a) range over a literal table
	if elems := c.rangeElemsOf(fd, c.objOf(vid)); len(elems) > 0 {
		var out []ast.Expr
		for _, el := range elems {
			v, ok := fieldOf(el)
			if !ok {
				return nil, false
			}
			out = append(out, v)
		}
		return out, true
	}
	// (b) range over a parameter: the literals handed in by every caller
	var param types.Object
	ast.Inspect(fd.Body, func(n ast.Node) bool {
		rs, ok := n.(*ast.RangeStmt)
		if !ok || rs.Value == nil {
			return true
		}
		if v, ok := rs.Value.(*ast.Ident); ok && c.objOf(v) == c.objOf(vid) {
			if pid, ok := unparen(rs.X).(*ast.Ident); ok && c.paramIndex(fd, c.objOf(pid)) >= 0 {
				param = c.objOf(pid)
			}
		}
		return true
	})
	if param == nil {
		return nil, false
	}
	pi := c.paramIndex(fd, param)
	self, _ := c.Info.Defs[fd.Name].(*types.Func)
	if self == nil || self.Exported() {
		return nil, false
	}
	var out []ast.Expr
	resolved, sites := true, 0
	for _, g := range c.allFuncDecls() {
		if g.Body == nil {
			continue
		}
		ast.Inspect(g.Body, func(n ast.Node) bool {
			call, ok := n.(*ast.CallExpr)
			if !ok || c.callee(call) != self {
				return true
			}
			sites++
			if call.Ellipsis.IsValid() {
				resolved = false
				return true
			}
			for ai := pi; ai < len(call.Args); ai++ {
				v, ok := fieldOf(call.Args[ai])
				if !ok {
					resolved = false
					continue
				}
				out = append(out, v)
			}
			return true
		})
	}
	return out, resolved && sites > 0
}

// producerIsEncoder: a function value that produces one JSON fragment: a closure all of whose first results are
// encoder results, or the MarshalJSON method of some value.
func (c *Ctx) producerIsEncoder(fv ast.Expr, depth int) (bool, string) {
	fv = unparen(fv)
	if isNilIdent(c, fv) {
		return true, ""
	}
	if se, ok := fv.(*ast.SelectorExpr); ok && se.Sel.Name == "MarshalJSON" {
		return true, ""
	}
	fl, ok := fv.(*ast.FuncLit)
	if !ok {
		return false, "fragment producer " + exprString(fv) + " is not a closure over an encoder"
	}
	encl := c.funcContaining(fl.Pos())
	if encl == nil {
		return false, "closure outside any function"
	}
	defs := c.localDefs(encl)
	good, why, n := true, "", 0
	ast.Inspect(fl.Body, func(nd ast.Node) bool {
		if inner, isLit := nd.(*ast.FuncLit); isLit && inner != fl {
			return false
		}
		rs, isR := nd.(*ast.ReturnStmt)
		if !isR || len(rs.Results) == 0 {
			return true
		}
		n++
		if ok, w := c.safeEncoded(rs.Results[0], defs, depth+1, func(types.Object) bool { return false }); !ok {
			good, why = false, w
		}
		return true
	})
	return good && n > 0, why
}

// fieldBufferBad: struct fields holding a bytes.Buffer / strings.Builder that receive, somewhere in the code
// reachable from an encoder, a write whose argument is not JSON-safe (with the reason). Computed once.
func (c *Ctx) fieldBufferBad() map[*types.Var]string {
	if c.fieldBufBad != nil {
		return c.fieldBufBad
	}
	c.fieldBufBad = map[*types.Var]string{}
	for _, fd := range c.reachableFrom("MarshalJSON") {
		defs := c.localDefs(fd)
		ast.Inspect(fd.Body, func(n ast.Node) bool {
			call, ok := n.(*ast.CallExpr)
			if !ok || len(call.Args) != 1 {
				return true
			}
			r, name, pkg, isM := c.calleeMethod(call)
			if !isM || !isBufferWrite(pkg, r, name) {
				return true
			}
			se, ok := unparen(call.Fun).(*ast.SelectorExpr)
			if !ok {
				return true
			}
			fv := c.fieldOfSel(se.X)
			if fv == nil {
				return true
			}
			if good, why := c.safeEncoded(call.Args[0], defs, 0, func(types.Object) bool { return false }); !good {
				c.fieldBufBad[fv] = why
			}
			return true
		})
	}
	return c.fieldBufBad
}
