package main

import (
	"fmt"
	"go/ast"
	"go/types"
	"sort"
	"strings"
)

// locksetBySim decides, on the effect normal form of one function (helpers, closures and lock wrappers inlined),
// that every read / write of a lock-protected field happens between an acquisition and a release of the right
// kind of the lock of the same object, that every path releases what it acquired, and (for no-call-under-lock)
// that no call other than the lock operations themselves is made while the lock is held.
// Returns false when the function is outside the supported fragment.
type lockSimResult struct {
	access   map[string]string // "read(store)" -> why ("" = fine)
	released string            // why not, or ""
	calls    []string          // calls made while the lock is held
	lenReads map[string]bool   // protected fields whose only unlocked use is as the argument of len
	usesLock bool
}

func (c *Ctx) locksetBySim(fd *ast.FuncDecl, lts []lockedType) (*lockSimResult, bool) {
	paths, unsup := c.simulateOpt(fd, nil, true)
	if unsup != "" || len(paths) == 0 {
		return nil, false
	}
	res := &lockSimResult{access: map[string]string{}, lenReads: map[string]bool{}}
	// the locked type a location belongs to, and whether its last step is protected / the lock
	classify := func(p svPath) (lt *lockedType, field string, isLock bool) {
		if p.root == nil || len(p.steps) == 0 {
			return nil, "", false
		}
		t := p.root.Type()
		for i, stp := range p.steps {
			st, ok := derefType(t).Underlying().(*types.Struct)
			if !ok {
				return nil, "", false
			}
			var named *types.Named
			named, _ = types.Unalias(derefType(t)).(*types.Named)
			var f *types.Var
			for k := 0; k < st.NumFields(); k++ {
				if st.Field(k).Name() == stp {
					f = st.Field(k)
				}
			}
			if f == nil {
				return nil, "", false
			}
			if named != nil {
				for li := range lts {
					if lts[li].named.Obj() == named.Obj() {
						if stp == lts[li].lockField {
							return &lts[li], stp, true
						}
						if lts[li].protected[stp] {
							_ = i
							return &lts[li], stp, false
						}
					}
				}
			}
			t = f.Type()
		}
		return nil, "", false
	}
	lockOpOf := func(sc *svCall) (string, bool) {
		f, ok := sc.callee.(*types.Func)
		if !ok || f.Pkg() == nil || f.Pkg().Path() != "sync" {
			return "", false
		}
		switch f.Name() {
		case "Lock", "Unlock", "RLock", "RUnlock":
		default:
			return "", false
		}
		var p svPath
		switch r := sc.recv.(type) {
		case svAddr:
			p = r.p
		case svPath:
			p = r
		default:
			return "", false
		}
		if _, _, isLock := classify(p); !isLock {
			return "", false
		}
		return f.Name(), true
	}
	bad := func(key, why string) {
		if res.access[key] == "" {
			res.access[key] = why
		}
	}
	for _, p := range paths {
		w, r := 0, 0
		for _, e := range p.effs {
			switch e.kind {
			case "call":
				if op, ok := lockOpOf(e.call); ok {
					res.usesLock = true
					switch op {
					case "Lock":
						if w > 0 || r > 0 {
							res.calls = append(res.calls, "Lock (the lock is already held: sync.RWMutex is not re-entrant)")
						}
						w++
					case "Unlock":
						w--
					case "RLock":
						if w > 0 || r > 0 {
							res.calls = append(res.calls, "RLock (the lock is already held: a writer queued in between blocks both)")
						}
						r++
					case "RUnlock":
						r--
					}
					continue
				}
				if (w > 0 || r > 0) && !c.harmlessUnderLock(e.call) {
					name := svString(*e.call)
					if f, ok := e.call.callee.(*types.Func); ok {
						name = f.Name()
					}
					res.calls = append(res.calls, name)
				}
			case "read", "read-len", "write":
				lt, field, isLock := classify(e.dst)
				if lt == nil || isLock {
					continue
				}
				kind := "read"
				if e.kind == "write" {
					kind = "write"
				}
				key := kind + "(" + field + ")"
				if _, seen := res.access[key]; !seen {
					res.access[key] = ""
				}
				held := w > 0 || kind == "read" && r > 0
				if !held {
					if e.kind == "read-len" {
						res.lenReads[field] = true
						continue
					}
					bad(key, fmt.Sprintf("%s of %s without the lock held on every path: concurrent Get/Set on a shared cache race", kind, svString(e.dst)))
				}
			}
		}
		if (w != 0 || r != 0) && res.released == "" {
			res.released = "a path ends with the cache lock still held (or released more often than acquired): the next Get/Set deadlocks"
		}
	}
	sort.Strings(res.calls)
	res.calls = uniqStrings(res.calls)
	return res, true
}

// lockSimTargets: the functions worth normalising for the lockset rules: methods of a locked type, and any
// function that mentions the lock field or a protected field of one.
func (c *Ctx) lockSimTargets(lts []lockedType) []*ast.FuncDecl {
	var out []*ast.FuncDecl
	for _, fd := range c.allFuncDecls() {
		if fd.Body == nil {
			continue
		}
		hit := false
		if r := c.recvObj(fd); r != nil {
			for _, lt := range lts {
				if isNamed(r.Type(), c.Types, lt.named.Obj().Name()) {
					hit = true
				}
			}
		}
		if !hit {
			ast.Inspect(fd.Body, func(n ast.Node) bool {
				if se, ok := n.(*ast.SelectorExpr); ok {
					if sel := c.Info.Selections[se]; sel != nil && sel.Kind() == types.FieldVal {
						for _, lt := range lts {
							if isNamed(sel.Recv(), c.Types, lt.named.Obj().Name()) {
								hit = true
							}
						}
					}
				}
				return !hit
			})
		}
		if hit {
			out = append(out, fd)
		}
	}
	return out
}

var _ = strings.HasPrefix

// lockSimRoots: the targets that are not merely helpers of other targets (an unexported function every use of
// which is a call from another package function is analysed where it is inlined, with its arguments known).
func (c *Ctx) lockSimRoots(lts []lockedType) []*ast.FuncDecl {
	targets := c.lockSimTargets(lts)
	calledOnly := map[*types.Func]bool{}
	for _, fd := range targets {
		f, _ := c.Info.Defs[fd.Name].(*types.Func)
		if f == nil || f.Exported() {
			continue
		}
		calls, others := 0, 0
		for _, g := range c.allFuncDecls() {
			if g.Body == nil {
				continue
			}
			callFuns := map[ast.Expr]bool{}
			ast.Inspect(g.Body, func(n ast.Node) bool {
				if call, ok := n.(*ast.CallExpr); ok {
					callFuns[unparen(call.Fun)] = true
					if c.callee(call) == types.Object(f) {
						calls++
					}
				}
				return true
			})
			ast.Inspect(g.Body, func(n ast.Node) bool {
				switch x := n.(type) {
				case *ast.Ident:
					if c.Info.Uses[x] == types.Object(f) && !callFuns[ast.Expr(x)] {
						// a use that is not the callee of a call (method values are SelectorExpr, handled below)
						others++
					}
				case *ast.SelectorExpr:
					if c.Info.Uses[x.Sel] == types.Object(f) {
						if callFuns[ast.Expr(x)] {
							others-- // counted once as Ident above
						}
					}
				}
				return true
			})
		}
		if calls > 0 && others <= 0 {
			calledOnly[f] = true
		}
	}
	var out []*ast.FuncDecl
	for _, fd := range targets {
		f, _ := c.Info.Defs[fd.Name].(*types.Func)
		if f != nil && calledOnly[f] {
			continue
		}
		out = append(out, fd)
	}
	return out
}

func (c *Ctx) locksetSimObligations(rule string, lts []lockedType) map[*ast.FuncDecl]bool {
	done := map[*ast.FuncDecl]bool{}
	roots := map[*ast.FuncDecl]bool{}
	for _, fd := range c.lockSimRoots(lts) {
		roots[fd] = true
	}
	for _, fd := range c.lockSimTargets(lts) {
		if !roots[fd] {
			done[fd] = true // a helper: decided where it is inlined
			continue
		}
		res, ok := c.locksetBySim(fd, lts)
		if !ok {
			continue
		}
		done[fd] = true
		fn := c.funcName(fd)
		if len(res.access) == 0 && !res.usesLock {
			continue
		}
		c.saw(fn)
		var keys []string
		for k := range res.access {
			keys = append(keys, k)
		}
		sort.Strings(keys)
		for _, k := range keys {
			c.ob(rule, fn+":"+k, fd.Pos(), res.access[k] == "", res.access[k])
		}
		for field := range res.lenReads {
			key := fn + ":read-len(" + field + ")"
			if c.onlyServesShallowClone(fd) && c.shallowCloneOnlyOnResCache() {
				c.ob(rule, key, fd.Pos(), true, "")
				c.note("lockset exception %s: len(%s) read before RLock in ShallowClone is sound only because ShallowClone is invoked solely on resCache, which the globals rule proves is never written after its sync.Once initialisation", key, field)
			} else {
				c.ob(rule, key, fd.Pos(), false, "len("+field+") is read without the lock held: concurrent Get/Set on a shared cache race")
			}
		}
		if res.usesLock {
			c.ob(rule, fn+":released", fd.Pos(), res.released == "", res.released)
		}
	}
	return done
}

func (c *Ctx) noCallUnderLockSim(rule string, lts []lockedType) map[*ast.FuncDecl]bool {
	done := map[*ast.FuncDecl]bool{}
	roots := map[*ast.FuncDecl]bool{}
	for _, fd := range c.lockSimRoots(lts) {
		roots[fd] = true
	}
	for _, fd := range c.lockSimTargets(lts) {
		if !roots[fd] {
			done[fd] = true
			continue
		}
		res, ok := c.locksetBySim(fd, lts)
		if !ok {
			continue
		}
		done[fd] = true
		if !res.usesLock {
			continue
		}
		fn := c.funcName(fd)
		c.saw(fn)
		c.ob(rule, fn, fd.Pos(), len(res.calls) == 0, fmt.Sprintf("calls %v are made while the cache lock may be held: re-entrancy or a lock-order cycle can deadlock", res.calls))
	}
	return done
}

// harmlessUnderLock: a call that cannot come back to the lock: a function outside the package (or a builtin such
// as len) none of whose operands can carry code of the package - every operand is a constant, a string, a
// boolean, a number, or a list of those. (Printf-style functions call methods of their operands; operands of
// basic type have none.)
func (c *Ctx) harmlessUnderLock(sc *svCall) bool {
	if sc.callee == nil {
		// builtins evaluated as calls (len, cap); a call through a function value is not harmless
		return sc.call != nil && (c.isBuiltin(sc.call, "len") || c.isBuiltin(sc.call, "cap"))
	}
	f, ok := sc.callee.(*types.Func)
	if !ok || f.Pkg() == nil || f.Pkg() == c.Types {
		return false
	}
	var basic func(v sval) bool
	basic = func(v sval) bool {
		switch x := v.(type) {
		case svConst, svNil:
			return true
		case svList:
			for _, e := range x.elems {
				if !basic(e) {
					return false
				}
			}
			return true
		case svPath:
			t := c.simTypeAtPath(x)
			if t == nil {
				return false
			}
			_, isBasic := t.Underlying().(*types.Basic)
			return isBasic
		case svCall:
			// the result of another harmless call of basic type (len(x), Sprintf(..))
			if x.callee == nil {
				return x.call != nil && (c.isBuiltin(x.call, "len") || c.isBuiltin(x.call, "cap"))
			}
			if g, isF := x.callee.(*types.Func); isF {
				res := g.Type().(*types.Signature).Results()
				if x.idx < res.Len() {
					_, isBasic := res.At(x.idx).Type().Underlying().(*types.Basic)
					return isBasic
				}
			}
			return false
		case svHas:
			return true
		}
		return false
	}
	if sc.recv != nil {
		// a method of a type of another package (log.Logger.Printf) called on a package-owned value
		sig := f.Type().(*types.Signature)
		if sig.Recv() == nil {
			return false
		}
		if n, isN := types.Unalias(derefType(sig.Recv().Type())).(*types.Named); !isN || n.Obj().Pkg() == nil || n.Obj().Pkg() == c.Types {
			return false
		}
		if _, isIface := derefType(sig.Recv().Type()).Underlying().(*types.Interface); isIface {
			return false
		}
	}
	for _, a := range sc.args {
		if !basic(a) {
			return false
		}
	}
	return true
}
