package main

import (
	"encoding/json"
	"fmt"
	"go/ast"
	"go/token"
	"go/types"
	"sort"
	"strings"
)

// codecKind is a named struct type with hand-written JSON codecs.
type codecKind struct {
	Name      string
	Named     *types.Named
	Struct    *types.Struct
	Marshal   *types.Func
	Unmarshal *types.Func
}

// codecKinds discovers (not lists) the kinds: named struct types of the
// package that declare both MarshalJSON and UnmarshalJSON.
func (c *Ctx) codecKinds() []codecKind {
	var out []codecKind
	sc := c.Types.Scope()
	for _, n := range sc.Names() {
		tn, ok := sc.Lookup(n).(*types.TypeName)
		if !ok || tn.IsAlias() {
			continue
		}
		named, ok := tn.Type().(*types.Named)
		if !ok {
			continue
		}
		st, ok := named.Underlying().(*types.Struct)
		if !ok {
			continue
		}
		m, u := declaredMethod(named, "MarshalJSON"), declaredMethod(named, "UnmarshalJSON")
		if m == nil || u == nil {
			continue
		}
		out = append(out, codecKind{Name: n, Named: named, Struct: st, Marshal: m, Unmarshal: u})
	}
	return out
}

type codecSets struct {
	M       map[string]bool // labels (full receiver sub-paths) reaching the returned bytes
	Mctl    map[string]bool // receiver sub-paths read in conditions
	U       map[string]bool // receiver sub-paths filled from the input
	UJSON   map[string]bool // subset of U filled only through encoding/json into that very path
	MWhole  bool
	UWhole  bool
	mdecl   *ast.FuncDecl
	udecl   *ast.FuncDecl
	problem string
}

// encoderSets computes which receiver components reach result 0 of an encoder method.
func (c *Ctx) encoderLabels(fd *ast.FuncDecl) (labels, ctl map[string]bool) {
	f := newPathFlow(c, fd)
	f.srcRoot = c.recvObj(fd)
	f.run()
	labels = map[string]bool{}
	for l := range f.returnLabels(0) {
		if strings.HasPrefix(l, "R:") {
			labels[strings.TrimPrefix(l, "R:")] = true
		}
	}
	ctl = map[string]bool{}
	for l := range f.ctl {
		if strings.HasPrefix(l, "R:") {
			ctl[strings.TrimPrefix(l, "R:")] = true
		}
	}
	return
}

// decoderFacts computes which receiver sub-paths are filled from parameter 0.
func (c *Ctx) decoderFacts(fd *ast.FuncDecl) map[string]map[string]bool {
	f := newPathFlow(c, fd)
	data := c.paramObj(fd, 0)
	if data == nil {
		return nil
	}
	f.seed(data, "", "data")
	f.run()
	recv := c.recvObj(fd)
	out := map[string]map[string]bool{}
	for p, ls := range f.facts[recv] {
		for l := range ls {
			if strings.HasPrefix(l, "data") {
				if out[p] == nil {
					out[p] = map[string]bool{}
				}
				out[p][l] = true
			}
		}
	}
	return out
}

func (c *Ctx) codecSetsOf(k codecKind) *codecSets {
	cs := &codecSets{M: map[string]bool{}, U: map[string]bool{}, UJSON: map[string]bool{}}
	cs.mdecl, cs.udecl = c.decl(k.Marshal), c.decl(k.Unmarshal)
	if cs.mdecl == nil || cs.udecl == nil || cs.mdecl.Body == nil || cs.udecl.Body == nil {
		cs.problem = "codec body not found"
		return cs
	}
	c.saw(c.funcName(cs.mdecl))
	c.saw(c.funcName(cs.udecl))
	cs.M, cs.Mctl = c.encoderLabels(cs.mdecl)
	cs.MWhole = cs.M[""]
	for p, ls := range c.decoderFacts(cs.udecl) {
		cs.U[p] = true
		onlyJSON := true
		for l := range ls {
			if !strings.HasSuffix(l, "|json") {
				onlyJSON = false
			}
		}
		if onlyJSON {
			cs.UJSON[p] = true
		}
	}
	cs.UWhole = cs.U[""]
	return cs
}

func coversComponent(set map[string]bool, comp string) bool {
	for p := range set {
		if p == "" || hasPathPrefix(p, comp) {
			return true
		}
	}
	return false
}

// hiddenCodedFields lists exported fields tagged json:"-" of a plain embedded
// struct whose type has its own encoder: encoding/json never sees them, so
// the kind's codecs must handle them by hand (SchemaProps.Ref, SchemaProps.Schema).
func hiddenCodedFields(st *types.Struct) []*types.Var {
	var out []*types.Var
	for i := 0; i < st.NumFields(); i++ {
		f := st.Field(i)
		if !f.Exported() {
			continue
		}
		if tagName(st.Tag(i)) != "-" {
			continue
		}
		if hasMethod(f.Type(), "MarshalJSON") != nil {
			out = append(out, f)
		}
	}
	return out
}

func tagName(tag string) string {
	// reflect.StructTag.Get without importing reflect twice
	const key = `json:"`
	i := strings.Index(tag, key)
	if i < 0 {
		return ""
	}
	rest := tag[i+len(key):]
	j := strings.Index(rest, `"`)
	if j < 0 {
		return ""
	}
	return rest[:j]
}

func init() {
	registerRule("codec-symmetry", 48, "every component of every kind is both encoded and decoded", ruleCodecSymmetry)
	registerRule("keyword-table", 170, "every meta-schema member of every kind has a byte-identical JSON field", ruleKeywordTable)
	registerRule("zero-preserving", 26, "numeric keywords are pointer-typed; no omitempty on non-pointer numerics", ruleZeroPreserving)
	registerRule("proxy-complete", 34, "anonymous encode proxies carry every member of the component they replace", ruleProxyComplete)
	registerRule("ref-key", 8, "writer and reader of $ref / $schema agree on the member name", ruleRefKey)
}

func ruleCodecSymmetry(c *Ctx) {
	const rule = "codec-symmetry"
	for _, k := range c.codecKinds() {
		cs := c.codecSetsOf(k)
		if cs.problem != "" {
			c.undecided(rule, k.Name, k.Named.Obj().Pos(), cs.problem)
			continue
		}
		for i := 0; i < k.Struct.NumFields(); i++ {
			f := k.Struct.Field(i)
			if !f.Exported() && !f.Embedded() {
				continue
			}
			if !f.Embedded() && tagName(k.Struct.Tag(i)) == "-" && hasMethod(f.Type(), "MarshalJSON") == nil {
				if _, isMap := f.Type().Underlying().(*types.Map); !isMap {
					continue
				}
			}
			inM := coversComponent(cs.M, f.Name())
			viaCtl := false
			if !inM {
				if b, ok := f.Type().Underlying().(*types.Basic); ok && b.Kind() == types.Bool && coversComponent(cs.Mctl, f.Name()) {
					inM, viaCtl = true, true
				}
			}
			inU := coversComponent(cs.U, f.Name())
			why := ""
			switch {
			case !inM && !inU:
				why = "component is neither encoded by MarshalJSON nor filled by UnmarshalJSON"
			case !inM:
				why = "component is filled by UnmarshalJSON but never reaches the bytes returned by MarshalJSON"
			case !inU:
				why = "component is encoded by MarshalJSON but never filled from the input by UnmarshalJSON"
			case viaCtl:
				why = "encoded through a branch on the flag"
			}
			c.ob(rule, k.Name+":"+f.Name(), cs.mdecl.Pos(), inM && inU, why)

			// hidden coded sub-components of plain embedded structs
			if fst, ok := f.Type().Underlying().(*types.Struct); ok && f.Embedded() {
				if n, _ := types.Unalias(f.Type()).(*types.Named); n != nil && declaredMethod(n, "MarshalJSON") == nil {
					for _, h := range hiddenCodedFields(fst) {
						sub := f.Name() + "." + h.Name()
						hm := false
						for p := range cs.M {
							if hasPathPrefix(p, sub) {
								hm = true
							}
						}
						hu := false
						for p := range cs.U {
							if hasPathPrefix(p, sub) {
								hu = true
							}
						}
						why := ""
						if !hm {
							why = "field is invisible to encoding/json (tag \"-\") and is not encoded by hand"
						} else if !hu {
							why = "field is invisible to encoding/json (tag \"-\") and is not decoded by hand"
						}
						c.ob(rule, k.Name+":"+sub, cs.mdecl.Pos(), hm && hu, why)
					}
				}
			}
		}
	}
}

// kindJSONNames returns the member names a kind reads from / writes to JSON
// through its struct tags: the union of the JSON field sets of its plain
// components (or of the struct itself for plain tagged structs).
func (c *Ctx) kindJSONFields(name string) ([]jsonField, bool) {
	n := c.namedType(name)
	if n == nil {
		return nil, false
	}
	st, ok := n.Underlying().(*types.Struct)
	if !ok {
		return nil, false
	}
	if declaredMethod(n, "MarshalJSON") == nil {
		return jsonFields(n), true
	}
	var out []jsonField
	for i := 0; i < st.NumFields(); i++ {
		f := st.Field(i)
		ft := derefType(f.Type())
		fn, _ := types.Unalias(ft).(*types.Named)
		if _, isSt := ft.Underlying().(*types.Struct); !isSt {
			continue
		}
		if fn != nil && declaredMethod(fn, "UnmarshalJSON") != nil {
			continue // coded component (VendorExtensible, Refable, ResponsesProps): not tag-driven
		}
		out = append(out, jsonFields(ft)...)
	}
	return out, true
}

func (c *Ctx) kindHasComponent(name, comp string) bool {
	st := c.structOf(name)
	if st == nil {
		return false
	}
	for i := 0; i < st.NumFields(); i++ {
		if st.Field(i).Name() == comp && st.Field(i).Embedded() {
			return true
		}
	}
	return false
}

func ruleKeywordTable(c *Ctx) {
	const rule = "keyword-table"
	// the kind table and the frozen map must agree in both directions
	kinds := map[string]bool{}
	for _, k := range c.codecKinds() {
		kinds[k.Name] = true
	}
	composite := map[string]*codecSets{}
	for _, k := range c.codecKinds() {
		if kindMeta[k.Name] != nil {
			composite[k.Name] = c.codecSetsOf(k)
		}
	}
	for _, name := range sortedKeys(kindMeta) {
		if c.namedType(name) == nil {
			c.ob(rule, name+":<kind>", token.NoPos, false, "kind listed in the meta-schema map no longer exists in the package (unmapped kind)")
			continue
		}
		fields, ok := c.kindJSONFields(name)
		if !ok {
			c.undecided(rule, name+":<kind>", token.NoPos, "kind is not a struct")
			continue
		}
		pos := c.namedType(name).Obj().Pos()
		for _, defName := range kindMeta[name] {
			d := c.Meta.Defs[defName]
			if d == nil {
				c.ob(rule, name+":"+defName, pos, false, "meta-schema definition not found")
				continue
			}
			for _, m := range sortedKeys(d.Properties) {
				key := name + ":" + m
				switch {
				case findJSONField(fields, m) != nil:
					c.ob(rule, key, pos, true, "")
				case m == "$ref" && (c.kindHasComponent(name, "Refable") || name == "Schema"):
					c.ob(rule, key, pos, true, "carried by the hand-coded Ref component")
				case m == "$schema" && name == "Schema":
					c.ob(rule, key, pos, true, "carried by the hand-coded SchemaURL component")
				default:
					why := "no JSON field named exactly " + fmt.Sprintf("%q", m)
					for _, f := range fields {
						if strings.EqualFold(f.Name, m) {
							why += fmt.Sprintf(" (closest: %q on %s.%s differs by case)", f.Name, f.OwnerName, f.GoName)
						}
					}
					c.ob(rule, key, pos, false, why)
				}
			}
			for _, pat := range d.Pattern {
				key := name + ":pattern(" + pat + ")"
				switch {
				case pat == "^x-":
					cs := composite[name]
					if cs == nil {
						c.note("%s: meta-schema allows ^x- members but the type has no extension holder (outside the kinds C01 lists)", name)
						continue
					}
					ok := c.kindHasComponent(name, "VendorExtensible") && coversComponent(cs.M, "VendorExtensible") && coversComponent(cs.U, "VendorExtensible")
					c.ob(rule, key, pos, ok, "vendor extensions need a VendorExtensible component that is both encoded and decoded")
				case pat == "^/":
					cs := composite[name]
					ok := cs != nil && coversComponent(cs.M, "Paths") && coversComponent(cs.U, "Paths")
					c.ob(rule, key, pos, ok, "path members need the Paths map encoded and decoded")
				default: // status codes | default
					cs := composite[name]
					ok := cs != nil && coversComponent(cs.M, "ResponsesProps") && coversComponent(cs.U, "ResponsesProps")
					c.ob(rule, key, pos, ok, "status-code members need ResponsesProps encoded and decoded")
				}
			}
		}
		if name == "Schema" {
			cs := composite[name]
			ok := cs != nil && coversComponent(cs.M, "ExtraProps") && coversComponent(cs.U, "ExtraProps")
			c.ob(rule, "Schema:<unknown keywords>", pos, ok, "unknown schema keywords need ExtraProps encoded and decoded")
		}
	}
	// reverse direction: a composite kind with tag-driven components that is not mapped
	for _, k := range c.codecKinds() {
		if kindMeta[k.Name] != nil {
			continue
		}
		switch k.Name {
		case "VendorExtensible", "Refable", "Ref", "ResponsesProps", "SchemaOrBool", "SchemaOrArray", "SchemaOrStringArray":
			// building blocks and unions: no meta-schema definition of their own
			continue
		}
		c.ob(rule, k.Name+":<kind>", k.Named.Obj().Pos(), false, "type with hand-written codecs is not mapped to a meta-schema definition (unmapped kind)")
	}
}

// metaNumeric resolves a meta-schema member to "number", "integer" or "".
func (c *Ctx) metaTypeOf(node map[string]interface{}, inDraft4 bool, depth int) string {
	if node == nil || depth > 8 {
		return ""
	}
	if t, ok := node["type"].(string); ok {
		return t
	}
	if r, ok := node["$ref"].(string); ok {
		const d4 = "http://json-schema.org/draft-04/schema#"
		switch {
		case strings.HasPrefix(r, d4):
			return c.metaTypeOf(jsonAt(c.Meta.Draft4, strings.TrimPrefix(r, d4)), true, depth+1)
		case strings.HasPrefix(r, "#"):
			doc := c.Meta.V2
			if inDraft4 {
				doc = c.Meta.Draft4
			}
			return c.metaTypeOf(jsonAt(doc, strings.TrimPrefix(r, "#")), inDraft4, depth+1)
		}
	}
	if all, ok := node["allOf"].([]interface{}); ok {
		for _, a := range all {
			if m, ok := a.(map[string]interface{}); ok {
				if t := c.metaTypeOf(m, inDraft4, depth+1); t != "" {
					return t
				}
			}
		}
	}
	return ""
}

func jsonAt(doc map[string]interface{}, ptr string) map[string]interface{} {
	var cur interface{} = doc
	for _, tok := range strings.Split(strings.TrimPrefix(ptr, "/"), "/") {
		if tok == "" {
			continue
		}
		m, ok := cur.(map[string]interface{})
		if !ok {
			return nil
		}
		cur = m[tok]
	}
	m, _ := cur.(map[string]interface{})
	return m
}

func isNumericBasic(t types.Type) bool {
	b, ok := t.Underlying().(*types.Basic)
	return ok && b.Info()&types.IsNumeric != 0
}

func ruleZeroPreserving(c *Ctx) {
	const rule = "zero-preserving"
	// (a) per kind and numeric meta member: the Go field must be a pointer to a numeric type
	for _, name := range sortedKeys(kindMeta) {
		fields, ok := c.kindJSONFields(name)
		if !ok {
			continue
		}
		n := c.namedType(name)
		seen := map[string]bool{}
		for _, defName := range kindMeta[name] {
			d := c.Meta.Defs[defName]
			if d == nil {
				continue
			}
			for _, m := range sortedKeys(d.Properties) {
				if seen[m] {
					continue
				}
				mt := c.metaTypeOf(d.Properties[m], defName == "draft4", 0)
				if mt != "number" && mt != "integer" {
					continue
				}
				seen[m] = true
				jf := findJSONField(fields, m)
				if jf == nil {
					continue // reported by keyword-table
				}
				ft := types.Unalias(jf.FieldTyp)
				p, isPtr := ft.(*types.Pointer)
				ok := isPtr && isNumericBasic(p.Elem())
				why := ""
				if !ok {
					why = fmt.Sprintf("numeric keyword stored in %s: a value of 0 cannot be told from absence", ft)
					if !jf.OmitEmpty && isNumericBasic(ft) {
						why = fmt.Sprintf("numeric keyword stored in non-pointer %s without omitempty: absence becomes 0", ft)
					}
				}
				c.ob(rule, name+":"+m, n.Obj().Pos(), ok, why)
			}
		}
	}
	// (b) no struct of the package (named or anonymous proxy) combines omitempty with a non-pointer numeric
	seenSt := map[*types.Struct]bool{}
	check := func(label string, t types.Type, pos token.Pos) {
		st, ok := t.Underlying().(*types.Struct)
		if !ok || seenSt[st] {
			return
		}
		seenSt[st] = true
		for _, jf := range jsonFields(t) {
			if len(jf.Index) != 1 {
				continue
			}
			if jf.OmitEmpty && isNumericBasic(types.Unalias(jf.FieldTyp)) {
				c.ob(rule, label+"."+jf.GoName+":omitempty", pos, false, "omitempty on a non-pointer numeric drops a legitimate 0")
			}
		}
	}
	sc := c.Types.Scope()
	for _, n := range sc.Names() {
		if tn, ok := sc.Lookup(n).(*types.TypeName); ok {
			check(n, tn.Type(), tn.Pos())
		}
	}
	for _, file := range c.Files {
		ast.Inspect(file, func(nd ast.Node) bool {
			if stt, ok := nd.(*ast.StructType); ok {
				if t := c.typeOf(stt); t != nil {
					check("anon@"+c.fileOf(stt.Pos()), t, stt.Pos())
				}
			}
			return true
		})
	}
}

// ---- proxy-complete ----

type proxySite struct {
	fd    *ast.FuncDecl
	lit   *ast.CompositeLit
	typ   *types.Struct
	ord   int
	label string
}

// proxySites finds anonymous-struct composite literals handed to json.Marshal
// or to a gob encoder inside encoder methods.
func (c *Ctx) proxySites(methodNames ...string) []proxySite {
	var out []proxySite
	want := map[string]bool{}
	for _, m := range methodNames {
		want[m] = true
	}
	for _, fd := range c.reachableFrom(methodNames...) {
		if fd.Body == nil {
			continue
		}
		_ = want
		ord := 0
		ast.Inspect(fd.Body, func(n ast.Node) bool {
			call, ok := n.(*ast.CallExpr)
			if !ok || !c.isPkgFunc(call, "encoding/json", "Marshal") || len(call.Args) != 1 {
				return true
			}
			arg := unparen(call.Args[0])
			if u, ok := arg.(*ast.UnaryExpr); ok && u.Op == token.AND {
				arg = unparen(u.X)
			}
			lit, ok := arg.(*ast.CompositeLit)
			if !ok {
				return true
			}
			t := c.typeOf(lit)
			if t == nil {
				return true
			}
			if _, named := types.Unalias(t).(*types.Named); named {
				return true
			}
			st, ok := t.Underlying().(*types.Struct)
			if !ok {
				return true
			}
			ord++
			out = append(out, proxySite{fd: fd, lit: lit, typ: st, ord: ord, label: fmt.Sprintf("%s#%d", c.funcName(fd), ord)})
			return true
		})
		// a proxy given a name: a literal of an unexported struct type of the package (no encoder of its own, every
		// field tagged) that a view function returns, every member of which is copied from one object
		ast.Inspect(fd.Body, func(n ast.Node) bool {
			rs, ok := n.(*ast.ReturnStmt)
			if !ok || len(rs.Results) != 1 {
				return true
			}
			e := unparen(rs.Results[0])
			if u, ok := e.(*ast.UnaryExpr); ok && u.Op == token.AND {
				e = unparen(u.X)
			}
			lit, ok := e.(*ast.CompositeLit)
			if !ok {
				return true
			}
			nt, isNamedT := types.Unalias(c.typeOf(lit)).(*types.Named)
			if !isNamedT || nt.Obj().Pkg() != c.Types || nt.Obj().Exported() || declaredMethod(nt, "MarshalJSON") != nil {
				return true
			}
			st, ok := nt.Underlying().(*types.Struct)
			if !ok || st.NumFields() < 2 || len(lit.Elts) < 2 {
				return true
			}
			for i := 0; i < st.NumFields(); i++ {
				if tagName(st.Tag(i)) == "" {
					return true
				}
			}
			var root types.Object
			same := true
			for _, el := range lit.Elts {
				kv, isKV := el.(*ast.KeyValueExpr)
				if !isKV {
					return true
				}
				p, okp := c.apath(kv.Value)
				if !okp || len(p.Steps) == 0 {
					continue
				}
				if root == nil {
					root = p.Root
				} else if root != p.Root {
					same = false
				}
			}
			if root == nil || !same {
				return true
			}
			ord++
			out = append(out, proxySite{fd: fd, lit: lit, typ: st, ord: ord, label: fmt.Sprintf("%s#%d", c.funcName(fd), ord)})
			return true
		})
	}
	return out
}

func ruleProxyComplete(c *Ctx) {
	const rule = "proxy-complete"
	for _, ps := range c.proxySites("MarshalJSON") {
		c.saw(c.funcName(ps.fd))
		// the object the proxy is populated from: the receiver, or (in a helper) the parameter standing for it
		recv := c.recvObj(ps.fd)
		roots := map[types.Object]int{}
		ast.Inspect(ps.lit, func(n ast.Node) bool {
			if e, ok := n.(ast.Expr); ok {
				if p, ok := c.apath(e); ok && p.Root != nil {
					if _, isVar := p.Root.(*types.Var); isVar && p.Root.Parent() != c.Types.Scope() {
						roots[p.Root]++
					}
					return false
				}
			}
			return true
		})
		if recv == nil || roots[recv] == 0 {
			best := 0
			for o, n := range roots {
				if n > best {
					recv, best = o, n
				}
			}
		}
		if recv == nil {
			c.undecided(rule, ps.label, ps.lit.Pos(), "cannot tell what the proxy is populated from")
			continue
		}
		recvT := derefType(recv.Type())
		// values of the literal, by Go field name
		vals := map[string]ast.Expr{}
		positional := false
		for _, el := range ps.lit.Elts {
			kv, ok := el.(*ast.KeyValueExpr)
			if !ok {
				positional = true
				continue
			}
			if id, ok := kv.Key.(*ast.Ident); ok {
				vals[id.Name] = kv.Value
			}
		}
		if positional {
			c.undecided(rule, ps.label, ps.lit.Pos(), "positional proxy literal")
			continue
		}
		// source component: common receiver prefix of all value paths
		var srcSteps []string
		wholeRecv := false
		first := true
		for _, gn := range sortedKeys(vals) {
			v := unparen(vals[gn])
			if call, ok := v.(*ast.CallExpr); ok && c.isConversion(call) && len(call.Args) == 1 {
				if p, ok := c.apath(call.Args[0]); ok && p.Root == recv && len(p.Steps) == 0 {
					wholeRecv = true
					continue
				}
			}
			p, ok := c.apath(v)
			if !ok || p.Root != recv || len(p.Steps) == 0 {
				continue
			}
			parent := p.Steps[:len(p.Steps)-1]
			if first {
				srcSteps, first = parent, false
			} else {
				n := 0
				for n < len(srcSteps) && n < len(parent) && srcSteps[n] == parent[n] {
					n++
				}
				srcSteps = srcSteps[:n]
			}
		}
		// type of the source component
		srcT := recvT
		for _, s := range srcSteps {
			st, ok := srcT.Underlying().(*types.Struct)
			if !ok {
				break
			}
			for i := 0; i < st.NumFields(); i++ {
				if st.Field(i).Name() == s {
					srcT = derefType(st.Field(i).Type())
				}
			}
		}
		srcFields := jsonFields(srcT)
		proxyFields := jsonFields(ps.typ)
		srcName := typeNameOf(srcT)
		// (1) same member names
		sn, pn := map[string]bool{}, map[string]bool{}
		for _, f := range srcFields {
			sn[f.Name] = true
		}
		for _, f := range proxyFields {
			pn[f.Name] = true
		}
		var missing, extra []string
		for n := range sn {
			if !pn[n] {
				missing = append(missing, n)
			}
		}
		for n := range pn {
			if !sn[n] {
				extra = append(extra, n)
			}
		}
		sort.Strings(missing)
		sort.Strings(extra)
		c.ob(rule, ps.label+":names", ps.lit.Pos(), len(missing) == 0 && len(extra) == 0,
			fmt.Sprintf("proxy for %s: missing members %v, extra members %v", srcName, missing, extra))
		// (2) every proxy member populated from the same-named member of the source
		for _, pf := range proxyFields {
			key := ps.label + ":" + pf.Name
			sf := findJSONField(srcFields, pf.Name)
			if sf == nil {
				continue // reported under :names
			}
			if len(pf.Index) > 1 {
				// promoted from an embedded alias: populated iff the embedded field is set from the whole receiver
				top := ps.typ.Field(pf.Index[0])
				v, has := vals[top.Name()]
				ok := has && wholeRecv
				if ok {
					// the alias must have the same underlying struct as the source
					ok = types.Identical(derefType(top.Type()).Underlying(), srcT.Underlying())
				}
				_ = v
				c.ob(rule, key, ps.lit.Pos(), ok, "member promoted from the embedded alias, which must be set from the whole receiver and share its struct type")
				continue
			}
			gf := ps.typ.Field(pf.Index[0])
			v, has := vals[gf.Name()]
			if !has {
				c.ob(rule, key, ps.lit.Pos(), false, fmt.Sprintf("proxy declares member %q but the literal never sets it: the value is dropped on this path", pf.Name))
				continue
			}
			p, ok := c.apath(v)
			if !ok || p.Root != recv {
				c.ob(rule, key, v.Pos(), false, "proxy member not populated from the receiver")
				continue
			}
			last := ""
			if len(p.Steps) > 0 {
				last = p.Steps[len(p.Steps)-1]
			}
			c.ob(rule, key, v.Pos(), last == sf.GoName,
				fmt.Sprintf("proxy member %q populated from field %s, but %q is field %s of %s", pf.Name, last, pf.Name, sf.GoName, srcName))
		}
	}
}

// ---- ref-key ----

func (c *Ctx) mapLitKeys(fd *ast.FuncDecl) []string {
	var out []string
	ast.Inspect(fd.Body, func(n ast.Node) bool {
		lit, ok := n.(*ast.CompositeLit)
		if !ok {
			return true
		}
		t := c.typeOf(lit)
		if t == nil {
			return true
		}
		if _, isMap := t.Underlying().(*types.Map); !isMap {
			return true
		}
		for _, el := range lit.Elts {
			if kv, ok := el.(*ast.KeyValueExpr); ok {
				if s, ok := c.constString(kv.Key); ok {
					out = append(out, s)
				} else {
					out = append(out, "<non-constant>")
				}
			}
		}
		return true
	})
	return out
}

// byteLitObjects returns the constant JSON texts converted to []byte in the body.
func (c *Ctx) byteLitTexts(fd *ast.FuncDecl) []string {
	var out []string
	ast.Inspect(fd.Body, func(n ast.Node) bool {
		call, ok := n.(*ast.CallExpr)
		if !ok || !c.isConversion(call) || len(call.Args) != 1 {
			return true
		}
		if s, ok := c.constString(call.Args[0]); ok {
			if sl, ok := c.typeOf(call).Underlying().(*types.Slice); ok {
				if b, ok := sl.Elem().Underlying().(*types.Basic); ok && b.Kind() == types.Byte {
					out = append(out, s)
				}
			}
		}
		return true
	})
	return out
}

func (c *Ctx) indexConstKeys(fd *ast.FuncDecl, root types.Object) []string {
	var out []string
	ast.Inspect(fd.Body, func(n ast.Node) bool {
		ix, ok := n.(*ast.IndexExpr)
		if !ok {
			return true
		}
		id, ok := unparen(ix.X).(*ast.Ident)
		if !ok || c.objOf(id) != root {
			return true
		}
		if s, ok := c.constString(ix.Index); ok {
			out = append(out, s)
		} else {
			out = append(out, "<non-constant>")
		}
		return true
	})
	return out
}

// presenceHelper finds, by role, the helper through which the decoder of the type fills its receiver from a
// generic map (so that a present-but-empty member can be told from an absent one): the method fromMap, or else a
// package function called by the type's UnmarshalJSON that takes a map[string]interface{} and a pointer to the type.
// Returns the function and the index of its map parameter.
func (c *Ctx) presenceHelper(typ string) (*types.Func, int) {
	isGenericMap := func(t types.Type) bool {
		mp, ok := t.Underlying().(*types.Map)
		if !ok || !isStringType(mp.Key()) {
			return false
		}
		it, ok := mp.Elem().Underlying().(*types.Interface)
		return ok && it.Empty()
	}
	mapParam := func(g *types.Func) int {
		sig := g.Type().(*types.Signature)
		for i := 0; i < sig.Params().Len(); i++ {
			if isGenericMap(sig.Params().At(i).Type()) {
				return i
			}
		}
		return -1
	}
	if m := c.method(typ, "fromMap"); m != nil && c.decl(m) != nil {
		if i := mapParam(m); i >= 0 {
			return m, i
		}
	}
	u := c.method(typ, "UnmarshalJSON")
	if u == nil {
		return nil, 0
	}
	for _, g := range c.staticCallees(u) {
		i := mapParam(g)
		if i < 0 {
			continue
		}
		sig := g.Type().(*types.Signature)
		takes := sig.Recv() != nil && isNamed(sig.Recv().Type(), c.Types, typ)
		for k := 0; k < sig.Params().Len(); k++ {
			if _, isPtr := sig.Params().At(k).Type().(*types.Pointer); isPtr && isNamed(sig.Params().At(k).Type(), c.Types, typ) {
				takes = true
			}
		}
		if takes {
			return g, i
		}
	}
	return nil, 0
}

func ruleRefKey(c *Ctx) {
	const rule = "ref-key"
	type pair struct{ typ, key string }
	for _, pr := range []pair{{"Ref", "$ref"}, {"SchemaURL", "$schema"}} {
		m := c.decl(c.method(pr.typ, "MarshalJSON"))
		fmFunc, mapIdx := c.presenceHelper(pr.typ)
		var simParserArgs []sval
		simDecided := false
		fm := c.decl(fmFunc)
		if m == nil {
			c.undecided(rule, pr.typ+".MarshalJSON", token.NoPos, "encoder not found")
		} else {
			c.saw(c.funcName(m))
			keys := c.mapLitKeys(m)
			// (a helper only this encoder calls renders for it)
			owned := c.ownedHelpers(m)
			for _, h := range owned {
				keys = append(keys, c.mapLitKeys(h)...)
			}
			ok := len(keys) > 0
			for _, k := range keys {
				if k != pr.key {
					ok = false
				}
			}
			c.ob(rule, pr.typ+".MarshalJSON:map-key", m.Pos(), ok, fmt.Sprintf("member names written: %v, want only %q", keys, pr.key))
			// constant byte literals must be {} or an object with only that member
			texts := c.byteLitTexts(m)
			for _, h := range owned {
				texts = append(texts, c.byteLitTexts(h)...)
			}
			for i, txt := range texts {
				var v map[string]interface{}
				err := json.Unmarshal([]byte(txt), &v)
				ok := err == nil
				for k := range v {
					if k != pr.key {
						ok = false
					}
				}
				c.ob(rule, fmt.Sprintf("%s.MarshalJSON:literal#%d", pr.typ, i+1), m.Pos(), ok,
					fmt.Sprintf("constant output %q must be an object with at most the member %q", txt, pr.key))
			}
		}
		if fm == nil {
			c.undecided(rule, pr.typ+".fromMap", token.NoPos, "decoder helper not found")
		} else {
			c.saw(c.funcName(fm))
			keys := c.indexConstKeys(fm, c.paramObj(fm, mapIdx))
			if sk, pa, decided := c.fromMapFactsBySim(fm, c.paramObj(fm, mapIdx)); decided {
				// read off the effect normal form (a lookup helper shared by the two types is inlined)
				keys, simParserArgs, simDecided = sk, pa, true
			}
			ok := len(keys) > 0
			for _, k := range keys {
				if k != pr.key {
					ok = false
				}
			}
			c.ob(rule, pr.typ+".fromMap:key", fm.Pos(), ok, fmt.Sprintf("member names read: %v, want only %q", keys, pr.key))
		}
		// the text handed to the reference parser is the decoded member itself, not a rewriting of it
		if fm != nil && pr.typ == "Ref" && simDecided {
			for i, a := range simParserArgs {
				ix, isIx := a.(svIndex)
				good := isIx && isBareParam(ix.x, c.paramObj(fm, mapIdx))
				if good {
					if k, isK := ix.i.(svConst); !isK || k.v.String() != fmt.Sprintf("%q", pr.key) {
						good = false
					}
				}
				key := pr.typ + ".fromMap:text-verbatim"
				if i > 0 {
					key = fmt.Sprintf("%s#%d", key, i+1)
				}
				c.ob(rule, key, fm.Pos(), good,
					"the text given to the reference parser is not the decoded member itself ("+svString(a)+"): decoding rewrites the reference text")
			}
		} else if fm != nil && pr.typ == "Ref" {
			defs := c.localDefs(fm)
			ast.Inspect(fm.Body, func(n ast.Node) bool {
				call, ok := n.(*ast.CallExpr)
				if !ok || len(call.Args) == 0 {
					return true
				}
				f, _ := c.callee(call).(*types.Func)
				if f == nil || f.Pkg() == nil || !(strings.HasSuffix(f.Pkg().Path(), "/jsonreference") || f.Pkg() == c.Types && (f.Name() == "NewRef" || f.Name() == "MustCreateRef")) {
					return true
				}
				if !isStringType(c.typeOf(call.Args[0])) {
					return true
				}
				good, why := c.verbatimMember(fm, call.Args[0], defs, 0)
				c.ob(rule, pr.typ+".fromMap:text-verbatim", call.Pos(), good,
					"the text given to the reference parser is not the decoded member itself ("+why+"): decoding rewrites the reference text")
				return true
			})
		}
		// a constant output can only be right for the empty text: it must be control-dependent on String() == ""
		if m != nil {
			var strVar types.Object
			for o, ds := range c.localDefs(m) {
				for _, d := range ds {
					if call, ok := unparen(d).(*ast.CallExpr); ok && len(call.Args) == 0 {
						if se, ok := unparen(call.Fun).(*ast.SelectorExpr); ok && se.Sel.Name == "String" {
							strVar = o
						}
					}
				}
			}
			nconst, okConst := 0, true
			ast.Inspect(m.Body, func(n ast.Node) bool {
				rs, ok := n.(*ast.ReturnStmt)
				if !ok || len(rs.Results) == 0 {
					return true
				}
				call, ok := unparen(rs.Results[0]).(*ast.CallExpr)
				if !ok || !c.isConversion(call) || len(call.Args) != 1 {
					return true
				}
				if _, isConst := c.constString(call.Args[0]); !isConst {
					return true
				}
				nconst++
				under := false
				for _, cl := range c.literalsAt(m, rs) {
					be, ok := unparen(cl.e).(*ast.BinaryExpr)
					if !ok || !(be.Op == token.EQL && !cl.neg || be.Op == token.NEQ && cl.neg) {
						continue
					}
					s, isEmpty := c.constString(be.Y)
					if !isEmpty || s != "" {
						continue
					}
					if id, ok := unparen(be.X).(*ast.Ident); ok && (c.objOf(id) == strVar || c.objOf(id) == c.recvObj(m)) {
						under = true
					}
				}
				if !under {
					okConst = false
				}
				return true
			})
			if nconst > 0 {
				c.ob(rule, pr.typ+".MarshalJSON:constant-only-when-empty", m.Pos(), okConst,
					"a constant encoding is returned on a path where the text of the value is not known to be empty: a non-empty value loses its text")
			}
		}
		// the decoder must go through the presence-aware helper shared with Schema.UnmarshalJSON
		if u := c.decl(c.method(pr.typ, "UnmarshalJSON")); u != nil && fm != nil {
			via := false
			ast.Inspect(u.Body, func(n ast.Node) bool {
				if call, ok := n.(*ast.CallExpr); ok {
					if g, _ := c.callee(call).(*types.Func); g != nil && g == fmFunc {
						via = true
					}
				}
				return true
			})
			// ... or tells presence from absence itself: the member is looked up in a map with the comma-ok form
			// (in the decoder or a function it calls) - what happens for "" is then absence-is-nil's business
			if !via {
				um := c.method(pr.typ, "UnmarshalJSON")
				bodies := []*ast.FuncDecl{u}
				if um != nil {
					for _, g := range c.staticCallees(um) {
						if gfd := c.decl(g); gfd != nil && gfd.Body != nil {
							bodies = append(bodies, gfd)
						}
					}
				}
				for _, b := range bodies {
					ast.Inspect(b.Body, func(n ast.Node) bool {
						as, ok := n.(*ast.AssignStmt)
						if !ok || len(as.Lhs) != 2 || len(as.Rhs) != 1 {
							return true
						}
						ix, ok := unparen(as.Rhs[0]).(*ast.IndexExpr)
						if !ok {
							return true
						}
						if _, isMap := c.typeOf(ix.X).Underlying().(*types.Map); !isMap {
							return true
						}
						if k, isC := c.constString(ix.Index); isC && k == pr.key {
							if okID, isId := as.Lhs[1].(*ast.Ident); isId && okID.Name != "_" {
								via = true
							}
						}
						return true
					})
				}
			}
			c.ob(rule, pr.typ+".UnmarshalJSON:via-fromMap", u.Pos(), via,
				"the decoder does not use the presence-aware helper: an empty but present member (the root reference \"\") can no longer be told from an absent one")
		}
		// UnmarshalJSON of the type must route through fromMap with the decoded map
		if u := c.decl(c.method(pr.typ, "UnmarshalJSON")); u != nil {
			c.saw(c.funcName(u))
			facts := c.decoderFacts(u)
			c.ob(rule, pr.typ+".UnmarshalJSON:fills-receiver", u.Pos(), len(facts) > 0, "decoder never stores anything derived from the input into the receiver")
		}
	}
	// Schema.UnmarshalJSON removes both hand-coded members before parking the rest in ExtraProps
	if u := c.decl(c.method("Schema", "UnmarshalJSON")); u != nil {
		c.saw(c.funcName(u))
		deleted := map[string]bool{}
		ast.Inspect(u.Body, func(n ast.Node) bool {
			if call, ok := n.(*ast.CallExpr); ok && c.isBuiltin(call, "delete") && len(call.Args) == 2 {
				if s, ok := c.constString(call.Args[1]); ok {
					deleted[s] = true
				}
			}
			return true
		})
		// ... or in a function or method the generic map is handed to
		for k := range c.schemaDecoderEvents().delConst {
			deleted[k] = true
		}
		// ... or, on the effect normal form, the key is known not to be the member at every store into ExtraProps
		if ef, ok := c.extraFillBySim(u); ok {
			deleted["$ref"], deleted["$schema"] = ef.refOK, ef.schemaOK
		}
		for _, k := range []string{"$ref", "$schema"} {
			c.ob(rule, "Schema.UnmarshalJSON:delete("+k+")", u.Pos(), deleted[k], "hand-coded member is not removed from the generic map, so it would be re-emitted a second time through ExtraProps")
		}
	} else {
		c.undecided(rule, "Schema.UnmarshalJSON", token.NoPos, "decoder not found")
	}
}

// verbatimMember decides whether a string expression is, unchanged, a member read from the function's map parameter.
func (c *Ctx) verbatimMember(fd *ast.FuncDecl, e ast.Expr, defs map[types.Object][]ast.Expr, depth int) (bool, string) {
	if depth > 6 {
		return false, "provenance chain too long"
	}
	switch x := unparen(e).(type) {
	case *ast.Ident:
		o := c.objOf(x)
		ds := defs[o]
		if len(ds) == 0 {
			// variable bound by a type switch
			var sw ast.Expr
			ast.Inspect(fd.Body, func(n ast.Node) bool {
				ts, ok := n.(*ast.TypeSwitchStmt)
				if !ok {
					return true
				}
				for _, cl := range ts.Body.List {
					if c.Info.Implicits[cl] == o {
						if as, ok := ts.Assign.(*ast.AssignStmt); ok && len(as.Rhs) == 1 {
							sw = as.Rhs[0]
						}
					}
				}
				return true
			})
			if sw != nil {
				return c.verbatimMember(fd, sw, defs, depth+1)
			}
			return false, x.Name + " is not a local copy of the member"
		}
		for _, d := range ds {
			if d == nil {
				continue
			}
			if ok, why := c.verbatimMember(fd, d, defs, depth+1); !ok {
				return false, why
			}
		}
		return true, ""
	case *ast.TypeAssertExpr:
		return c.verbatimMember(fd, x.X, defs, depth+1)
	case *ast.IndexExpr:
		if id, ok := unparen(x.X).(*ast.Ident); ok {
			if o := c.objOf(id); o != nil && fd.Type.Params != nil && o.Pos() >= fd.Type.Params.Pos() && o.Pos() <= fd.Type.Params.End() {
				if _, isMap := o.Type().Underlying().(*types.Map); isMap {
					return true, ""
				}
			}
		}
		return false, "read from " + exprString(x.X)
	case *ast.CallExpr:
		if c.isConversion(x) && len(x.Args) == 1 {
			return c.verbatimMember(fd, x.Args[0], defs, depth+1)
		}
		return false, "result of " + exprString(x.Fun)
	}
	return false, "computed by " + exprString(e)
}

// ownedHelpers: the unexported package functions (not methods) that fd calls and that nothing else in the package
// uses.
func (c *Ctx) ownedHelpers(fd *ast.FuncDecl) []*ast.FuncDecl {
	self, _ := c.Info.Defs[fd.Name].(*types.Func)
	if self == nil {
		return nil
	}
	var out []*ast.FuncDecl
	for _, g := range c.staticCallees(self) {
		if g.Exported() || g.Type().(*types.Signature).Recv() != nil {
			continue
		}
		only := true
		for _, other := range c.allFuncDecls() {
			if other == fd || other.Body == nil {
				continue
			}
			ast.Inspect(other.Body, func(n ast.Node) bool {
				if id, ok := n.(*ast.Ident); ok && c.Info.Uses[id] == types.Object(g) {
					only = false
				}
				return true
			})
		}
		if gd := c.decl(g); only && gd != nil && gd.Body != nil {
			out = append(out, gd)
		}
	}
	return out
}
