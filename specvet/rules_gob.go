package main

import (
	"fmt"
	"go/ast"
	"go/token"
	"go/types"
	"sort"
	"strings"
)

func init() {
	registerRule("gob-shapes", 28, "type-graph audit of every Go shape encoding/gob cannot carry with a JSON-visible effect", ruleGobShapes)
	registerRule("gob-proxy-symmetry", 48, "every field of every gob proxy is set on encode and consumed on decode; the three security states are handled on both sides", ruleGobProxySymmetry)
	registerRule("gob-via-json", 4, "Ref's gob codec is its JSON codec wrapped: the gob law reduces to the JSON law", ruleGobViaJSON)
	registerRule("ref-opaque", 2, "the package never writes jsonreference.Ref's classification flags nor builds one by literal", ruleRefOpaque)
}

var gobRoots = []string{"Swagger", "Operation", "Parameter", "Schema", "Response", "Ref"}

// gobEncodedType finds the static type of the value handed to (*gob.Encoder).Encode in a GobEncode body.
// gobHelper: a package function that hands one of its parameters to the gob encoder/decoder; returns the
// index of that parameter, or -1.
func (c *Ctx) gobHelperParam(g *types.Func, method string) int {
	gfd := c.decl(g)
	if gfd == nil || gfd.Body == nil {
		return -1
	}
	idx := -1
	ast.Inspect(gfd.Body, func(n ast.Node) bool {
		call, ok := n.(*ast.CallExpr)
		if !ok || len(call.Args) != 1 {
			return true
		}
		r, name, pkg, isM := c.calleeMethod(call)
		if isM && pkg == "encoding/gob" && (r == "Encoder" && name == "Encode" && method == "GobEncode" || r == "Decoder" && name == "Decode" && method == "GobDecode") {
			if id, ok := unparen(call.Args[0]).(*ast.Ident); ok {
				idx = c.paramIndex(gfd, c.objOf(id))
				if idx < 0 && gfd.Recv != nil && c.objOf(id) == c.recvObj(gfd) {
					idx = gobHelperReceiver
				}
			}
		}
		return true
	})
	if gfd.Recv != nil && idx != gobHelperReceiver {
		return -1
	}
	return idx
}

// gobHelperReceiver: the helper is a method that hands its own receiver to the gob codec.
const gobHelperReceiver = 1 << 20

// gobHelperArg picks, at a call site of a gob helper, the expression that ends up in the gob codec.
func (c *Ctx) gobHelperArg(call *ast.CallExpr, pi int) ast.Expr {
	if pi == gobHelperReceiver {
		if se, ok := unparen(call.Fun).(*ast.SelectorExpr); ok {
			return se.X
		}
		return nil
	}
	if pi >= 0 && pi < len(call.Args) {
		return call.Args[pi]
	}
	return nil
}

func (c *Ctx) gobCodecValue(fd *ast.FuncDecl, method string) (types.Type, ast.Expr) {
	var t types.Type
	var arg ast.Expr
	// through a helper: gobEncodeValue(x) / gobDecodeValue(b, &x)
	ast.Inspect(fd.Body, func(n ast.Node) bool {
		call, ok := n.(*ast.CallExpr)
		if !ok {
			return true
		}
		if g, ok := c.callee(call).(*types.Func); ok && g.Pkg() == c.Types {
			if a := c.gobHelperArg(call, c.gobHelperParam(g, method)); a != nil {
				arg = a
				t = c.typeOf(arg)
				if method == "GobDecode" {
					t = derefType(t)
				}
			}
		}
		return true
	})
	ast.Inspect(fd.Body, func(n ast.Node) bool {
		call, ok := n.(*ast.CallExpr)
		if !ok || len(call.Args) != 1 {
			return true
		}
		r, name, pkg, isM := c.calleeMethod(call)
		if isM && pkg == "encoding/gob" && (r == "Encoder" && name == "Encode" && method == "GobEncode" || r == "Decoder" && name == "Decode" && method == "GobDecode") {
			arg = call.Args[0]
			t = c.typeOf(arg)
			if method == "GobDecode" {
				t = derefType(t)
			}
		}
		return true
	})
	return t, arg
}

type gobWalk struct {
	c        *Ctx
	seen     map[string]bool
	findings map[string]string // key -> why
	pos      map[string]token.Pos
	visited  int
	padded   map[string]bool // struct.field positions handled by a padding codec
}

func (w *gobWalk) report(key, why string, p token.Pos) {
	if _, dup := w.findings[key]; !dup {
		w.findings[key] = why
		w.pos[key] = p
	}
}

// walk follows what encoding/gob would transmit for a value of type t.
func (w *gobWalk) walk(t types.Type, where string, pos token.Pos) {
	c := w.c
	t = types.Unalias(t)
	id := types.TypeString(t, nil) + "@" + ""
	if n, ok := t.(*types.Named); ok {
		// a type with its own gob codec: continue from the proxy value it encodes
		if n.Obj().Pkg() == c.Types {
			if m := hasMethod(n, "GobEncode"); m != nil && m.Pkg() == c.Types {
				if w.seen["codec:"+n.Obj().Name()] {
					return
				}
				w.seen["codec:"+n.Obj().Name()] = true
				w.visited++
				fd := c.decl(m)
				if fd == nil {
					w.report("undecided:"+n.Obj().Name(), "GobEncode body not found", pos)
					return
				}
				c.saw(c.funcName(fd))
				pt, _ := c.gobCodecValue(fd, "GobEncode")
				if pt == nil {
					w.report("undecided:"+n.Obj().Name(), "cannot find the value handed to gob in GobEncode", fd.Pos())
					return
				}
				// a []byte payload produced by another codec is opaque to gob
				if sl, ok := pt.Underlying().(*types.Slice); ok {
					if b, ok := sl.Elem().Underlying().(*types.Basic); ok && b.Kind() == types.Byte {
						return
					}
				}
				// the proxy is walked by reflection; aliases of the receiver's struct lose the codec
				w.walkStruct(pt, n.Obj().Name()+"(gob proxy)", fd.Pos(), true)
				return
			}
		} else if hasMethod(n, "GobEncode") != nil || hasMethod(n, "MarshalBinary") != nil {
			return
		}
	}
	if w.seen[id] {
		return
	}
	switch u := t.Underlying().(type) {
	case *types.Struct:
		w.seen[id] = true
		w.walkStruct(t, typeNameOf(t), pos, false)
	case *types.Pointer:
		if b, ok := u.Elem().Underlying().(*types.Basic); ok {
			w.report("L1:"+where, fmt.Sprintf("pointer to %s: gob omits a pointed-to zero value, so it comes back nil (e.g. a keyword set to 0 disappears)", b.Name()), pos)
			return
		}
		w.walk(u.Elem(), where, pos)
	case *types.Slice:
		w.walkElem(u.Elem(), where+"[]", pos)
	case *types.Array:
		w.walkElem(u.Elem(), where+"[]", pos)
	case *types.Map:
		w.walkElem(u.Elem(), where+"[]", pos)
	case *types.Interface:
		w.report("L2:"+where, "interface{} position: an empty []interface{} held here is transmitted as a zero-length value and comes back nil, so [] re-encodes as null", pos)
	}
}

func (w *gobWalk) walkElem(t types.Type, where string, pos token.Pos) {
	w.walk(t, where, pos)
}

func (w *gobWalk) walkStruct(t types.Type, name string, pos token.Pos, proxy bool) {
	st, ok := types.Unalias(t).Underlying().(*types.Struct)
	if !ok {
		w.walk(t, name, pos)
		return
	}
	w.visited++
	hasExported := false
	for i := 0; i < st.NumFields(); i++ {
		f := st.Field(i)
		if !f.Exported() {
			continue
		}
		hasExported = true
		ft := types.Unalias(f.Type())
		where := name + "." + f.Name()
		if name == "" {
			where = f.Name()
		}
		// proxies refer to method-less aliases of the real props struct: name the position after the real type
		if pt, ok := ft.(*types.Pointer); ok {
			if n, ok := types.Unalias(pt.Elem()).(*types.Named); ok && n.Obj().Pkg() == w.c.Types && isStruct(n) && n.NumMethods() == 0 && proxy {
				if real := w.c.sameStructNamed(n); real != "" {
					w.seen["codec-alias:"+real] = true
					w.walkStruct(n, real, f.Pos(), false)
					continue
				}
			}
		}
		w.walk(ft, where, f.Pos())
	}
	if !hasExported && st.NumFields() > 0 {
		w.report("L4:"+name, "struct with only unexported state and no gob codec: nothing is transmitted", pos)
	}
}

// sameStructNamed finds the exported named type whose underlying struct is identical (swaggerPropsAlias -> SwaggerProps).
func (c *Ctx) sameStructNamed(alias *types.Named) string {
	sc := c.Types.Scope()
	for _, n := range sc.Names() {
		tn, ok := sc.Lookup(n).(*types.TypeName)
		if !ok || !tn.Exported() {
			continue
		}
		if nn, ok := tn.Type().(*types.Named); ok && nn != alias && types.Identical(nn.Underlying(), alias.Underlying()) {
			return n
		}
	}
	return ""
}

func ruleGobShapes(c *Ctx) {
	const rule = "gob-shapes"
	w := &gobWalk{c: c, seen: map[string]bool{}, findings: map[string]string{}, pos: map[string]token.Pos{}}
	for _, r := range gobRoots {
		n := c.namedType(r)
		if n == nil {
			c.ob(rule, "root:"+r, token.NoPos, false, "root type named by the property no longer exists")
			continue
		}
		w.walk(n, r, n.Obj().Pos())
	}
	// every position visited is an obligation: either lossless or a finding
	c.walkGobPositions(rule, w)
	// registrations of free-form container types
	reg := map[string]bool{}
	for _, fd := range c.allFuncDecls() {
		if fd.Body == nil {
			continue
		}
		ast.Inspect(fd.Body, func(n ast.Node) bool {
			if call, ok := n.(*ast.CallExpr); ok && c.isPkgFunc(call, "encoding/gob", "Register") && len(call.Args) == 1 {
				if fd.Name.Name == "init" && fd.Recv == nil {
					reg[types.TypeString(c.typeOf(call.Args[0]), nil)] = true
				}
			}
			return true
		})
	}
	for _, want := range []string{"map[string]interface{}", "[]interface{}"} {
		c.ob(rule, "register:"+want, token.NoPos, reg[want] || reg[strings.ReplaceAll(want, "interface{}", "any")],
			"free-form JSON containers travel inside interface{} positions and must be registered with gob in an init function")
	}
}

// walkGobPositions turns the walk into obligations: one per exported field position reached.
func (c *Ctx) walkGobPositions(rule string, w *gobWalk) {
	keys := sortedKeys(w.findings)
	for _, k := range keys {
		if strings.HasPrefix(k, "undecided:") {
			c.undecided(rule, strings.TrimPrefix(k, "undecided:"), w.pos[k], w.findings[k])
			continue
		}
		c.ob(rule, k, w.pos[k], false, w.findings[k])
	}
	// discharged positions: every struct reached whose fields are all carried
	for id := range w.seen {
		if strings.HasPrefix(id, "codec:") {
			c.ob(rule, "codec-followed:"+strings.TrimPrefix(id, "codec:"), token.NoPos, true, "")
		}
	}
	c.note("gob-shapes walked %d struct/codec nodes from roots %v", w.visited, gobRoots)
}

// ---- gob-proxy-symmetry ----

func ruleGobProxySymmetry(c *Ctx) {
	const rule = "gob-proxy-symmetry"
	sc := c.Types.Scope()
	for _, tname := range sc.Names() {
		n := c.namedType(tname)
		if n == nil {
			continue
		}
		enc, dec := declaredMethod(n, "GobEncode"), declaredMethod(n, "GobDecode")
		if enc == nil && dec == nil {
			continue
		}
		if enc == nil || dec == nil {
			c.ob(rule, tname+":paired", n.Obj().Pos(), false, "GobEncode and GobDecode must both be declared")
			continue
		}
		efd, dfd := c.decl(enc), c.decl(dec)
		if efd == nil || dfd == nil {
			c.undecided(rule, tname, n.Obj().Pos(), "codec bodies not found")
			continue
		}
		c.saw(c.funcName(efd))
		c.saw(c.funcName(dfd))
		c.gobLoopsKeepEveryElement(rule, tname, efd)
		c.gobLoopsKeepEveryElement(rule, tname, dfd)
		et, earg := c.gobCodecValue(efd, "GobEncode")
		dt, darg := c.gobCodecValue(dfd, "GobDecode")
		// read off the effect normal form of the two codecs when both are in the supported fragment
		if sf, ok := c.gobFactsBySim(efd, dfd); ok && sf.encType != nil && sf.decType != nil {
			st, isSt := n.Underlying().(*types.Struct)
			c.ob(rule, tname+":same-proxy-type", efd.Pos(), gobTypesAgree(sf.encType, sf.decType),
				fmt.Sprintf("GobEncode sends %s but GobDecode receives %s", sf.encType, sf.decType))
			c.ob(rule, tname+":decodes-into-fresh", dfd.Pos(), sf.decIntoRecv == "",
				"gob decodes straight into "+sf.decIntoRecv+", storage of the receiver: gob does not reset what it decodes into (zero values are not transmitted, map entries are added), so a receiver that already holds a value keeps parts of it")
			if isSt {
				for i := 0; i < st.NumFields(); i++ {
					f := st.Field(i)
					if !f.Exported() {
						continue
					}
					inE := sf.encComps[f.Name()] || sf.encComps[""]
					inD := sf.decComps[f.Name()] || sf.decComps[""]
					why := ""
					if !inE {
						why = "component never reaches the value handed to the gob encoder"
					} else if !inD {
						why = "component is never restored from the decoded gob value"
					}
					c.ob(rule, tname+":"+f.Name(), efd.Pos(), inE && inD, why)
				}
			}
			if pst, ok := sf.encType.Underlying().(*types.Struct); ok {
				for i := 0; i < pst.NumFields(); i++ {
					f := pst.Field(i)
					why := ""
					if !sf.setOnEnc[f.Name()] {
						why = "proxy field is never set by GobEncode"
					} else if !sf.readOnDec[f.Name()] {
						why = "proxy field is never consumed by GobDecode"
					}
					c.ob(rule, tname+":proxy."+f.Name(), efd.Pos(), sf.setOnEnc[f.Name()] && sf.readOnDec[f.Name()], why)
				}
				if isSt && hasFieldNamed(st, "Security") && hasFieldNamed(pst, "SecurityIsEmpty") {
					var rawEnc, rawDec types.Object
					if id, ok := unparen(earg).(*ast.Ident); ok {
						rawEnc = c.objOf(id)
					}
					if darg != nil {
						if p, ok := c.apath(darg); ok {
							rawDec = p.Root
						}
					}
					c.securityStates(rule, tname, efd, dfd, rawEnc, rawDec)
				}
			}
			continue
		}
		if et == nil || dt == nil {
			c.undecided(rule, tname, efd.Pos(), "cannot find the value handed to / filled by gob")
			continue
		}
		c.ob(rule, tname+":same-proxy-type", efd.Pos(), types.Identical(et, dt),
			fmt.Sprintf("GobEncode sends %s but GobDecode receives %s", et, dt))

		// components of the receiver covered on both sides
		st, isSt := n.Underlying().(*types.Struct)
		encLabels := map[string]bool{}
		{
			f := newPathFlow(c, efd)
			f.srcRoot = c.recvObj(efd)
			f.run()
			for l := range flatten(f.eval(earg)) {
				if strings.HasPrefix(l, "R:") {
					encLabels[strings.TrimPrefix(l, "R:")] = true
				}
			}
		}
		decFacts := c.decoderFacts(dfd)
		decSet := map[string]bool{}
		for p := range decFacts {
			decSet[p] = true
		}
		if isSt {
			for i := 0; i < st.NumFields(); i++ {
				f := st.Field(i)
				if !f.Exported() {
					continue
				}
				inE, inD := coversComponent(encLabels, f.Name()), coversComponent(decSet, f.Name())
				why := ""
				if !inE {
					why = "component never reaches the value handed to the gob encoder"
				} else if !inD {
					why = "component is never restored from the decoded gob value"
				}
				c.ob(rule, tname+":"+f.Name(), efd.Pos(), inE && inD, why)
			}
		}
		// every proxy field set on encode and read on decode
		pst, ok := et.Underlying().(*types.Struct)
		if !ok {
			continue
		}
		var rawEnc, rawDec types.Object
		if id, ok := unparen(earg).(*ast.Ident); ok {
			rawEnc = c.objOf(id)
		}
		if p, ok := c.apath(darg); ok {
			rawDec = p.Root
		}
		setOnEnc, readOnDec := map[string]bool{}, map[string]bool{}
		ast.Inspect(efd.Body, func(nd ast.Node) bool {
			switch x := nd.(type) {
			case *ast.CompositeLit:
				if types.Identical(c.typeOf(x), et) {
					for _, el := range x.Elts {
						if kv, ok := el.(*ast.KeyValueExpr); ok {
							if id, ok := kv.Key.(*ast.Ident); ok {
								setOnEnc[id.Name] = true
							}
						}
					}
				}
			case *ast.AssignStmt:
				for _, l := range x.Lhs {
					if p, ok := c.apath(l); ok && p.Root == rawEnc && len(p.Steps) == 1 {
						setOnEnc[p.Steps[0]] = true
					}
				}
			}
			return true
		})
		ast.Inspect(dfd.Body, func(nd ast.Node) bool {
			switch x := nd.(type) {
			case *ast.AssignStmt:
				for _, r := range x.Rhs {
					ast.Inspect(r, func(m ast.Node) bool {
						if e, ok := m.(ast.Expr); ok {
							if p, ok := c.apath(e); ok && p.Root == rawDec && len(p.Steps) >= 1 {
								readOnDec[p.Steps[0]] = true
								return false
							}
						}
						return true
					})
				}
			case *ast.RangeStmt:
				if p, ok := c.apath(x.X); ok && p.Root == rawDec && len(p.Steps) >= 1 {
					readOnDec[p.Steps[0]] = true
				}
			case *ast.CaseClause:
				for _, e := range x.List {
					ast.Inspect(e, func(m ast.Node) bool {
						if ex, ok := m.(ast.Expr); ok {
							if p, ok := c.apath(ex); ok && p.Root == rawDec && len(p.Steps) >= 1 {
								readOnDec[p.Steps[0]] = true
								return false
							}
						}
						return true
					})
				}
			case *ast.IfStmt:
				ast.Inspect(x.Cond, func(m ast.Node) bool {
					if ex, ok := m.(ast.Expr); ok {
						if p, ok := c.apath(ex); ok && p.Root == rawDec && len(p.Steps) >= 1 {
							readOnDec[p.Steps[0]] = true
							return false
						}
					}
					return true
				})
			}
			return true
		})
		for i := 0; i < pst.NumFields(); i++ {
			f := pst.Field(i)
			why := ""
			if !setOnEnc[f.Name()] {
				why = "proxy field is never set by GobEncode"
			} else if !readOnDec[f.Name()] {
				why = "proxy field is never consumed by GobDecode"
			}
			c.ob(rule, tname+":proxy."+f.Name(), efd.Pos(), setOnEnc[f.Name()] && readOnDec[f.Name()], why)
		}
		// the three security states
		if isSt && hasFieldNamed(st, "Security") && hasFieldNamed(pst, "SecurityIsEmpty") {
			c.securityStates(rule, tname, efd, dfd, rawEnc, rawDec)
		}
	}
}

func hasFieldNamed(st *types.Struct, name string) bool {
	for i := 0; i < st.NumFields(); i++ {
		if st.Field(i).Name() == name {
			return true
		}
	}
	return false
}

// securityStates checks that nil / empty / non-empty security requirements are distinguished on both sides.
func (c *Ctx) securityStates(rule, tname string, efd, dfd *ast.FuncDecl, rawEnc, rawDec types.Object) {
	recv := c.recvObj(efd)
	isRecvSecurity := func(e ast.Expr) bool {
		p, ok := c.apath(e)
		return ok && p.Root == recv && lastStep(p) == "Security"
	}
	// literal helpers over the receiver's Security
	isNilTest := func(cl condLit) int { // +1: Security == nil holds, -1: Security != nil holds
		be, ok := unparen(cl.e).(*ast.BinaryExpr)
		if !ok || !isRecvSecurity(be.X) || !isNilIdent(c, be.Y) {
			return 0
		}
		v := 0
		if be.Op == token.EQL {
			v = 1
		} else if be.Op == token.NEQ {
			v = -1
		}
		if cl.neg {
			v = -v
		}
		return v
	}
	isLenZero := func(cl condLit) bool {
		be, ok := unparen(cl.e).(*ast.BinaryExpr)
		if !ok || be.Op != token.EQL || cl.neg {
			return false
		}
		call, ok := unparen(be.X).(*ast.CallExpr)
		if !ok || !c.isBuiltin(call, "len") || len(call.Args) != 1 || !isRecvSecurity(call.Args[0]) {
			return false
		}
		tv, ok := c.Info.Types[be.Y]
		return ok && tv.Value != nil && tv.Value.String() == "0"
	}
	nilBranch, emptyFlag, emptyClears, nflag := true, false, false, 0
	ast.Inspect(efd.Body, func(n ast.Node) bool {
		x, ok := n.(*ast.AssignStmt)
		if !ok {
			return true
		}
		for i, l := range x.Lhs {
			p, ok := c.apath(l)
			if !ok || p.Root != rawEnc || i >= len(x.Rhs) {
				continue
			}
			lits := c.literalsAt(efd, x)
			notNil, lenZero := false, false
			for _, cl := range lits {
				if isNilTest(cl) == -1 {
					notNil = true
				}
				if isLenZero(cl) {
					lenZero = true
				}
			}
			if lastStep(p) == "SecurityIsEmpty" {
				nflag++
				if tv, ok := c.Info.Types[x.Rhs[i]]; ok && tv.Value != nil && tv.Value.String() == "true" {
					if !notNil {
						nilBranch = false // the flag can be raised for an absent security
					}
					if lenZero {
						emptyFlag = true
					}
				}
			}
			if lastStep(p) == "Security" && len(p.Steps) == 2 && lenZero && isNilIdent(c, x.Rhs[i]) {
				emptyClears = true
			}
		}
		return true
	})
	nilBranch = nilBranch && nflag > 0
	// one fresh padded map per requirement, on both sides
	for _, side := range []*ast.FuncDecl{efd, dfd} {
		fresh, loops := true, 0
		defs := c.localDefs(side)
		ast.Inspect(side.Body, func(n ast.Node) bool {
			rs, ok := n.(*ast.RangeStmt)
			if !ok {
				return true
			}
			p, ok := c.apath(rs.X)
			if !ok || lastStep(p) != "Security" {
				return true
			}
			ast.Inspect(rs.Body, func(m ast.Node) bool {
				call, ok := m.(*ast.CallExpr)
				if !ok || !c.isBuiltin(call, "append") || len(call.Args) != 2 {
					return true
				}
				id, ok := unparen(call.Args[1]).(*ast.Ident)
				if !ok {
					return true
				}
				if _, isMap := c.objOf(id).Type().Underlying().(*types.Map); !isMap {
					return true
				}
				loops++
				for _, d := range defs[c.objOf(id)] {
					if d == nil || d.Pos() < rs.Body.Pos() || d.End() > rs.Body.End() {
						fresh = false
					}
				}
				return true
			})
			return true
		})
		if loops > 0 {
			c.ob(rule, tname+":security:fresh-map("+side.Name.Name+")", side.Pos(), fresh,
				"the per-requirement map is created outside the loop over the requirements: every entry aliases one map, so alternative requirements come back merged")
		}
	}
	c.ob(rule, tname+":security:nil-state", efd.Pos(), nilBranch, "absent security must be encoded without raising SecurityIsEmpty")
	c.ob(rule, tname+":security:empty-state", efd.Pos(), emptyFlag && emptyClears, "an empty (non-nil) security list must raise SecurityIsEmpty under len(Security)==0 (gob itself drops the empty slice)")
	// decode side, decided from the conditions that hold at each assignment to <raw>.Alias.Security (switch,
	// if-chain or early returns alike): under SecurityIsEmpty a non-nil empty list; under "nothing transmitted"
	// nil; otherwise a list rebuilt from the padded <raw>.Security (in place or by a helper)
	decEmpty, decNil, decRebuild := false, false, false
	usesPadded := func(e ast.Expr) bool {
		found := false
		ast.Inspect(e, func(m ast.Node) bool {
			if ex, ok := m.(ast.Expr); ok {
				if p, ok := c.apath(ex); ok && p.Root == rawDec && len(p.Steps) == 1 && p.Steps[0] == "Security" {
					found = true
				}
			}
			return true
		})
		return found
	}
	ast.Inspect(dfd.Body, func(n ast.Node) bool {
		as, ok := n.(*ast.AssignStmt)
		if !ok {
			return true
		}
		for i, l := range as.Lhs {
			p, ok := c.apath(l)
			if !ok || p.Root != rawDec || len(p.Steps) != 2 || lastStep(p) != "Security" || i >= len(as.Rhs) {
				continue
			}
			flagPos, flagNeg, lenZero, lenNonZero := false, false, false, false
			for _, cl := range c.literalsAt(dfd, as) {
				if fp, ok := c.apath(cl.e); ok && fp.Root == rawDec && lastStep(fp) == "SecurityIsEmpty" {
					if cl.neg {
						flagNeg = true
					} else {
						flagPos = true
					}
				}
				if be, ok := unparen(cl.e).(*ast.BinaryExpr); ok && be.Op == token.EQL {
					if call, ok := unparen(be.X).(*ast.CallExpr); ok && c.isBuiltin(call, "len") {
						if cl.neg {
							lenNonZero = true
						} else {
							lenZero = true
						}
					}
				}
			}
			rhs := unparen(as.Rhs[i])
			switch {
			case flagPos:
				if lit, ok := rhs.(*ast.CompositeLit); ok && len(lit.Elts) == 0 {
					decEmpty = true
				}
			case flagNeg && lenZero:
				if isNilIdent(c, rhs) {
					decNil = true
				}
			case flagNeg && lenNonZero:
				// rebuilt from the padded list: directly from it (helper call) or by a loop over it in the same branch
				if usesPadded(rhs) {
					decRebuild = true
				} else {
					block, _ := c.enclosingBlock(dfd, as)
					for _, st := range block {
						if rs, ok := st.(*ast.RangeStmt); ok && usesPadded(rs.X) {
							decRebuild = true
						}
					}
				}
			}
		}
		return true
	})
	c.ob(rule, tname+":security:decode-empty", dfd.Pos(), decEmpty, "SecurityIsEmpty must be decoded to a non-nil empty list")
	c.ob(rule, tname+":security:decode-nil", dfd.Pos(), decNil, "no transmitted requirement and no flag must decode to nil")
	c.ob(rule, tname+":security:decode-rebuild", dfd.Pos(), decRebuild, "non-empty requirements must be rebuilt from the padded list (which keeps empty scope lists)")
}

// ---- gob-via-json ----

func ruleGobViaJSON(c *Ctx) {
	const rule = "gob-via-json"
	enc, dec := c.decl(c.method("Ref", "GobEncode")), c.decl(c.method("Ref", "GobDecode"))
	if enc == nil || dec == nil {
		c.undecided(rule, "Ref", token.NoPos, "Ref.GobEncode/GobDecode not found")
		return
	}
	c.saw(c.funcName(enc))
	c.saw(c.funcName(dec))
	if sf, decided := c.gobFactsBySim(enc, dec); decided {
		// read off the effect normal form (helpers around the gob calls inlined)
		okEnc := false
		if sc, isCall := sf.encPayload.(svCall); isCall && sc.idx == 0 {
			if f, isF := sc.callee.(*types.Func); isF && f.Name() == "MarshalJSON" && f.Pkg() == c.Types {
				switch r := sc.recv.(type) {
				case svPath:
					okEnc = r.root == c.recvObj(enc) && firstStep(r) == ""
				case svAddr:
					okEnc = r.p.root == c.recvObj(enc) && firstStep(r.p) == ""
				}
			}
		}
		c.ob(rule, "Ref.GobEncode:payload-is-MarshalJSON", enc.Pos(), okEnc, "the gob payload must be the receiver's own JSON encoding")
		c.ob(rule, "Ref.GobDecode:json-into-receiver", dec.Pos(), sf.jsonInto, "the decoded gob payload must be handed to json.Unmarshal into the receiver")
		for _, fd := range []*ast.FuncDecl{enc, dec} {
			c.errDiscipline(rule, fd)
		}
		return
	}
	// encode: payload = recv.MarshalJSON()
	_, earg := c.gobCodecValue(enc, "GobEncode")
	ok := false
	if id, isId := unparen(earg).(*ast.Ident); isId {
		for _, d := range c.localDefs(enc)[c.objOf(id)] {
			if call, isC := unparen(d).(*ast.CallExpr); isC && c.isSpecMethod(call, "Ref", "MarshalJSON") {
				if se, isS := unparen(call.Fun).(*ast.SelectorExpr); isS {
					if p, okp := c.apath(se.X); okp && p.Root == c.recvObj(enc) && len(p.Steps) == 0 {
						ok = true
					}
				}
			}
		}
	}
	c.ob(rule, "Ref.GobEncode:payload-is-MarshalJSON", enc.Pos(), ok, "the gob payload must be the receiver's own JSON encoding")
	// decode: json.Unmarshal(<decoded payload>, recv)
	_, darg := c.gobCodecValue(dec, "GobDecode")
	ok = false
	var payload types.Object
	if p, okp := c.apath(darg); okp {
		payload = p.Root
	}
	ast.Inspect(dec.Body, func(n ast.Node) bool {
		call, isC := n.(*ast.CallExpr)
		if !isC || !c.isPkgFunc(call, "encoding/json", "Unmarshal") || len(call.Args) != 2 {
			return true
		}
		a0, ok0 := unparen(call.Args[0]).(*ast.Ident)
		p1, ok1 := c.apath(call.Args[1])
		if ok0 && ok1 && payload != nil && c.objOf(a0) == payload && p1.Root == c.recvObj(dec) && len(p1.Steps) == 0 {
			ok = true
		}
		return true
	})
	c.ob(rule, "Ref.GobDecode:json-into-receiver", dec.Pos(), ok, "the decoded gob payload must be handed to json.Unmarshal into the receiver")
	// both sides propagate every error
	for _, fd := range []*ast.FuncDecl{enc, dec} {
		c.errDiscipline(rule, fd)
	}
}

// errDiscipline: every error-returning call in the function has its error
// returned, or checked by `if err != nil { return ..., err }`.
func (c *Ctx) errDiscipline(rule string, fd *ast.FuncDecl) {
	fn := c.funcName(fd)
	for _, site := range c.errorSites(fd) {
		ok, why := c.errorFate(fd, site)
		c.ob(rule, fn+":err("+site.calleeName+")", site.call.Pos(), ok, why)
	}
}

// ---- ref-opaque ----

func ruleRefOpaque(c *Ctx) {
	const rule = "ref-opaque"
	var stores, lits []string
	for _, fd := range c.allFuncDecls() {
		if fd.Body == nil {
			continue
		}
		ast.Inspect(fd.Body, func(n ast.Node) bool {
			switch x := n.(type) {
			case *ast.AssignStmt:
				for _, l := range x.Lhs {
					se, ok := unparen(l).(*ast.SelectorExpr)
					if !ok {
						continue
					}
					if sel := c.Info.Selections[se]; sel != nil && sel.Kind() == types.FieldVal {
						if v, ok := sel.Obj().(*types.Var); ok && v.Pkg() != nil && v.Pkg().Path() == "github.com/go-openapi/jsonreference" {
							stores = append(stores, c.funcName(fd)+":"+exprString(l))
						}
					}
				}
			case *ast.CompositeLit:
				t := c.typeOf(x)
				if t == nil {
					return true
				}
				if nn, ok := types.Unalias(t).(*types.Named); ok && nn.Obj().Pkg() != nil && nn.Obj().Pkg().Path() == "github.com/go-openapi/jsonreference" && nn.Obj().Name() == "Ref" && len(x.Elts) > 0 {
					lits = append(lits, c.funcName(fd))
				}
			}
			return true
		})
	}
	// stores through the *url.URL handed out by GetURL(): it is shared by every copy of the Ref
	var urlWrites []string
	for _, fd := range c.allFuncDecls() {
		if fd.Body == nil {
			continue
		}
		defs := c.localDefs(fd)
		ast.Inspect(fd.Body, func(n ast.Node) bool {
			as, ok := n.(*ast.AssignStmt)
			if !ok {
				return true
			}
			for _, l := range as.Lhs {
				p, ok := c.apath(l)
				if !ok || len(p.Steps) == 0 {
					continue
				}
				if _, isPtr := types.Unalias(p.Root.Type()).(*types.Pointer); !isPtr {
					continue
				}
				for _, d := range defs[p.Root] {
					call, ok := unparen(d).(*ast.CallExpr)
					if !ok {
						continue
					}
					se, ok := unparen(call.Fun).(*ast.SelectorExpr)
					if !ok || se.Sel.Name != "GetURL" {
						continue
					}
					// fine when the Ref is a fresh local (result of normalizeRef / MustCreateRef / NewRef)
					fresh := false
					if id, ok := unparen(se.X).(*ast.Ident); ok {
						ds := defs[c.objOf(id)]
						fresh = len(ds) > 0
						for _, rd := range ds {
							rc, ok := unparen(rd).(*ast.CallExpr)
							if !ok || !(c.isSpecFunc(rc, "normalizeRef") || c.isSpecFunc(rc, "MustCreateRef") || c.isSpecFunc(rc, "NewRef")) {
								fresh = false
							}
						}
					}
					if !fresh {
						urlWrites = append(urlWrites, c.funcName(fd)+":"+exprString(l))
					}
				}
			}
			return true
		})
	}
	sort.Strings(urlWrites)
	c.ob(rule, "no-write-through-shared-url", token.NoPos, len(urlWrites) == 0, fmt.Sprintf("%v writes through the *url.URL of a reference that is not a fresh local: every copy of that Ref changes (its text no longer matches its classification flags)", urlWrites))
	sort.Strings(stores)
	c.ob(rule, "no-flag-stores", token.NoPos, len(stores) == 0, fmt.Sprintf("classification flags of jsonreference.Ref are written by %v: classification is no longer a function of the parsed text", stores))
	c.ob(rule, "no-ref-literals", token.NoPos, len(lits) == 0, fmt.Sprintf("jsonreference.Ref built by literal in %v instead of by parsing", lits))
	// every spec.Ref literal wraps a parsed reference
	bad := []string{}
	count := 0
	for _, fd := range c.allFuncDecls() {
		if fd.Body == nil {
			continue
		}
		defs := c.localDefs(fd)
		ast.Inspect(fd.Body, func(n ast.Node) bool {
			lit, ok := n.(*ast.CompositeLit)
			if !ok || typeNameOf(c.typeOf(lit)) != "Ref" || c.typeOf(lit) == nil {
				return true
			}
			if nn, _ := types.Unalias(c.typeOf(lit)).(*types.Named); nn == nil || nn.Obj().Pkg() != c.Types {
				return true
			}
			for _, el := range lit.Elts {
				kv, ok := el.(*ast.KeyValueExpr)
				if !ok {
					continue
				}
				count++
				v := unparen(kv.Value)
				okv := false
				check := func(e ast.Expr) bool {
					e = unparen(e)
					if st, isStar := e.(*ast.StarExpr); isStar {
						e = unparen(st.X)
					}
					call, ok := e.(*ast.CallExpr)
					if !ok {
						return false
					}
					if c.isPkgFunc(call, "github.com/go-openapi/jsonreference", "New") || c.isPkgFunc(call, "github.com/go-openapi/jsonreference", "MustCreateRef") {
						return true
					}
					_, name, pkg, isM := c.calleeMethod(call)
					return isM && pkg == "github.com/go-openapi/jsonreference" && name == "Inherits"
				}
				if check(v) {
					okv = true
				} else {
					if st, isStar := v.(*ast.StarExpr); isStar {
						v = unparen(st.X)
					}
					if id, isId := v.(*ast.Ident); isId {
						ds := defs[c.objOf(id)]
						okv = len(ds) > 0
						for _, d := range ds {
							if !check(d) {
								okv = false
							}
						}
					}
				}
				if !okv {
					bad = append(bad, c.funcName(fd))
				}
			}
			return true
		})
	}
	c.ob(rule, "ref-literals-wrap-parsed", token.NoPos, len(bad) == 0 && count > 0, fmt.Sprintf("spec.Ref literals in %v do not wrap the result of jsonreference.New/MustCreateRef/Inherits", bad))
}

// gobLoopsKeepEveryElement: a gob codec that rebuilds a list element by element (for _, e := range xs { ...;
// ys = append(ys, v) }) appends once on every way through the loop body, so the rebuilt list has the length of the
// original: an append under a condition (only for elements that hold something) drops the empty elements, and the
// padding codec exists precisely to carry those.
func (c *Ctx) gobLoopsKeepEveryElement(rule, tname string, fd *ast.FuncDecl) {
	if fd.Body == nil {
		return
	}
	nth := 0
	var visit func(n ast.Node) bool
	visit = func(n ast.Node) bool {
		rs, ok := n.(*ast.RangeStmt)
		if !ok {
			return true
		}
		t := c.typeOf(rs.X)
		if t == nil {
			return true
		}
		if _, isSlice := t.Underlying().(*types.Slice); !isSlice {
			return true
		}
		// the list being rebuilt: target of `ys = append(ys, one)` anywhere below the body, declared outside the loop
		var target string
		ast.Inspect(rs.Body, func(m ast.Node) bool {
			if _, isLit := m.(*ast.FuncLit); isLit {
				return false
			}
			if y, ok := c.singleAppend(m); ok && target == "" {
				// the list lives outside the loop (a list built per element inside the body is another matter)
				as := m.(*ast.AssignStmt)
				if p, isPath := c.apath(as.Lhs[0]); isPath && p.Root != nil && !(p.Root.Pos() >= rs.Pos() && p.Root.Pos() < rs.End()) {
					target = y
				}
			}
			return true
		})
		if target == "" {
			return false
		}
		nth++
		var covers func(list []ast.Stmt) (bool, bool) // (appended on every way through, a way leaves the body early)
		covers = func(list []ast.Stmt) (bool, bool) {
			for _, st := range list {
				switch x := st.(type) {
				case *ast.BranchStmt:
					return false, true
				case *ast.ReturnStmt:
					return true, false // the codec gives up altogether
				case *ast.BlockStmt:
					if ok, early := covers(x.List); ok || early {
						return ok, early
					}
				case *ast.IfStmt:
					okThen, earlyThen := covers(x.Body.List)
					okElse, earlyElse := false, false
					switch e := x.Else.(type) {
					case *ast.BlockStmt:
						okElse, earlyElse = covers(e.List)
					case *ast.IfStmt:
						okElse, earlyElse = covers([]ast.Stmt{e})
					}
					if earlyThen || earlyElse {
						return false, true
					}
					if okThen && okElse {
						return true, false
					}
					if okThen != okElse {
						// appended on one side only: the other side may still reach a later append, which would add a
						// second element on the first side - either way not one element each
						return false, true
					}
				default:
					if y, ok := c.singleAppend(st); ok && y == target {
						return true, false
					}
				}
			}
			return false, false
		}
		one, _ := covers(rs.Body.List)
		c.ob(rule, fmt.Sprintf("%s.%s:loop#%d:one-element-each", tname, fd.Name.Name, nth), rs.Pos(), one,
			fmt.Sprintf("the loop over %s rebuilds %s but does not append to it on every way through its body: elements are dropped (or doubled) in transport", exprString(rs.X), target))
		return false
	}
	ast.Inspect(fd.Body, visit)
}

// singleAppend recognises `ys = append(ys, one)` and answers the printed form of ys.
func (c *Ctx) singleAppend(n ast.Node) (string, bool) {
	as, ok := n.(*ast.AssignStmt)
	if !ok || len(as.Lhs) != 1 || len(as.Rhs) != 1 {
		return "", false
	}
	call, ok := unparen(as.Rhs[0]).(*ast.CallExpr)
	if !ok || !c.isBuiltin(call, "append") || len(call.Args) != 2 || call.Ellipsis.IsValid() {
		return "", false
	}
	if exprString(call.Args[0]) != exprString(as.Lhs[0]) {
		return "", false
	}
	return exprString(as.Lhs[0]), true
}
