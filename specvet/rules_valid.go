package main

import (
	"fmt"
	"go/ast"
	"go/constant"
	"go/token"
	"go/types"
	"strings"
)

func init() {
	registerRule("required-emitted", 38, "no member the meta-schema requires can be dropped by the encoder from a value decoded from a valid document", ruleRequiredEmitted)
}

// emitSite is one place where a component of a kind is handed to the
// encoder: the struct type whose tags drive the output there, and the
// conjunction of branch conditions under which the site is reached.
type emitSite struct {
	lit    *ast.CompositeLit // the encode proxy literal, when the site encodes one
	litFd  *ast.FuncDecl     // function the literal is written in
	litVar types.Object      // the local the literal is held in, when members are set after it was built
	st     types.Type
	conds  []condLit
	pos    token.Pos
	recv   types.Object
	binds  map[types.Object]condLit // boolean parameters of a helper bound to the call-site expressions
}

type condLit struct {
	e    ast.Expr
	neg  bool
	recv types.Object // root object the expression's receiver paths are relative to (nil: the site's)
}

// emitSites lists the json.Marshal sites of an encoder whose argument is the
// receiver component comp (by first path step), or an anonymous proxy
// populated from it. Whole-receiver conversions count for every component.
func (c *Ctx) emitSites(fd *ast.FuncDecl, comp string) []emitSite {
	return c.emitSitesFor(fd, c.recvObj(fd), comp, nil, 0)
}

func (c *Ctx) emitSitesFor(fd *ast.FuncDecl, recv types.Object, comp string, binds map[types.Object]condLit, depth int) []emitSite {
	var out []emitSite
	var stack []condLit
	var walk func(n ast.Node)
	walkList := func(l []ast.Stmt) {
		pushed := 0
		for _, st := range l {
			walk(st)
			if ifs, ok := st.(*ast.IfStmt); ok && ifs.Else == nil && blockAlwaysReturns(ifs.Body) {
				stack = append(stack, condLit{e: ifs.Cond, neg: true})
				pushed++
			}
		}
		stack = stack[:len(stack)-pushed]
	}
	walk = func(n ast.Node) {
		switch s := n.(type) {
		case nil:
			return
		case *ast.IfStmt:
			if s.Init != nil {
				walk(s.Init)
			}
			stack = append(stack, condLit{e: s.Cond, neg: false})
			walk(s.Body)
			stack[len(stack)-1].neg = true
			if s.Else != nil {
				walk(s.Else)
			}
			stack = stack[:len(stack)-1]
			// an if whose body always returns guards the rest of the block: handled by caller (BlockStmt)
			return
		case *ast.BlockStmt:
			pushed := 0
			for _, st := range s.List {
				walk(st)
				if ifs, ok := st.(*ast.IfStmt); ok && ifs.Else == nil && blockAlwaysReturns(ifs.Body) {
					stack = append(stack, condLit{e: ifs.Cond, neg: true})
					pushed++
				}
			}
			stack = stack[:len(stack)-pushed]
			return
		case *ast.FuncLit:
			return
		}
		ast.Inspect(n, func(m ast.Node) bool {
			if m == n {
				return true
			}
			switch x := m.(type) {
			case *ast.IfStmt, *ast.BlockStmt:
				walk(x)
				return false
			case *ast.FuncLit:
				return false
			case *ast.CallExpr:
				// a package helper that receives the component (or the whole receiver) and encodes it
				if g, ok := c.callee(x).(*types.Func); ok && g.Pkg() == c.Types && depth < 2 {
					if gfd := c.decl(g); gfd != nil && gfd.Body != nil {
						for ai, a := range x.Args {
							p, ok := c.apath(a)
							if !ok || p.Root != recv {
								continue
							}
							if !(comp == "" && len(p.Steps) == 0 || len(p.Steps) == 1 && p.Steps[0] == comp) {
								continue
							}
							gp := c.paramObj(gfd, ai)
							if gsig := g.Type().(*types.Signature); gsig.Variadic() && ai >= gsig.Params().Len()-1 && x.Ellipsis == token.NoPos {
								gp = c.paramObj(gfd, gsig.Params().Len()-1)
							}
							if gp == nil {
								continue
							}
							gb := map[types.Object]condLit{}
							for k, v := range binds {
								gb[k] = v
							}
							for bi, ba := range x.Args {
								if bp := c.paramObj(gfd, bi); bp != nil {
									if b, isB := bp.Type().Underlying().(*types.Basic); isB && b.Kind() == types.Bool {
										gb[bp] = condLit{e: ba, recv: recv}
									}
								}
							}
							for _, sub := range c.emitSitesFor(gfd, gp, "", gb, depth+1) {
								// the helper takes the component as an interface: what is encoded is the argument's own type
								if _, isIface := sub.st.Underlying().(*types.Interface); isIface {
									sub.st = derefType(c.typeOf(a))
								}
								conds := append([]condLit{}, stack...)
								for i := range conds {
									if conds[i].recv == nil {
										conds[i].recv = recv
									}
								}
								sub.conds = append(conds, sub.conds...)
								sub.binds = gb
								out = append(out, sub)
							}
						}
					}
				}
				// a method called on the component itself (recv.Comp.encode(..)): its emissions of its own receiver are the component's
				if g, ok := c.callee(x).(*types.Func); ok && g.Pkg() == c.Types && depth < 2 && comp != "" {
					if se, isSel := unparen(x.Fun).(*ast.SelectorExpr); isSel {
						if p, ok := c.apath(se.X); ok && p.Root == recv && len(p.Steps) == 1 && p.Steps[0] == comp {
							if gfd := c.decl(g); gfd != nil && gfd.Body != nil && gfd.Recv != nil && c.recvObj(gfd) != nil {
								gb := map[types.Object]condLit{}
								for k, v := range binds {
									gb[k] = v
								}
								for bi, ba := range x.Args {
									if bp := c.paramObj(gfd, bi); bp != nil {
										if b, isB := bp.Type().Underlying().(*types.Basic); isB && b.Kind() == types.Bool {
											gb[bp] = condLit{e: ba, recv: recv}
										}
									}
								}
								for _, sub := range c.emitSitesFor(gfd, c.recvObj(gfd), "", gb, depth+1) {
									conds := append([]condLit{}, stack...)
									for i := range conds {
										if conds[i].recv == nil {
											conds[i].recv = recv
										}
									}
									sub.conds = append(conds, sub.conds...)
									sub.binds = gb
									out = append(out, sub)
								}
							}
						}
					}
				}
				// a method of the same value called on the receiver itself: its emissions are the receiver's
				if g, ok := c.callee(x).(*types.Func); ok && g.Pkg() == c.Types && depth < 2 {
					if se, isSel := unparen(x.Fun).(*ast.SelectorExpr); isSel {
						if id, isId := unparen(se.X).(*ast.Ident); isId && c.objOf(id) == recv {
							if gfd := c.decl(g); gfd != nil && gfd.Body != nil && gfd.Recv != nil && c.recvObj(gfd) != nil {
								gb := map[types.Object]condLit{}
								for k, v := range binds {
									gb[k] = v
								}
								for bi, ba := range x.Args {
									if bp := c.paramObj(gfd, bi); bp != nil {
										if b, isB := bp.Type().Underlying().(*types.Basic); isB && b.Kind() == types.Bool {
											gb[bp] = condLit{e: ba, recv: recv}
										}
									}
								}
								for _, sub := range c.emitSitesFor(gfd, c.recvObj(gfd), comp, gb, depth+1) {
									conds := append([]condLit{}, stack...)
									for i := range conds {
										if conds[i].recv == nil {
											conds[i].recv = recv
										}
									}
									sub.conds = append(conds, sub.conds...)
									sub.binds = gb
									out = append(out, sub)
								}
							}
						}
					}
				}
				if !c.isPkgFunc(x, "encoding/json", "Marshal") || len(x.Args) != 1 {
					return true
				}
				arg := unparen(x.Args[0])
				// json.Marshal(recv.view()): what the view method returns on each of its paths is what is encoded
				if vc, isCall := arg.(*ast.CallExpr); isCall && depth < 2 {
					if g, ok := c.callee(vc).(*types.Func); ok && g.Pkg() == c.Types {
						if gfd := c.decl(g); gfd != nil && gfd.Body != nil {
							var grecv types.Object
							if se, isSel := unparen(vc.Fun).(*ast.SelectorExpr); isSel && gfd.Recv != nil {
								if id, isId := unparen(se.X).(*ast.Ident); isId && c.objOf(id) == recv {
									grecv = c.recvObj(gfd)
								}
							}
							for ai, a := range vc.Args {
								if id, isId := unparen(a).(*ast.Ident); isId && c.objOf(id) == recv {
									grecv = c.paramObj(gfd, ai)
								}
							}
							if grecv != nil {
								base := append([]condLit{}, stack...)
								for i := range base {
									if base[i].recv == nil {
										base[i].recv = recv
									}
								}
								ast.Inspect(gfd.Body, func(k ast.Node) bool {
									if _, isLit := k.(*ast.FuncLit); isLit {
										return false
									}
									rs, isRet := k.(*ast.ReturnStmt)
									if !isRet || len(rs.Results) != 1 {
										return true
									}
									conds := append([]condLit{}, base...)
									for _, cl := range c.condsAt(gfd, rs) {
										cl.recv = grecv
										conds = append(conds, cl)
									}
									e := unparen(rs.Results[0])
									if u, isAddr := e.(*ast.UnaryExpr); isAddr && u.Op == token.AND {
										e = unparen(u.X)
									}
									if lit, isLit := e.(*ast.CompositeLit); isLit {
										uses := false
										ast.Inspect(lit, func(m ast.Node) bool {
											if ee, isE := m.(ast.Expr); isE {
												if p, okp := c.apath(ee); okp && p.Root == grecv {
													if len(p.Steps) == 0 || p.Steps[0] == comp || comp == "" || c.promotedThrough(grecv.Type(), comp, p.Steps[0]) {
														uses = true
													}
													return false
												}
											}
											return true
										})
										if uses {
											out = append(out, emitSite{st: c.typeOf(lit), conds: conds, pos: lit.Pos(), recv: grecv, lit: lit, litFd: gfd})
										}
										return true
									}
									if p, okp := c.apath(e); okp && p.Root == grecv {
										if comp == "" && len(p.Steps) == 0 || len(p.Steps) == 1 && p.Steps[0] == comp {
											out = append(out, emitSite{st: derefType(c.typeOf(e)), conds: conds, pos: e.Pos(), recv: grecv})
										}
									}
									return true
								})
								return true
							}
						}
					}
				}
				if u, ok := arg.(*ast.UnaryExpr); ok && u.Op == token.AND {
					arg = unparen(u.X)
				}
				conds := append([]condLit{}, stack...)
				if lit, ok := arg.(*ast.CompositeLit); ok {
					// proxy: does any value come from comp (or the whole receiver)?
					uses := false
					ast.Inspect(lit, func(k ast.Node) bool {
						if e, ok := k.(ast.Expr); ok {
							if p, ok := c.apath(e); ok && p.Root == recv {
								if len(p.Steps) == 0 || p.Steps[0] == comp || comp == "" {
									uses = true
								}
								return false
							}
						}
						return true
					})
					if uses {
						out = append(out, emitSite{st: c.typeOf(lit), conds: conds, pos: lit.Pos(), recv: recv, lit: lit, litFd: fd})
					}
					return true
				}
				if p, ok := c.apath(arg); ok && p.Root == recv {
					if comp == "" && len(p.Steps) == 0 || len(p.Steps) == 1 && p.Steps[0] == comp {
						out = append(out, emitSite{st: derefType(c.typeOf(arg)), conds: conds, pos: arg.Pos(), recv: recv})
					}
				}
				// a local encode proxy: built from a literal, some members set afterwards, then encoded
				if id, ok := arg.(*ast.Ident); ok {
					if ds := c.localDefs(fd)[c.objOf(id)]; len(ds) == 1 && ds[0] != nil {
						d := unparen(ds[0])
						if u, isAddr := d.(*ast.UnaryExpr); isAddr && u.Op == token.AND {
							d = unparen(u.X)
						}
						if lit, isLit := d.(*ast.CompositeLit); isLit {
							uses := false
							ast.Inspect(lit, func(k ast.Node) bool {
								if e, ok := k.(ast.Expr); ok {
									if p, ok := c.apath(e); ok && p.Root == recv {
										if len(p.Steps) == 0 || p.Steps[0] == comp || comp == "" || c.promotedThrough(recv.Type(), comp, p.Steps[0]) {
											uses = true
										}
										return false
									}
								}
								return true
							})
							if uses {
								out = append(out, emitSite{st: c.typeOf(lit), conds: conds, pos: lit.Pos(), recv: recv, lit: lit, litFd: fd, litVar: c.objOf(id)})
							}
						}
					}
				}
				// for _, part := range parts { json.Marshal(part) } where parts is the (variadic) parameter followed here
				if id, ok := arg.(*ast.Ident); ok && comp == "" {
					if src := c.rangeSourceOf(fd, c.objOf(id)); src != nil {
						if sid, ok := unparen(src).(*ast.Ident); ok && c.objOf(sid) == recv {
							if sl, isSlice := recv.Type().Underlying().(*types.Slice); isSlice {
								out = append(out, emitSite{st: sl.Elem(), conds: conds, pos: arg.Pos(), recv: recv})
							}
						}
					}
				}
				// for _, part := range [...]interface{}{recv.A, recv.B} { json.Marshal(part) }
				if id, ok := arg.(*ast.Ident); ok {
					for _, el := range c.rangeElemsOf(fd, c.objOf(id)) {
						if u, ok := unparen(el).(*ast.UnaryExpr); ok && u.Op == token.AND {
							el = u.X
						}
						if p, ok := c.apath(el); ok && p.Root == recv {
							if comp == "" && len(p.Steps) == 0 || len(p.Steps) == 1 && p.Steps[0] == comp {
								out = append(out, emitSite{st: derefType(c.typeOf(el)), conds: conds, pos: el.Pos(), recv: recv})
							}
						}
					}
				}
			}
			return true
		})
	}
	walkList(fd.Body.List)
	return out
}

func blockAlwaysReturns(b *ast.BlockStmt) bool {
	if len(b.List) == 0 {
		return false
	}
	_, ok := b.List[len(b.List)-1].(*ast.ReturnStmt)
	return ok
}

// defEnv answers "what does a document valid for this definition hold in the
// member named m": a known constant, the zero value (member not allowed by a
// closed definition), or unknown.
type defEnv struct {
	d *metaDef
}

func (e defEnv) member(m string) (constant.Value, bool) {
	p, has := e.d.Properties[m]
	if !has {
		if e.d.Closed {
			return constant.MakeString(""), true
		}
		return nil, false
	}
	if en, ok := p["enum"].([]interface{}); ok && len(en) == 1 {
		if s, ok := en[0].(string); ok {
			return constant.MakeString(s), true
		}
	}
	return nil, false
}

// evalCond partially evaluates a branch condition of an encoder under a
// definition: 1 true, 0 false, -1 unknown.
func (c *Ctx) evalCond(e ast.Expr, recv types.Object, env defEnv) int {
	return c.evalCondB(e, recv, env, nil)
}

func (c *Ctx) evalCondB(e ast.Expr, recv types.Object, env defEnv, binds map[types.Object]condLit) int {
	e = unparen(e)
	if id, ok := e.(*ast.Ident); ok && binds != nil {
		if b, bound := binds[c.objOf(id)]; bound {
			v := c.evalCondB(b.e, b.recv, env, nil)
			if v >= 0 && b.neg {
				v = 1 - v
			}
			return v
		}
	}
	switch x := e.(type) {
	case *ast.BinaryExpr:
		switch x.Op {
		case token.LAND:
			a, b := c.evalCondB(x.X, recv, env, binds), c.evalCondB(x.Y, recv, env, binds)
			if a == 0 || b == 0 {
				return 0
			}
			if a == 1 && b == 1 {
				return 1
			}
			return -1
		case token.LOR:
			a, b := c.evalCondB(x.X, recv, env, binds), c.evalCondB(x.Y, recv, env, binds)
			if a == 1 || b == 1 {
				return 1
			}
			if a == 0 && b == 0 {
				return 0
			}
			return -1
		case token.EQL, token.NEQ:
			l, lok := c.evalStr(x.X, recv, env)
			r, rok := c.evalStr(x.Y, recv, env)
			if !lok || !rok {
				return -1
			}
			eq := constant.Compare(l, token.EQL, r)
			if (x.Op == token.EQL) == eq {
				return 1
			}
			return 0
		}
	case *ast.UnaryExpr:
		if x.Op == token.NOT {
			v := c.evalCondB(x.X, recv, env, binds)
			if v < 0 {
				return -1
			}
			return 1 - v
		}
	}
	return -1
}

func (c *Ctx) evalStr(e ast.Expr, recv types.Object, env defEnv) (constant.Value, bool) {
	e = unparen(e)
	if tv, ok := c.Info.Types[e]; ok && tv.Value != nil && tv.Value.Kind() == constant.String {
		return tv.Value, true
	}
	// recv.<...>.Field of string type: look the field's JSON name up in the definition
	if p, ok := c.apath(e); ok && p.Root == recv && len(p.Steps) > 0 {
		if jn := c.jsonNameOfPath(derefType(recv.Type()), p.Steps); jn != "" {
			return env.member(jn)
		}
	}
	// recv.<...>.Ref.String(): empty iff the definition has no $ref member
	if call, ok := e.(*ast.CallExpr); ok && len(call.Args) == 0 {
		if se, ok := unparen(call.Fun).(*ast.SelectorExpr); ok && se.Sel.Name == "String" {
			if p, ok := c.apath(se.X); ok && p.Root == recv && len(p.Steps) > 0 && p.Steps[len(p.Steps)-1] == "Ref" && c.onlyEmbeddedBefore(derefType(recv.Type()), p.Steps) {
				return env.member("$ref")
			}
		}
	}
	return nil, false
}

// jsonNameOfPath maps a field path below a struct type to the JSON member name of its last step.
func (c *Ctx) jsonNameOfPath(t types.Type, steps []string) string {
	var tag string
	for _, s := range steps {
		st, ok := derefType(t).Underlying().(*types.Struct)
		if !ok {
			return ""
		}
		found := false
		for i := 0; i < st.NumFields(); i++ {
			if st.Field(i).Name() == s {
				t = st.Field(i).Type()
				tag = tagName(st.Tag(i))
				found = true
			}
		}
		if !found {
			return ""
		}
	}
	name := strings.Split(tag, ",")[0]
	if name == "-" {
		return ""
	}
	return name
}

// requiredOf returns the definition's required list plus what it inherits
// from definitions that select it through oneOf (nonBodyParameter).
func (m *metaSchemas) requiredOf(defName string) []string {
	d := m.Defs[defName]
	if d == nil {
		return nil
	}
	seen := map[string]bool{}
	var out []string
	for _, r := range d.Required {
		if !seen[r] {
			seen[r] = true
			out = append(out, r)
		}
	}
	for _, other := range m.Defs {
		one, ok := other.Raw["oneOf"].([]interface{})
		if !ok || len(other.Required) == 0 {
			continue
		}
		for _, o := range one {
			if om, ok := o.(map[string]interface{}); ok {
				if r, _ := om["$ref"].(string); r == "#/definitions/"+defName {
					for _, q := range other.Required {
						if !seen[q] {
							seen[q] = true
							out = append(out, q)
						}
					}
				}
			}
		}
	}
	return out
}

// metaExcludesEmptyString: the definition constrains the string member so that "" is not a valid value.
func metaExcludesEmptyString(p map[string]interface{}) bool {
	if en, ok := p["enum"].([]interface{}); ok {
		for _, v := range en {
			if s, ok := v.(string); ok && s == "" {
				return false
			}
		}
		return true
	}
	if ml, ok := p["minLength"].(float64); ok && ml >= 1 {
		return true
	}
	return false
}

func ruleRequiredEmitted(c *Ctx) {
	const rule = "required-emitted"
	for _, name := range sortedKeys(kindMeta) {
		n := c.namedType(name)
		if n == nil {
			continue
		}
		defs := kindMeta[name]
		for _, defName := range defs {
			if defName == "draft4" {
				continue
			}
			d := c.Meta.Defs[defName]
			if d == nil {
				continue
			}
			for _, m := range c.Meta.requiredOf(defName) {
				key := name + ":" + m
				if len(defs) > 1 {
					key = name + "[" + defName + "]:" + m
				}
				c.decideRequired(rule, key, n, d, m)
			}
		}
	}
}

func (c *Ctx) decideRequired(rule, key string, n *types.Named, d *metaDef, m string) {
	pos := n.Obj().Pos()
	prop := d.Properties[m]
	if prop == nil {
		// required but not described among properties (nonBodyParameter.type lives in the sub-schema): take an empty description
		prop = map[string]interface{}{}
	}
	prop = c.Meta.resolveMetaRef(prop)
	env := defEnv{d}
	// collect the (struct type, omitempty) variants under which m may be emitted
	type variant struct {
		jf   jsonField
		pos  token.Pos
		site *emitSite
	}
	var variants []variant
	st := n.Underlying().(*types.Struct)
	marshal := declaredMethod(n, "MarshalJSON")
	if marshal == nil {
		if jf := findJSONField(jsonFields(n), m); jf != nil {
			variants = append(variants, variant{*jf, pos, nil})
		}
	} else {
		fd := c.decl(marshal)
		if fd == nil {
			c.undecided(rule, key, pos, "encoder body not found")
			return
		}
		c.saw(c.funcName(fd))
		for i := 0; i < st.NumFields(); i++ {
			f := st.Field(i)
			ft := derefType(f.Type())
			if _, isSt := ft.Underlying().(*types.Struct); !isSt {
				continue
			}
			if findJSONField(jsonFields(ft), m) == nil {
				continue
			}
			sites := c.emitSites(fd, f.Name())
			if len(sites) == 0 {
				c.ob(rule, key, fd.Pos(), false, fmt.Sprintf("component %s holding required member %q is never handed to the encoder", f.Name(), m))
				return
			}
			for _, s := range sites {
				reach := 1
				for _, cl := range s.conds {
					r := s.recv
					if cl.recv != nil {
						r = cl.recv
					}
					v := c.evalCondB(cl.e, r, env, s.binds)
					if v >= 0 && cl.neg {
						v = 1 - v
					}
					if v == 0 {
						reach = 0
					}
				}
				if reach == 0 {
					continue // branch cannot be taken by a document valid for this definition
				}
				stt := s.st
				// a component with its own encoder: descend into its sites (OperationProps)
				if cn, _ := types.Unalias(stt).(*types.Named); cn != nil && declaredMethod(cn, "MarshalJSON") != nil {
					if cfd := c.decl(declaredMethod(cn, "MarshalJSON")); cfd != nil {
						c.saw(c.funcName(cfd))
						for _, cs := range c.emitSites(cfd, "") {
							if jf := findJSONField(jsonFields(cs.st), m); jf != nil {
								cs := cs
								variants = append(variants, variant{*jf, cs.pos, &cs})
							} else {
								c.ob(rule, key, cs.pos, false, fmt.Sprintf("encoder variant does not carry required member %q", m))
								return
							}
						}
						continue
					}
				}
				if jf := findJSONField(jsonFields(stt), m); jf != nil {
					s := s
					variants = append(variants, variant{*jf, s.pos, &s})
				} else {
					c.ob(rule, key, s.pos, false, fmt.Sprintf("encoder variant does not carry required member %q", m))
					return
				}
			}
		}
	}
	if len(variants) == 0 {
		if m == "$ref" {
			return
		}
		c.ob(rule, key, pos, false, fmt.Sprintf("no JSON field for required member %q", m))
		return
	}
	for _, v := range variants {
		ft := types.Unalias(v.jf.FieldTyp)
		ok, why := true, ""
		switch u := ft.Underlying().(type) {
		case *types.Pointer, *types.Struct, *types.Interface:
			_ = u // a present, non-null member decodes to a non-nil / non-omittable value
			// ... unless the field belongs to an encode proxy and is computed: then what the computation yields counts
			if _, isPtr := u.(*types.Pointer); isPtr && v.jf.OmitEmpty && v.site != nil && v.site.lit != nil {
				if w := c.proxyPointerMayBeNil(v.site, v.jf.GoName, env); w != "" {
					ok, why = false, fmt.Sprintf("required member %q is held by an omitempty pointer of an encode proxy, and %s: a valid document re-encodes without the member", m, w)
				}
			}
		case *types.Basic:
			switch {
			case !v.jf.OmitEmpty:
			case u.Kind() == types.String:
				if !metaExcludesEmptyString(prop) {
					ok, why = false, fmt.Sprintf("required string member %q is tagged omitempty and the definition %s admits \"\": a valid document with %q: \"\" re-encodes without the member", m, d.Name, m)
				}
			case u.Kind() == types.Bool:
				excl := false
				if en, isEn := prop["enum"].([]interface{}); isEn {
					excl = true
					for _, x := range en {
						if b, isB := x.(bool); isB && !b {
							excl = false
						}
					}
				}
				if !excl {
					ok, why = false, fmt.Sprintf("required boolean member %q is tagged omitempty and the definition admits false", m)
				}
			default:
				ok, why = false, fmt.Sprintf("required numeric member %q is tagged omitempty", m)
			}
		case *types.Slice, *types.Map:
			if v.jf.OmitEmpty {
				_, a := prop["minItems"].(float64)
				_, b := prop["minProperties"].(float64)
				if !a && !b {
					ok, why = false, fmt.Sprintf("required container member %q is tagged omitempty and the definition admits an empty one", m)
				}
			}
		}
		c.ob(rule, key, v.pos, ok, why)
		if !ok {
			return
		}
	}
}

// onlyEmbeddedBefore: every step of the path but the last goes through an embedded field, i.e. the last step is a
// (promoted) member of the value itself and not of something it merely points to (r.Refable.Ref, not r.Schema.Ref).
func (c *Ctx) onlyEmbeddedBefore(t types.Type, steps []string) bool {
	for i, s := range steps {
		st, ok := derefType(t).Underlying().(*types.Struct)
		if !ok {
			return false
		}
		found := false
		for k := 0; k < st.NumFields(); k++ {
			f := st.Field(k)
			if f.Name() != s {
				continue
			}
			found = true
			if i < len(steps)-1 && !f.Embedded() {
				return false
			}
			t = f.Type()
		}
		if !found {
			// promoted through an embedded struct that the access path does not spell out
			promoted := false
			for k := 0; k < st.NumFields(); k++ {
				f := st.Field(k)
				if f.Embedded() {
					if c.onlyEmbeddedBefore(f.Type(), steps[i:]) {
						promoted = true
					}
				}
			}
			return promoted
		}
	}
	return true
}

// proxyPointerMayBeNil: the value given to the pointer field of the encode proxy literal is computed by a package
// function or method that returns nil on a path a document valid for the definition can take. Returns the
// reason, or "".
func (c *Ctx) proxyPointerMayBeNil(site *emitSite, goName string, env defEnv) string {
	var val ast.Expr
	for _, el := range site.lit.Elts {
		if kv, ok := el.(*ast.KeyValueExpr); ok {
			if id, ok := kv.Key.(*ast.Ident); ok && id.Name == goName {
				val = kv.Value
			}
		}
	}
	if val == nil && site.litVar != nil && site.litFd != nil {
		// the member is set after the literal was built: it is there only where that assignment runs
		var assign *ast.AssignStmt
		ast.Inspect(site.litFd.Body, func(n ast.Node) bool {
			as, ok := n.(*ast.AssignStmt)
			if !ok || len(as.Lhs) != 1 {
				return true
			}
			if p, ok := c.apath(as.Lhs[0]); ok && p.Root == site.litVar && len(p.Steps) == 1 && p.Steps[0] == goName {
				assign = as
			}
			return true
		})
		if assign == nil {
			return "the literal never sets it"
		}
		var conds []string
		for _, cl := range c.condsAt(site.litFd, assign) {
			v := c.evalCondB(cl.e, site.recv, env, nil)
			if v >= 0 && cl.neg {
				v = 1 - v
			}
			if v != 1 {
				conds = append(conds, exprString(cl.e))
			}
		}
		if len(conds) > 0 {
			return "it is set only when " + strings.Join(conds, " and ") + ", which a document valid for this definition need not satisfy"
		}
		return ""
	}
	if val == nil {
		return ""
	}
	call, ok := unparen(val).(*ast.CallExpr)
	if !ok {
		return ""
	}
	g, _ := c.callee(call).(*types.Func)
	if g == nil || g.Pkg() != c.Types {
		return ""
	}
	gfd := c.decl(g)
	if gfd == nil || gfd.Body == nil {
		return ""
	}
	// the callee's view of the value being encoded: its receiver when called on the site's receiver, else a parameter
	var grecv types.Object
	if se, ok := unparen(call.Fun).(*ast.SelectorExpr); ok && gfd.Recv != nil {
		if id, ok := unparen(se.X).(*ast.Ident); ok && c.objOf(id) == site.recv {
			grecv = c.recvObj(gfd)
		}
	}
	for i, a := range call.Args {
		if id, ok := unparen(a).(*ast.Ident); ok && c.objOf(id) == site.recv {
			grecv = c.paramObj(gfd, i)
		}
	}
	reason := ""
	ast.Inspect(gfd.Body, func(n ast.Node) bool {
		if _, isLit := n.(*ast.FuncLit); isLit {
			return false
		}
		rs, ok := n.(*ast.ReturnStmt)
		if !ok || len(rs.Results) != 1 || !isNilIdent(c, rs.Results[0]) {
			return true
		}
		reach := true
		var conds []string
		for _, cl := range c.condsAt(gfd, rs) {
			// a disjunction is possible when one of its sides is
			possible := false
			for _, d := range splitDisj(cl) {
				v := -1
				if grecv != nil {
					v = c.evalCondB(d.e, grecv, env, nil)
					if v >= 0 && d.neg {
						v = 1 - v
					}
				}
				if v != 0 {
					possible = true
				}
			}
			if !possible {
				reach = false
			}
			conds = append(conds, exprString(cl.e))
		}
		if reach && reason == "" {
			reason = c.funcName(gfd) + " yields nil when " + strings.Join(conds, " and ")
			if len(conds) == 0 {
				reason = c.funcName(gfd) + " can yield nil"
			}
		}
		return true
	})
	return reason
}

// promotedThrough: field is a member promoted into t through its embedded component comp.
func (c *Ctx) promotedThrough(t types.Type, comp, field string) bool {
	st, ok := derefType(t).Underlying().(*types.Struct)
	if !ok {
		return false
	}
	for i := 0; i < st.NumFields(); i++ {
		f := st.Field(i)
		if f.Name() == comp && f.Embedded() {
			if cs, ok := derefType(f.Type()).Underlying().(*types.Struct); ok {
				for k := 0; k < cs.NumFields(); k++ {
					if cs.Field(k).Name() == field {
						return true
					}
				}
			}
		}
	}
	return false
}
