package main

import (
	"fmt"
	"go/ast"
	"go/constant"
	"go/token"
	"go/types"
	"strings"
)

// lookupFacts is what ruleLookupTable needs to know about one JSONLookup method.
type lookupFacts struct {
	consulted   map[string]bool // receiver components handed to jsonpointer.GetForToken with the token
	indexed     map[string]bool // receiver paths indexed with the token
	atoiIndexed map[string]bool // receiver paths indexed with strconv.Atoi(token)
	cmpConsts   map[string]bool // constants the token is compared with
	// answered: member name -> Go field of the receiver handed back (with a nil error) on the paths where the
	// token is known to equal that name
	answered map[string]string
}

// lookupFactsBySim decides the order-dependent obligations of lookup-table (fall-through between consulted
// components, final return, comma-ok) on the effect normal form of the method, and returns the table facts.
// nil when the method is outside the supported fragment.
func (c *Ctx) lookupFactsBySim(rule, tname string, fd *ast.FuncDecl, formats []string) *lookupFacts {
	paths, unsup := c.simulate(fd, nil)
	if unsup != "" || len(paths) == 0 {
		return nil
	}
	recv, tok := c.recvObj(fd), c.paramObj(fd, 0)
	if recv == nil || tok == nil {
		return nil
	}
	lf := &lookupFacts{consulted: map[string]bool{}, indexed: map[string]bool{}, atoiIndexed: map[string]bool{}, cmpConsts: map[string]bool{}, answered: map[string]string{}}
	isTok := func(v sval) bool {
		p, ok := v.(svPath)
		return ok && p.root == tok && len(p.steps) == 0
	}
	isAtoiTok := func(v sval) bool {
		sc, ok := v.(svCall)
		if !ok || sc.idx != 0 || len(sc.args) != 1 || !isTok(sc.args[0]) {
			return false
		}
		f, ok := sc.callee.(*types.Func)
		return ok && f.Pkg() != nil && f.Pkg().Path() == "strconv" && f.Name() == "Atoi"
	}
	recvPath := func(v sval) (string, bool) {
		p, ok := v.(svPath)
		if !ok || p.root != recv || len(p.steps) == 0 {
			return "", false
		}
		return strings.Join(p.steps, "."), true
	}
	isGetForToken := func(sc *svCall) (string, bool) {
		f, ok := sc.callee.(*types.Func)
		if !ok || f.Pkg() == nil || f.Pkg().Path() != "github.com/go-openapi/jsonpointer" || f.Name() != "GetForToken" || len(sc.args) != 2 || !isTok(sc.args[1]) {
			return "", false
		}
		p, ok := sc.args[0].(svPath)
		if !ok || p.root != recv || len(p.steps) == 0 {
			return "", false
		}
		return p.steps[0], true
	}
	walk := svWalk
	type consult struct {
		comp string
		id   int
	}
	type triple struct{ rNil, errNil, notFound int } // 0 unknown, 1 true, -1 false
	consultsOf := func(p spath) []consult {
		var out []consult
		for _, e := range p.effs {
			if e.kind == "call" {
				if comp, ok := isGetForToken(e.call); ok {
					out = append(out, consult{comp, e.call.id})
				}
			}
		}
		return out
	}
	resultOf := func(v sval, id, idx int) bool {
		sc, ok := v.(svCall)
		return ok && sc.id == id && sc.idx == idx
	}
	nfConsts := map[string]token.Pos{}
	factsOf := func(p spath, id int) (t triple, other []string) {
		for _, cd := range p.conds {
			if cd.loop {
				continue
			}
			tri := func(pos bool) int {
				if pos != cd.neg {
					return 1
				}
				return -1
			}
			if b, ok := cd.v.(svBin); ok && (b.op == token.NEQ || b.op == token.EQL) {
				if _, isNil := b.y.(svNil); isNil {
					if resultOf(b.x, id, 0) {
						t.rNil = tri(b.op == token.EQL)
						continue
					}
					if resultOf(b.x, id, 2) {
						t.errNil = tri(b.op == token.EQL)
						continue
					}
				}
			}
			if sc, ok := cd.v.(svCall); ok && len(sc.args) == 2 {
				if f, isF := sc.callee.(*types.Func); isF && f.Pkg() != nil && f.Pkg().Path() == "strings" && (f.Name() == "HasPrefix" || f.Name() == "Contains") {
					if ec, ok := sc.args[0].(svCall); ok && ec.recv != nil && resultOf(ec.recv, id, 2) {
						if k, ok := sc.args[1].(svConst); ok && k.v.Kind() == constant.String {
							t.notFound = tri(true)
							nfConsts[constant.StringVal(k.v)] = sc.call.Pos()
							continue
						}
					}
				}
			}
			mentions := false
			walk(cd.v, func(v sval) {
				if sc, ok := v.(svCall); ok && sc.id == id && id != 0 {
					mentions = true
				}
			})
			if mentions {
				other = append(other, svString(cd.v))
			}
		}
		return
	}
	// the table facts
	for _, p := range paths {
		for _, cs := range consultsOf(p) {
			lf.consulted[cs.comp] = true
		}
		note := func(v sval) {
			walk(v, func(v sval) {
				var x, i sval
				switch y := v.(type) {
				case svIndex:
					x, i = y.x, y.i
				case svHas:
					x, i = y.x, y.i
				case svBin:
					if (y.op == token.EQL || y.op == token.NEQ) && isTok(y.x) {
						if k, ok := y.y.(svConst); ok && k.v.Kind() == constant.String {
							lf.cmpConsts[constant.StringVal(k.v)] = true
						}
					}
					return
				default:
					return
				}
				if rp, ok := recvPath(x); ok {
					if isTok(i) {
						lf.indexed[rp] = true
					} else if isAtoiTok(i) {
						lf.atoiIndexed[rp] = true
					}
				}
			})
		}
		for _, cd := range p.conds {
			note(cd.v)
		}
		for _, r := range p.rets {
			note(r)
			if a, ok := r.(svAddr); ok && p.final != nil {
				note(p.final[a.p.root])
			}
		}
	}
	// direct answers: `case "get": return p.Get, nil`
	for _, p := range paths {
		if len(p.rets) != 2 {
			continue
		}
		if _, nilErr := p.rets[1].(svNil); !nilErr {
			continue
		}
		var field string
		switch r := p.rets[0].(type) {
		case svPath:
			if r.root == recv && len(r.steps) > 0 {
				field = r.steps[len(r.steps)-1]
			}
		case svAddr:
			if r.p.root == recv && len(r.p.steps) > 0 {
				field = r.p.steps[len(r.p.steps)-1]
			}
		}
		if field == "" {
			continue
		}
		for _, cd := range p.conds {
			if b, ok := cd.v.(svBin); ok && b.op == token.NEQ && cd.neg && isTok(b.x) {
				if k, ok := b.y.(svConst); ok && k.v.Kind() == constant.String {
					name := constant.StringVal(k.v)
					if prev, seen := lf.answered[name]; seen && prev != field {
						lf.answered[name] = "<several>"
					} else {
						lf.answered[name] = field
					}
				}
			}
		}
	}
	// comma-ok: an element of a receiver map answers the token only under the ok of that very lookup
	commaOK := map[string]bool{}
	commaPos := map[string]bool{}
	for _, p := range paths {
		if len(p.rets) == 0 {
			continue
		}
		var answers []svIndex
		collect := func(v sval) {
			walk(v, func(v sval) {
				if ix, ok := v.(svIndex); ok {
					if _, isRecv := recvPath(ix.x); isRecv && (isTok(ix.i) || isAtoiTok(ix.i)) {
						answers = append(answers, ix)
					}
				}
			})
		}
		collect(p.rets[0])
		if a, ok := p.rets[0].(svAddr); ok && p.final != nil {
			collect(p.final[a.p.root])
		}
		for _, ix := range answers {
			rp, _ := recvPath(ix.x)
			commaPos[rp] = true
			under := false
			for _, cd := range p.conds {
				if h, ok := cd.v.(svHas); ok && !cd.neg && svEqual(h.x, ix.x) && svEqual(h.i, ix.i) {
					under = true
				}
			}
			if prev, seen := commaOK[rp]; !seen {
				commaOK[rp] = under
			} else {
				commaOK[rp] = prev && under
			}
		}
	}
	for rp := range lf.indexed {
		if _, ok := commaOK[rp]; !ok {
			commaOK[rp] = true
		}
	}
	for rp := range lf.atoiIndexed {
		if _, ok := commaOK[rp]; !ok {
			commaOK[rp] = true
		}
	}
	for rp, ok := range commaOK {
		c.ob(rule, fmt.Sprintf("%s:comma-ok(%s)", tname, rp), fd.Pos(), ok,
			"a map lookup answers the token without the comma-ok test: a member that does not exist yields a zero value with a nil error on the typed document, while its JSON form reports no such member")
	}
	// maps consulted with the token itself: a miss in one of them does not end the search while another one has
	// not been asked (every path that knows M1 has no such member also asks M2, or asked it before)
	tokenMaps := map[string]bool{}
	mapsOn := func(p spath) (asked map[string]bool, missed map[string]bool) {
		asked, missed = map[string]bool{}, map[string]bool{}
		see := func(v sval, neg bool, isCond bool) {
			walk(v, func(x sval) {
				var mx, mi sval
				switch y := x.(type) {
				case svHas:
					mx, mi = y.x, y.i
				case svIndex:
					mx, mi = y.x, y.i
				default:
					return
				}
				if rp, ok := recvPath(mx); ok && isTok(mi) {
					asked[rp] = true
					tokenMaps[rp] = true
				}
			})
			if h, ok := v.(svHas); ok && isCond && neg {
				if rp, ok := recvPath(h.x); ok && isTok(h.i) {
					missed[rp] = true
				}
			}
		}
		for _, cd := range p.conds {
			if !cd.loop {
				see(cd.v, cd.neg, true)
				// len(M) == 0: an empty map has been asked, in effect
				if b, ok := cd.v.(svBin); ok && b.op == token.NEQ && cd.neg {
					if lc, isCall := b.x.(svCall); isCall && lc.callee == nil && len(lc.args) == 1 && lc.call != nil && c.isBuiltin(lc.call, "len") {
						if k, isConst := b.y.(svConst); isConst && k.v.String() == "0" {
							if rp, ok := recvPath(lc.args[0]); ok {
								asked[rp] = true
							}
						}
					}
				}
			}
		}
		for _, r := range p.rets {
			see(r, false, false)
		}
		return
	}
	type askInfo struct{ asked, missed map[string]bool }
	var infos []askInfo
	for _, p := range paths {
		a, m := mapsOn(p)
		infos = append(infos, askInfo{a, m})
	}
	if len(tokenMaps) > 1 {
		okMaps, whyMaps := true, ""
		for _, inf := range infos {
			for m1 := range inf.missed {
				for m2 := range tokenMaps {
					if m2 != m1 && !inf.asked[m2] && okMaps {
						okMaps = false
						whyMaps = "on some path the member is known to be missing from " + m1 + " and " + m2 + " is never asked: a member held by " + m2 + " is not found on the typed document when " + m1 + " is not empty"
					}
				}
			}
		}
		c.ob(rule, tname+":maps-fall-through", fd.Pos(), okMaps, whyMaps)
	}
	// fall-through: the longest chain of consultations is the order in which the components are tried
	var longest []consult
	for _, p := range paths {
		if cs := consultsOf(p); len(cs) > len(longest) {
			longest = cs
		}
	}
	for k, cs := range longest {
		last := k == len(longest)-1
		ok, why := true, ""
		bad := func(w string) {
			if ok {
				ok, why = false, w
			}
		}
		continues := false
		for _, p := range paths {
			pc := consultsOf(p)
			if len(pc) <= k || pc[k].comp != cs.comp {
				continue
			}
			same := true
			for j := 0; j < k; j++ {
				if pc[j].comp != longest[j].comp {
					same = false
				}
			}
			if !same {
				continue
			}
			id := pc[k].id
			if len(pc) > k+1 {
				continues = true
				continue
			}
			// the path ends after this consultation
			if len(p.rets) != 2 {
				bad("unexpected return arity")
				continue
			}
			t, other := factsOf(p, id)
			if last {
				if !(resultOf(p.rets[0], id, 0) && resultOf(p.rets[1], id, 2)) {
					// a filtered form is fine: the value when found, the error otherwise
					switch {
					case t.rNil == -1 && resultOf(p.rets[0], id, 0):
					case t.errNil == -1 && resultOf(p.rets[1], id, 2):
					default:
						bad("result and error of the last consultation must be returned as they are")
					}
				}
				continue
			}
			returnsValue := resultOf(p.rets[0], id, 0)
			_, nilErr := p.rets[1].(svNil)
			switch {
			case returnsValue && len(other) > 0:
				bad("the value found by this consultation is returned only when " + other[0] + ": a member that is present with a zero value (0, false, \"\") is reported missing although the JSON form has it")
			case t.rNil == -1:
				if !returnsValue {
					bad("a value was found in this component but something else is returned")
				}
			case t.errNil == -1 && t.notFound == -1:
				if nilErr {
					bad("a genuine error of this consultation is swallowed")
				}
			case t.errNil == -1 && t.notFound == 1:
				bad("the not-found test is not negated: the not-found error is returned instead of falling through")
			case t.errNil == -1 && t.notFound == 0:
				bad("an error from this consultation is returned without testing for the not-found case, so a member of a later component is reported missing")
			case t.notFound == 1:
				bad("the not-found error is returned instead of falling through")
			case t.notFound == -1 && !nilErr:
				// `err != nil && !notFound` split differently: a genuine error
			case t.rNil == 1 && t.errNil == 1:
				// nothing found and no error: returning here is what the next component would do for a nil member
			default:
				bad("unconditional return before the next component is consulted: its members are unreachable")
			}
		}
		if last {
			c.ob(rule, tname+":final-return", fd.Pos(), ok, why)
			continue
		}
		if !continues {
			bad("the next component is never reached after this one")
		}
		c.ob(rule, fmt.Sprintf("%s:fallthrough(%s)", tname, cs.comp), fd.Pos(), ok, why)
	}
	// the not-found tests look for the text the pinned jsonpointer produces
	for k, pos := range nfConsts {
		match := false
		for _, f := range formats {
			if strings.HasPrefix(f, k) || strings.Contains(f, k) && k != "" {
				match = true
			}
		}
		if !match && len(longest) > 1 {
			c.ob(rule, fmt.Sprintf("%s:not-found-text", tname), pos, false, fmt.Sprintf("not-found test looks for %q, but the pinned jsonpointer reports %q", k, formats))
		}
	}
	return lf
}
