package main

import (
	"go/ast"
	"go/constant"
	"go/token"
	"go/types"
	"strings"

	"golang.org/x/tools/go/types/typeutil"
)

// APath is an access path: a root object and the field / element steps
// applied to it. Promoted fields are expanded through types.Selection so
// two spellings of the same position compare equal.
type APath struct {
	Root  types.Object
	Steps []string
}

func (p APath) String() string {
	r := "?"
	if p.Root != nil {
		r = p.Root.Name()
	}
	if len(p.Steps) == 0 {
		return r
	}
	return r + "." + strings.Join(p.Steps, ".")
}

func (p APath) Sub() string { return strings.Join(p.Steps, ".") }

func unparen(e ast.Expr) ast.Expr {
	for {
		p, ok := e.(*ast.ParenExpr)
		if !ok {
			return e
		}
		e = p.X
	}
}

// apath abstracts an expression to an access path. Pointer dereference and
// address-of are transparent; an index is the step "[]".
func (c *Ctx) apath(e ast.Expr) (APath, bool) {
	e = unparen(e)
	switch x := e.(type) {
	case *ast.Ident:
		o := c.Info.Uses[x]
		if o == nil {
			o = c.Info.Defs[x]
		}
		if o == nil {
			return APath{}, false
		}
		if _, isVar := o.(*types.Var); !isVar {
			return APath{}, false
		}
		return APath{Root: o}, true
	case *ast.SelectorExpr:
		sel := c.Info.Selections[x]
		if sel == nil || sel.Kind() != types.FieldVal {
			return APath{}, false
		}
		base, ok := c.apath(x.X)
		if !ok {
			return APath{}, false
		}
		steps := append([]string{}, base.Steps...)
		steps = append(steps, selectionSteps(sel)...)
		return APath{Root: base.Root, Steps: steps}, true
	case *ast.IndexExpr:
		base, ok := c.apath(x.X)
		if !ok {
			return APath{}, false
		}
		return APath{Root: base.Root, Steps: append(append([]string{}, base.Steps...), "[]")}, true
	case *ast.StarExpr:
		return c.apath(x.X)
	case *ast.UnaryExpr:
		if x.Op == token.AND {
			return c.apath(x.X)
		}
	case *ast.SliceExpr:
		return c.apath(x.X)
	}
	return APath{}, false
}

// selectionSteps lists the field names traversed by a (possibly promoted) field selection.
func selectionSteps(sel *types.Selection) []string {
	var steps []string
	t := sel.Recv()
	for _, idx := range sel.Index() {
		t = types.Unalias(t)
		if p, ok := t.Underlying().(*types.Pointer); ok {
			t = p.Elem()
		}
		st, ok := t.Underlying().(*types.Struct)
		if !ok {
			break
		}
		f := st.Field(idx)
		steps = append(steps, f.Name())
		t = f.Type()
	}
	return steps
}

// methodRecvSteps lists the embedded fields traversed to reach a promoted method's receiver.
func methodRecvSteps(sel *types.Selection) []string {
	var steps []string
	t := sel.Recv()
	idx := sel.Index()
	for _, i := range idx[:len(idx)-1] {
		t = types.Unalias(t)
		if p, ok := t.Underlying().(*types.Pointer); ok {
			t = p.Elem()
		}
		st, ok := t.Underlying().(*types.Struct)
		if !ok {
			break
		}
		f := st.Field(i)
		steps = append(steps, f.Name())
		t = f.Type()
	}
	return steps
}

func (c *Ctx) callee(call *ast.CallExpr) types.Object {
	return typeutil.Callee(c.Info, call)
}

// isPkgFunc reports whether the call's static callee is pkgPath.name.
func (c *Ctx) isPkgFunc(call *ast.CallExpr, pkgPath, name string) bool {
	o := c.callee(call)
	f, ok := o.(*types.Func)
	if !ok || f.Pkg() == nil {
		return false
	}
	if f.Pkg().Path() != pkgPath || f.Name() != name {
		return false
	}
	sig := f.Type().(*types.Signature)
	return sig.Recv() == nil
}

// calleeMethod returns (receiver type name, method name, pkg path) for a static method call.
func (c *Ctx) calleeMethod(call *ast.CallExpr) (recv, name, pkg string, ok bool) {
	o := c.callee(call)
	f, isF := o.(*types.Func)
	if !isF {
		return
	}
	sig := f.Type().(*types.Signature)
	if sig.Recv() == nil {
		return
	}
	t := sig.Recv().Type()
	if p, isP := t.(*types.Pointer); isP {
		t = p.Elem()
	}
	if n, isN := types.Unalias(t).(*types.Named); isN {
		recv = n.Obj().Name()
		if n.Obj().Pkg() != nil {
			pkg = n.Obj().Pkg().Path()
		}
	}
	return recv, f.Name(), pkg, true
}

func (c *Ctx) isSpecFunc(call *ast.CallExpr, name string) bool {
	return c.isPkgFunc(call, specPkgPath, name)
}

func (c *Ctx) isSpecMethod(call *ast.CallExpr, recv, name string) bool {
	r, n, p, ok := c.calleeMethod(call)
	return ok && p == specPkgPath && r == recv && n == name
}

func (c *Ctx) isBuiltin(call *ast.CallExpr, name string) bool {
	id, ok := unparen(call.Fun).(*ast.Ident)
	if !ok {
		return false
	}
	b, ok := c.Info.Uses[id].(*types.Builtin)
	return ok && b.Name() == name
}

func (c *Ctx) isConversion(call *ast.CallExpr) bool {
	tv, ok := c.Info.Types[call.Fun]
	return ok && tv.IsType()
}

func (c *Ctx) constString(e ast.Expr) (string, bool) {
	tv, ok := c.Info.Types[e]
	if !ok || tv.Value == nil || tv.Value.Kind() != constant.String {
		return "", false
	}
	return constant.StringVal(tv.Value), true
}

func (c *Ctx) typeOf(e ast.Expr) types.Type {
	if tv, ok := c.Info.Types[e]; ok {
		return tv.Type
	}
	if id, ok := e.(*ast.Ident); ok {
		if o := c.Info.ObjectOf(id); o != nil {
			return o.Type()
		}
	}
	return nil
}

func (c *Ctx) objOf(id *ast.Ident) types.Object { return c.Info.ObjectOf(id) }

// recvObj returns the receiver variable of a method declaration.
func (c *Ctx) recvObj(fd *ast.FuncDecl) types.Object {
	if fd.Recv == nil || len(fd.Recv.List) != 1 || len(fd.Recv.List[0].Names) != 1 {
		return nil
	}
	return c.Info.Defs[fd.Recv.List[0].Names[0]]
}

func (c *Ctx) paramObj(fd *ast.FuncDecl, i int) types.Object {
	n := 0
	for _, f := range fd.Type.Params.List {
		for _, nm := range f.Names {
			if n == i {
				return c.Info.Defs[nm]
			}
			n++
		}
	}
	return nil
}

func derefType(t types.Type) types.Type {
	t = types.Unalias(t)
	if p, ok := t.Underlying().(*types.Pointer); ok {
		return types.Unalias(p.Elem())
	}
	return t
}

func isNilIdent(c *Ctx, e ast.Expr) bool {
	id, ok := unparen(e).(*ast.Ident)
	if !ok {
		return false
	}
	_, isNil := c.Info.Uses[id].(*types.Nil)
	return isNil
}

func exprString(e ast.Expr) string { return types.ExprString(e) }

// rangeSourceOf: v is the value variable of a range statement; returns the ranged expression.
func (c *Ctx) rangeSourceOf(fd *ast.FuncDecl, v types.Object) ast.Expr {
	var out ast.Expr
	if v == nil {
		return nil
	}
	ast.Inspect(fd.Body, func(n ast.Node) bool {
		rs, ok := n.(*ast.RangeStmt)
		if !ok || rs.Value == nil {
			return true
		}
		if vid, ok := rs.Value.(*ast.Ident); ok && c.objOf(vid) == v {
			out = rs.X
		}
		return true
	})
	return out
}

// rangeElemsOf: v is the value variable of a range statement over a composite literal (given in place or through a
// local variable defined once by such a literal); returns the element expressions of that literal.
func (c *Ctx) rangeElemsOf(fd *ast.FuncDecl, v types.Object) []ast.Expr {
	if v == nil {
		return nil
	}
	var out []ast.Expr
	ast.Inspect(fd.Body, func(n ast.Node) bool {
		rs, ok := n.(*ast.RangeStmt)
		if !ok || rs.Value == nil {
			return true
		}
		vid, ok := rs.Value.(*ast.Ident)
		if !ok || c.objOf(vid) != v {
			return true
		}
		x := unparen(rs.X)
		if id, ok := x.(*ast.Ident); ok {
			ds := c.localDefs(fd)[c.objOf(id)]
			if len(ds) == 1 && ds[0] != nil {
				x = unparen(ds[0])
			}
		}
		if lit, ok := x.(*ast.CompositeLit); ok {
			for _, el := range lit.Elts {
				if kv, ok := el.(*ast.KeyValueExpr); ok {
					out = append(out, kv.Value)
				} else {
					out = append(out, el)
				}
			}
		}
		return true
	})
	return out
}
