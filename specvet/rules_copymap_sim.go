package main

import (
	"fmt"
	"go/ast"
	"go/token"
	"go/types"
	"sort"
)

// fieldOfSV selects one field below a normal-form value.
func fieldOfSV(v sval, name string) sval {
	switch b := v.(type) {
	case svPath:
		return extend(b, name)
	case svAddr:
		return extend(b.p, name)
	case svStruct:
		if f, ok := b.fields[name]; ok {
			return f
		}
		if base, ok := b.fields[""]; ok {
			return fieldOfSV(base, name)
		}
		return svZero{}
	case svZero:
		return svZero{}
	}
	return svOpaque{}
}

// flattenSV lists the leaves of a struct-typed normal-form value, through embedded structs.
func flattenSV(v sval, t types.Type, into map[string]sval) {
	st, ok := derefType(t).Underlying().(*types.Struct)
	if !ok {
		return
	}
	for i := 0; i < st.NumFields(); i++ {
		f := st.Field(i)
		fv := fieldOfSV(v, f.Name())
		if f.Embedded() {
			if _, isSt := derefType(f.Type()).Underlying().(*types.Struct); isSt {
				flattenSV(fv, f.Type(), into)
				continue
			}
		}
		if _, dup := into[f.Name()]; !dup {
			into[f.Name()] = fv
		}
	}
}

// typeAtSteps walks field steps from a type; embedded reports whether the last step is an embedded struct
// (or there is no step at all): then a store there replaces every leaf below.
func typeAtSteps(t types.Type, steps []string) (types.Type, bool) {
	embedded := true
	for _, s := range steps {
		st, ok := derefType(t).Underlying().(*types.Struct)
		if !ok {
			return nil, false
		}
		found := false
		for i := 0; i < st.NumFields(); i++ {
			if st.Field(i).Name() == s {
				t = st.Field(i).Type()
				_, isSt := derefType(t).Underlying().(*types.Struct)
				embedded = st.Field(i).Embedded() && isSt
				found = true
				break
			}
		}
		if !found {
			return nil, false
		}
	}
	return t, embedded
}

// setterMapSim abstracts a SetValidations-like method on its effect normal form: receiver leaf <- leaf of the
// first parameter. ret is what the method returns on its paths (nil when it returns nothing).
func (c *Ctx) setterMapSim(fd *ast.FuncDecl) (cm *copyMap, ret []sval, ok bool) {
	recv, val := c.recvObj(fd), c.paramObj(fd, 0)
	if recv == nil || val == nil {
		return nil, nil, false
	}
	paths, unsup := c.simulate(fd, nil)
	if unsup != "" || len(paths) == 0 {
		return nil, nil, false
	}
	cm = &copyMap{m: map[string]string{}}
	srcName := func(v sval) string {
		if p, isPath := v.(svPath); isPath && p.root == val && len(p.steps) > 0 {
			return p.steps[len(p.steps)-1]
		}
		return "<" + svString(v) + ">"
	}
	// valZeroTest: the condition is the plain zero test of a field of the argument
	valZeroTest := func(cd scond) (field string, zero bool, ok bool) {
		if cd.loop {
			return "", false, false
		}
		if b, isB := cd.v.(svBin); isB && b.op == token.NEQ && isZeroSV(b.y) {
			if q, isP := b.x.(svPath); isP && q.root == val && len(q.steps) > 0 {
				return q.steps[len(q.steps)-1], cd.neg, true
			}
		}
		if q, isP := cd.v.(svPath); isP && q.root == val && len(q.steps) > 0 {
			return q.steps[len(q.steps)-1], cd.neg, true
		}
		return "", false, false
	}
	for pi, p := range paths {
		// fields of the argument this path knows to be zero: storing the zero value there is copying them
		zeroKnown := map[string]bool{}
		for _, cd := range p.conds {
			if f, zero, ok := valZeroTest(cd); ok {
				if zero {
					zeroKnown[f] = true
				}
				continue
			}
			if !cd.loop {
				cm.other = append(cm.other, "store under the condition "+svString(cd.v))
			}
		}
		srcName := func(v sval, dstField string) string {
			if isZeroSV(v) && zeroKnown[dstField] {
				return dstField
			}
			return srcName(v)
		}
		m := map[string]string{}
		for _, e := range p.effs {
			switch e.kind {
			case "write":
				if e.dst.root != recv {
					if v, isVar := e.dst.root.(*types.Var); isVar && (v.Parent() == c.Types.Scope() || e.dst.root == val) {
						cm.other = append(cm.other, "store to "+svString(e.dst))
					}
					continue
				}
				t, emb := typeAtSteps(recv.Type(), e.dst.steps)
				if t == nil {
					cm.other = append(cm.other, "store to "+svString(e.dst))
					continue
				}
				if emb {
					leaves := map[string]sval{}
					flattenSV(e.val, t, leaves)
					for l, v := range leaves {
						m[l] = srcName(v, l)
					}
					continue
				}
				m[e.dst.steps[len(e.dst.steps)-1]] = srcName(e.val, e.dst.steps[len(e.dst.steps)-1])
			case "call":
				cm.other = append(cm.other, "call "+svString(*e.call))
			}
		}
		if pi == 0 {
			cm.m = m
			ret = p.rets
			continue
		}
		for k, v := range m {
			if cm.m[k] != v {
				cm.m[k] = "<differs between paths>"
			}
		}
		for k := range cm.m {
			if _, has := m[k]; !has {
				cm.m[k] = "<differs between paths>"
			}
		}
	}
	sort.Strings(cm.other)
	cm.other = uniqStrings(cm.other)
	return cm, ret, true
}

// getterMapSim abstracts a Validations-like method: leaf of the result <- receiver leaf.
func (c *Ctx) getterMapSim(fd *ast.FuncDecl) (*copyMap, bool) {
	recv := c.recvObj(fd)
	if recv == nil || fd.Type.Results == nil || len(fd.Type.Results.List) != 1 {
		return nil, false
	}
	rt := c.typeOf(fd.Type.Results.List[0].Type)
	if rt == nil || !isStruct(derefType(rt)) {
		return nil, false
	}
	paths, unsup := c.simulate(fd, nil)
	if unsup != "" || len(paths) == 0 {
		return nil, false
	}
	cm := &copyMap{m: map[string]string{}}
	for pi, p := range paths {
		for _, cd := range p.conds {
			if !cd.loop {
				cm.other = append(cm.other, "result depends on the condition "+svString(cd.v))
			}
		}
		for _, e := range p.effs {
			switch e.kind {
			case "write":
				if v, isVar := e.dst.root.(*types.Var); isVar && (e.dst.root == recv || v.Parent() == c.Types.Scope()) {
					cm.other = append(cm.other, "store to "+svString(e.dst))
				}
			case "call":
				cm.other = append(cm.other, "call "+svString(*e.call))
			}
		}
		if len(p.rets) != 1 {
			return nil, false
		}
		leaves := map[string]sval{}
		flattenSV(p.rets[0], rt, leaves)
		m := map[string]string{}
		for l, v := range leaves {
			if q, isPath := v.(svPath); isPath && q.root == recv && len(q.steps) > 0 {
				m[l] = q.steps[len(q.steps)-1]
			} else if !isZeroSV(v) {
				m[l] = "<" + svString(v) + ">"
			}
		}
		if pi == 0 {
			cm.m = m
			continue
		}
		for k, v := range m {
			if cm.m[k] != v {
				cm.m[k] = "<differs between paths>"
			}
		}
	}
	sort.Strings(cm.other)
	cm.other = uniqStrings(cm.other)
	return cm, true
}

// withValidationsSim: the fluent setter stores every leaf of its parameter into the same-named leaf of the
// receiver, nothing else, and returns the receiver.
func (c *Ctx) withValidationsSim(fd *ast.FuncDecl) (ok bool, why string, decided bool) {
	recv, val := c.recvObj(fd), c.paramObj(fd, 0)
	cm, ret, simOK := c.setterMapSim(fd)
	if !simOK || recv == nil || val == nil {
		return false, "", false
	}
	for leaf := range leafFields(val.Type()) {
		src, has := cm.m[leaf]
		switch {
		case !has:
			return false, "argument wrapper drops " + leaf, true
		case src != leaf:
			return false, fmt.Sprintf("argument wrapper maps %s from %s", leaf, src), true
		}
	}
	if len(cm.other) > 0 {
		return false, fmt.Sprintf("effects besides the copy: %v", cm.other), true
	}
	if len(ret) != 1 || !svEqual(ret[0], svPath{root: recv}) {
		return false, "the fluent setter does not return its receiver", true
	}
	return true, "", true
}
