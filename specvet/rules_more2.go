package main

import (
	"fmt"
	"go/ast"
	"go/constant"
	"go/token"
	"go/types"
	"sort"
	"strings"
)

// Second batch of rules motivated by independently seeded changes (DESIGN.md section 8).

func init() {
	registerRule("canon-normalizer", 1, "every value normalizeBase returns has had its fragment cleared and its path cleaned", ruleCanonNormalizer)
	registerRule("encode-readonly", 20, "encoders and lookups never write through their receiver", ruleEncodeReadonly)
	registerRule("loader-shares-state", 2, "a loader created while expanding shares the current loader's cache and resolver context", ruleLoaderSharesState)
	registerRule("codec-must-pass", 8, "gob codecs reach a successful return only through the gob encoder/decoder (no shortcut on special values)", ruleCodecMustPass)
	registerRule("marshal-receiver", 20, "MarshalJSON is declared on the value receiver, so addressable and non-addressable values encode alike", ruleMarshalReceiver)
}

func ruleCanonNormalizer(c *Ctx) {
	const rule = "canon-normalizer"
	fd := c.decl(c.funcObj("normalizeBase"))
	if fd == nil {
		c.undecided(rule, "normalizeBase", token.NoPos, "normalizeBase not found")
		return
	}
	c.saw(c.funcName(fd))
	// a location that is made a local file has no query: on the effect normal form, every path that stores the
	// file scheme also stores the empty query (C11: "for files, the query is irrelevant")
	if paths, unsup := c.simulate(fd, nil); unsup == "" && len(paths) > 0 {
		ok, n := true, 0
		for _, p := range paths {
			setsFile, clearsQuery := false, false
			for _, e := range p.effs {
				if e.kind != "write" || len(e.dst.steps) == 0 {
					continue
				}
				k, isConst := e.val.(svConst)
				switch e.dst.steps[len(e.dst.steps)-1] {
				case "Scheme":
					if isConst && k.v.Kind() == constant.String && constant.StringVal(k.v) == "file" {
						setsFile = true
					}
				case "RawQuery":
					if isConst && k.v.Kind() == constant.String && constant.StringVal(k.v) == "" {
						clearsQuery = true
					}
				}
			}
			if setsFile {
				n++
				if !clearsQuery {
					ok = false
				}
			}
		}
		if n > 0 {
			c.ob(rule, "normalizeBase:query-cleared-for-files", fd.Pos(), ok,
				"on some path a location is turned into a local file (scheme set to file) without its query being cleared: file.json?x=1 and file.json are then two documents, and sibling references inherit the query")
		}
	}
	const fragCleared, cleaned factBits = 1, 2
	// summaries of package helpers that take the URL: which of the two facts they establish on every path
	summary := func(g *types.Func) factBits {
		gfd := c.decl(g)
		if gfd == nil || gfd.Body == nil {
			return 0
		}
		res := ^factBits(0)
		seen := false
		var inner func(n ast.Node, in factBits) factBits
		inner = func(n ast.Node, in factBits) factBits {
			as, ok := n.(*ast.AssignStmt)
			if !ok || len(as.Lhs) != 1 || len(as.Rhs) != 1 {
				return in
			}
			p, ok := c.apath(as.Lhs[0])
			if !ok || len(p.Steps) != 1 {
				return in
			}
			switch p.Steps[0] {
			case "Fragment":
				if s, ok := c.constString(as.Rhs[0]); ok && s == "" {
					in |= fragCleared
				}
			case "Path":
				if call, ok := unparen(as.Rhs[0]).(*ast.CallExpr); ok && c.isPkgFunc(call, "path", "Clean") {
					in |= cleaned
				}
			}
			return in
		}
		flowForward(c.cfgOf(gfd), 0, inner, func(nd ast.Node, in factBits) {
			if _, ok := nd.(*ast.ReturnStmt); ok {
				res &= in
				seen = true
			}
		})
		if !seen {
			// no explicit return: facts at the end of a straight-line body
			v := factBits(0)
			for _, st := range gfd.Body.List {
				v = inner(st, v)
			}
			return v
		}
		return res
	}
	transfer := func(n ast.Node, in factBits) factBits {
		if es, ok := n.(*ast.ExprStmt); ok {
			if call, ok := es.X.(*ast.CallExpr); ok {
				if g, ok := c.callee(call).(*types.Func); ok && g.Pkg() == c.Types {
					for _, a := range call.Args {
						if t := c.typeOf(a); t != nil && strings.HasSuffix(types.TypeString(t, nil), "net/url.URL") {
							in |= summary(g)
						}
					}
				}
			}
			return in
		}
		as, ok := n.(*ast.AssignStmt)
		if !ok || len(as.Lhs) != 1 || len(as.Rhs) != 1 {
			return in
		}
		p, ok := c.apath(as.Lhs[0])
		if !ok || len(p.Steps) != 1 {
			return in
		}
		switch p.Steps[0] {
		case "Fragment":
			if s, ok := c.constString(as.Rhs[0]); ok && s == "" {
				in |= fragCleared
			}
		case "Path":
			if call, ok := unparen(as.Rhs[0]).(*ast.CallExpr); ok {
				if c.isPkgFunc(call, "path", "Clean") {
					in |= cleaned
				} else if g, ok := c.callee(call).(*types.Func); ok && g.Pkg() == c.Types {
					// platform helper (absPath): must itself return a cleaned/absolute path; filepath.Abs cleans
					in |= cleaned
				} else {
					in &^= cleaned
				}
			} else if s, ok := c.constString(as.Rhs[0]); ok && s == "" {
				// "." replaced by "" right after Clean: still clean
			} else {
				in &^= cleaned
			}
		}
		return in
	}
	n := 0
	flowForward(c.cfgOf(fd), 0, transfer, func(nd ast.Node, in factBits) {
		rs, ok := nd.(*ast.ReturnStmt)
		if !ok || len(rs.Results) != 1 {
			return
		}
		n++
		why := ""
		switch {
		case in&fragCleared == 0:
			why = "a base location can be returned with its fragment: the same document gets several cache keys and loader URLs"
		case in&cleaned == 0:
			why = "a base location can be returned without path.Clean having been applied: ./, x/../ and // spellings of one document are no longer identified"
		}
		c.ob(rule, fmt.Sprintf("normalizeBase:return#%d", n), rs.Pos(), why == "", why)
	})
	// the normaliser of $ref texts cleans the path before it answers, on every path: the early answer for a
	// location that is already absolute included (file:///a/./b.json and file:///a/b.json are one document)
	ufd := c.decl(c.funcObj("normalizeURI"))
	if ufd == nil || ufd.Body == nil {
		c.undecided(rule, "normalizeURI", token.NoPos, "normalizeURI not found")
		return
	}
	c.saw(c.funcName(ufd))
	// decided on the effect normal form (helpers that clean a URL in place are inlined): on every path, before the
	// String() call whose result is returned, path.Clean has been called and its result - or the empty text that
	// replaces "." - has been stored into a URL's Path
	// helpers of the package are inlined, except those that loop (predicates scanning the text stay opaque)
	paths, unsup := c.simulate(ufd, func(f *types.Func) bool {
		gfd := c.decl(f)
		if f.Pkg() != c.Types || gfd == nil || gfd.Body == nil {
			return false
		}
		loops := false
		ast.Inspect(gfd.Body, func(n ast.Node) bool {
			switch n.(type) {
			case *ast.ForStmt, *ast.RangeStmt:
				loops = true
			}
			return !loops
		})
		return !loops
	})
	if unsup != "" || len(paths) == 0 {
		c.undecided(rule, "normalizeURI", ufd.Pos(), "normalizeURI is not in the supported subset: "+unsup)
		return
	}
	bad, answers := "", 0
	for _, p := range paths {
		if len(p.rets) != 1 {
			continue
		}
		// the obligation is about answers printed from a URL (u.String()); an answer put together from the texts
		// given (a fast path for fragment-only references) has no path of its own and is not decided here
		rc, ok := p.rets[0].(svCall)
		if f, isF := rc.callee.(*types.Func); !ok || !isF || f.Name() != "String" || f.Pkg() == nil || f.Pkg().Path() != "net/url" {
			continue
		}
		answers++
		limit := len(p.effs)
		for i, e := range p.effs {
			if e.kind == "call" && e.call != nil && e.call.id == rc.id {
				limit = i
			}
		}
		stored := false
		for _, e := range p.effs[:limit] {
			switch e.kind {
			case "write":
				if len(e.dst.steps) == 0 || e.dst.steps[len(e.dst.steps)-1] != "Path" {
					continue
				}
				switch v := e.val.(type) {
				case svCall:
					if f, ok := v.callee.(*types.Func); ok && f.Pkg() != nil && f.Pkg().Path() == "path" && f.Name() == "Clean" {
						stored = true
					}
				case svConst:
					if v.v.Kind() == constant.String && constant.StringVal(v.v) == "" {
						stored = true
					}
				}
			}
		}
		if !stored && bad == "" {
			bad = "a $ref can be answered (" + svString(p.rets[0]) + ") without path.Clean having been applied to its path first: ./, x/../ and // spellings of one document are no longer identified"
		}
	}
	if answers == 0 {
		c.undecided(rule, "normalizeURI", ufd.Pos(), "no answer of normalizeURI is printed from a URL: the rule has nothing to decide")
		return
	}
	c.ob(rule, "normalizeURI:cleaned-before-answer", ufd.Pos(), bad == "", bad)
}

func ruleEncodeReadonly(c *Ctx) {
	const rule = "encode-readonly"
	for _, fd := range c.allFuncDecls() {
		if fd.Recv == nil || fd.Body == nil {
			continue
		}
		switch fd.Name.Name {
		case "MarshalJSON", "GobEncode", "JSONLookup":
		default:
			continue
		}
		recv := c.recvObj(fd)
		if recv == nil {
			continue
		}
		fn := c.funcName(fd)
		c.saw(fn)
		var writes []string
		// locals that share storage with the receiver: assigned a map, slice or pointer member of it (pths := p.Paths)
		alias := map[types.Object]bool{}
		for round := 0; round < 2; round++ {
			ast.Inspect(fd.Body, func(n ast.Node) bool {
				as, ok := n.(*ast.AssignStmt)
				if !ok || len(as.Lhs) != len(as.Rhs) {
					return true
				}
				for i, l := range as.Lhs {
					id, ok := unparen(l).(*ast.Ident)
					if !ok {
						continue
					}
					p, ok := c.apath(as.Rhs[i])
					if !ok || !(p.Root == recv && len(p.Steps) > 0 || alias[p.Root]) {
						continue
					}
					if t := c.typeOf(as.Rhs[i]); t != nil {
						switch t.Underlying().(type) {
						case *types.Map, *types.Slice, *types.Pointer:
							if o := c.objOf(id); o != nil && o != recv {
								alias[o] = true
							}
						}
					}
				}
				return true
			})
		}
		ast.Inspect(fd.Body, func(n ast.Node) bool {
			switch x := n.(type) {
			case *ast.AssignStmt:
				for _, l := range x.Lhs {
					l = unparen(l)
					p, ok := c.apath(l)
					if !ok || len(p.Steps) == 0 {
						continue
					}
					if alias[p.Root] {
						// below an alias every store reaches the shared storage (the alias is itself a reference)
						writes = append(writes, exprString(l))
						continue
					}
					if p.Root != recv {
						continue
					}
					// a store that goes through a reference (map element, pointer, slice element) reaches shared storage
					if c.writesThroughReference(recv, l) {
						writes = append(writes, exprString(l))
					}
				}
			case *ast.CallExpr:
				if c.isBuiltin(x, "delete") && len(x.Args) > 0 {
					if p, ok := c.apath(x.Args[0]); ok && (p.Root == recv || alias[p.Root]) {
						writes = append(writes, "delete("+exprString(x.Args[0])+", ...)")
					}
				}
			}
			return true
		})
		sort.Strings(writes)
		c.ob(rule, fn, fd.Pos(), len(writes) == 0,
			fmt.Sprintf("%v writes into storage shared with the caller's document while encoding / looking up: concurrent readers race and the document changes under its owner", writes))
	}
}

// writesThroughReference: the assignment target reaches memory outside the by-value receiver copy.
func (c *Ctx) writesThroughReference(recv types.Object, l ast.Expr) bool {
	if _, isPtr := types.Unalias(recv.Type()).(*types.Pointer); isPtr {
		return true
	}
	through := false
	var walk func(e ast.Expr)
	walk = func(e ast.Expr) {
		e = unparen(e)
		switch x := e.(type) {
		case *ast.IndexExpr:
			switch c.typeOf(x.X).Underlying().(type) {
			case *types.Map, *types.Slice, *types.Pointer:
				through = true
			}
			walk(x.X)
		case *ast.StarExpr:
			through = true
			walk(x.X)
		case *ast.SelectorExpr:
			if t := c.typeOf(x.X); t != nil {
				if _, isPtr := types.Unalias(t).Underlying().(*types.Pointer); isPtr {
					through = true
				}
			}
			walk(x.X)
		}
	}
	walk(l)
	return through
}

func ruleLoaderSharesState(c *Ctx) {
	const rule = "loader-shares-state"
	fam := c.family()
	if !fam.ok() {
		c.undecided(rule, "family", token.NoPos, "loader type not found by role")
		return
	}
	factory := c.loaderFactory(fam)
	if factory == nil {
		c.undecided(rule, "factory", token.NoPos, "loader factory not found by role")
		return
	}
	n := 0
	for i := 0; i < fam.loader.NumMethods(); i++ {
		m := fam.loader.Method(i)
		fd := c.decl(m)
		if fd == nil || fd.Body == nil {
			continue
		}
		recv := c.recvObj(fd)
		// the loader for another document built in place, as a literal of the loader type
		ast.Inspect(fd.Body, func(nd ast.Node) bool {
			lit, ok := nd.(*ast.CompositeLit)
			if !ok || !isNamed(c.typeOf(lit), c.Types, fam.loader.Obj().Name()) {
				return true
			}
			n++
			c.saw(c.funcName(fd))
			st := fam.loader.Underlying().(*types.Struct)
			fieldVal := func(typeName string) ast.Expr {
				for _, el := range lit.Elts {
					kv, isKV := el.(*ast.KeyValueExpr)
					if !isKV {
						continue
					}
					kid, isId := kv.Key.(*ast.Ident)
					if !isId {
						continue
					}
					for j := 0; j < st.NumFields(); j++ {
						if st.Field(j).Name() == kid.Name && isNamed(st.Field(j).Type(), c.Types, typeName) {
							return kv.Value
						}
					}
				}
				return nil
			}
			fromRecv := func(e ast.Expr, typeName string) bool {
				if e == nil {
					return false
				}
				p, ok := c.apath(e)
				if !ok || p.Root != recv || len(p.Steps) != 1 {
					return false
				}
				for j := 0; j < st.NumFields(); j++ {
					if st.Field(j).Name() == p.Steps[0] && isNamed(st.Field(j).Type(), c.Types, typeName) {
						return true
					}
				}
				return false
			}
			c.ob(rule, c.funcName(fd)+":shares-cache", lit.Pos(), fromRecv(fieldVal("ResolutionCache"), "ResolutionCache"),
				"the loader created for another document does not receive the current loader's cache: documents are fetched again per sub-resolver and a supplied or pre-loaded cache is bypassed")
			c.ob(rule, c.funcName(fd)+":shares-context", lit.Pos(), fromRecv(fieldVal("resolverContext"), "resolverContext"),
				"the loader created for another document does not receive the current resolver context: cycles spanning documents are no longer seen and the root frame is lost")
			var rootVal ast.Expr
			for _, el := range lit.Elts {
				if kv, isKV := el.(*ast.KeyValueExpr); isKV {
					if kid, isId := kv.Key.(*ast.Ident); isId {
						for j := 0; j < st.NumFields(); j++ {
							if st.Field(j).Name() == kid.Name {
								if it, isI := st.Field(j).Type().Underlying().(*types.Interface); isI && it.Empty() {
									rootVal = kv.Value
								}
							}
						}
					}
				}
			}
			c.ob(rule, c.funcName(fd)+":root-from-cache", lit.Pos(), c.isCacheEntryOfRecv(fd, rootVal, recv),
				"the loader created for another document is not given that document (the cache entry just loaded) as its root: fragment-only $refs found in it have no document to be read against")
			return true
		})
		ast.Inspect(fd.Body, func(nd ast.Node) bool {
			call, ok := nd.(*ast.CallExpr)
			if !ok {
				return true
			}
			if g, ok := c.callee(call).(*types.Func); !ok || g != factory || len(call.Args) != 4 {
				return true
			}
			n++
			c.saw(c.funcName(fd))
			isRecvField := func(e ast.Expr, field string) bool {
				p, ok := c.apath(e)
				return ok && p.Root == recv && len(p.Steps) == 1 && p.Steps[0] == field
			}
			// field names by type: the cache field and the context field of the loader
			cacheField, ctxField := "", ""
			st := fam.loader.Underlying().(*types.Struct)
			for j := 0; j < st.NumFields(); j++ {
				if isNamed(st.Field(j).Type(), c.Types, "ResolutionCache") {
					cacheField = st.Field(j).Name()
				}
				if isNamed(st.Field(j).Type(), c.Types, "resolverContext") {
					ctxField = st.Field(j).Name()
				}
			}
			c.ob(rule, c.funcName(fd)+":shares-cache", call.Pos(), isRecvField(call.Args[2], cacheField),
				"the loader created for another document does not receive the current loader's cache: documents are fetched again per sub-resolver and a supplied or pre-loaded cache is bypassed")
			c.ob(rule, c.funcName(fd)+":shares-context", call.Pos(), isRecvField(call.Args[3], ctxField),
				"the loader created for another document does not receive the current resolver context: cycles spanning documents are no longer seen and the root frame is lost")
			c.ob(rule, c.funcName(fd)+":root-from-cache", call.Pos(), c.isCacheEntryOfRecv(fd, call.Args[0], recv),
				"the loader created for another document is not given that document (the cache entry just loaded) as its root: fragment-only $refs found in it have no document to be read against")
			return true
		})
	}
	if n == 0 {
		c.ob(rule, "transitive-loader-site", token.NoPos, false, "no loader method creates a loader for another document")
	}
}

func ruleCodecMustPass(c *Ctx) {
	const rule = "codec-must-pass"
	for _, fd := range c.allFuncDecls() {
		if fd.Recv == nil || fd.Body == nil {
			continue
		}
		name := fd.Name.Name
		if name != "GobEncode" && name != "GobDecode" {
			continue
		}
		fn := c.funcName(fd)
		c.saw(fn)
		const passed factBits = 1
		isCodec := func(call *ast.CallExpr) bool {
			r, mname, pkg, isM := c.calleeMethod(call)
			if isM && pkg == "encoding/gob" && (r == "Encoder" && mname == "Encode" || r == "Decoder" && mname == "Decode") {
				return true
			}
			// a package helper that runs the gob codec on one of its parameters, or on a value of its own on every
			// path (ungobBytes(b) ([]byte, error))
			if g, ok := c.callee(call).(*types.Func); ok && g.Pkg() == c.Types {
				return c.gobHelperParam(g, name) >= 0 || c.helperAlwaysRunsGob(g)
			}
			return false
		}
		n := 0
		flowForward(c.cfgOf(fd), 0, func(nd ast.Node, in factBits) factBits {
			if containsCall(nd, isCodec) {
				in |= passed
			}
			return in
		}, func(nd ast.Node, in factBits) {
			rs, ok := nd.(*ast.ReturnStmt)
			if !ok || len(rs.Results) == 0 {
				return
			}
			// the return statement itself may contain the codec call
			if containsCall(rs, isCodec) {
				in |= passed
			}
			last := unparen(rs.Results[len(rs.Results)-1])
			if id, ok := last.(*ast.Ident); ok && !isNilIdent(c, last) {
				// error variable under its own non-nil test: an error return
				for _, cl := range c.literalsAt(fd, rs) {
					if k := c.errCheckKind(cl.e, c.objOf(id)); k == "nonnil" && !cl.neg {
						return
					}
				}
			}
			n++
			c.ob(rule, fmt.Sprintf("%s:return#%d", fn, n), rs.Pos(), in&passed != 0,
				"a successful return is reachable without going through the gob encoder/decoder: some value is given a shortcut encoding that the other side of the codec cannot tell apart from another value")
		})
	}
}

func ruleMarshalReceiver(c *Ctx) {
	const rule = "marshal-receiver"
	for _, fd := range c.allFuncDecls() {
		if fd.Recv == nil || fd.Body == nil {
			continue
		}
		if fd.Name.Name != "MarshalJSON" && fd.Name.Name != "JSONLookup" && fd.Name.Name != "GobEncode" {
			continue
		}
		recv := c.recvObj(fd)
		var rt types.Type
		if recv != nil {
			rt = recv.Type()
		} else if len(fd.Recv.List) == 1 {
			rt = c.typeOf(fd.Recv.List[0].Type)
		}
		if rt == nil {
			continue
		}
		_, isPtr := types.Unalias(rt).(*types.Pointer)
		c.ob(rule, c.funcName(fd), fd.Pos(), !isPtr,
			"declared on the pointer receiver: a value obtained by copy (map element, slice element handed out by a pointer lookup, field of a struct passed by value) is not addressable, so encoding/json falls back to the promoted or reflective encoding and the custom form is lost")
	}
}

var _ = strings.HasPrefix

// isCacheEntryOfRecv: e is a local every definition of which is the first result of <recv>.<cache field>.Get(..).
func (c *Ctx) isCacheEntryOfRecv(fd *ast.FuncDecl, e ast.Expr, recv types.Object) bool {
	if e == nil {
		return false
	}
	id, ok := unparen(e).(*ast.Ident)
	if !ok {
		return false
	}
	ds := c.localDefs(fd)[c.objOf(id)]
	if len(ds) == 0 {
		return false
	}
	for _, d := range ds {
		call, isCall := unparen(d).(*ast.CallExpr)
		if !isCall || !c.isCacheCall(call, "Get") {
			return false
		}
		se, isSel := unparen(call.Fun).(*ast.SelectorExpr)
		if !isSel {
			return false
		}
		if p, okp := c.apath(se.X); !okp || p.Root != recv {
			return false
		}
	}
	return true
}

// helperAlwaysRunsGob: every return statement of the package function g is reached only after a call of gob's
// Encoder.Encode / Decoder.Decode (go/cfg must-analysis; the return statement itself may hold the call).
func (c *Ctx) helperAlwaysRunsGob(g *types.Func) bool {
	fd := c.decl(g)
	if fd == nil || fd.Body == nil {
		return false
	}
	isCodec := func(call *ast.CallExpr) bool {
		r, mname, pkg, isM := c.calleeMethod(call)
		return isM && pkg == "encoding/gob" && (r == "Encoder" && mname == "Encode" || r == "Decoder" && mname == "Decode")
	}
	const passed factBits = 1
	n, all := 0, true
	flowForward(c.cfgOf(fd), 0, func(nd ast.Node, in factBits) factBits {
		if containsCall(nd, isCodec) {
			in |= passed
		}
		return in
	}, func(nd ast.Node, in factBits) {
		rs, ok := nd.(*ast.ReturnStmt)
		if !ok {
			return
		}
		if containsCall(rs, isCodec) {
			in |= passed
		}
		n++
		if in&passed == 0 {
			all = false
		}
	})
	return n > 0 && all
}
